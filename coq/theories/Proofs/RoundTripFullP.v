(* Proofs/RoundTripFullP.v — C01, the typed round trip on the part of the type universe that
   Proofs/UnmarshalP.v leaves out: maps, interface-typed positions, tuple funcs (and every
   composite of them with the first universe).

   Main results (Part 8, 9):
     roundtrip_full_partial_fuel / roundtrip_full_partial / roundtrip_full_partial_stable
       wf_ty t, ty_ok t, has_type t v, dom R t v, marshal default_opts t v = Ok ts, enough fuel
       |- exists v', unm pf f o R t (zero t) (ts ++ rest) = Ok (v', rest) /\ equiv t v v' /\
                     marshal default_opts t v' = Ok ts
     equiv_normal              [equiv] extends the functional equivalence [normal] of the first universe
     roundtrip_full_refuted    six witnesses at the edges that [ty_ok] / [dom] cut away

   "partial": what is left out is
     - map keys holding a non-nil interface value elsewhere than at the top of the key, or at the
       top with a stream of more than one token                             (see [keyin]);
     - interface-typed positions whose dynamic value is neither a value of a registered defined
       type known to the registry nor a value whose stream lies in the canonical schema-less
       domain of Proofs/AnyP.v                                              (see [dom]);
     - registered defined types over (pointers to) interfaces, funcs with more than 50 results
                                                                            (see [ty_ok]). *)
From Coq Require Import List NArith ZArith Bool Lia ZifyBool ZifyNat ZifyN Arith Permutation Sorted.
From SbModel Require Import Spec.LexOrder Spec.Conform.
From SbModel Require Import Proofs.CompareP Proofs.MarshalP Proofs.AnyP Proofs.UnmarshalP.
Import ListNotations.
Local Open Scope N_scope.

(* ====================================================================================== *)
(* Part 1.  Definitions: the domain                                                        *)
(* ====================================================================================== *)

(* a type whose chain of pointers (and type definitions) ends at the empty interface: such a
   target does not skip a leading TypeName token, it looks the name up in the registry *)
Definition anyb (t : ty) : bool := match ptr_base t with TAny => true | _ => false end.

(* values that marshal to the single token Nil (under the default options) *)
Fixpoint nilish (v : gval) : bool :=
  match v with
  | GPtr None => true
  | GPtr (Some x) => nilish x
  | GAny None => true
  | GAny (Some (_, x)) => nilish x
  | _ => false
  end.

(* the scalar-like values *)
Definition is_leafv (v : gval) : bool :=
  match v with
  | GBool _ | GInt _ | GUint _ | GF32 _ | GF64 _ | GStr _ | GBytes _ _ | GTime _ => true
  | _ => false
  end.

(* a value with no non-nil interface value inside *)
Fixpoint noany (v : gval) : bool :=
  match v with
  | GAny (Some _) => false
  | GList _ l => forallb noany l
  | GStruct l => forallb noany l
  | GMap _ es => forallb (fun e => noany (fst e) && noany (snd e)) es
  | GPtr (Some x) => noany x
  | GFunc (Some l) => forallb noany l
  | _ => true
  end.

(* What a map key may be: a value with no non-nil interface value inside, or (at the top of the
   key) an interface holding a value whose stream is ONE scalar token (an int, a string, a defined
   scalar, a pointer to a scalar, a byte array, ...): such a key is decoded to the scalar of the
   token's own type, which is hashable; a Bytes token is decoded to a []byte and converted by the
   unmarshaller's toComparable to a byte array of the same length.  (An interface key holding an
   array of ints is decoded into a []any, which is not hashable: witness 3 of
   roundtrip_full_refuted.  A []byte itself cannot be a key of a Go map; the model does not
   distinguish it from a byte array on the wire.) *)
Definition keyin (v : gval) : bool :=
  match v with
  | GAny (Some (t', x)) =>
      wf_ty t' && wf_dyn x &&
      match marshal default_opts t' x with
      | Ok [tok] => match any_of_token tok with
                    | None => false
                    | Some _ => true
                    end
      | _ => false
      end
  | _ => noany v
  end.

(* what the key stored in the decoded map then is (after toComparable) *)
Definition keyable (v : gval) : bool :=
  match v with
  | GAny (Some (st, sv)) =>
      match st with
      | TBool | TInt _ | TUint _ | TUintptr | TF32 | TF64 | TString | TByteArray _ => is_leafv sv
      | _ => false
      end
  | _ => noany v
  end.

(* the static types covered:
   - a tuple func has at most 50 results (the unmarshaller's own bound: ETooMany);
   - a REGISTERED defined type is not an interface type nor a pointer (chain) to an interface:
     for those the target interprets its own TypeName (witness 2 of roundtrip_full_refuted) *)
Fixpoint ty_ok (t : ty) : bool :=
  match t with
  | TArray _ e | TSlice e | TPtr e => ty_ok e
  | TMap k v => ty_ok k && ty_ok v
  | TStruct fs => forallb (fun f => ty_ok (snd f)) fs
  | TFunc outs => forallb ty_ok outs && Nat.leb (length outs) 50
  | TNamed _ reg _ u => ty_ok u && negb (reg && anyb u)
  | _ => true
  end.

(* ---- a parser from token lists to abstract values, used to state "the stream of this
        dynamic value lies in the canonical schema-less domain" as a boolean ---- *)
Fixpoint aparse (fuel : nat) (ts : list token) {struct fuel} : option (value * list token) :=
  match fuel with
  | O => None
  | S f =>
    match ts with
    | [] => None
    | T k VNone :: r =>
        if is_open_kind k then
          match aitems f r with
          | Some (items, kc, r') => Some (Comp k kc items, r')
          | None => None
          end
        else if is_end_kind k then None
        else Some (Leaf (T k VNone), r)
    | tk :: r =>
        if is_open_kind (kind tk) || is_end_kind (kind tk) || (kind tk =? KTypeName) then None
        else Some (Leaf tk, r)
    end
  end
with aitems (fuel : nat) (ts : list token) {struct fuel} : option (list value * N * list token) :=
  match fuel with
  | O => None
  | S f =>
    match ts with
    | [] => None
    | T k VNone :: r =>
        if is_end_kind k then Some ([], k, r)
        else match aparse f ts with
             | Some (v, r') =>
                 match aitems f r' with
                 | Some (vs, kc, r'') => Some (v :: vs, kc, r'')
                 | None => None
                 end
             | None => None
             end
    | _ :: _ =>
        match aparse f ts with
        | Some (v, r') =>
            match aitems f r' with
            | Some (vs, kc, r'') => Some (v :: vs, kc, r'')
            | None => None
            end
        | None => None
        end
    end
  end.

Lemma aparse_sound : forall f,
  (forall ts w r, aparse f ts = Some (w, r) -> ts = flatten w ++ r) /\
  (forall ts vs kc r, aitems f ts = Some (vs, kc, r) -> ts = flat_map flatten vs ++ T kc VNone :: r).
Proof.
  induction f as [|f [IHp IHi]]; [split; intros; discriminate|]. split.
  - intros ts w r H. cbn [aparse] in H. destruct ts as [|[k v] ts']; [discriminate|].
    destruct v; cbn [kind] in H;
      try (destruct (is_open_kind k || is_end_kind k || (k =? KTypeName)); [discriminate|];
           injection H as <- <-; reflexivity).
    destruct (is_open_kind k).
    + destruct (aitems f ts') as [[[items kc] r']|] eqn:E; [|discriminate]. injection H as <- <-.
      apply IHi in E. subst ts'. cbn [flatten app]. rewrite <- app_assoc. reflexivity.
    + destruct (is_end_kind k); [discriminate|]. injection H as <- <-. reflexivity.
  - intros ts vs kc r H. cbn [aitems] in H. destruct ts as [|[k v] ts']; [discriminate|].
    assert (Hgen : match aparse f (T k v :: ts') with
                   | Some (v0, r') => match aitems f r' with
                                      | Some (vs0, kc0, r'') => Some (v0 :: vs0, kc0, r'')
                                      | None => None end
                   | None => None end = Some (vs, kc, r) ->
                   T k v :: ts' = flat_map flatten vs ++ T kc VNone :: r).
    { intros H'. destruct (aparse f (T k v :: ts')) as [[v0 r']|] eqn:E1; [|discriminate].
      destruct (aitems f r') as [[[vs0 kc0] r'']|] eqn:E2; [|discriminate]. injection H' as <- <- <-.
      apply IHp in E1. apply IHi in E2. rewrite E1, E2. cbn [flat_map]. rewrite <- app_assoc. reflexivity. }
    destruct v; try (apply Hgen; exact H).
    destruct (is_end_kind k); [injection H as <- <- <-; reflexivity|]. apply Hgen; exact H.
Qed.

(* the stream of (t', x) is the flattening of a value of the canonical schema-less domain *)
Definition any_stream_ok (t' : ty) (x : gval) : bool :=
  match marshal default_opts t' x with
  | Ok ts => match aparse (S (length ts)) ts with
             | Some (w, []) => any_okb w
             | _ => false
             end
  | _ => false
  end.

Lemma any_stream_ok_inv t' x : any_stream_ok t' x = true ->
  exists w, any_okb w = true /\ marshal default_opts t' x = Ok (flatten w).
Proof.
  unfold any_stream_ok. destruct (marshal default_opts t' x) as [ts| |]; try discriminate.
  destruct (aparse (S (length ts)) ts) as [[w r]|] eqn:E; [|discriminate].
  destruct r; [|discriminate]. intros H. exists w. split; [exact H|].
  apply (proj1 (aparse_sound _)) in E. rewrite app_nil_r in E. rewrite E. reflexivity.
Qed.

(* the name a registered defined type puts on the wire *)
Definition reg_name (t : ty) : option bytes := match t with TNamed n true _ _ => Some n | _ => None end.

Lemma reg_name_prefix t n : reg_name t = Some n -> reg_prefix t = [T KTypeName (VStr n)].
Proof. destruct t; try discriminate. cbn [reg_name reg_prefix]. destruct reg; [|discriminate]. intros H. injection H as <-. reflexivity. Qed.

(* two key streams differ (they do not compare Eq in the documented order) *)
Definition streams_differ (kt : ty) (a b : gval) : bool :=
  match marshal default_opts kt a, marshal default_opts kt b with
  | Ok s1, Ok s2 => match lex s1 s2 with Eq => false | _ => true end
  | _, _ => false
  end.

Fixpoint keys_differ (kt : ty) (ks : list gval) : bool :=
  match ks with
  | [] => true
  | k :: r => forallb (streams_differ kt k) r && keys_differ kt r
  end.

(* The domain of the theorem, relative to the registry, by recursion on the value along its
   static type:
   - a non-nil pointer does not point to a value that marshals to Nil (a nil pointer, a nil
     interface, an interface holding one of those): this refines [no_ptr_to_nil];
   - the keys of a map have pairwise different key streams and are [keyin];
   - a nil func has no results;
   - an interface-typed position is nil, or holds a value of a REGISTERED defined type that
     the registry maps to that very type (and that value is in the domain at that type), or
     holds a value whose stream lies in the canonical schema-less domain of Proofs/AnyP.v
     (a boolean: the stream is parsed back and checked with [any_okb]);
   - unexported struct fields are unconstrained (they are not on the wire) *)
Fixpoint dom (R : registry) (t : ty) (v : gval) {struct v} : Prop :=
  match v with
  | GList _ items =>
      let e := elem_ty t in
      (fix all (l : list gval) : Prop := match l with [] => True | x :: r => dom R e x /\ all r end) items
  | GStruct vals =>
      (fix all (l : list gval) (f : list (bytes * bool * ty)) : Prop :=
         match l, f with
         | x :: r, fd :: fr => (fexported fd = true -> dom R (snd fd) x) /\ all r fr
         | _, _ => True
         end) vals (fields_of t)
  | GMap _ es =>
      let kt := fst (kv_ty t) in
      let vt := snd (kv_ty t) in
      keys_differ kt (map fst es) = true /\ forallb keyin (map fst es) = true /\
      (fix all (l : list (gval * gval)) : Prop :=
         match l with [] => True | (k, x) :: r => (dom R kt k /\ dom R vt x) /\ all r end) es
  | GPtr (Some x) => nilish x = false /\ dom R (pointee_ty t) x
  | GAny (Some (t', x)) =>
      match reg_name t' with
      | Some n => reg_lookup R n = Some t' /\ wf_ty t' = true /\ ty_ok t' = true /\ dom R t' x
      | None => any_stream_ok t' x = true
      end
  | GFunc None => outs_of t = []
  | GFunc (Some items) =>
      (fix all (l : list gval) (ts : list ty) : Prop :=
         match l, ts with
         | x :: r, xt :: tr => dom R xt x /\ all r tr
         | _, _ => True
         end) items (outs_of t)
  | _ => True
  end.

(* ====================================================================================== *)
(* Part 2.  Definitions: the equivalence                                                    *)
(* ====================================================================================== *)

(* The property's sentence: "a value EQUIVALENT to v, where equivalent = deeply equal except:
   nil and empty slices/maps coincide, NaN equals NaN, tuple funcs are compared by the values
   they return, and interface-typed positions are compared by their canonical token stream".

   [equiv t v v'] by recursion on v along the static type t, with the conventions of [normal]:
   - bool, ints, uints, strings, time values: equal;
   - floats: equal bit patterns, or both NaN                       ("NaN equals NaN");
   - byte slices / slices: same content, same nil-ness unless empty ("nil and empty coincide");
     arrays, byte arrays: same content (isnil is false on both sides by typing);
   - maps: same nil-ness unless empty, same number of entries, every entry of v has an entry
     of v' with equivalent key and equivalent value, and conversely   (equal as finite maps,
     whatever the entry order);
   - structs: field by field; exported fields equivalent, UNEXPORTED fields of the result are
     zero (they are not on the wire; this is the convention of [normal]);
   - pointers: both nil, or both non-nil with equivalent pointees;
   - interface-typed positions: the two interface values have the same canonical token stream
     (marshal default_opts TAny x = marshal default_opts TAny y), whatever their dynamic types;
     a nil interface comes back nil (stronger than the sentence, which would also accept an
     interface holding a nil pointer);
   - tuple funcs: the result lists are pointwise equivalent; a nil func and a func returning no
     values coincide. *)
Fixpoint equiv (t : ty) (v v' : gval) {struct v} : Prop :=
  match v with
  | GBool _ | GInt _ | GUint _ | GStr _ | GTime _ => v' = v
  | GF32 b => match v' with
              | GF32 b' => b' = b \/ (f32_is_nan b = true /\ f32_is_nan b' = true)
              | _ => False
              end
  | GF64 b => match v' with
              | GF64 b' => b' = b \/ (f64_is_nan b = true /\ f64_is_nan b' = true)
              | _ => False
              end
  | GBytes n s => match v' with
                  | GBytes n' s' => s' = s /\ (n' = n \/ s = [])
                  | _ => False
                  end
  | GList n l =>
      match v' with
      | GList n' l' =>
          (n' = n \/ l = []) /\
          (fix go (l : list gval) (l' : list gval) : Prop :=
             match l, l' with
             | [], [] => True
             | x :: r, x' :: r' => equiv (elem_ty t) x x' /\ go r r'
             | _, _ => False
             end) l l'
      | _ => False
      end
  | GMap n es =>
      match v' with
      | GMap n' es' =>
          (n' = n \/ es = []) /\ length es' = length es /\
          (fix all (l : list (gval * gval)) : Prop :=
             match l with
             | [] => True
             | (k, x) :: r =>
                 (exists e', In e' es' /\ equiv (fst (kv_ty t)) k (fst e') /\ equiv (snd (kv_ty t)) x (snd e')) /\
                 all r
             end) es /\
          Forall (fun e' =>
                    (fix any (l : list (gval * gval)) : Prop :=
                       match l with
                       | [] => False
                       | (k, x) :: r =>
                           (equiv (fst (kv_ty t)) k (fst e') /\ equiv (snd (kv_ty t)) x (snd e')) \/ any r
                       end) es) es'
      | _ => False
      end
  | GStruct l =>
      match v' with
      | GStruct l' =>
          (fix go (l : list gval) (l' : list gval) (f : list (bytes * bool * ty)) : Prop :=
             match l, l', f with
             | [], [], [] => True
             | x :: r, x' :: r', fd :: fr =>
                 (if fexported fd then equiv (snd fd) x x' else x' = zero (snd fd)) /\ go r r' fr
             | _, _, _ => False
             end) l l' (fields_of t)
      | _ => False
      end
  | GPtr None => v' = GPtr None
  | GPtr (Some x) => match v' with
                     | GPtr (Some x') => equiv (pointee_ty t) x x'
                     | _ => False
                     end
  | GAny None => v' = GAny None
  | GAny (Some d) => match v' with
                     | GAny d' => marshal default_opts TAny (GAny (Some d)) = marshal default_opts TAny (GAny d')
                     | _ => False
                     end
  | GFunc None => v' = GFunc None \/ v' = GFunc (Some [])
  | GFunc (Some l) =>
      match v' with
      | GFunc None => l = []
      | GFunc (Some l') =>
          (fix go (l : list gval) (l' : list gval) (ts : list ty) : Prop :=
             match l, l', ts with
             | [], [], _ => True
             | x :: r, x' :: r', xt :: tr => equiv xt x x' /\ go r r' tr
             | _, _, _ => False
             end) l l' (outs_of t)
      | _ => False
      end
  end.

(* the invariant of the proof: equivalent, marshalling again gives the identical stream, and a
   value that may be a map key comes back hashable *)
Definition Inv (t : ty) (v v' : gval) (ts : list token) : Prop :=
  equiv t v v' /\ marshal default_opts t v' = Ok ts /\ (keyin v = true -> keyable (to_comparable v') = true).

(* ---- the pieces of [dom] and [equiv] as named fixpoints ---- *)
Definition dom_list (R : registry) (e : ty) : list gval -> Prop :=
  fix all (l : list gval) : Prop := match l with [] => True | x :: r => dom R e x /\ all r end.
Definition dom_fields (R : registry) : list gval -> list (bytes * bool * ty) -> Prop :=
  fix all (l : list gval) (f : list (bytes * bool * ty)) : Prop :=
    match l, f with
    | x :: r, fd :: fr => (fexported fd = true -> dom R (snd fd) x) /\ all r fr
    | _, _ => True
    end.
Definition dom_entries (R : registry) (kt vt : ty) : list (gval * gval) -> Prop :=
  fix all (l : list (gval * gval)) : Prop :=
    match l with [] => True | (k, x) :: r => (dom R kt k /\ dom R vt x) /\ all r end.
Definition dom_outs (R : registry) : list gval -> list ty -> Prop :=
  fix all (l : list gval) (ts : list ty) : Prop :=
    match l, ts with
    | x :: r, xt :: tr => dom R xt x /\ all r tr
    | _, _ => True
    end.

Lemma dom_list_eq R t n l : dom R t (GList n l) = dom_list R (elem_ty t) l.
Proof. reflexivity. Qed.
Lemma dom_struct_eq R t l : dom R t (GStruct l) = dom_fields R l (fields_of t).
Proof. reflexivity. Qed.
Lemma dom_map_eq R t n es :
  dom R t (GMap n es) =
  (keys_differ (fst (kv_ty t)) (map fst es) = true /\ forallb keyin (map fst es) = true /\
   dom_entries R (fst (kv_ty t)) (snd (kv_ty t)) es).
Proof. reflexivity. Qed.
Lemma dom_func_eq R t l : dom R t (GFunc (Some l)) = dom_outs R l (outs_of t).
Proof. reflexivity. Qed.

Definition eq_list (e : ty) : list gval -> list gval -> Prop :=
  fix go (l : list gval) (l' : list gval) : Prop :=
    match l, l' with
    | [], [] => True
    | x :: r, x' :: r' => equiv e x x' /\ go r r'
    | _, _ => False
    end.
Definition eq_fields : list gval -> list gval -> list (bytes * bool * ty) -> Prop :=
  fix go (l : list gval) (l' : list gval) (f : list (bytes * bool * ty)) : Prop :=
    match l, l', f with
    | [], [], [] => True
    | x :: r, x' :: r', fd :: fr =>
        (if fexported fd then equiv (snd fd) x x' else x' = zero (snd fd)) /\ go r r' fr
    | _, _, _ => False
    end.
Definition eq_outs : list gval -> list gval -> list ty -> Prop :=
  fix go (l : list gval) (l' : list gval) (ts : list ty) : Prop :=
    match l, l', ts with
    | [], [], _ => True
    | x :: r, x' :: r', xt :: tr => equiv xt x x' /\ go r r' tr
    | _, _, _ => False
    end.
Definition eq_entries_l (kt vt : ty) (es' : list (gval * gval)) : list (gval * gval) -> Prop :=
  fix all (l : list (gval * gval)) : Prop :=
    match l with
    | [] => True
    | (k, x) :: r => (exists e', In e' es' /\ equiv kt k (fst e') /\ equiv vt x (snd e')) /\ all r
    end.
Definition eq_entries_r (kt vt : ty) (e' : gval * gval) : list (gval * gval) -> Prop :=
  fix any (l : list (gval * gval)) : Prop :=
    match l with
    | [] => False
    | (k, x) :: r => (equiv kt k (fst e') /\ equiv vt x (snd e')) \/ any r
    end.

Lemma equiv_list_eq t n l n' l' :
  equiv t (GList n l) (GList n' l') = ((n' = n \/ l = []) /\ eq_list (elem_ty t) l l').
Proof. reflexivity. Qed.
Lemma equiv_struct_eq t l l' : equiv t (GStruct l) (GStruct l') = eq_fields l l' (fields_of t).
Proof. reflexivity. Qed.
Lemma equiv_func_eq t l l' : equiv t (GFunc (Some l)) (GFunc (Some l')) = eq_outs l l' (outs_of t).
Proof. reflexivity. Qed.
Lemma equiv_map_eq t n es n' es' :
  equiv t (GMap n es) (GMap n' es') =
  ((n' = n \/ es = []) /\ length es' = length es /\
   eq_entries_l (fst (kv_ty t)) (snd (kv_ty t)) es' es /\
   Forall (fun e' => eq_entries_r (fst (kv_ty t)) (snd (kv_ty t)) e' es) es').
Proof. reflexivity. Qed.

(* ---- the fuel measure ---- *)
Fixpoint fsz (v : gval) : nat :=
  match v with
  | GList _ l => S ((fix go (l : list gval) : nat := match l with [] => O | x :: r => (fsz x + go r)%nat end) l)
  | GStruct l => S ((fix go (l : list gval) : nat := match l with [] => O | x :: r => (fsz x + go r)%nat end) l)
  | GFunc (Some l) => S ((fix go (l : list gval) : nat := match l with [] => O | x :: r => (fsz x + go r)%nat end) l)
  | GMap _ es =>
      S ((fix go (l : list (gval * gval)) : nat :=
            match l with [] => O | e :: r => (fsz (fst e) + fsz (snd e) + go r)%nat end) es)
  | GPtr (Some x) => S (fsz x)
  | GAny (Some (_, x)) => S (fsz x)
  | _ => 1%nat
  end.
Definition lsz : list gval -> nat :=
  fix go (l : list gval) : nat := match l with [] => O | x :: r => (fsz x + go r)%nat end.
Definition esz : list (gval * gval) -> nat :=
  fix go (l : list (gval * gval)) : nat :=
    match l with [] => O | e :: r => (fsz (fst e) + fsz (snd e) + go r)%nat end.
Lemma fsz_list n l : fsz (GList n l) = S (lsz l). Proof. reflexivity. Qed.
Lemma fsz_struct l : fsz (GStruct l) = S (lsz l). Proof. reflexivity. Qed.
Lemma fsz_func l : fsz (GFunc (Some l)) = S (lsz l). Proof. reflexivity. Qed.
Lemma fsz_map n es : fsz (GMap n es) = S (esz es). Proof. reflexivity. Qed.
Lemma lsz_cons x l : lsz (x :: l) = (fsz x + lsz l)%nat. Proof. reflexivity. Qed.
Lemma esz_cons e l : esz (e :: l) = (fsz (fst e) + fsz (snd e) + esz l)%nat. Proof. reflexivity. Qed.
Lemma fsz_pos v : (1 <= fsz v)%nat.
Proof. destruct v as [| | | | | | | | | |[x|]|[[t x]|]|[l|]|]; cbn [fsz]; lia. Qed.

(* ====================================================================================== *)
(* Part 3.  Heads of marshalled streams, for every value (no typing needed)                 *)
(* ====================================================================================== *)

Lemma sh_head (Q : Prop) t tk body n :
  is_tn tk = false -> head_ok tk -> (kind tk = KNil -> Q) -> (1 <= n)%nat ->
  (length (leadl (reg_prefix t ++ tk :: body)) <= n)%nat /\
  exists tk' r, strip (reg_prefix t ++ tk :: body) = tk' :: r /\ head_ok tk' /\ is_tn tk' = false /\
                (kind tk' = KNil -> Q).
Proof.
  intros Htn Hh Hk Hn. rewrite strip_prefix, leadl_prefix. destruct (strip_ntn tk body Htn) as [E1 E2].
  rewrite E1, E2. cbn [length]. pose proof (reg_prefix_len t). split; [lia|].
  exists tk, body. repeat split; try assumption; apply Hh.
Qed.

Ltac sh_leaf Hm v :=
  cbn [bind] in Hm; injection Hm as <-;
  apply sh_head; [reflexivity|split; reflexivity|intros Hk; discriminate Hk|apply (fsz_pos v)].

Lemma strip_headF : forall v t ts, marshal default_opts t v = Ok ts ->
  (length (leadl ts) <= fsz v)%nat /\
  exists tk r, strip ts = tk :: r /\ head_ok tk /\ is_tn tk = false /\ (kind tk = KNil -> nilish v = true).
Proof.
  induction v as [b|z|n|b|b|s|n s|n l IH|n es IH|l IH| |x IH| |t' x IH| |l IH|e] using gval_ind3;
    intros t ts Hm.
  - cbn [marshal] in Hm. sh_leaf Hm (GBool b).
  - cbn [marshal] in Hm. destruct (underlying t); try discriminate Hm. destruct w; sh_leaf Hm (GInt z).
  - cbn [marshal] in Hm. destruct (underlying t); try discriminate Hm; try destruct w; sh_leaf Hm (GUint n).
  - cbn [marshal] in Hm. destruct (f32_is_nan b); sh_leaf Hm (GF32 b).
  - cbn [marshal] in Hm. destruct (f64_is_nan b); sh_leaf Hm (GF64 b).
  - cbn [marshal] in Hm. sh_leaf Hm (GStr s).
  - cbn [marshal] in Hm. sh_leaf Hm (GBytes n s).
  - rewrite marshal_list in Hm. apply bind_ok in Hm. destruct Hm as (ts0 & Hm & Hts). injection Hts as <-.
    apply bind_ok in Hm. destruct Hm as (body & _ & Hts). injection Hts as <-.
    apply sh_head; [reflexivity|split; reflexivity|intros Hk; discriminate Hk|apply fsz_pos].
  - rewrite marshal_map in Hm. apply bind_ok in Hm. destruct Hm as (ts0 & Hm & Hts). injection Hts as <-.
    destruct (kv_ty t) as [kt vt].
    apply bind_ok in Hm. destruct Hm as (es' & _ & Hts). injection Hts as <-.
    apply sh_head; [reflexivity|split; reflexivity|intros Hk; discriminate Hk|apply fsz_pos].
  - rewrite marshal_struct in Hm. apply bind_ok in Hm. destruct Hm as (ts0 & Hm & Hts). injection Hts as <-.
    apply bind_ok in Hm. destruct Hm as (body & _ & Hts). injection Hts as <-.
    apply sh_head; [reflexivity|split; reflexivity|intros Hk; discriminate Hk|apply fsz_pos].
  - cbn [marshal bind] in Hm. injection Hm as <-.
    apply sh_head; [reflexivity|split; reflexivity|reflexivity|apply fsz_pos].
  - rewrite marshal_ptr in Hm. apply bind_ok in Hm. destruct Hm as (ts0 & Hm & Hts). injection Hts as <-.
    destruct (IH _ _ Hm) as (Hl & tk & r & E & Hh & Htn & Hnil).
    rewrite strip_prefix, leadl_prefix. pose proof (reg_prefix_len t). split; [cbn [fsz]; lia|].
    exists tk, r. repeat split; try assumption; apply Hh.
  - cbn [marshal bind] in Hm. injection Hm as <-.
    apply sh_head; [reflexivity|split; reflexivity|reflexivity|apply fsz_pos].
  - cbn [marshal] in Hm. apply bind_ok in Hm. destruct Hm as (ts0 & Hm & Hts). injection Hts as <-.
    destruct (IH _ _ Hm) as (Hl & tk & r & E & Hh & Htn & Hnil).
    rewrite strip_prefix, leadl_prefix. pose proof (reg_prefix_len t). split; [cbn [fsz]; lia|].
    exists tk, r. repeat split; try assumption; apply Hh.
  - cbn [marshal ignore_funcs default_opts bind] in Hm. injection Hm as <-.
    apply (sh_head _ t (T KTuple VNone) [T KTupleEnd VNone]);
      [reflexivity|split; reflexivity|intros Hk; discriminate Hk|apply fsz_pos].
  - rewrite marshal_func in Hm. apply bind_ok in Hm. destruct Hm as (ts0 & Hm & Hts). injection Hts as <-.
    cbn [ignore_funcs default_opts] in Hm.
    apply bind_ok in Hm. destruct Hm as (body & _ & Hts). injection Hts as <-.
    apply sh_head; [reflexivity|split; reflexivity|intros Hk; discriminate Hk|apply fsz_pos].
  - cbn [marshal] in Hm. sh_leaf Hm (GTime e).
Qed.

Lemma tn_head_ok tk : is_tn tk = true -> head_ok tk.
Proof. unfold is_tn. intros H. apply N.eqb_eq in H. unfold head_ok. rewrite H. split; reflexivity. Qed.

Lemma marshal_headF v t ts : marshal default_opts t v = Ok ts ->
  exists tk r, ts = tk :: r /\ head_ok tk /\ (kind tk = KNil -> nilish v = true).
Proof.
  intros Hm. destruct (strip_headF v t ts Hm) as (_ & tk & r & E & Hh & Htn & Hnil).
  pose proof (leadl_strip ts) as Els. pose proof (leadl_tn ts) as Htns.
  destruct (leadl ts) as [|tk0 l].
  - cbn [app] in Els. exists tk, r. rewrite <- Els, E. repeat split; try apply Hh. exact Hnil.
  - cbn [forallb] in Htns. apply andb_true_iff in Htns. destruct Htns as [H0 _].
    exists tk0, (l ++ strip ts). split; [symmetry; exact Els|]. split; [apply tn_head_ok, H0|].
    intros Hk. unfold is_tn in H0. rewrite Hk in H0. discriminate H0.
Qed.

Lemma head_not_end tk : head_ok tk ->
  (kind tk =? KArrayEnd) = false /\ (kind tk =? KObjectEnd) = false /\
  (kind tk =? KMapEnd) = false /\ (kind tk =? KTupleEnd) = false.
Proof.
  intros [_ H]. unfold is_end_kind in H.
  apply orb_false_iff in H. destruct H as [H H4].
  apply orb_false_iff in H. destruct H as [H H3].
  apply orb_false_iff in H. destruct H as [H1 H2]. repeat split; assumption.
Qed.

(* ====================================================================================== *)
(* Part 4.  One step of unm                                                                *)
(* ====================================================================================== *)

Lemma ptr_base_underlying t : ptr_base t = ptr_base (underlying t).
Proof. induction t; cbn [ptr_base underlying]; try reflexivity. exact IHt. Qed.

Lemma anyb_underlying t : anyb t = anyb (underlying t).
Proof. unfold anyb. rewrite ptr_base_underlying. reflexivity. Qed.

Lemma ty_ok_underlying t : ty_ok t = true -> ty_ok (underlying t) = true.
Proof.
  induction t; cbn [underlying]; try (intros H; exact H).
  cbn [ty_ok]. intros H. apply andb_true_iff in H. destruct H as [H _]. apply IHt, H.
Qed.

(* an interface-based type carries no TypeName prefix of its own *)
Lemma ty_ok_anyb_prefix t : ty_ok t = true -> anyb t = true -> reg_prefix t = [].
Proof.
  destruct t; try reflexivity. cbn [ty_ok]. intros H Ha.
  apply andb_true_iff in H. destruct H as [_ H]. destruct reg; [|reflexivity].
  change (anyb (TNamed name true depr t)) with (anyb t) in Ha. rewrite Ha in H. discriminate H.
Qed.

Section StepsF.
Variable pf : bytes -> N -> option N.
Variable o : copts.
Variable R : registry.

Ltac step_rec f :=
  rewrite (unm_S pf f o R); generalize (unm pf f o R); intros rec;
  unfold ustep, conv_tok, ptr_or_dispatch, dispatch; cbn [kind val].

(* a TypeName token in front of a target that is not interface-based is skipped *)
Lemma unm_typenameF f t cur tk rest :
  anyb t = false -> (kind tk =? KTypeName) = true ->
  unm pf (S f) o R t cur (tk :: rest) = unm pf f o R t cur rest.
Proof.
  intros Hs Hk. destruct tk as [k v]. cbn [kind] in Hk. apply N.eqb_eq in Hk. subst k.
  step_rec f. unfold anyb in Hs. rewrite Hs. reflexivity.
Qed.

Lemma unm_skip_tnsF t cur s x : anyb t = false ->
  forall pre, forallb is_tn pre = true ->
  forall F, (length pre <= F)%nat ->
  unm pf (F - length pre) o R t cur s = Ok x -> unm pf F o R t cur (pre ++ s) = Ok x.
Proof.
  intros Hs. induction pre as [|tk pre IH]; intros Hp F HF H.
  - cbn [length app] in *. rewrite Nat.sub_0_r in H. exact H.
  - cbn [forallb] in Hp. apply andb_true_iff in Hp. destruct Hp as [Htk Hp].
    destruct F as [|F]; [cbn in HF; lia|]. cbn [app]. rewrite unm_typenameF by assumption.
    apply IH; [exact Hp|cbn [length] in HF; lia|exact H].
Qed.

Lemma rt_nonptrF f t cur pre body tk r rest x n :
  body = tk :: r -> is_tn tk = false -> forallb is_tn pre = true -> anyb t = false -> (1 <= n)%nat ->
  (length pre + n < f + length (leadl (reg_prefix t ++ body)))%nat ->
  (forall f1, (n <= S f1)%nat -> unm pf (S f1) o R t cur (body ++ rest) = Ok x) ->
  unm pf f o R t cur (pre ++ strip (reg_prefix t ++ body) ++ rest) = Ok x.
Proof.
  intros -> Htk Hp Hs Hn Hf Hk. rewrite strip_prefix, leadl_prefix in *.
  destruct (strip_ntn tk r Htk) as [E1 E2]. rewrite E1. rewrite E2 in Hf. cbn [length] in Hf.
  pose proof (reg_prefix_len t) as Hl.
  apply unm_skip_tnsF; [exact Hs|exact Hp|lia|].
  destruct (f - length pre)%nat as [|f1] eqn:E; [lia|]. apply Hk. lia.
Qed.

Lemma rt_nonptrF_ex (P : gval -> Prop) f t cur pre body tk r rest n :
  body = tk :: r -> is_tn tk = false -> forallb is_tn pre = true -> anyb t = false -> (1 <= n)%nat ->
  (length pre + n < f + length (leadl (reg_prefix t ++ body)))%nat ->
  (forall f1, (n <= S f1)%nat -> exists x, unm pf (S f1) o R t cur (body ++ rest) = Ok (x, rest) /\ P x) ->
  exists x, unm pf f o R t cur (pre ++ strip (reg_prefix t ++ body) ++ rest) = Ok (x, rest) /\ P x.
Proof.
  intros -> Htk Hp Hs Hn Hf Hk. rewrite strip_prefix, leadl_prefix in *.
  destruct (strip_ntn tk r Htk) as [E1 E2]. rewrite E1. rewrite E2 in Hf. cbn [length] in Hf.
  pose proof (reg_prefix_len t) as Hl.
  destruct (f - length pre)%nat as [|f1] eqn:E; [lia|].
  destruct (Hk f1 ltac:(lia)) as (x & Hx & HP). exists x. split; [|exact HP].
  apply unm_skip_tnsF; [exact Hs|exact Hp|lia|]. rewrite E. exact Hx.
Qed.

Lemma unm_ptr_stepF f t e cur tk rest :
  underlying t = TPtr e -> head_ok tk -> (kind tk =? KTypeName) && negb (anyb t) = false -> kind tk <> KNil ->
  unm pf (S f) o R t cur (tk :: rest) =
  bind (unm pf f o R e (zero e) (tk :: rest)) (fun r => Ok (GPtr (Some (fst r)), snd r)).
Proof.
  intros Hut [Hl He] Ht Hn. step_rec f. rewrite Hl. cbn [bind]. unfold anyb in Ht. rewrite Ht, He.
  apply N.eqb_neq in Hn. rewrite Hn. rewrite Hut. reflexivity.
Qed.

Lemma unm_map_step f t kt vt cur rest :
  underlying t = TMap kt vt ->
  unm pf (S f) o R t cur (T KMap VNone :: rest) =
  map_loop (unm pf f o R) (S (length rest)) kt vt
    (fst match cur with GMap n m => (n, m) | _ => (true, []) end)
    (snd match cur with GMap n m => (n, m) | _ => (true, []) end) rest.
Proof. intros Hut. step_rec f. rewrite Hut. unfold map_case. destruct cur; reflexivity. Qed.

Lemma unm_func_step f t outs cur rest :
  underlying t = TFunc outs ->
  unm pf (S f) o R t cur (T KTuple VNone :: rest) =
  bind (tuple_loop (unm pf f o R) (S (length rest)) outs [] [] rest) (fun r =>
    let '(outs', vals, tys, rest') := r in
    match outs' with
    | _ :: _ => Err ETooFew
    | [] =>
        if Nat.ltb 50 (length vals) then Err ETooMany
        else if Nat.eqb (length vals) (length outs) then Ok (GFunc (Some vals), rest')
        else Err EBadTuple
    end).
Proof. intros Hut. step_rec f. rewrite Hut. reflexivity. Qed.

(* an interface target looks a TypeName up in the registry and unmarshals the rest into a fresh
   value of the registered type *)
Lemma unm_any_tn f cur n rt rest :
  reg_lookup R n = Some rt ->
  unm pf (S f) o R TAny cur (T KTypeName (VStr n) :: rest) =
  bind (unm pf f o R rt (zero rt) rest) (fun r => Ok (GAny (Some (rt, fst r)), snd r)).
Proof.
  intros Hr. step_rec f. change (KTypeName =? KLiteral) with false. cbn [bind kind val ptr_base underlying].
  change (KTypeName =? KTypeName) with true. cbn [andb negb]. change (KTypeName =? KNil) with false.
  change (is_end_kind KTypeName) with false. cbn beta iota.
  unfold typename_case. cbn [val]. rewrite Hr. reflexivity.
Qed.

(* a defined interface type (type X interface{}) behaves as the empty interface itself *)
Lemma unm_named_any t : underlying t = TAny ->
  forall f cur ts, unm pf f o R t cur ts = unm pf f o R TAny cur ts.
Proof.
  intros Hut. induction f as [|f IH]; intros cur ts; [rewrite !unm_O; reflexivity|].
  rewrite !(unm_S pf f o R). revert IH. generalize (unm pf f o R). intros rec IH.
  unfold ustep. destruct ts as [|tk0 rest]; [rewrite Hut; reflexivity|].
  unfold conv_tok, convert_literal. rewrite (ptr_base_underlying t), Hut. cbn [underlying ptr_base].
  match goal with |- bind ?X _ = bind ?X _ => destruct X as [tk|e|] end; cbn [bind]; try reflexivity.
  cbn [negb]. rewrite andb_false_r.
  unfold ptr_or_dispatch, dispatch, typename_case, nan_case, bytes_case, array_case, object_case, map_case,
    tuple_case, scalar_case, rk_of. cbv beta iota. rewrite !IH, ?Hut. reflexivity.
Qed.

End StepsF.

(* ====================================================================================== *)
(* Part 5.  Map keys: sorted entries, and decoded keys never collide                        *)
(* ====================================================================================== *)

Lemma lex_app_same p : forall a b, lex (p ++ a) (p ++ b) = lex a b.
Proof. induction p as [|x p IH]; intros a b; cbn [app lex]; [reflexivity|]. rewrite tok_ord_refl. apply IH. Qed.

Lemma Forall2_perm {A B} (Rl : A -> B -> Prop) : forall l2 l2', Permutation l2 l2' ->
  forall l1, Forall2 Rl l1 l2 -> exists l1', Permutation l1 l1' /\ Forall2 Rl l1' l2'.
Proof.
  induction 1 as [|y l2 l2' Hp IH|y z l2|l2 l2' l2'' Hp1 IH1 Hp2 IH2]; intros l1 H.
  - inversion H; subst. exists []. split; constructor.
  - inversion H as [|x ? l1r ? Hxy Hr]; subst. destruct (IH _ Hr) as (l1' & Hp' & H').
    exists (x :: l1'). split; [constructor; exact Hp'|constructor; assumption].
  - inversion H as [|x1 ? l1r ? Hx1 Hr]; subst. inversion Hr as [|x2 ? l1rr ? Hx2 Hrr]; subst.
    exists (x2 :: x1 :: l1rr). split; [apply perm_swap|repeat constructor; assumption].
  - destruct (IH1 _ H) as (l1' & Hp' & H'). destruct (IH2 _ H') as (l1'' & Hp'' & H'').
    exists l1''. split; [eapply perm_trans; eassumption|exact H''].
Qed.

Lemma f64_eq_key x y : f64_eq x y = true -> f64_is_nan x = false /\ f64_is_nan y = false /\ f64_key x = f64_key y.
Proof.
  unfold f64_eq. intros H. apply andb_true_iff in H. destruct H as [H H3].
  apply andb_true_iff in H. destruct H as [H1 H2]. apply negb_true_iff in H1, H2. apply Z.eqb_eq in H3.
  repeat split; assumption.
Qed.
Lemma f32_eq_key x y : f32_eq x y = true -> f32_is_nan x = false /\ f32_is_nan y = false /\ f32_key x = f32_key y.
Proof.
  unfold f32_eq. intros H. apply andb_true_iff in H. destruct H as [H H3].
  apply andb_true_iff in H. destruct H as [H1 H2]. apply negb_true_iff in H1, H2. apply Z.eqb_eq in H3.
  repeat split; assumption.
Qed.

Lemma lex_eq_app a1 a2 b1 b2 : lex a1 a2 = Eq -> lex b1 b2 = Eq -> lex (a1 ++ b1) (a2 ++ b2) = Eq.
Proof. rewrite !lex_eq_iff. apply Forall2_app. Qed.

Lemma lex_eq_cons x a b : lex a b = Eq -> lex (x :: a) (x :: b) = Eq.
Proof. intros H. cbn [lex]. rewrite tok_ord_refl. exact H. Qed.

Definition gkeys_eqb : list gval -> list gval -> bool :=
  fix go (p : list gval) (q : list gval) : bool :=
    match p, q with [], [] => true | x :: p', y :: q' => gkey_eqb x y && go p' q' | _, _ => false end.
Lemma gkey_eqb_list n l m k : gkey_eqb (GList n l) (GList m k) = gkeys_eqb l k.
Proof. reflexivity. Qed.
Lemma gkey_eqb_struct l k : gkey_eqb (GStruct l) (GStruct k) = gkeys_eqb l k.
Proof. reflexivity. Qed.

(* two values without interface content that Go's == identifies have key streams that compare Eq
   (+0 and -0 are the only case where the streams are not identical) *)
Definition keyP (a : gval) : Prop :=
  forall b, noany a = true -> gkey_eqb a b = true ->
  forall t sa sb, marshal default_opts t a = Ok sa -> marshal default_opts t b = Ok sb -> lex sa sb = Eq.

Lemma melems_collide e : forall l, Forall keyP l -> forall m, forallb noany l = true -> gkeys_eqb l m = true ->
  forall ba bb, melems default_opts e l = Ok ba -> melems default_opts e m = Ok bb -> lex ba bb = Eq.
Proof.
  induction 1 as [|x l Hx _ IH]; intros [|y m] Hn Hg ba bb Ma Mb; cbn [gkeys_eqb] in Hg; try discriminate Hg.
  - injection Ma as <-. injection Mb as <-. reflexivity.
  - apply andb_true_iff in Hg. destruct Hg as [Hg1 Hg2].
    cbn [forallb] in Hn. apply andb_true_iff in Hn. destruct Hn as [Hn1 Hn2].
    apply melems_cons_inv in Ma. destruct Ma as (a1 & b1 & Ma1 & Mb1 & ->).
    apply melems_cons_inv in Mb. destruct Mb as (a2 & b2 & Ma2 & Mb2 & ->).
    apply lex_eq_app; [exact (Hx y Hn1 Hg1 e a1 a2 Ma1 Ma2)|exact (IH m Hn2 Hg2 b1 b2 Mb1 Mb2)].
Qed.

Lemma mfields_collide : forall l, Forall keyP l -> forall m fs, forallb noany l = true -> gkeys_eqb l m = true ->
  forall ba bb, mfields default_opts l fs = Ok ba -> mfields default_opts m fs = Ok bb -> lex ba bb = Eq.
Proof.
  induction 1 as [|x l Hx _ IH]; intros [|y m] fs Hn Hg ba bb Ma Mb; cbn [gkeys_eqb] in Hg; try discriminate Hg.
  - injection Ma as <-. injection Mb as <-. reflexivity.
  - apply andb_true_iff in Hg. destruct Hg as [Hg1 Hg2].
    cbn [forallb] in Hn. apply andb_true_iff in Hn. destruct Hn as [Hn1 Hn2].
    destruct fs as [|fd fs]; [injection Ma as <-; injection Mb as <-; reflexivity|].
    apply mfields_cons_inv in Ma. apply mfields_cons_inv in Mb. destruct (fexported fd).
    + destruct Ma as (a1 & b1 & Ma1 & Mb1 & ->). destruct Mb as (a2 & b2 & Ma2 & Mb2 & ->).
      apply lex_eq_cons. apply lex_eq_app; [exact (Hx y Hn1 Hg1 _ a1 a2 Ma1 Ma2)|exact (IH m fs Hn2 Hg2 b1 b2 Mb1 Mb2)].
    + exact (IH m fs Hn2 Hg2 ba bb Ma Mb).
Qed.

Theorem key_collision : forall a, keyP a.
Proof.
  induction a as [b1|z1|n1|b1|b1|x1|n1 x1|n1 l1 IH|n1 es1 IH|l1 IH| |y1 IH| |t1 y1 IH| |l1 IH|x1] using gval_ind3;
    intros b Hna Hg t sa sb M1 M2;
    assert (Hsame : forall a0 : gval, a0 = b -> marshal default_opts t a0 = Ok sa -> lex sa sb = Eq)
      by (intros a0 -> M0; rewrite M0 in M2; injection M2 as <-; apply lex_refl);
    destruct b as [b2|z2|n2|b2|b2|x2|n2 x2|n2 l2|n2 es2|l2|[y2|]|[[t2 y2]|]|[l2|]|x2];
    cbn [gkey_eqb] in Hg; try discriminate Hg; try discriminate Hna.
  - refine (Hsame _ _ M1). f_equal. apply eqb_prop, Hg.
  - refine (Hsame _ _ M1). f_equal. apply Z.eqb_eq, Hg.
  - refine (Hsame _ _ M1). f_equal. apply N.eqb_eq, Hg.
  - (* float32 *)
    apply f32_eq_key in Hg. destruct Hg as (Hn1 & Hn2 & Hkey).
    cbn [marshal] in M1, M2. rewrite Hn1 in M1. rewrite Hn2 in M2. cbn [bind] in M1, M2.
    injection M1 as <-. injection M2 as <-. rewrite lex_app_same. cbn [lex]. unfold tok_ord. cbn [kind val val_ord].
    rewrite N.compare_refl. rewrite Hkey, Z.compare_refl. reflexivity.
  - (* float64 *)
    apply f64_eq_key in Hg. destruct Hg as (Hn1 & Hn2 & Hkey).
    cbn [marshal] in M1, M2. rewrite Hn1 in M1. rewrite Hn2 in M2. cbn [bind] in M1, M2.
    injection M1 as <-. injection M2 as <-. rewrite lex_app_same. cbn [lex]. unfold tok_ord. cbn [kind val val_ord].
    rewrite N.compare_refl. rewrite Hkey, Z.compare_refl. reflexivity.
  - refine (Hsame _ _ M1). f_equal. apply bytes_eqb_true, Hg.
  - (* bytes: the nil flag is not on the wire *)
    apply bytes_eqb_true in Hg. subst x2.
    cbn [marshal bind] in M1, M2. injection M1 as <-. injection M2 as <-. apply lex_refl.
  - (* list *)
    change (gkeys_eqb l1 l2 = true) in Hg. cbn [noany] in Hna.
    rewrite marshal_list in M1, M2.
    apply bind_ok in M1. destruct M1 as (ts1 & M1 & E1). injection E1 as <-.
    apply bind_ok in M1. destruct M1 as (ba & M1 & E1). injection E1 as <-.
    apply bind_ok in M2. destruct M2 as (ts2 & M2 & E2). injection E2 as <-.
    apply bind_ok in M2. destruct M2 as (bb & M2 & E2). injection E2 as <-.
    rewrite lex_app_same. apply lex_eq_cons. apply lex_eq_app; [|reflexivity].
    exact (melems_collide _ l1 IH l2 Hna Hg ba bb M1 M2).
  - (* struct *)
    change (gkeys_eqb l1 l2 = true) in Hg. cbn [noany] in Hna.
    rewrite marshal_struct in M1, M2.
    apply bind_ok in M1. destruct M1 as (ts1 & M1 & E1). injection E1 as <-.
    apply bind_ok in M1. destruct M1 as (ba & M1 & E1). injection E1 as <-.
    apply bind_ok in M2. destruct M2 as (ts2 & M2 & E2). injection E2 as <-.
    apply bind_ok in M2. destruct M2 as (bb & M2 & E2). injection E2 as <-.
    rewrite lex_app_same. apply lex_eq_cons. apply lex_eq_app; [|reflexivity].
    exact (mfields_collide l1 IH l2 _ Hna Hg ba bb M1 M2).
  - exact (Hsame _ eq_refl M1).
  - exact (Hsame _ eq_refl M1).
  - refine (Hsame _ _ M1). f_equal. apply bytes_eqb_true, Hg.
Qed.

Lemma forallb_repeat {A} (f : A -> bool) x n : f x = true -> forallb f (repeat x n) = true.
Proof. intros H. induction n as [|n IH]; cbn [repeat forallb]; [reflexivity|]. rewrite H, IH. reflexivity. Qed.

Lemma noany_zero : forall t, noany (zero t) = true.
Proof.
  induction t as [| | | | | | | | |n e IH|e IH|k v IHk IHv|fs IH|e IH| |outs IH|n r d u IH|] using ty_ind2;
    cbn [zero noany]; try reflexivity; try assumption.
  - apply forallb_repeat, IH.
  - induction IH as [|f fs Hf _ IHfs]; cbn [map forallb]; [reflexivity|]. rewrite Hf, IHfs. reflexivity.
Qed.

(* the decoded image of such a value has no interface content either *)
Theorem noany_equiv : forall v t v', noany v = true -> equiv t v v' -> noany v' = true.
Proof.
  induction v as [b|z|n|b|b|s|n s|n l IH|n es IH|l IH| |x IH| |t0 x IH| |l IH|e] using gval_ind3;
    intros t v' Hn He; try discriminate Hn;
    try (cbn [equiv] in He; subst v'; reflexivity);
    try (cbn [equiv] in He; destruct v'; try contradiction; reflexivity).
  - (* list *)
    destruct v' as [| | | | | | |n' l'| | | | | |]; try contradiction.
    rewrite equiv_list_eq in He. destruct He as [_ He]. cbn [noany] in Hn |- *.
    revert l' He. induction IH as [|x l Hx _ IHl]; intros [|x' l'] He; cbn [eq_list] in He; try contradiction;
      [reflexivity|].
    cbn [forallb] in Hn |- *. apply andb_true_iff in Hn. destruct Hn as [Hn1 Hn2]. destruct He as [He1 He2].
    rewrite (Hx _ _ Hn1 He1), (IHl Hn2 _ He2). reflexivity.
  - (* map *)
    destruct v' as [| | | | | | | |n' es'| | | | |]; try contradiction.
    rewrite equiv_map_eq in He. destruct He as (_ & _ & _ & Hr). cbn [noany] in Hn |- *.
    apply forallb_forall. intros e' Hin. rewrite Forall_forall in Hr. specialize (Hr e' Hin).
    clear Hin. induction IH as [|[k x] es [Hk Hx] _ IHes]; cbn [eq_entries_r] in Hr; [contradiction|].
    cbn [forallb fst snd] in Hn. apply andb_true_iff in Hn. destruct Hn as [Hn1 Hn2].
    apply andb_true_iff in Hn1. destruct Hn1 as [Hnk Hnx]. cbn [fst snd] in Hk, Hx.
    destruct Hr as [[Hek Hex]|Hr]; [|exact (IHes Hn2 Hr)].
    rewrite (Hk _ _ Hnk Hek), (Hx _ _ Hnx Hex). reflexivity.
  - (* struct *)
    destruct v' as [| | | | | | | | |l'| | | |]; try contradiction.
    rewrite equiv_struct_eq in He. cbn [noany] in Hn |- *.
    revert l' He. generalize (fields_of t). induction IH as [|x l Hx _ IHl]; intros fs [|x' l'] He;
      destruct fs as [|fd fs]; cbn [eq_fields] in He; try contradiction; [reflexivity|].
    cbn [forallb] in Hn |- *. apply andb_true_iff in Hn. destruct Hn as [Hn1 Hn2]. destruct He as [He1 He2].
    rewrite (IHl Hn2 fs _ He2), andb_true_r.
    destruct (fexported fd); [exact (Hx _ _ Hn1 He1)|subst x'; apply noany_zero].
  - (* pointer *)
    cbn [equiv] in He. destruct v' as [| | | | | | | | | |[x'|]| | |]; try contradiction.
    cbn [noany] in Hn |- *. exact (IH _ _ Hn He).
  - cbn [equiv] in He. destruct He as [->| ->]; reflexivity.
  - (* func *)
    destruct v' as [| | | | | | | | | | | |[l'|]|]; try contradiction; [|reflexivity].
    rewrite equiv_func_eq in He. cbn [noany] in Hn |- *.
    revert l' He. generalize (outs_of t). induction IH as [|x l Hx _ IHl]; intros ots [|x' l'] He;
      cbn [eq_outs] in He; try contradiction; [reflexivity|]. destruct ots as [|ot ots]; [contradiction|].
    cbn [forallb] in Hn |- *. apply andb_true_iff in Hn. destruct Hn as [Hn1 Hn2]. destruct He as [He1 He2].
    rewrite (Hx _ _ Hn1 He1), (IHl Hn2 ots _ He2). reflexivity.
Qed.

Lemma noany_comparable : forall v, noany v = true -> comparable_val v = true.
Proof.
  induction v as [b|z|n|b|b|s|n s|n l IH|n es IH|l IH| |x IH| |t0 x IH| |l IH|e] using gval_ind3;
    intros Hn; try reflexivity; try discriminate Hn; cbn [noany comparable_val] in Hn |- *.
  - induction IH as [|x l Hx _ IHl]; [reflexivity|]. cbn [forallb] in Hn |- *.
    apply andb_true_iff in Hn. destruct Hn as [Hn1 Hn2]. rewrite (Hx Hn1), (IHl Hn2). reflexivity.
  - induction IH as [|x l Hx _ IHl]; [reflexivity|]. cbn [forallb] in Hn |- *.
    apply andb_true_iff in Hn. destruct Hn as [Hn1 Hn2]. rewrite (Hx Hn1), (IHl Hn2). reflexivity.
Qed.

Lemma noany_wf_dyn : forall v, noany v = true -> wf_dyn v = true.
Proof.
  induction v as [b|z|n|b|b|s|n s|n l IH|n es IH|l IH| |x IH| |t0 x IH| |l IH|e] using gval_ind3;
    intros Hn; try reflexivity; try discriminate Hn; cbn [noany wf_dyn] in Hn |- *.
  - induction IH as [|x l Hx _ IHl]; [reflexivity|]. cbn [forallb] in Hn |- *.
    apply andb_true_iff in Hn. destruct Hn as [Hn1 Hn2]. rewrite (Hx Hn1), (IHl Hn2). reflexivity.
  - induction IH as [|[k x] es [Hk Hx] _ IHes]; [reflexivity|]. cbn [forallb fst snd] in Hn |- *.
    apply andb_true_iff in Hn. destruct Hn as [Hn1 Hn2]. apply andb_true_iff in Hn1. destruct Hn1 as [Hnk Hnx].
    cbn [fst snd] in Hk, Hx. rewrite (Hk Hnk), (Hx Hnx), (IHes Hn2). reflexivity.
  - induction IH as [|x l Hx _ IHl]; [reflexivity|]. cbn [forallb] in Hn |- *.
    apply andb_true_iff in Hn. destruct Hn as [Hn1 Hn2]. rewrite (Hx Hn1), (IHl Hn2). reflexivity.
  - exact (IH Hn).
  - induction IH as [|x l Hx _ IHl]; [reflexivity|]. cbn [forallb] in Hn |- *.
    apply andb_true_iff in Hn. destruct Hn as [Hn1 Hn2]. rewrite (Hx Hn1), (IHl Hn2). reflexivity.
Qed.

Lemma leaf_noany v : is_leafv v = true -> noany v = true.
Proof. destruct v as [| | | | | | | | | |[y|]|[[t' y]|]|[l|]|]; intros H; try discriminate H; reflexivity. Qed.

Lemma basic_ty_eqb st tb :
  match st with TBool | TInt _ | TUint _ | TUintptr | TF32 | TF64 | TString | TByteArray _ => True | _ => False end ->
  ty_eqb st tb = true -> tb = st.
Proof.
  destruct st; intros Hb; try contradiction; destruct tb; cbn [ty_eqb]; intros H; try discriminate H;
    try reflexivity; f_equal; symmetry; first [apply width_eqb_true, H | apply Nat.eqb_eq, H].
Qed.

(* the general form, for what a decoded key can be *)
Theorem key_collision2 a b : keyable a = true -> gkey_eqb a b = true ->
  forall t sa sb, marshal default_opts t a = Ok sa -> marshal default_opts t b = Ok sb -> lex sa sb = Eq.
Proof.
  intros Hk Hg t sa sb M1 M2.
  destruct a as [| | | | | | | | | | |[[st sv]|]| |]; try exact (key_collision _ b Hk Hg t sa sb M1 M2).
  destruct b as [| | | | | | | | | | |[[tb xb]|]| |]; cbn [gkey_eqb] in Hg; try discriminate Hg.
  apply andb_true_iff in Hg. destruct Hg as [Hty Hg]. cbn [keyable] in Hk.
  assert (Hb : match st with TBool | TInt _ | TUint _ | TUintptr | TF32 | TF64 | TString | TByteArray _ => True | _ => False end)
    by (destruct st; try discriminate Hk; exact I).
  assert (Hl : is_leafv sv = true) by (destruct st; try discriminate Hk; exact Hk).
  pose proof (basic_ty_eqb st tb Hb Hty) as ->.
  cbn [marshal] in M1, M2.
  apply bind_ok in M1. destruct M1 as (s1 & M1 & E1). injection E1 as <-.
  apply bind_ok in M2. destruct M2 as (s2 & M2 & E2). injection E2 as <-.
  rewrite lex_app_same. exact (key_collision sv xb (leaf_noany sv Hl) Hg st s1 s2 M1 M2).
Qed.

Lemma keyable_comparable a : keyable a = true -> comparable_val a = true.
Proof.
  intros Hk. destruct a as [| | | | | | | | | | |[[st sv]|]| |]; try exact (noany_comparable _ Hk).
  cbn [keyable] in Hk. cbn [comparable_val].
  assert (Hl : is_leafv sv = true) by (destruct st; try discriminate Hk; exact Hk).
  rewrite (noany_comparable sv (leaf_noany sv Hl)), andb_true_r.
  destruct st; try discriminate Hk; reflexivity.
Qed.

Lemma keyin_wf_dyn v : keyin v = true -> wf_dyn v = true.
Proof.
  intros Hk. destruct v as [| | | | | | | | | | |[[t' x]|]| |]; try exact (noany_wf_dyn _ Hk).
  cbn [keyin] in Hk. apply andb_true_iff in Hk. destruct Hk as [Hk _]. exact Hk.
Qed.

(* the invariant for everything except a non-nil interface *)
Lemma Inv_intro t v v' ts :
  match v with GAny (Some _) => False | _ => True end ->
  equiv t v v' -> marshal default_opts t v' = Ok ts -> Inv t v v' ts.
Proof.
  intros Hna He Hm. split; [exact He|]. split; [exact Hm|]. intros Hk.
  assert (Hn : noany v = true) by (destruct v as [| | | | | | | | | | |[[t' x]|]| |]; try exact Hk; contradiction).
  pose proof (noany_equiv v t v' Hn He) as Hn'.
  destruct v' as [| | | | | | | | | | |[[st sv]|]| |]; try exact Hn'. discriminate Hn'.
Qed.

(* toComparable changes neither the stream nor the equivalence class *)
Lemma tc_noany v : noany v = true -> to_comparable v = v.
Proof. destruct v as [| | | | | | | | | | |[[st sv]|]| |]; intros H; try reflexivity. discriminate H. Qed.

Lemma tc_marshal o t v : marshal o t (to_comparable v) = marshal o t v.
Proof.
  destruct v as [| | | | | | | | | | |[[st sv]|]| |]; try reflexivity.
  destruct st; try reflexivity. destruct sv; reflexivity.
Qed.

Lemma equiv_tc t k k' : equiv t k k' -> equiv t k (to_comparable k').
Proof.
  intros He.
  destruct k' as [| | | | | | | | | | |[[st sv]|]| |]; try exact He.
  destruct st; try exact He. destruct sv as [| | | | | |n s| | | | | | |]; try exact He.
  destruct k as [| | | | | | | | | |[y|]|[d|]|[l|]|]; cbn [equiv] in He |- *; try contradiction; try discriminate He.
  - cbn [to_comparable]. rewrite He. reflexivity.
  - destruct He as [He|He]; discriminate He.
Qed.

(* on a typed key of the domain the key stored by the typed map loop is toComparable of the
   decoded key: converted under an interface key type, untouched (and unconvertible) otherwise *)
Lemma iface_key_tc kt k k' : has_type kt k = true -> keyin k = true -> equiv kt k k' ->
  iface_key kt k' = to_comparable k'.
Proof.
  intros Ht Hk He. unfold iface_key. destruct (underlying kt) eqn:Hut; try reflexivity;
    (assert (Hn : noany k = true)
       by (destruct k as [| | | | | | | | | | |[[t0 x0]|]| |]; try exact Hk; cbn [has_type] in Ht; rewrite Hut in Ht;
           discriminate Ht);
     symmetry; apply tc_noany; exact (noany_equiv k kt k' Hn He)).
Qed.

(* an interface key with a one-token scalar stream is decoded to the scalar of the token's type *)
Lemma keyin_dec t' x w : keyin (GAny (Some (t', x))) = true ->
  marshal default_opts t' x = Ok (flatten w) -> any_okb w = true -> keyable (to_comparable (dec w)) = true.
Proof.
  intros Hk Hm Hw. cbn [keyin] in Hk. apply andb_true_iff in Hk. destruct Hk as [_ Hk]. rewrite Hm in Hk.
  destruct w as [tok|ko kc items|n w].
  - cbn [flatten] in Hk. cbn [any_okb] in Hw.
    destruct (leaf_ok_view tok Hw) as [| |b|w z|w n|n|b Hb|b Hb|s|s]; cbn [any_of_token val] in Hk;
      try discriminate Hk; try reflexivity; destruct w; reflexivity.
  - exfalso. cbn [flatten] in Hk. destruct (flat_map flatten items); cbn [app] in Hk; discriminate Hk.
  - discriminate Hw.
Qed.

Lemma marshal_not_single_tn t x n : marshal default_opts t x = Ok [T KTypeName (VStr n)] -> False.
Proof.
  intros Hm. destruct (strip_headF x t _ Hm) as (_ & tk & r & E & _). cbn in E. discriminate E.
Qed.

(* ---- the entry triples of a map ---- *)
Definition fe (e : entry) : list token := snd (fst e) ++ snd e.

Definition erel (kt vt : ty) (p : gval * gval) (e : entry) : Prop :=
  marshal default_opts kt (fst p) = Ok (fst (fst e)) /\ snd (fst e) = fst (fst e) /\
  marshal default_opts vt (snd p) = Ok (snd e) /\ bad_map_key (fst (fst e)) = false.

Lemma mentries_cons kt vt k x r :
  mentries default_opts kt vt ((k, x) :: r) =
  bind (marshal default_opts kt k) (fun sortkey =>
  if bad_map_key sortkey then Err EBadMapKey else
  bind (mentries default_opts kt vt r) (fun rest =>
  bind (marshal default_opts kt k) (fun kts =>
  bind (marshal default_opts vt x) (fun vts => Ok ((sortkey, kts, vts) :: rest))))).
Proof. reflexivity. Qed.

Lemma mentries_rel kt vt : forall es es0,
  mentries default_opts kt vt es = Ok es0 -> Forall2 (erel kt vt) es es0.
Proof.
  induction es as [|[k x] r IH]; intros es0 H.
  - injection H as <-. constructor.
  - rewrite mentries_cons in H. apply bind_ok in H. destruct H as (s & Hs & H).
    destruct (bad_map_key s) eqn:Hb; [discriminate H|].
    apply bind_ok in H. destruct H as (rest & Hrest & H).
    apply bind_ok in H. destruct H as (kts & Hkts & H).
    apply bind_ok in H. destruct H as (vts & Hvts & H). injection H as <-.
    constructor; [|apply IH, Hrest]. unfold erel. cbn [fst snd].
    rewrite Hs in Hkts. injection Hkts as <-. repeat split; assumption.
Qed.

Lemma streams_differ_ne kt k1 k2 s1 s2 : streams_differ kt k1 k2 = true ->
  marshal default_opts kt k1 = Ok s1 -> marshal default_opts kt k2 = Ok s2 -> lex s1 s2 <> Eq.
Proof. unfold streams_differ. intros H M1 M2. rewrite M1, M2 in H. destruct (lex s1 s2); [discriminate H| |]; discriminate. Qed.

Lemma keys_differ_ne kt vt : forall es es0, Forall2 (erel kt vt) es es0 ->
  keys_differ kt (map fst es) = true -> ForallOrdPairs ent_ne es0.
Proof.
  induction 1 as [|p e es es0 Hpe Hr IH]; intros Hd; [constructor|].
  cbn [map keys_differ] in Hd. apply andb_true_iff in Hd. destruct Hd as [Hd1 Hd2].
  constructor; [|apply IH, Hd2]. clear IH Hd2.
  induction Hr as [|q e2 es es0 Hq Hr IH2]; [constructor|].
  cbn [map forallb] in Hd1. apply andb_true_iff in Hd1. destruct Hd1 as [Hd Hd1].
  constructor; [|apply IH2, Hd1].
  destruct Hpe as (M1 & _). destruct Hq as (M2 & _). unfold ent_ne, sk.
  exact (streams_differ_ne kt _ _ _ _ Hd M1 M2).
Qed.

Lemma sorted_entries kt vt es es0 : wf_ty kt = true -> forallb keyin (map fst es) = true ->
  Forall (fun p => has_type kt (fst p) = true) es -> keys_differ kt (map fst es) = true ->
  Forall2 (erel kt vt) es es0 -> StronglySorted ent_lt (sort_entries es0) /\ Forall wf_sk (sort_entries es0).
Proof.
  intros Hwf Hk Hty Hd H2.
  assert (Hw : Forall wf_sk es0).
  { clear Hd. induction H2 as [|p e es es0 Hpe Hr IH]; [constructor|].
    inversion Hty as [|? ? Hp Htr]; subst.
    cbn [map forallb] in Hk. apply andb_true_iff in Hk. destruct Hk as [Hk1 Hk2].
    constructor; [|apply IH; assumption].
    destruct Hpe as (M1 & _). unfold wf_sk, sk.
    exact (marshal_tokens_wf default_opts kt (fst p) _ Hwf Hp (keyin_wf_dyn _ Hk1) M1). }
  split; [|exact (Permutation_Forall (Permutation_sym (sort_entries_perm es0)) Hw)].
  apply sorted_strict; [apply sort_entries_sorted, Hw|].
  apply (FOP_perm ent_ne ent_ne_sym es0); [apply Permutation_sym, sort_entries_perm|].
  exact (keys_differ_ne kt vt es es0 H2 Hd).
Qed.

(* an already sorted list is left as it is (so that the re-marshalled map has the same stream) *)
Lemma sort_sorted l : Forall wf_sk l -> StronglySorted ent_lt l -> sort_entries l = l.
Proof.
  induction l as [|e r IH]; intros Hw Hs; [reflexivity|].
  inversion Hw as [|? ? He Hr]; subst. apply StronglySorted_inv in Hs. destruct Hs as [Hsr Her].
  change (sort_entries (e :: r)) with (insert_entry e (sort_entries r)). rewrite (IH Hr Hsr).
  destruct r as [|x r']; [reflexivity|]. cbn [insert_entry].
  inversion Her as [|? ? Hex _]; subst. inversion Hr as [|? ? Hx _]; subst.
  unfold key_le. unfold wf_sk, sk in He, Hx. rewrite (cmp_is_lex _ _ He Hx).
  unfold ent_lt, sk in Hex. rewrite Hex. reflexivity.
Qed.

(* ====================================================================================== *)
(* Part 6.  The loops on marshalled element streams                                        *)
(* ====================================================================================== *)

Lemma mfields_cons_eq x l fd fs :
  mfields default_opts (x :: l) (fd :: fs) =
  if negb (fexported fd) then mfields default_opts l fs
  else bind (marshal default_opts (snd fd) x) (fun a =>
       bind (mfields default_opts l fs) (fun b => Ok (T KString (VStr (fname fd)) :: a ++ b))).
Proof. reflexivity. Qed.

Lemma melems_cons_eq e x l :
  melems default_opts e (x :: l) =
  bind (marshal default_opts e x) (fun a => bind (melems default_opts e l) (fun b => Ok (a ++ b))).
Proof. reflexivity. Qed.

Lemma mouts_cons_eq x l xt tr :
  mouts default_opts (x :: l) (xt :: tr) =
  bind (marshal default_opts xt x) (fun a => bind (mouts default_opts l tr) (fun b => Ok (a ++ b))).
Proof. reflexivity. Qed.

Lemma eq_list_length e : forall l l', eq_list e l l' -> length l' = length l.
Proof.
  induction l as [|x l IH]; intros [|x' l'] H; cbn [eq_list] in H; try contradiction; [reflexivity|].
  destruct H as [_ H]. cbn [length]. f_equal. apply IH, H.
Qed.

Lemma map_loop_step rec g kt vt isnil m ts tk tl : ts = tk :: tl -> (kind tk =? KMapEnd) = false ->
  map_loop rec (S g) kt vt isnil m ts =
  bind (rec kt (zero kt) ts) (fun kr =>
    if negb (comparable_val (iface_key kt (fst kr))) then Err EBadMapKey
    else bind (rec vt (zero vt) (snd kr)) (fun vr =>
         map_loop rec g kt vt false (map_set (iface_key kt (fst kr)) (fst vr) m) (snd vr))).
Proof. intros -> H. cbn [map_loop]. rewrite H. reflexivity. Qed.

Section LoopsF.
Variable o : copts.
Variable R : registry.
Variable rec : rec_t.

(* what the recursive call does on the stream of a typed element of the domain, provided the
   stream is not longer than L *)
Definition elemF (L : nat) (x : gval) : Prop :=
  forall ft a rest', wf_ty ft = true -> ty_ok ft = true ->
    has_type ft x = true -> dom R ft x -> marshal default_opts ft x = Ok a -> (length a <= L)%nat ->
    exists x', rec ft (zero ft) (a ++ rest') = Ok (x', rest') /\ Inv ft x x' a.

Lemma slice_loop_F L e : wf_ty e = true -> ty_ok e = true ->
  forall l, Forall (elemF L) l -> all_typed e l = true -> dom_list R e l ->
  forall body, melems default_opts e l = Ok body -> (length body <= L)%nat ->
  forall g acc rest, (length l < g)%nat ->
  exists l', slice_loop rec g e acc (body ++ T KArrayEnd VNone :: rest) = Ok (acc ++ l', rest) /\
             eq_list e l l' /\ melems default_opts e l' = Ok body.
Proof.
  intros Hwf Hok. induction 1 as [|x l Hx _ IH]; intros Hty Hd body Hm HL g acc rest Hg.
  - injection Hm as <-. destruct g as [|g]; [clear - Hg; cbn in Hg; lia|]. exists [].
    cbn [app slice_loop kind]. rewrite app_nil_r. repeat split.
  - apply melems_cons_inv in Hm. destruct Hm as (a & b & Ha & Hb & ->).
    change (all_typed e (x :: l)) with (has_type e x && all_typed e l) in Hty.
    apply andb_true_iff in Hty. destruct Hty as [Htx Htl].
    destruct Hd as [Hdx Hdl]. rewrite app_length in HL.
    destruct (marshal_headF _ _ _ Ha) as (tk & r & -> & Hh & _).
    destruct g as [|g]; [clear - Hg; cbn [length] in Hg; lia|]. rewrite <- app_assoc. cbn [app slice_loop].
    destruct (head_not_end tk Hh) as (Hne & _). rewrite Hne.
    change (tk :: r ++ b ++ T KArrayEnd VNone :: rest) with ((tk :: r) ++ b ++ T KArrayEnd VNone :: rest).
    destruct (Hx e (tk :: r) (b ++ T KArrayEnd VNone :: rest) Hwf Hok Htx Hdx Ha ltac:(clear - HL; lia))
      as (x' & Hrx & Hex & Hmx & _).
    rewrite Hrx. cbn [bind fst snd].
    destruct (IH Htl Hdl b Hb ltac:(clear - HL; lia) g (acc ++ [x']) rest ltac:(clear - Hg; cbn [length] in Hg; lia))
      as (l' & Hloop & Hel & Hml).
    exists (x' :: l'). rewrite Hloop, <- app_assoc. split; [reflexivity|]. split; [split; assumption|].
    rewrite melems_cons_eq, Hmx. cbn [bind]. rewrite Hml. reflexivity.
Qed.

Lemma arr_loop_F L e : wf_ty e = true -> ty_ok e = true ->
  forall l, Forall (elemF L) l -> all_typed e l = true -> dom_list R e l ->
  forall body, melems default_opts e l = Ok body -> (length body <= L)%nat ->
  forall g done rest, (length l < g)%nat ->
  exists l', arr_loop rec g e (done ++ repeat (zero e) (length l)) (length done) (body ++ T KArrayEnd VNone :: rest)
             = Ok (done ++ l', rest) /\
             eq_list e l l' /\ melems default_opts e l' = Ok body.
Proof.
  intros Hwf Hok. induction 1 as [|x l Hx _ IH]; intros Hty Hd body Hm HL g done rest Hg.
  - injection Hm as <-. destruct g as [|g]; [clear - Hg; cbn in Hg; lia|]. exists [].
    cbn [app arr_loop kind length repeat]. repeat split.
  - apply melems_cons_inv in Hm. destruct Hm as (a & b & Ha & Hb & ->).
    change (all_typed e (x :: l)) with (has_type e x && all_typed e l) in Hty.
    apply andb_true_iff in Hty. destruct Hty as [Htx Htl].
    destruct Hd as [Hdx Hdl]. rewrite app_length in HL.
    destruct (marshal_headF _ _ _ Ha) as (tk & r & -> & Hh & _).
    destruct g as [|g]; [clear - Hg; cbn [length] in Hg; lia|]. rewrite <- app_assoc. cbn [app arr_loop length repeat].
    destruct (head_not_end tk Hh) as (Hne & _). rewrite Hne.
    assert (Hlen : Nat.leb (length (done ++ zero e :: repeat (zero e) (length l))) (length done) = false).
    { apply Nat.leb_gt. rewrite app_length. cbn [length]. clear. lia. }
    rewrite Hlen, nth_app_here.
    change (tk :: r ++ b ++ T KArrayEnd VNone :: rest) with ((tk :: r) ++ b ++ T KArrayEnd VNone :: rest).
    destruct (Hx e (tk :: r) (b ++ T KArrayEnd VNone :: rest) Hwf Hok Htx Hdx Ha ltac:(clear - HL; lia))
      as (x' & Hrx & Hex & Hmx & _).
    rewrite Hrx. cbn [bind fst snd]. rewrite set_nth_app.
    destruct (IH Htl Hdl b Hb ltac:(clear - HL; lia) g (done ++ [x']) rest ltac:(clear - Hg; cbn [length] in Hg; lia))
      as (l' & Hloop & Hel & Hml).
    rewrite <- !app_assoc in Hloop. cbn [app] in Hloop.
    replace (length (done ++ [x'])) with (S (length done)) in Hloop by (rewrite app_length; cbn [length]; clear; lia).
    exists (x' :: l'). rewrite Hloop. split; [reflexivity|]. split; [split; assumption|].
    rewrite melems_cons_eq, Hmx. cbn [bind]. rewrite Hml. reflexivity.
Qed.

Lemma tuple_loop_F L : forall l, Forall (elemF L) l ->
  forall outs body, forallb wf_ty outs = true -> forallb ty_ok outs = true ->
  typed_outs l outs = true -> dom_outs R l outs ->
  mouts default_opts l outs = Ok body -> (length body <= L)%nat ->
  forall g tys vals rest, (length l < g)%nat ->
  exists l', tuple_loop rec g outs tys vals (body ++ T KTupleEnd VNone :: rest)
             = Ok ([], vals ++ l', tys ++ outs, rest) /\
             eq_outs l l' outs /\ mouts default_opts l' outs = Ok body /\ length l' = length outs.
Proof.
  induction 1 as [|x l Hx _ IH]; intros outs body Hwf Hok Hty Hd Hm HL g tys vals rest Hg.
  - destruct outs as [|ot outs]; [|discriminate Hty]. injection Hm as <-.
    destruct g as [|g]; [clear - Hg; cbn in Hg; lia|]. exists [].
    cbn [app tuple_loop kind]. rewrite !app_nil_r. repeat split.
  - destruct outs as [|ot outs]; [discriminate Hty|].
    change (typed_outs (x :: l) (ot :: outs)) with (has_type ot x && typed_outs l outs) in Hty.
    apply andb_true_iff in Hty. destruct Hty as [Htx Htl].
    cbn [forallb] in Hwf, Hok.
    apply andb_true_iff in Hwf. destruct Hwf as [Hwx Hwl].
    apply andb_true_iff in Hok. destruct Hok as [Hox Hol].
    destruct Hd as [Hdx Hdl].
    rewrite mouts_cons_eq in Hm. apply bind_ok in Hm. destruct Hm as (a & Ha & Hm).
    apply bind_ok in Hm. destruct Hm as (b & Hb & Hm). injection Hm as <-. rewrite app_length in HL.
    destruct (marshal_headF _ _ _ Ha) as (tk & r & -> & Hh & _).
    destruct g as [|g]; [clear - Hg; cbn [length] in Hg; lia|]. rewrite <- app_assoc. cbn [app tuple_loop].
    destruct (head_not_end tk Hh) as (_ & _ & _ & Hne). rewrite Hne.
    change (tk :: r ++ b ++ T KTupleEnd VNone :: rest) with ((tk :: r) ++ b ++ T KTupleEnd VNone :: rest).
    destruct (Hx ot (tk :: r) (b ++ T KTupleEnd VNone :: rest) Hwx Hox Htx Hdx Ha ltac:(clear - HL; lia))
      as (x' & Hrx & Hex & Hmx & _).
    rewrite Hrx. cbn [bind fst snd].
    destruct (IH outs b Hwl Hol Htl Hdl Hb ltac:(clear - HL; lia) g (tys ++ [ot]) (vals ++ [x']) rest
                ltac:(clear - Hg; cbn [length] in Hg; lia)) as (l' & Hloop & Hel & Hml & Hlen).
    exists (x' :: l'). rewrite Hloop, <- !app_assoc. split; [reflexivity|]. split; [split; assumption|].
    split; [|cbn [length]; rewrite Hlen; reflexivity].
    rewrite mouts_cons_eq, Hmx. cbn [bind]. rewrite Hml. reflexivity.
Qed.

(* ---- struct fields ---- *)
Hypothesis Hname : forall s cur rest', rec TString cur (T KString (VStr s) :: rest') = Ok (GStr s, rest').

Lemma struct_loop_F L : forall l, Forall (elemF L) l ->
  forall fsall pre fs donev body, fsall = pre ++ fs -> names_nodup fsall = true ->
  forallb (fun f => wf_bytesb (fname f) && wf_ty (snd f)) fs = true ->
  forallb (fun f => ty_ok (snd f)) fs = true ->
  fields_typed l fs = true -> dom_fields R l fs ->
  mfields default_opts l fs = Ok body -> (length body <= L)%nat -> length donev = length pre ->
  forall g depr rest, (length body < g)%nat ->
  exists l', struct_loop o rec g fsall depr (donev ++ map (fun fd => zero (snd fd)) fs)
               (body ++ T KObjectEnd VNone :: rest) = Ok (donev ++ l', rest) /\
             eq_fields l l' fs /\ mfields default_opts l' fs = Ok body.
Proof.
  induction 1 as [|x l Hx _ IH]; intros fsall pre fs donev body Hall Hnd Hwf Hok Hty Hd Hm HL Hlen g depr rest Hg.
  - destruct fs as [|fd fs]; [|discriminate Hty]. injection Hm as <-.
    destruct g as [|g]; [clear - Hg; cbn in Hg; lia|]. exists []. repeat split.
  - destruct fs as [|fd fs]; [discriminate Hty|].
    change (fields_typed (x :: l) (fd :: fs)) with (has_type (snd fd) x && fields_typed l fs) in Hty.
    apply andb_true_iff in Hty. destruct Hty as [Htx Htl].
    cbn [forallb] in Hwf, Hok.
    apply andb_true_iff in Hwf. destruct Hwf as [Hwx Hwl]. apply andb_true_iff in Hwx. destruct Hwx as [_ Hwx].
    apply andb_true_iff in Hok. destruct Hok as [Hox Hol].
    destruct Hd as [Hdx Hdl].
    apply mfields_cons_inv in Hm.
    assert (Hnext : forall y body' g', mfields default_opts l fs = Ok body' -> (length body' <= L)%nat ->
              (length body' < g')%nat ->
              exists l', struct_loop o rec g' fsall depr ((donev ++ [y]) ++ map (fun fd => zero (snd fd)) fs)
                (body' ++ T KObjectEnd VNone :: rest) = Ok ((donev ++ [y]) ++ l', rest) /\
                eq_fields l l' fs /\ mfields default_opts l' fs = Ok body').
    { intros y body' g' Hb HL' Hg'. apply (IH fsall (pre ++ [fd]) fs (donev ++ [y]) body'); try assumption.
      - rewrite <- app_assoc. exact Hall.
      - rewrite !app_length. cbn [length]. clear - Hlen. lia. }
    cbn [map].
    destruct (fexported fd) eqn:Hex.
    + destruct Hm as (a & b & Ha & Hb & ->). cbn [length] in HL, Hg. rewrite app_length in HL, Hg.
      destruct g as [|g]; [clear - Hg; lia|]. cbn [app struct_loop kind].
      change (KString =? KObjectEnd) with false. cbn beta iota.
      rewrite Hname. cbn [bind fst snd].
      subst fsall. rewrite (find_field_at pre fd fs 0 Hnd Hex). cbn [Nat.add].
      rewrite <- Hlen, nth_app_here. rewrite <- app_assoc.
      destruct (Hx (snd fd) a (b ++ T KObjectEnd VNone :: rest) Hwx Hox Htx (Hdx eq_refl) Ha ltac:(clear - HL; lia))
        as (x' & Hrx & Hex' & Hmx & _).
      rewrite Hrx. cbn [bind fst snd]. rewrite set_nth_app.
      destruct (Hnext x' b g Hb ltac:(clear - HL; lia) ltac:(clear - Hg; lia)) as (l' & Hloop & Hel & Hml).
      rewrite <- !app_assoc in Hloop. cbn [app] in Hloop.
      exists (x' :: l'). rewrite Hloop. split; [reflexivity|].
      split; [cbn [eq_fields]; rewrite Hex; split; assumption|].
      rewrite mfields_cons_eq, Hex. cbn [negb]. rewrite Hmx. cbn [bind]. rewrite Hml. reflexivity.
    + destruct (Hnext (zero (snd fd)) body g Hm HL Hg) as (l' & Hloop & Hel & Hml).
      rewrite <- !app_assoc in Hloop. cbn [app] in Hloop.
      exists (zero (snd fd) :: l'). rewrite Hloop. split; [reflexivity|].
      split; [cbn [eq_fields]; rewrite Hex; split; [reflexivity|assumption]|].
      rewrite mfields_cons_eq, Hex. cbn [negb]. exact Hml.
Qed.

(* ---- map entries, in the order of the sorted entry triples ---- *)
Definition below_all (kt : ty) (S : list entry) (q : gval * gval) : Prop :=
  exists s0, keyable (fst q) = true /\ marshal default_opts kt (fst q) = Ok s0 /\
             Forall (fun e => lex s0 (sk e) = Lt) S.

Lemma map_loop_F L kt vt : wf_ty kt = true -> ty_ok kt = true ->
  wf_ty vt = true -> ty_ok vt = true ->
  forall esP S, Forall2 (erel kt vt) esP S ->
  Forall (fun p => elemF L (fst p) /\ elemF L (snd p)) esP ->
  Forall (fun p => (has_type kt (fst p) = true /\ dom R kt (fst p) /\ keyin (fst p) = true) /\
                   has_type vt (snd p) = true /\ dom R vt (snd p)) esP ->
  StronglySorted ent_lt S ->
  (length (flat_map fe S) <= L)%nat ->
  forall g isnil m rest, (length S < g)%nat -> Forall (below_all kt S) m ->
  exists D, map_loop rec g kt vt isnil m (flat_map fe S ++ T KMapEnd VNone :: rest)
            = Ok (GMap (isnil && match S with [] => true | _ => false end) (m ++ D), rest) /\
            Forall2 (fun p q => equiv kt (fst p) (fst q) /\ equiv vt (snd p) (snd q)) esP D /\
            mentries default_opts kt vt D = Ok S.
Proof.
  intros Hwk Hok Hwv Hov.
  induction 1 as [|p e esP S Hpe H2 IH]; intros Hel Hty Hs HL g isnil m rest Hg Hm.
  - destruct g as [|g]; [clear - Hg; cbn in Hg; lia|]. exists [].
    cbn [flat_map app map_loop kind]. rewrite app_nil_r, andb_true_r. repeat split. constructor.
  - inversion Hel as [|? ? [Hek Hex] Helr]; subst.
    inversion Hty as [|? ? ((Htk & Hdk & Hnk) & Htx & Hdx) Htyr]; subst.
    apply StronglySorted_inv in Hs. destruct Hs as [Hsr Her].
    destruct p as [k x]. destruct e as [[s kts] vts]. destruct Hpe as (Mk & Ekts & Mx & Hbad).
    cbn [fst snd] in *. subst kts.
    cbn [flat_map] in HL |- *. unfold fe at 1 in HL. unfold fe at 1. cbn [fst snd] in HL |- *.
    rewrite !app_length in HL.
    destruct (marshal_headF _ _ _ Mk) as (tk & r & Es & Hh & _).
    destruct g as [|g]; [clear - Hg; cbn [length] in Hg; lia|].
    rewrite <- !app_assoc.
    destruct (head_not_end tk Hh) as (_ & _ & Hne & _).
    rewrite (map_loop_step rec g kt vt isnil m _ tk (r ++ vts ++ flat_map fe S ++ T KMapEnd VNone :: rest))
      by (try (rewrite Es; reflexivity); exact Hne).
    destruct (Hek kt s (vts ++ flat_map fe S ++ T KMapEnd VNone :: rest) Hwk Hok Htk Hdk Mk
                ltac:(clear - HL; lia)) as (k' & Hrk & Heqk & Hmk & Hkk).
    rewrite Hrk. cbn [bind fst snd].
    rewrite (iface_key_tc kt k k' Htk Hnk Heqk).
    pose proof (Hkk Hnk) as Hnk'.
    apply equiv_tc in Heqk. rewrite <- (tc_marshal default_opts kt k') in Hmk.
    remember (to_comparable k') as k'' eqn:Ek''. clear Ek'' Hrk k'. rename k'' into k'.
    rewrite (keyable_comparable k' Hnk'). cbn [negb].
    destruct (Hex vt vts (flat_map fe S ++ T KMapEnd VNone :: rest) Hwv Hov Htx Hdx Mx ltac:(clear - HL; lia))
      as (x' & Hrx & Heqx & Hmx & _).
    rewrite Hrx. cbn [bind fst snd].
    assert (Hfresh : Forall (fun q => gkey_eqb (fst q) k' = false) m).
    { rewrite Forall_forall in Hm |- *. intros q Hq. destruct (Hm q Hq) as (s0 & N0 & M0 & Hlt).
      destruct (gkey_eqb (fst q) k') eqn:Eg; [|reflexivity]. exfalso.
      pose proof (key_collision2 (fst q) k' N0 Eg kt s0 s M0 Hmk) as Heq.
      inversion Hlt as [|? ? Hlt1 _]; subst. unfold sk in Hlt1. cbn [fst] in Hlt1. rewrite Heq in Hlt1.
      discriminate Hlt1. }
    rewrite (map_set_fresh k' x' m Hfresh).
    destruct (IH Helr Htyr Hsr ltac:(clear - HL; lia) g false (m ++ [(k', x')]) rest
                ltac:(clear - Hg; cbn [length] in Hg; lia)) as (D & Hloop & HD & HmD).
    { apply Forall_app. split.
      - rewrite Forall_forall in Hm |- *. intros q Hq. destruct (Hm q Hq) as (s0 & N0 & M0 & Hlt).
        exists s0. repeat split; try assumption. inversion Hlt; assumption.
      - constructor; [|constructor]. exists s. cbn [fst]. repeat split; assumption. }
    exists ((k', x') :: D). rewrite Hloop. rewrite andb_false_r, <- app_assoc. cbn [andb app].
    split; [reflexivity|]. split; [constructor; [split; assumption|exact HD]|].
    rewrite mentries_cons, Hmk. cbn [bind]. rewrite Hbad, HmD. cbn [bind]. rewrite Hmx. reflexivity.
Qed.

End LoopsF.

(* ====================================================================================== *)
(* Part 7.  The round trip                                                                  *)
(* ====================================================================================== *)

Lemma simple_of_underlying t : simple_ty (underlying t) = simple_ty t.
Proof. induction t; cbn [underlying simple_ty]; try reflexivity. exact IHt. Qed.

Lemma leaf_simple t v : is_leafv v = true -> has_type t v = true -> simple_ty t = true.
Proof.
  intros L H. rewrite <- simple_of_underlying.
  destruct v as [| | | | | | | | | |[y|]|[[t' y]|]|[l|]|]; try discriminate L; cbn [has_type] in H;
    destruct (underlying t); try discriminate H; reflexivity.
Qed.

Lemma simple_anyb t : simple_ty t = true -> anyb t = false.
Proof. intros H. unfold anyb. apply simple_ptr_base, H. Qed.

Lemma leaf_vsize v : is_leafv v = true -> vsize v = 1%nat /\ fsz v = 1%nat /\ no_ptr_to_nil v = true.
Proof. destruct v as [| | | | | | | | | |[y|]|[[t' y]|]|[l|]|]; intros L; try discriminate L; repeat split. Qed.

Lemma leaf_inv2 t v ts : is_leafv v = true -> has_type t v = true -> marshal default_opts t v = Ok ts ->
  equiv t v (normal t v) /\ marshal default_opts t (normal t v) = Ok ts.
Proof.
  intros L H Hm.
  destruct v as [b|z|n|b|b|s|n s| | | |[y|]|[[t' y]|]|[l|]|e]; try discriminate L; cbn [normal equiv];
    try (split; [reflexivity|exact Hm]).
  - cbn [marshal] in Hm |- *. destruct (f32_is_nan b) eqn:E.
    + split; [right; split; reflexivity|]. exact Hm.
    + split; [left; reflexivity|]. cbn [marshal]. rewrite E. exact Hm.
  - cbn [marshal] in Hm |- *. destruct (f64_is_nan b) eqn:E.
    + split; [right; split; reflexivity|]. exact Hm.
    + split; [left; reflexivity|]. cbn [marshal]. rewrite E. exact Hm.
  - split; [|exact Hm]. split; [reflexivity|]. cbn [has_type] in H.
    destruct (underlying t); try discriminate H.
    + apply andb_true_iff in H. destruct H as [_ H]. apply orb_true_iff in H. destruct H as [H|H].
      * left. apply negb_true_iff in H. symmetry. exact H.
      * right. destruct s; [reflexivity|discriminate H].
    + apply andb_true_iff in H. destruct H as [_ H]. left. apply negb_true_iff in H. symmetry. exact H.
Qed.

Lemma leaf_inv t v ts : is_leafv v = true -> has_type t v = true -> marshal default_opts t v = Ok ts ->
  Inv t v (normal t v) ts.
Proof.
  intros L H Hm. destruct (leaf_inv2 t v ts L H Hm) as [He Hm'].
  apply Inv_intro; [|exact He|exact Hm'].
  destruct v as [| | | | | | | | | | |[[t' y]|]| |]; try exact I. discriminate L.
Qed.

Lemma dec_is_any w : exists d, dec w = GAny d.
Proof.
  induction w as [t|ko kc items _|n w IH] using value_ind2.
  - cbn [dec]. unfold leaf_gval. destruct (kind t =? KNil); [eexists; reflexivity|].
    destruct (kind t =? KNaN); eexists; reflexivity.
  - cbn [dec]. destruct (ko =? KArray); [eexists; reflexivity|]. destruct (ko =? KObject); [eexists; reflexivity|].
    destruct (ko =? KMap); eexists; reflexivity.
  - exact IH.
Qed.

Lemma melems_lengthF e : forall l body, melems default_opts e l = Ok body -> (length l <= length body)%nat.
Proof.
  induction l as [|x l IH]; intros body Hm; [cbn; lia|].
  apply melems_cons_inv in Hm. destruct Hm as (a & b & Ha & Hb & ->).
  destruct (marshal_headF _ _ _ Ha) as (tk & r & -> & _).
  specialize (IH b Hb). rewrite app_length. cbn [length]. clear - IH. lia.
Qed.

Lemma mouts_lengthF : forall l outs body, typed_outs l outs = true -> mouts default_opts l outs = Ok body ->
  (length l <= length body)%nat.
Proof.
  induction l as [|x l IH]; intros outs body Ht Hm; [cbn; lia|].
  destruct outs as [|ot outs]; [discriminate Ht|].
  change (typed_outs (x :: l) (ot :: outs)) with (has_type ot x && typed_outs l outs) in Ht.
  apply andb_true_iff in Ht. destruct Ht as [_ Ht].
  rewrite mouts_cons_eq in Hm. apply bind_ok in Hm. destruct Hm as (a & Ha & Hm).
  apply bind_ok in Hm. destruct Hm as (b & Hb & Hm). injection Hm as <-.
  destruct (marshal_headF _ _ _ Ha) as (tk & r & -> & _).
  specialize (IH outs b Ht Hb). rewrite app_length. cbn [length]. clear - IH. lia.
Qed.

Lemma entries_lengthF kt vt : forall esP S, Forall2 (erel kt vt) esP S ->
  (length S <= length (flat_map fe S))%nat /\ length S = length esP.
Proof.
  induction 1 as [|p e esP S Hpe _ IH]; [split; reflexivity|].
  destruct Hpe as (Mk & Ek & _). destruct (marshal_headF _ _ _ Mk) as (tk & r & Es & _).
  cbn [flat_map length]. unfold fe at 1. rewrite Ek, Es, !app_length. cbn [length]. destruct IH as [IH1 IH2]. split; lia.
Qed.

Lemma Forall2_len {A B} (P : A -> B -> Prop) : forall l1 l2, Forall2 P l1 l2 -> length l1 = length l2.
Proof. induction 1 as [|x y l1 l2 _ _ IH]; [reflexivity|]. cbn [length]. rewrite IH. reflexivity. Qed.

Lemma Forall2_In_l {A B} (P : A -> B -> Prop) : forall l1 l2, Forall2 P l1 l2 ->
  forall a, In a l1 -> exists b, In b l2 /\ P a b.
Proof.
  induction 1 as [|x y l1 l2 Hxy _ IH]; intros a Ha; [contradiction|].
  destruct Ha as [<-|Ha]; [exists y; split; [left; reflexivity|exact Hxy]|].
  destruct (IH a Ha) as (b & Hb & Hab). exists b. split; [right; exact Hb|exact Hab].
Qed.
Lemma Forall2_In_r {A B} (P : A -> B -> Prop) : forall l1 l2, Forall2 P l1 l2 ->
  forall b, In b l2 -> exists a, In a l1 /\ P a b.
Proof.
  induction 1 as [|x y l1 l2 Hxy _ IH]; intros b Hb; [contradiction|].
  destruct Hb as [<-|Hb]; [exists x; split; [left; reflexivity|exact Hxy]|].
  destruct (IH b Hb) as (a & Ha & Hab). exists a. split; [right; exact Ha|exact Hab].
Qed.

Lemma eq_entries_l_intro kt vt D : forall es,
  (forall k x, In (k, x) es -> exists e', In e' D /\ equiv kt k (fst e') /\ equiv vt x (snd e')) ->
  eq_entries_l kt vt D es.
Proof.
  induction es as [|[k x] r IH]; intros H; [exact I|]. cbn [eq_entries_l]. split.
  - apply H. left. reflexivity.
  - apply IH. intros k0 x0 Hin. apply H. right. exact Hin.
Qed.
Lemma eq_entries_r_intro kt vt e' : forall es,
  (exists k x, In (k, x) es /\ equiv kt k (fst e') /\ equiv vt x (snd e')) -> eq_entries_r kt vt e' es.
Proof.
  induction es as [|[k x] r IH]; intros (k0 & x0 & Hin & Hk & Hx); [contradiction|]. cbn [eq_entries_r].
  destruct Hin as [E|Hin].
  - injection E as -> ->. left. split; assumption.
  - right. apply IH. exists k0, x0. repeat split; assumption.
Qed.

Lemma has_type_struct_inv t l : has_type t (GStruct l) = true ->
  exists fs, underlying t = TStruct fs /\ fields_typed l fs = true.
Proof. rewrite has_type_struct. destruct (underlying t); try discriminate. intros H. eexists. split; [reflexivity|exact H]. Qed.

Lemma has_type_map_inv t n es : has_type t (GMap n es) = true ->
  exists kt vt, underlying t = TMap kt vt /\
                (negb n || match es with [] => true | _ => false end) = true /\ typed_entries kt vt es = true.
Proof.
  rewrite has_type_map. destruct (underlying t); try discriminate. intros H. apply andb_true_iff in H.
  eexists _, _. split; [reflexivity|exact H].
Qed.

Lemma has_type_ptr_inv t p : has_type t (GPtr p) = true ->
  exists e, underlying t = TPtr e /\ match p with Some x => has_type e x = true | None => True end.
Proof.
  cbn [has_type]. destruct (underlying t); try (destruct p; discriminate). intros H.
  eexists. split; [reflexivity|]. destruct p; [exact H|exact I].
Qed.

Lemma has_type_any_inv t d : has_type t (GAny d) = true ->
  underlying t = TAny /\ match d with Some (t', x) => has_type t' x = true | None => True end.
Proof.
  cbn [has_type]. destruct (underlying t); try (destruct d as [[? ?]|]; discriminate). intros H.
  split; [reflexivity|]. destruct d as [[t' x]|]; [exact H|exact I].
Qed.

Lemma has_type_func_inv t r : has_type t (GFunc r) = true ->
  exists outs, underlying t = TFunc outs /\ match r with Some l => typed_outs l outs = true | None => True end.
Proof.
  rewrite has_type_func. destruct (underlying t); try (destruct r; discriminate). intros H.
  eexists. split; [reflexivity|]. destruct r; [exact H|exact I].
Qed.

Lemma reg_name_anyb t n : reg_name t = Some n -> ty_ok t = true -> anyb t = false.
Proof.
  destruct t; try discriminate. cbn [reg_name]. destruct reg; [|discriminate]. intros _. cbn [ty_ok]. intros H.
  apply andb_true_iff in H. destruct H as [_ H]. cbn [andb] in H. apply negb_true_iff in H. exact H.
Qed.

Section RoundTripF.
Variable pf : bytes -> N -> option N.
Variable o : copts.
Variable R : registry.

(* the leading TypeName tokens a target of type t skips by itself, and what is left *)
Definition lead (t : ty) (ts : list token) : list token := if anyb t then [] else leadl ts.
Definition stripT (t : ty) (ts : list token) : list token := if anyb t then ts else strip ts.

(* generalised as in Proofs/UnmarshalP.v over extra TypeName tokens in front of a target that
   skips them; an interface-based target sees its stream as it is *)
Definition rtF (v : gval) : Prop :=
  forall t ts, wf_ty t = true -> ty_ok t = true -> has_type t v = true -> dom R t v ->
    marshal default_opts t v = Ok ts ->
    forall pre f rest, forallb is_tn pre = true -> (anyb t = true -> pre = []) ->
    (length pre + 2 * fsz v + length ts < f + length (lead t ts))%nat ->
    exists v', unm pf f o R t (zero t) (pre ++ stripT t ts ++ rest) = Ok (v', rest) /\ Inv t v v' ts.

Lemma rt_elemF_one f L x : rtF x -> (2 * fsz x + L < f)%nat -> elemF R (unm pf f o R) L x.
Proof.
  intros Hx Hf ft a rest' Hwf Hok Ht Hd Hm HL.
  destruct (anyb ft) eqn:Ha.
  - specialize (Hx ft a Hwf Hok Ht Hd Hm [] f rest' eq_refl (fun _ => eq_refl)).
    unfold lead, stripT in Hx. rewrite Ha in Hx. cbn [app length] in Hx. apply Hx. clear - Hf HL. lia.
  - specialize (Hx ft a Hwf Hok Ht Hd Hm (leadl a) f rest' (leadl_tn a) ltac:(intros H; rewrite Ha in H; discriminate H)).
    unfold lead, stripT in Hx. rewrite Ha in Hx. rewrite app_assoc, leadl_strip in Hx. apply Hx. clear - Hf HL. lia.
Qed.

Lemma rt_elemF f L l : Forall rtF l -> (2 * lsz l + L < f)%nat -> Forall (elemF R (unm pf f o R) L) l.
Proof.
  induction 1 as [|x l Hx _ IH]; intros Hf; constructor.
  - apply rt_elemF_one; [exact Hx|]. rewrite lsz_cons in Hf. clear - Hf. lia.
  - apply IH. rewrite lsz_cons in Hf. clear - Hf. lia.
Qed.

Lemma rt_elemF_entries f L es : Forall (fun e => rtF (fst e) /\ rtF (snd e)) es -> (2 * esz es + L < f)%nat ->
  Forall (fun p => elemF R (unm pf f o R) L (fst p) /\ elemF R (unm pf f o R) L (snd p)) es.
Proof.
  induction 1 as [|e l [Hk Hx] _ IH]; intros Hf; constructor.
  - rewrite esz_cons in Hf. split; apply rt_elemF_one; try assumption; clear - Hf; lia.
  - apply IH. rewrite esz_cons in Hf. clear - Hf. lia.
Qed.

Lemma name_okF f s cur rest' : (1 <= f)%nat ->
  unm pf f o R TString cur (T KString (VStr s) :: rest') = Ok (GStr s, rest').
Proof. intros Hf. destruct f as [|f]; [lia|]. apply unm_name. Qed.

(* the composite kinds are never interface-based *)
Ltac not_anyb Hut := rewrite anyb_underlying, Hut; reflexivity.

Theorem roundtrip_full_all : forall v, rtF v.
Proof.
  induction v as [b|z|n|b|b|s|n s|n l IH|n es IH|l IH| |x IH| |t' x IH| |l IH|e] using gval_ind3;
    intros t ts Hwf Hok Hty Hd Hm pre f rest Hp Hpa Hf;
    pose proof (wf_underlying t Hwf) as Hwu; pose proof (ty_ok_underlying t Hok) as Hou.
  1-7,17: (* scalars, strings, bytes, time: the first universe *)
    match goal with |- context [Inv _ ?v _ _] =>
      assert (L : is_leafv v = true) by reflexivity;
      pose proof (leaf_simple t v L Hty) as Hs; pose proof (simple_anyb t Hs) as Ha;
      destruct (leaf_vsize v L) as (Hv1 & Hv2 & Hv3);
      exists (normal t v); split; [|exact (leaf_inv t v ts L Hty Hm)];
      unfold lead, stripT in *; rewrite Ha in *;
      apply (roundtrip_all pf o R v t ts Hwf Hs Hty Hv3 Hm pre f rest Hp); rewrite Hv1; rewrite Hv2 in Hf;
      clear - Hf; lia
    end.
  - (* list: array or slice *)
    rewrite has_type_list in Hty. rewrite marshal_list in Hm. rewrite dom_list_eq in Hd.
    apply bind_ok in Hm. destruct Hm as (ts0 & Hm & Hts). injection Hts as <-.
    apply bind_ok in Hm. destruct Hm as (body & Hm & Hts). injection Hts as <-.
    rewrite fsz_list in Hf.
    assert (Ha : anyb t = false) by (destruct (underlying t) eqn:Hut; try discriminate Hty; not_anyb Hut).
    unfold lead, stripT in *. rewrite Ha in *.
    set (tsall := reg_prefix t ++ T KArray VNone :: body ++ [T KArrayEnd VNone]) in *.
    assert (Hbl : (length body <= length tsall)%nat).
    { unfold tsall. rewrite app_length. cbn [length]. rewrite app_length. clear. lia. }
    assert (Hgoal : forall f1, (2 * S (lsz l) + length tsall <= S f1)%nat ->
              exists v', unm pf (S f1) o R t (zero t) ((T KArray VNone :: body ++ [T KArrayEnd VNone]) ++ rest) = Ok (v', rest) /\
                         Inv t (GList n l) v' tsall).
    { intros f' Hf'.
      pose proof (rt_elemF f' (length tsall) l IH ltac:(clear - Hf'; lia)) as Hel.
      pose proof (melems_lengthF _ _ _ Hm) as Hll.
      unfold elem_ty in Hm, Hd.
      destruct (underlying t) eqn:Hut; try discriminate Hty.
      + (* array *)
        cbn [wf_ty ty_ok] in Hwu, Hou.
        apply andb_true_iff in Hty. destruct Hty as [Hty Hall]. apply andb_true_iff in Hty. destruct Hty as [Hnn Hlen].
        apply Nat.eqb_eq in Hlen. apply negb_true_iff in Hnn. subst n.
        cbn [app]. rewrite (unm_array_step pf o R _ _ _ _ _ _ Hut).
        rewrite zero_underlying, Hut. cbn [zero items_of_gval]. rewrite <- Hlen.
        rewrite <- app_assoc. cbn [app].
        destruct (arr_loop_F R (unm pf f' o R) (length tsall) _ Hwu Hou l Hel Hall Hd body Hm Hbl
                    (S (length (body ++ T KArrayEnd VNone :: rest))) [] rest) as (l' & Hloop & Heq & Hml).
        { rewrite app_length. clear - Hll. lia. }
        cbn [app length] in Hloop. rewrite Hloop. cbn [bind fst snd].
        exists (GList false l'). split; [reflexivity|]. apply Inv_intro; [exact I| |].
        * rewrite equiv_list_eq. unfold elem_ty. rewrite Hut. split; [left; reflexivity|exact Heq].
        * rewrite marshal_list. unfold elem_ty. rewrite Hut, Hml. reflexivity.
      + (* slice *)
        cbn [wf_ty ty_ok] in Hwu, Hou.
        apply andb_true_iff in Hty. destruct Hty as [Hnn Hall].
        cbn [app]. rewrite (unm_slice_step pf o R _ _ _ _ _ Hut).
        rewrite zero_underlying, Hut. cbn [zero items_of_gval is_nil_container].
        rewrite <- app_assoc. cbn [app].
        destruct (slice_loop_F R (unm pf f' o R) (length tsall) _ Hwu Hou l Hel Hall Hd body Hm Hbl
                    (S (length (body ++ T KArrayEnd VNone :: rest))) [] rest) as (l' & Hloop & Heq & Hml).
        { rewrite app_length. clear - Hll. lia. }
        rewrite Hloop. cbn [bind fst snd app andb].
        eexists. split; [reflexivity|]. apply Inv_intro; [exact I| |].
        * rewrite equiv_list_eq. unfold elem_ty. rewrite Hut. split; [|exact Heq].
          destruct l as [|x0 l0]; [right; reflexivity|]. left.
          destruct l' as [|x0' l0']; [contradiction Heq|].
          apply orb_true_iff in Hnn. destruct Hnn as [Hnn|Hnn]; [|discriminate Hnn].
          apply negb_true_iff in Hnn. symmetry. exact Hnn.
        * rewrite marshal_list. unfold elem_ty. rewrite Hut, Hml. reflexivity. }
    apply (rt_nonptrF_ex pf o R (fun v' => Inv t (GList n l) v' tsall) f t (zero t) pre
             (T KArray VNone :: body ++ [T KArrayEnd VNone]) (T KArray VNone) (body ++ [T KArrayEnd VNone]) rest
             (2 * S (lsz l) + length tsall) eq_refl eq_refl Hp Ha); [clear; lia| |exact Hgoal].
    subst tsall. clear - Hf. lia.
  - (* map *)
    destruct (has_type_map_inv _ _ _ Hty) as (kt & vt & Hut & Hnn & Htes).
    rewrite marshal_map in Hm. rewrite dom_map_eq in Hd. unfold kv_ty in Hm, Hd. rewrite Hut in Hm, Hd.
    cbn [fst snd] in Hd. destruct Hd as (Hdiff & Hnoany & Hdes).
    apply bind_ok in Hm. destruct Hm as (ts0 & Hm & Hts). injection Hts as <-.
    apply bind_ok in Hm. destruct Hm as (es0 & Hm & Hts). injection Hts as <-.
    change (flat_map (fun e : list token * list token * list token => snd (fst e) ++ snd e)) with (flat_map fe) in *.
    rewrite fsz_map in Hf.
    rewrite Hut in Hwu, Hou. cbn [wf_ty ty_ok] in Hwu, Hou.
    apply andb_true_iff in Hwu. destruct Hwu as [Hwk Hwv].
    apply andb_true_iff in Hou. destruct Hou as [Hokk Hov].
    assert (Ha : anyb t = false) by not_anyb Hut.
    unfold lead, stripT in *. rewrite Ha in *.
    remember (sort_entries es0) as Srt eqn:ESrt.
    set (tsall := reg_prefix t ++ T KMap VNone :: flat_map fe Srt ++ [T KMapEnd VNone]) in *.
    assert (HbL : (length (flat_map fe Srt) <= length tsall)%nat).
    { unfold tsall. rewrite app_length. cbn [length]. rewrite app_length. clear. lia. }
    apply (rt_nonptrF_ex pf o R (fun v' => Inv t (GMap n es) v' tsall) f t (zero t) pre
             (T KMap VNone :: flat_map fe Srt ++ [T KMapEnd VNone]) (T KMap VNone) (flat_map fe Srt ++ [T KMapEnd VNone]) rest
             (2 * S (esz es) + length tsall) eq_refl eq_refl Hp Ha); [clear; lia|subst tsall; clear - Hf; lia|].
    intros f' Hf'.
    pose proof (mentries_rel kt vt es es0 Hm) as H2.
    assert (HpS : Permutation es0 Srt) by (subst Srt; apply Permutation_sym, sort_entries_perm).
    destruct (Forall2_perm _ es0 Srt HpS es H2) as (esP & HpP & H2P).
    pose proof (typed_entries_Forall kt vt es Htes) as Htf.
    assert (Hkeys : Forall (fun p => has_type kt (fst p) = true) es).
    { rewrite Forall_forall in Htf |- *. intros p Hp0. apply (Htf p Hp0). }
    destruct (sorted_entries kt vt es es0 Hwk Hnoany Hkeys Hdiff H2) as [Hsorted Hwsk]. rewrite <- ESrt in Hsorted, Hwsk.
    pose proof (rt_elemF_entries f' (length tsall) es IH ltac:(clear - Hf'; lia)) as Hel.
    pose proof (Permutation_Forall HpP Hel) as HelP.
    assert (Htd : Forall (fun p => (has_type kt (fst p) = true /\ dom R kt (fst p) /\ keyin (fst p) = true) /\
                                  has_type vt (snd p) = true /\ dom R vt (snd p)) es).
    { clear - Htf Hdes Hnoany. induction es as [|[k x] r IHr]; [constructor|].
      inversion Htf as [|? ? [H1 H2] Hr]; subst. destruct Hdes as [[Hdk Hdx] Hdr].
      cbn [map forallb fst] in Hnoany. apply andb_true_iff in Hnoany. destruct Hnoany as [Hn1 Hn2].
      constructor; [repeat split; assumption|apply IHr; assumption]. }
    pose proof (Permutation_Forall HpP Htd) as HtdP.
    destruct (entries_lengthF kt vt esP Srt H2P) as [Hlen1 Hlen2].
    cbn [app]. rewrite (unm_map_step pf o R _ _ _ _ _ _ Hut).
    rewrite zero_underlying, Hut. cbn [zero fst snd]. rewrite <- app_assoc. cbn [app].
    destruct (map_loop_F R (unm pf f' o R) (length tsall) kt vt Hwk Hokk Hwv Hov esP Srt H2P HelP HtdP Hsorted HbL
                (S (length (flat_map fe Srt ++ T KMapEnd VNone :: rest))) true [] rest) as (D & Hloop & HD & HmD).
    { rewrite app_length. clear - Hlen1. lia. }
    { constructor. }
    cbn [app] in Hloop. rewrite Hloop.
    eexists. split; [reflexivity|]. apply Inv_intro; [exact I| |].
    + rewrite equiv_map_eq. unfold kv_ty. rewrite Hut. cbn [fst snd].
      pose proof (Permutation_length HpP) as HlenP.
      pose proof (Forall2_len _ _ _ HD) as HlenD.
      split; [|split; [clear - HlenP HlenD; lia|split]].
      * destruct es as [|e0 es']; [right; reflexivity|left].
        destruct Srt as [|s0 Srt']; [cbn [length] in Hlen2, HlenP; clear - Hlen2 HlenP; lia|]. cbn [andb].
        apply orb_true_iff in Hnn. destruct Hnn as [Hnn|Hnn]; [|discriminate Hnn].
        apply negb_true_iff in Hnn. symmetry. exact Hnn.
      * apply eq_entries_l_intro. intros k x Hin.
        pose proof (Permutation_in _ HpP Hin) as HinP.
        destruct (Forall2_In_l _ _ _ HD _ HinP) as (q & Hq & Hkq & Hxq). exists q. repeat split; assumption.
      * rewrite Forall_forall. intros q Hq. apply eq_entries_r_intro.
        destruct (Forall2_In_r _ _ _ HD _ Hq) as ([k x] & Hin & Hkq & Hxq). exists k, x.
        split; [apply (Permutation_in _ (Permutation_sym HpP) Hin)|split; assumption].
    + rewrite marshal_map. unfold kv_ty. rewrite Hut. cbv beta iota. rewrite HmD. cbn [bind].
      rewrite (sort_sorted Srt Hwsk Hsorted). reflexivity.
  - (* struct *)
    destruct (has_type_struct_inv _ _ Hty) as (fs & Hut & Htf).
    rewrite marshal_struct in Hm. rewrite dom_struct_eq in Hd. unfold fields_of in Hm, Hd. rewrite Hut in Hm, Hd.
    apply bind_ok in Hm. destruct Hm as (ts0 & Hm & Hts). injection Hts as <-.
    apply bind_ok in Hm. destruct Hm as (body & Hm & Hts). injection Hts as <-.
    rewrite fsz_struct in Hf. rewrite Hut in Hwu, Hou.
    assert (Ha : anyb t = false) by not_anyb Hut.
    unfold lead, stripT in *. rewrite Ha in *.
    set (tsall := reg_prefix t ++ T KObject VNone :: body ++ [T KObjectEnd VNone]) in *.
    assert (Hbl : (length body <= length tsall)%nat).
    { unfold tsall. rewrite app_length. cbn [length]. rewrite app_length. clear. lia. }
    apply (rt_nonptrF_ex pf o R (fun v' => Inv t (GStruct l) v' tsall) f t (zero t) pre
             (T KObject VNone :: body ++ [T KObjectEnd VNone]) (T KObject VNone) (body ++ [T KObjectEnd VNone]) rest
             (2 * S (lsz l) + length tsall) eq_refl eq_refl Hp Ha); [clear; lia|subst tsall; clear - Hf; lia|].
    intros f' Hf'.
    pose proof (rt_elemF f' (length tsall) l IH ltac:(clear - Hf'; lia)) as Hel.
    rewrite wf_ty_struct in Hwu. apply andb_true_iff in Hwu. destruct Hwu as [Hwfs Hnd].
    cbn [ty_ok] in Hou.
    cbn [app]. rewrite (unm_struct_step pf o R _ _ _ _ _ Hut).
    rewrite zero_underlying, Hut. cbn [zero]. rewrite <- app_assoc. cbn [app].
    assert (Hnm : forall s cur rest', unm pf f' o R TString cur (T KString (VStr s) :: rest') = Ok (GStr s, rest'))
      by (intros; apply name_okF; clear - Hf'; lia).
    destruct (struct_loop_F o R (unm pf f' o R) Hnm (length tsall) l Hel fs [] fs [] body eq_refl Hnd Hwfs Hou Htf Hd Hm Hbl
                eq_refl (S (length (body ++ T KObjectEnd VNone :: rest))) (depr_of t) rest) as (l' & Hloop & Heq & Hml).
    { rewrite app_length. clear. lia. }
    cbn [app] in Hloop. rewrite Hloop. cbn [bind fst snd].
    exists (GStruct l'). split; [reflexivity|]. apply Inv_intro; [exact I| |].
    + rewrite equiv_struct_eq. unfold fields_of. rewrite Hut. exact Heq.
    + rewrite marshal_struct. unfold fields_of. rewrite Hut, Hml. reflexivity.
  - (* nil pointer *)
    destruct (has_type_ptr_inv _ _ Hty) as (e & Hut & _).
    cbn [marshal bind] in Hm. injection Hm as <-.
    exists (GPtr None). split; [|apply Inv_intro; [exact I|reflexivity|reflexivity]].
    unfold lead, stripT in *. destruct (anyb t) eqn:Ha.
    + pose proof (Hpa eq_refl) as Epre. subst pre. rewrite (ty_ok_anyb_prefix t Hok Ha) in *. cbn [app length] in *.
      destruct f as [|f1]; [clear - Hf; lia|].
      rewrite nil_leaves_untouched by (rewrite Hut; discriminate). rewrite zero_underlying, Hut. reflexivity.
    + apply (rt_nonptrF pf o R f t (zero t) pre [T KNil VNone] (T KNil VNone) [] rest (GPtr None, rest) 1 eq_refl eq_refl Hp Ha);
        [clear; lia|cbn [fsz] in Hf; clear - Hf; lia|].
      intros f1 _. cbn [app]. rewrite nil_leaves_untouched by (rewrite Hut; discriminate).
      rewrite zero_underlying, Hut. reflexivity.
  - (* non-nil pointer *)
    destruct (has_type_ptr_inv _ _ Hty) as (e & Hut & Htx).
    rewrite marshal_ptr in Hm. unfold pointee_ty in Hm. rewrite Hut in Hm.
    apply bind_ok in Hm. destruct Hm as (tsx & Hm & Hts). injection Hts as <-.
    cbn [dom] in Hd. unfold pointee_ty in Hd. rewrite Hut in Hd. destruct Hd as [Hnil Hdx].
    rewrite Hut in Hwu, Hou. cbn [wf_ty ty_ok] in Hwu, Hou.
    assert (Hae : anyb e = anyb t) by (rewrite (anyb_underlying t), Hut; reflexivity).
    assert (Hinv : forall x', Inv e x x' tsx -> Inv t (GPtr (Some x)) (GPtr (Some x')) (reg_prefix t ++ tsx)).
    { intros x' (He & Hmx & _). apply Inv_intro; [exact I| |].
      - cbn [equiv]. unfold pointee_ty. rewrite Hut. exact He.
      - rewrite marshal_ptr. unfold pointee_ty. rewrite Hut, Hmx. reflexivity. }
    cbn [fsz] in Hf. unfold lead, stripT in *. destruct (anyb t) eqn:Ha.
    + (* interface-based: no TypeName is skipped, the pointee sees the same stream *)
      pose proof (Hpa eq_refl) as Epre. subst pre. rewrite (ty_ok_anyb_prefix t Hok Ha) in *. cbn [app length] in *.
      destruct (marshal_headF _ _ _ Hm) as (tk0 & r0 & E0 & Hh0 & Hnil0).
      destruct f as [|f1]; [clear - Hf; lia|].
      destruct (IH e tsx Hwu Hou Htx Hdx Hm [] f1 rest eq_refl (fun _ => eq_refl)) as (x' & Hux & Hix).
      { unfold lead. rewrite Hae. cbn [length]. clear - Hf. lia. }
      unfold stripT in Hux. rewrite Hae in Hux. cbn [app] in Hux.
      exists (GPtr (Some x')). split; [|apply Hinv, Hix].
      rewrite E0 in Hux |- *. cbn [app] in Hux |- *.
      rewrite (unm_ptr_stepF pf o R f1 t e _ tk0 _ Hut Hh0).
      * rewrite Hux. reflexivity.
      * rewrite Ha. apply andb_false_r.
      * intros Hk. apply Hnil0 in Hk. rewrite Hk in Hnil. discriminate Hnil.
    + destruct (strip_headF _ _ _ Hm) as (Hlead & tk & r & E & Hh & Htn & Hnilk).
      rewrite strip_prefix. rewrite leadl_prefix in Hf. pose proof (reg_prefix_len t) as Hpl.
      rewrite app_length in Hf.
      destruct (f - length pre)%nat as [|f1] eqn:Ef; [clear - Hf Hlead Hpl Ef; lia|].
      destruct (IH e tsx Hwu Hou Htx Hdx Hm [] f1 rest eq_refl (fun _ => eq_refl)) as (x' & Hux & Hix).
      { unfold lead. rewrite Hae. cbn [length]. clear - Hf Hlead Hpl Ef. lia. }
      unfold stripT in Hux. rewrite Hae in Hux. cbn [app] in Hux.
      exists (GPtr (Some x')). split; [|apply Hinv, Hix].
      apply unm_skip_tnsF; [exact Ha|exact Hp|clear - Hf Hlead Hpl; lia|]. rewrite Ef.
      rewrite E in Hux |- *. cbn [app] in Hux |- *.
      rewrite (unm_ptr_stepF pf o R f1 t e _ tk _ Hut Hh).
      * rewrite Hux. reflexivity.
      * unfold is_tn in Htn. rewrite Htn. reflexivity.
      * intros Hk. apply Hnilk in Hk. rewrite Hk in Hnil. discriminate Hnil.
  - (* nil interface *)
    destruct (has_type_any_inv _ _ Hty) as (Hut & _).
    assert (Ha : anyb t = true) by (rewrite anyb_underlying, Hut; reflexivity).
    pose proof (ty_ok_anyb_prefix t Hok Ha) as Hpre0.
    pose proof (Hpa Ha) as Epre. subst pre. unfold lead, stripT in *. rewrite Ha in *.
    rewrite (unm_named_any pf o R t Hut), zero_underlying, Hut. cbn [zero].
    cbn [marshal bind] in Hm. rewrite Hpre0 in Hm. cbn [app] in Hm. injection Hm as <-.
    cbn [app length] in *. destruct f as [|f1]; [clear - Hf; lia|].
    exists (GAny None). split; [apply nil_leaves_untouched; discriminate|].
    apply Inv_intro; [exact I|reflexivity|]. cbn [marshal bind]. rewrite Hpre0. reflexivity.
  - (* non-nil interface *)
    destruct (has_type_any_inv _ _ Hty) as (Hut & Htx).
    assert (Ha : anyb t = true) by (rewrite anyb_underlying, Hut; reflexivity).
    pose proof (ty_ok_anyb_prefix t Hok Ha) as Hpre0.
    assert (HmT : forall d, marshal default_opts t (GAny d) = marshal default_opts TAny (GAny d))
      by (intros d; cbn [marshal]; rewrite Hpre0; reflexivity).
    pose proof (Hpa Ha) as Epre. subst pre. unfold lead, stripT in *. rewrite Ha in *.
    rewrite (unm_named_any pf o R t Hut), zero_underlying, Hut. cbn [zero].
    rewrite HmT in Hm.
    cbn [marshal] in Hm. apply bind_ok in Hm. destruct Hm as (tsx & Hm & Hts). cbn [reg_prefix app] in Hts.
    injection Hts as <-.
    cbn [app length fsz] in *.
    cbn [dom] in Hd. destruct (reg_name t') as [nm|] eqn:Hrn.
    + (* a registered defined type the registry knows: decoded at that type *)
      destruct Hd as (Hreg & Hwf' & Hok' & Hdx).
      pose proof (reg_name_prefix t' nm Hrn) as Hpre.
      pose proof (reg_name_anyb t' nm Hrn Hok') as Ha'.
      destruct (marshal_inv _ _ _ _ Hm) as (bodyx & _ & Etsx). rewrite Hpre in Etsx. cbn [app] in Etsx. subst tsx.
      destruct f as [|f1]; [clear - Hf; lia|].
      destruct (IH t' _ Hwf' Hok' Htx Hdx Hm (leadl bodyx) f1 rest (leadl_tn bodyx)
                  ltac:(intros H; rewrite Ha' in H; discriminate H)) as (x' & Hux & Hix).
      { unfold lead. rewrite Ha'. cbn [leadl]. change (is_tn (T KTypeName (VStr nm))) with true.
        cbn beta iota. cbn [length] in Hf |- *. clear - Hf. lia. }
      unfold stripT in Hux. rewrite Ha' in Hux. cbn [strip] in Hux.
      change (is_tn (T KTypeName (VStr nm))) with true in Hux. cbn beta iota in Hux.
      rewrite app_assoc, leadl_strip in Hux.
      exists (GAny (Some (t', x'))). split.
      * cbn [app]. rewrite (unm_any_tn pf o R f1 _ nm t' _ Hreg). rewrite Hux. reflexivity.
      * destruct Hix as (_ & Hmx & _).
        split; [|split; [rewrite HmT|]]; [cbn [equiv marshal]; rewrite ?Hm, ?Hmx; reflexivity..|].
        intros Hk. exfalso. cbn [keyin] in Hk. apply andb_true_iff in Hk. destruct Hk as [_ Hk]. rewrite Hm in Hk.
        destruct bodyx; [exact (marshal_not_single_tn _ _ _ Hm)|discriminate Hk].
    + (* a value of the canonical schema-less domain: Proofs/AnyP.v *)
      destruct (any_stream_ok_inv _ _ Hd) as (w & Hw & Hmw). rewrite Hm in Hmw. injection Hmw as ->.
      exists (dec w). split.
      * apply (any_unm pf o R w f rest Hw). clear - Hf. lia.
      * destruct (dec_is_any w) as (d & Ed). pose proof (any_marshal R w Hw) as Hmd. rewrite Ed in *.
        split; [|split; [rewrite HmT; exact Hmd|]].
        -- cbn [equiv]. rewrite Hmd. cbn [marshal]. rewrite Hm. reflexivity.
        -- intros Hk. rewrite <- Ed. exact (keyin_dec t' x w Hk Hm Hw).
  - (* nil func: no results *)
    destruct (has_type_func_inv _ _ Hty) as (outs & Hut & _).
    cbn [dom] in Hd. unfold outs_of in Hd. rewrite Hut in Hd. subst outs.
    cbn [marshal ignore_funcs default_opts bind] in Hm. injection Hm as <-.
    assert (Ha : anyb t = false) by not_anyb Hut.
    unfold lead, stripT in *. rewrite Ha in *.
    apply (rt_nonptrF_ex pf o R (fun v' => Inv t (GFunc None) v' (reg_prefix t ++ [T KTuple VNone; T KTupleEnd VNone]))
             f t (zero t) pre [T KTuple VNone; T KTupleEnd VNone] (T KTuple VNone) [T KTupleEnd VNone] rest
             1 eq_refl eq_refl Hp Ha); [clear; lia|cbn [fsz] in Hf; clear - Hf; lia|].
    intros f1 _. cbn [app]. rewrite (unm_func_step pf o R _ _ _ _ _ Hut). cbn [tuple_loop kind].
    change (KTupleEnd =? KTupleEnd) with true. cbn [bind length Nat.ltb Nat.leb Nat.eqb].
    exists (GFunc (Some [])). split; [reflexivity|]. apply Inv_intro; [exact I|right; reflexivity|].
    rewrite marshal_func. cbn [ignore_funcs default_opts]. unfold outs_of. rewrite Hut. reflexivity.
  - (* func *)
    destruct (has_type_func_inv _ _ Hty) as (outs & Hut & Hto).
    rewrite marshal_func in Hm. rewrite dom_func_eq in Hd. unfold outs_of in Hm, Hd. rewrite Hut in Hm, Hd.
    cbn [ignore_funcs default_opts] in Hm.
    apply bind_ok in Hm. destruct Hm as (ts0 & Hm & Hts). injection Hts as <-.
    apply bind_ok in Hm. destruct Hm as (body & Hm & Hts). injection Hts as <-.
    rewrite fsz_func in Hf. rewrite Hut in Hwu, Hou. cbn [wf_ty ty_ok] in Hwu, Hou.
    apply andb_true_iff in Hou. destruct Hou as [Hou H50]. apply Nat.leb_le in H50.
    assert (Ha : anyb t = false) by not_anyb Hut.
    unfold lead, stripT in *. rewrite Ha in *.
    set (tsall := reg_prefix t ++ T KTuple VNone :: body ++ [T KTupleEnd VNone]) in *.
    assert (Hbl : (length body <= length tsall)%nat).
    { unfold tsall. rewrite app_length. cbn [length]. rewrite app_length. clear. lia. }
    apply (rt_nonptrF_ex pf o R (fun v' => Inv t (GFunc (Some l)) v' tsall) f t (zero t) pre
             (T KTuple VNone :: body ++ [T KTupleEnd VNone]) (T KTuple VNone) (body ++ [T KTupleEnd VNone]) rest
             (2 * S (lsz l) + length tsall) eq_refl eq_refl Hp Ha); [clear; lia|subst tsall; clear - Hf; lia|].
    intros f' Hf'.
    pose proof (rt_elemF f' (length tsall) l IH ltac:(clear - Hf'; lia)) as Hel.
    pose proof (mouts_lengthF _ _ _ Hto Hm) as Hll.
    cbn [app]. rewrite (unm_func_step pf o R _ _ _ _ _ Hut). rewrite <- app_assoc. cbn [app].
    destruct (tuple_loop_F R (unm pf f' o R) (length tsall) l Hel outs body Hwu Hou Hto Hd Hm Hbl
                (S (length (body ++ T KTupleEnd VNone :: rest))) [] [] rest) as (l' & Hloop & Heq & Hml & Hlen).
    { rewrite app_length. clear - Hll. lia. }
    rewrite Hloop. cbn [bind app].
    assert (E50 : Nat.ltb 50 (length l') = false) by (apply Nat.ltb_ge; rewrite Hlen; exact H50).
    rewrite E50, Hlen, Nat.eqb_refl.
    exists (GFunc (Some l')). split; [reflexivity|]. apply Inv_intro; [exact I| |].
    + rewrite equiv_func_eq. unfold outs_of. rewrite Hut. exact Heq.
    + rewrite marshal_func. cbn [ignore_funcs default_opts]. unfold outs_of. rewrite Hut, Hml. reflexivity.
Qed.

End RoundTripF.
(* ====================================================================================== *)
(* Part 8.  C01 on the full universe                                                        *)
(* ====================================================================================== *)

(* with an explicit fuel bound; the last conjunct is a bonus: marshalling the result again gives
   the identical stream *)
Theorem roundtrip_full_partial_fuel pf o R t v ts rest f :
  wf_ty t = true -> ty_ok t = true -> has_type t v = true -> dom R t v ->
  marshal default_opts t v = Ok ts -> (2 * fsz v + length ts < f)%nat ->
  exists v', unm pf f o R t (zero t) (ts ++ rest) = Ok (v', rest) /\ equiv t v v' /\
             marshal default_opts t v' = Ok ts.
Proof.
  intros Hwf Hok Ht Hd Hm Hf.
  destruct (rt_elemF_one pf o R f (length ts) v (roundtrip_full_all pf o R v) ltac:(lia) t ts rest Hwf Hok Ht Hd Hm (le_n _))
    as (v' & Hu & He & Hmv & _).
  exists v'. repeat split; assumption.
Qed.

(* the statement in the shape of the property ([no_ptr_to_nil] is kept for the shape: on the
   positions that are on the wire it is implied by the pointer clause of [dom]) *)
Theorem roundtrip_full_partial pf o R t v ts rest :
  wf_ty t = true -> ty_ok t = true -> has_type t v = true -> no_ptr_to_nil v = true -> dom R t v ->
  marshal default_opts t v = Ok ts ->
  exists f v', unm pf f o R t (zero t) (ts ++ rest) = Ok (v', rest) /\ equiv t v v'.
Proof.
  intros Hwf Hok Ht _ Hd Hm.
  destruct (roundtrip_full_partial_fuel pf o R t v ts rest (S (2 * fsz v + length ts)) Hwf Hok Ht Hd Hm ltac:(lia))
    as (v' & Hu & He & _).
  exists (S (2 * fsz v + length ts)), v'. split; assumption.
Qed.

(* every sufficient fuel gives the same result *)
Corollary roundtrip_full_partial_stable pf o R t v ts rest :
  wf_ty t = true -> ty_ok t = true -> has_type t v = true -> dom R t v ->
  marshal default_opts t v = Ok ts ->
  exists v', equiv t v v' /\ marshal default_opts t v' = Ok ts /\
             forall f, (2 * fsz v + length ts < f)%nat -> unm pf f o R t (zero t) (ts ++ rest) = Ok (v', rest).
Proof.
  intros Hwf Hok Ht Hd Hm.
  destruct (roundtrip_full_partial_fuel pf o R t v ts rest (S (2 * fsz v + length ts)) Hwf Hok Ht Hd Hm ltac:(lia))
    as (v' & Hu & He & Hmv).
  exists v'. split; [exact He|]. split; [exact Hmv|]. intros f Hf.
  apply (unm_fuel_mono pf o R _ _ _ _ _ Hu); [discriminate|lia].
Qed.

(* ---- a concrete value: a struct with a map of two entries (one nil slice value), an interface
        holding an int, a tuple func with two results, a pointer to a map with a NaN value, an
        interface holding a value of a REGISTERED struct type that itself has an interface field
        holding a []any, an unexported field, a nil func without results, a map keyed by structs
        (with an unexported field), a field of a defined interface type holding a defined int, a map
        with interface keys (a string, a defined int, nil) ---- *)
Definition ExReg : ty := TNamed [73] true [] (TStruct [([88], true, TInt WNat); ([89], true, TAny)]).
Definition ExRegistry : registry := [([73], ExReg)].
Definition ExFull : ty :=
  TStruct [([77], true, TMap TString (TSlice (TInt W8)));
           ([65], true, TAny);
           ([70], true, TFunc [TInt WNat; TString]);
           ([80], true, TPtr (TMap (TInt WNat) TF64));
           ([82], true, TAny);
           ([117], false, TInt WNat);
           ([71], true, TFunc []);
           ([75], true, TMap (TStruct [([88], true, TInt W8); ([121], false, TString)]) (TPtr TBool));
           ([78], true, TNamed [78] false [] TAny);
           ([73], true, TMap TAny TString)].
Definition ex_full : gval :=
  GStruct [GMap false [(GStr [98], GList false [GInt 1; GInt 2]); (GStr [97], GList true [])];
           GAny (Some (TInt WNat, GInt 42));
           GFunc (Some [GInt 7; GStr [104; 105]]);
           GPtr (Some (GMap false [(GInt 3, GF64 9221120237041090562); (GInt (-1), GF64 0)]));
           GAny (Some (ExReg, GStruct [GInt 5;
                                       GAny (Some (TSlice TAny, GList false [GAny (Some (TBool, GBool true)); GAny None]))]));
           GInt 9;
           GFunc None;
           GMap false [(GStruct [GInt 2; GStr [7]], GPtr (Some (GBool true))); (GStruct [GInt (-2); GStr [8]], GPtr None)];
           GAny (Some (TNamed [77] false [] (TInt W16), GInt 300));
           GMap false [(GAny (Some (TString, GStr [97])), GStr [1]);
                       (GAny (Some (TNamed [77] false [] (TInt WNat), GInt 5)), GStr [2]);
                       (GAny None, GStr [3])]].
Definition ex_full_ts : list token :=
  Eval vm_compute in match marshal default_opts ExFull ex_full with Ok ts => ts | _ => [] end.
(* what comes back: the map entries in key order, the empty slice nil, NaN canonical, the
   unexported field zero, the nil func as a func returning nothing *)
Definition ex_full_back : gval :=
  GStruct [GMap false [(GStr [97], GList true []); (GStr [98], GList false [GInt 1; GInt 2])];
           GAny (Some (TInt WNat, GInt 42));
           GFunc (Some [GInt 7; GStr [104; 105]]);
           GPtr (Some (GMap false [(GInt (-1), GF64 0); (GInt 3, GF64 f64_nan_bits)]));
           GAny (Some (ExReg, GStruct [GInt 5;
                                       GAny (Some (TSlice TAny, GList false [GAny (Some (TBool, GBool true)); GAny None]))]));
           GInt 0;
           GFunc (Some []);
           GMap false [(GStruct [GInt (-2); GStr []], GPtr None); (GStruct [GInt 2; GStr []], GPtr (Some (GBool true)))];
           GAny (Some (TInt W16, GInt 300));
           GMap false [(GAny None, GStr [3]); (GAny (Some (TString, GStr [97])), GStr [1]);
                       (GAny (Some (TInt WNat, GInt 5)), GStr [2])]].

Example roundtrip_full_ex_hyps :
  wf_ty ExFull = true /\ ty_ok ExFull = true /\ has_type ExFull ex_full = true /\
  no_ptr_to_nil ex_full = true /\ dom ExRegistry ExFull ex_full /\
  marshal default_opts ExFull ex_full = Ok ex_full_ts /\ length ex_full_ts = 65%nat.
Proof.
  split; [reflexivity|]. split; [reflexivity|]. split; [vm_compute; reflexivity|]. split; [reflexivity|].
  split; [|split; vm_compute; reflexivity].
  vm_compute. repeat first [split | intros _]; reflexivity.
Qed.

(* the theorem applied to it, and its conclusion computed: the decoded value is ex_full_back,
   so ex_full_back is equivalent to ex_full and has the same stream *)
Example roundtrip_full_ex_run :
  unm (fun _ _ => None) 200 (Opts false true false) ExRegistry ExFull (zero ExFull) (ex_full_ts ++ [T KBool (VBool true)])
  = Ok (ex_full_back, [T KBool (VBool true)]) /\
  equiv ExFull ex_full ex_full_back /\
  marshal default_opts ExFull ex_full_back = Ok ex_full_ts.
Proof.
  destruct roundtrip_full_ex_hyps as (H1 & H2 & H3 & _ & H5 & H6 & H7).
  destruct (roundtrip_full_partial_fuel (fun _ _ => None) (Opts false true false) ExRegistry ExFull ex_full ex_full_ts
              [T KBool (VBool true)] 200 H1 H2 H3 H5 H6) as (v' & Hu & He & Hm).
  { rewrite H7. vm_compute. lia. }
  assert (Hc : unm (fun _ _ => None) 200 (Opts false true false) ExRegistry ExFull (zero ExFull)
                 (ex_full_ts ++ [T KBool (VBool true)]) = Ok (ex_full_back, [T KBool (VBool true)]))
    by (vm_compute; reflexivity).
  rewrite Hc in Hu. injection Hu as <-. split; [reflexivity|]. split; assumption.
Qed.

Example roundtrip_full_ex_thm : forall pf o rest,
  exists f v', unm pf f o ExRegistry ExFull (zero ExFull) (ex_full_ts ++ rest) = Ok (v', rest) /\
               equiv ExFull ex_full v'.
Proof.
  intros pf o rest. destruct roundtrip_full_ex_hyps as (H1 & H2 & H3 & H4 & H5 & H6 & _).
  apply roundtrip_full_partial; assumption.
Qed.

(* a byte array inside an interface-typed key (the repaired half of witness 3): the Bytes token is
   decoded to a []byte and converted to a [2]byte by toComparable; the value comes back as it was *)
Definition ExBytesKeyT : ty := TMap TAny (TInt WNat).
Definition ex_bytes_key : gval := GMap false [(GAny (Some (TByteArray 2, GBytes false [1; 2])), GInt 5)].

Example roundtrip_bytes_key_in_any :
  (wf_ty ExBytesKeyT = true /\ ty_ok ExBytesKeyT = true /\ has_type ExBytesKeyT ex_bytes_key = true /\
   no_ptr_to_nil ex_bytes_key = true /\ dom [] ExBytesKeyT ex_bytes_key /\
   marshal default_opts ExBytesKeyT ex_bytes_key =
     Ok [T KMap VNone; T KBytes (VBytes [1; 2]); T KInt (VI WNat 5); T KMapEnd VNone]) /\
  unm (fun _ _ => None) 20 default_opts [] ExBytesKeyT (zero ExBytesKeyT)
      ([T KMap VNone; T KBytes (VBytes [1; 2]); T KInt (VI WNat 5); T KMapEnd VNone] ++ [T KBool (VBool true)])
    = Ok (ex_bytes_key, [T KBool (VBool true)]) /\
  (forall pf o R rest, exists f v',
     unm pf f o R ExBytesKeyT (zero ExBytesKeyT)
         ([T KMap VNone; T KBytes (VBytes [1; 2]); T KInt (VI WNat 5); T KMapEnd VNone] ++ rest) = Ok (v', rest) /\
     equiv ExBytesKeyT ex_bytes_key v').
Proof.
  assert (Hh : wf_ty ExBytesKeyT = true /\ ty_ok ExBytesKeyT = true /\ has_type ExBytesKeyT ex_bytes_key = true /\
               no_ptr_to_nil ex_bytes_key = true /\ dom [] ExBytesKeyT ex_bytes_key /\
               marshal default_opts ExBytesKeyT ex_bytes_key =
                 Ok [T KMap VNone; T KBytes (VBytes [1; 2]); T KInt (VI WNat 5); T KMapEnd VNone]).
  { split; [reflexivity|]. split; [reflexivity|]. split; [reflexivity|]. split; [reflexivity|].
    split; [|reflexivity]. vm_compute. repeat first [split | intros _]; reflexivity. }
  split; [exact Hh|]. split; [vm_compute; reflexivity|].
  intros pf o R rest. destruct Hh as (H1 & H2 & H3 & H4 & H5 & H6).
  assert (H5' : dom R ExBytesKeyT ex_bytes_key).
  { vm_compute. repeat first [split | intros _]; reflexivity. }
  exact (roundtrip_full_partial pf o R ExBytesKeyT ex_bytes_key _ rest H1 H2 H3 H4 H5' H6).
Qed.

(* ---- [equiv] extends the functional equivalence of the first universe: on simple types the
        value [normal t v] that Proofs/UnmarshalP.v proves to come back is equivalent to v ---- *)
Lemma leaf_equiv t v : is_leafv v = true -> has_type t v = true -> equiv t v (normal t v).
Proof.
  intros L H.
  destruct v as [b|z|n|b|b|s|n s| | | |[y|]|[[t' y]|]|[l|]|e]; try discriminate L; cbn [normal equiv];
    try reflexivity.
  - destruct (f32_is_nan b) eqn:E; [right; split; reflexivity|left; reflexivity].
  - destruct (f64_is_nan b) eqn:E; [right; split; reflexivity|left; reflexivity].
  - split; [reflexivity|]. cbn [has_type] in H. destruct (underlying t); try discriminate H.
    + apply andb_true_iff in H. destruct H as [_ H]. apply orb_true_iff in H. destruct H as [H|H].
      * left. apply negb_true_iff in H. symmetry. exact H.
      * right. destruct s; [reflexivity|discriminate H].
    + apply andb_true_iff in H. destruct H as [_ H]. left. apply negb_true_iff in H. symmetry. exact H.
Qed.

Theorem equiv_normal : forall v t, simple_ty t = true -> has_type t v = true -> equiv t v (normal t v).
Proof.
  induction v as [b|z|n|b|b|s|n s|n l IH|n es|l IH| |x IH|d|r|e] using gval_ind2; intros t Hs Hty;
    pose proof (simple_underlying t Hs) as Hsu;
    try (apply leaf_equiv; [reflexivity|exact Hty]).
  - (* list *)
    rewrite has_type_list in Hty. rewrite normal_list.
    assert (Hall : forall e, simple_ty e = true -> all_typed e l = true -> eq_list e l (map (normal e) l)).
    { clear Hty. intros e He. induction IH as [|x l Hx _ IHl]; intros Ht; [exact I|].
      change (all_typed e (x :: l)) with (has_type e x && all_typed e l) in Ht.
      apply andb_true_iff in Ht. destruct Ht as [Htx Htl]. cbn [map eq_list]. split; [apply Hx; assumption|apply IHl, Htl]. }
    destruct (underlying t) eqn:Hut; try discriminate Hty; cbn [simple_ty] in Hsu.
    + apply andb_true_iff in Hty. destruct Hty as [Hty Ht]. apply andb_true_iff in Hty. destruct Hty as [Hn _].
      apply negb_true_iff in Hn. subst n. rewrite equiv_list_eq. unfold elem_ty. rewrite Hut.
      split; [left; reflexivity|apply Hall; assumption].
    + apply andb_true_iff in Hty. destruct Hty as [Hn Ht]. rewrite equiv_list_eq. unfold elem_ty. rewrite Hut.
      split; [|apply Hall; assumption].
      destruct l as [|x0 l0]; [right; reflexivity|left].
      apply orb_true_iff in Hn. destruct Hn as [Hn|Hn]; [|discriminate Hn]. apply negb_true_iff in Hn.
      symmetry. exact Hn.
  - cbn [has_type] in Hty. destruct (underlying t); discriminate.
  - (* struct *)
    destruct (has_type_struct_inv _ _ Hty) as (fs & Hut & Htf). clear Hty.
    rewrite normal_struct, Hut. rewrite Hut in Hsu. cbn [simple_ty] in Hsu.
    rewrite equiv_struct_eq. unfold fields_of. rewrite Hut. clear Hut.
    revert fs Hsu Htf. induction IH as [|x l Hx _ IHl]; intros fs Hsf Ht.
    + destruct fs; [exact I|discriminate Ht].
    + destruct fs as [|fd fs]; [discriminate Ht|].
      change (fields_typed (x :: l) (fd :: fs)) with (has_type (snd fd) x && fields_typed l fs) in Ht.
      apply andb_true_iff in Ht. destruct Ht as [Htx Htl].
      cbn [forallb] in Hsf. apply andb_true_iff in Hsf. destruct Hsf as [Hsx Hsl].
      change (nfields (x :: l) (fd :: fs)) with ((if fexported fd then normal (snd fd) x else zero (snd fd)) :: nfields l fs).
      cbn [eq_fields]. split; [|apply IHl; assumption].
      destruct (fexported fd); [apply Hx; assumption|reflexivity].
  - reflexivity.
  - cbn [has_type] in Hty. destruct (underlying t) eqn:Hut; try discriminate Hty. cbn [simple_ty] in Hsu.
    cbn [normal]. rewrite Hut. cbn [equiv]. unfold pointee_ty. rewrite Hut. apply IH; assumption.
  - cbn [has_type] in Hty. destruct (underlying t); discriminate.
  - cbn [has_type] in Hty. destruct (underlying t); discriminate.
Qed.

(* ====================================================================================== *)
(* Part 9.  The edges: what [ty_ok] and [dom] cut away is really outside                    *)
(* ====================================================================================== *)

Lemma unm_only pf o R t cur ts f0 r : unm pf f0 o R t cur ts = r -> r <> OutOfFuel ->
  forall f, unm pf f o R t cur ts = OutOfFuel \/ unm pf f o R t cur ts = r.
Proof.
  intros H0 Hr f. destruct (Nat.le_ge_cases f f0) as [Hle|Hle].
  - destruct (unm pf f o R t cur ts) as [a|e|] eqn:E; [right|right|left; reflexivity].
    + rewrite <- H0. symmetry. apply (unm_fuel_mono pf o R f t cur ts _ E); [discriminate|exact Hle].
    + rewrite <- H0. symmetry. apply (unm_fuel_mono pf o R f t cur ts _ E); [discriminate|exact Hle].
  - right. apply (unm_fuel_mono pf o R f0 t cur ts r H0 Hr f Hle).
Qed.

(* "v is a typed value of t, well formed, without pointer to nil pointer, it marshals, and no
    amount of fuel makes the stream come back as a value equivalent to v" *)
Definition refutes (R : registry) (t : ty) (v : gval) : Prop :=
  wf_ty t = true /\ has_type t v = true /\ no_ptr_to_nil v = true /\
  exists ts, marshal default_opts t v = Ok ts /\
    forall f v', unm pf0 f default_opts R t (zero t) (ts ++ []) = Ok (v', []) -> ~ equiv t v v'.

Definition RegPtrAny : ty := TNamed [80] true [] (TPtr TAny).

Ltac refute_with r :=
  split; [reflexivity|]; split; [reflexivity|]; split; [reflexivity|];
  eexists; split; [vm_compute; reflexivity|];
  intros f v' H;
  match type of H with
  | unm ?pf f ?o ?R ?t ?cur ?ts = _ =>
      let Hc := fresh "Hc" in
      assert (Hc : unm pf 30 o R t cur ts = r) by (vm_compute; reflexivity);
      destruct (unm_only pf o R t cur ts 30 r Hc ltac:(discriminate) f) as [E|E];
      rewrite E in H; try discriminate H
  end.

Theorem roundtrip_full_refuted :
  (* 1. *any pointing at a nil interface: marshals to Nil, comes back as a nil pointer
        (the interface-typed variant of the known **T finding; cut away by [dom]: nilish) *)
  refutes [] (TPtr TAny) (GPtr (Some (GAny None))) /\
  (* 2. a REGISTERED defined type over *any (type P *any; sb.Register(P)): the target does not
        skip its own TypeName, the interface it points to looks P up and receives a P value;
        the interface position holds [Int 5] before and [TypeName P, Int 5] after
        (cut away by [ty_ok]) *)
  refutes [([80], RegPtrAny)] RegPtrAny (GPtr (Some (GAny (Some (TInt WNat, GInt 5))))) /\
  (* 3. map[any]int with an array of ints as key: marshals, but the key is decoded schema-less into
        a []any, which is unhashable: BadMapKey (cut away by [dom]: [keyin]; confirmed on the Go
        code and recorded as a finding.  The byte-array variant of it was repaired - toComparable in
        the typed map path - and is now the positive example roundtrip_bytes_key_in_any) *)
  refutes [] (TMap TAny (TInt WNat))
    (GMap false [(GAny (Some (TArray 2 (TInt WNat), GList false [GInt 1; GInt 2])), GInt 5)]) /\
  (* 4. a nil tuple func with results: marshals to the empty tuple, TooFew on the way back
        (the stated edge; cut away by [dom]) *)
  refutes [] (TFunc [TInt WNat]) (GFunc None) /\
  (* 5. an interface holding a struct with a nil pointer field: schema-less decoding rejects a Nil
        field value (the edge of Proofs/AnyP.v; cut away by [dom]: any_stream_ok) *)
  refutes [] TAny (GAny (Some (TStruct [([65], true, TPtr TBool)], GStruct [GPtr None]))) /\
  (* 6. the hypothesis on the registry is needed: an interface holding a value of a registered
        type the READER's registry does not know: the TypeName is dropped, the position holds
        [TypeName R, Int 5] before and [Int 5] after *)
  refutes [] TAny (GAny (Some (TNamed [82] true [] (TInt WNat), GInt 5))).
Proof.
  split; [|split; [|split; [|split; [|split]]]].
  - refute_with (@Ok (gval * list token) (GPtr None, [])).
    injection H as <-. intros He. exact He.
  - refute_with (@Ok (gval * list token)
                   (GPtr (Some (GAny (Some (RegPtrAny, GPtr (Some (GAny (Some (TInt WNat, GInt 5)))))))), [])).
    injection H as <-. intros He. cbn [equiv] in He. vm_compute in He. discriminate He.
  - refute_with (@Err (gval * list token) EBadMapKey).
  - refute_with (@Err (gval * list token) ETooFew).
  - refute_with (@Err (gval * list token) EEnd).
  - refute_with (@Ok (gval * list token) (GAny (Some (TInt WNat, GInt 5)), [])).
    injection H as <-. intros He. cbn [equiv] in He. vm_compute in He. discriminate He.
Qed.

(* the same six inputs against the hypotheses of the theorem: each violates exactly the clause
   named above *)
Example refuted_outside_domain :
  ~ dom [] (TPtr TAny) (GPtr (Some (GAny None))) /\
  ty_ok RegPtrAny = false /\
  ~ dom [] (TMap TAny (TInt WNat))
      (GMap false [(GAny (Some (TArray 2 (TInt WNat), GList false [GInt 1; GInt 2])), GInt 5)]) /\
  ~ dom [] (TFunc [TInt WNat]) (GFunc None) /\
  ~ dom [] TAny (GAny (Some (TStruct [([65], true, TPtr TBool)], GStruct [GPtr None]))) /\
  ~ dom [] TAny (GAny (Some (TNamed [82] true [] (TInt WNat), GInt 5))).
Proof.
  split; [intros [H _]; discriminate H|]. split; [reflexivity|].
  split; [intros (_ & H & _); discriminate H|].
  split; [intros H; discriminate H|]. split; [intros H; vm_compute in H; discriminate H|].
  intros (H & _). discriminate H.
Qed.

Definition RoundTripFullP_main_theorems :=
  (roundtrip_full_all, roundtrip_full_partial_fuel, roundtrip_full_partial, roundtrip_full_partial_stable,
   roundtrip_full_refuted, roundtrip_full_ex_hyps, roundtrip_full_ex_run, roundtrip_full_ex_thm,
   refuted_outside_domain, equiv_normal, roundtrip_bytes_key_in_any).
Print Assumptions RoundTripFullP_main_theorems.
