(* Proofs/TreeP.v — C12 (trees are faithful to their streams, hashes attached to nodes,
   lookup), C09 (the three ways of hashing agree) and C10 at tree level. *)
From Coq Require Import List NArith ZArith Bool Lia ZifyBool ZifyNat ZifyN.
From SbModel Require Import Base.Bytes Base.Tokens Base.Values Model.Hash Model.Tree Spec.TreeSpec.
From SbModel Require Import Proofs.HashP.
Import ListNotations.

(* ================================================================== *)
(* kinds                                                              *)
(* ================================================================== *)
Lemma open_cases k : is_open_kind k = true -> k = KArray \/ k = KObject \/ k = KMap \/ k = KTuple.
Proof. unfold is_open_kind. rewrite !orb_true_iff, !N.eqb_eq. tauto. Qed.

Lemma end_cases k : is_end_kind k = true ->
  k = KArrayEnd \/ k = KObjectEnd \/ k = KMapEnd \/ k = KTupleEnd.
Proof. unfold is_end_kind. rewrite !orb_true_iff, !N.eqb_eq. tauto. Qed.

Lemma end_not_open k : is_end_kind k = true -> is_open_kind k || (k =? KTypeName)%N = false.
Proof. intros Hk. destruct (end_cases k Hk) as [-> | [-> | [-> | ->]]]; reflexivity. Qed.

Lemma open_end_of k : is_open_kind k = true -> is_end_kind (end_of k) = true.
Proof. intros Hk. destruct (open_cases k Hk) as [-> | [-> | [-> | ->]]]; reflexivity. Qed.

Lemma open_not_name k : is_open_kind k = true -> (k =? KTypeName)%N = false.
Proof. intros Hk. destruct (open_cases k Hk) as [-> | [-> | [-> | ->]]]; reflexivity. Qed.

Lemma wf_comp_inv ko kc items : wf_value (Comp ko kc items) = true ->
  is_open_kind ko = true /\ is_end_kind kc = true /\ Forall (fun v => wf_value v = true) items.
Proof.
  cbn [wf_value]. rewrite !andb_true_iff, N.eqb_eq. intros [[Ho ->] Hi].
  repeat split; [assumption | apply open_end_of; assumption |].
  apply Forall_forall. apply forallb_forall. exact Hi.
Qed.

Lemma wf_named_inv n v : wf_value (Named n v) = true -> wf_value v = true.
Proof. cbn [wf_value]. rewrite andb_true_iff. tauto. Qed.

Lemma wf_leaf_inv t : wf_value (Leaf t) = true -> is_leaf_token t = true /\ wf_token t = true.
Proof. cbn [wf_value]. rewrite andb_true_iff. tauto. Qed.

Lemma leaf_token_inv t : is_leaf_token t = true ->
  is_open_kind (kind t) || (kind t =? KTypeName)%N = false /\ is_end_kind (kind t) = false.
Proof.
  unfold is_leaf_token. rewrite !andb_true_iff, !negb_true_iff. intros [[-> ->] ->]. split; reflexivity.
Qed.

(* ================================================================== *)
(* naming the nested fixpoints of the specification                   *)
(* ================================================================== *)
Fixpoint subs_of (hl : token -> option bytes) (i : nat) (kc : N) (j : nat) (l : list value) : list tree :=
  match l with
  | [] => [Node j (T kc VNone) (Some i) (hl (T kc VNone)) []]
  | x :: r => tree_of hl j x :: subs_of hl i kc (j + vlen x) r
  end.

Lemma tree_of_comp hl i ko kc items :
  tree_of hl i (Comp ko kc items) = Node i (T ko VNone) None None (subs_of hl i kc (S i) items).
Proof.
  cbn [tree_of]. f_equal. generalize (S i) as j.
  induction items as [|x r IH]; intros j; cbn [subs_of]; [reflexivity|]. f_equal. apply IH.
Qed.

Lemma vlen_comp ko kc items : vlen (Comp ko kc items) = S (length (flat_map flatten items) + 1).
Proof. unfold vlen. cbn [flatten length]. rewrite app_length. reflexivity. Qed.

Lemma vlen_pos v : 0 < vlen v.
Proof. unfold vlen. destruct v; cbn [flatten length]; lia. Qed.

(* ================================================================== *)
(* C12: iteration                                                     *)
(* ================================================================== *)
Lemma iter_subs_of hl i kc items :
  Forall (fun v => forall j, iter (tree_of hl j v) = flatten v) items ->
  forall j, flat_map iter (subs_of hl i kc j items) = flat_map flatten items ++ [T kc VNone].
Proof.
  induction 1 as [|x r Hx _ IH]; intros j; cbn [subs_of flat_map].
  - reflexivity.
  - rewrite Hx, IH, app_assoc. reflexivity.
Qed.

Theorem iter_tree_of hl i v : iter (tree_of hl i v) = flatten v.
Proof.
  revert i. induction v as [t|ko kc items IH|n v IH] using value_ind2; intros i.
  - reflexivity.
  - rewrite tree_of_comp. cbn [iter flatten]. f_equal. apply iter_subs_of. exact IH.
  - cbn [tree_of iter flatten flat_map]. rewrite IH, app_nil_r. reflexivity.
Qed.

Lemma iter_func_none_iter t : iter_func (fun _ => None) t = iter t.
Proof.
  induction t as [i tk p h subs IH] using tree_ind2. cbn [iter_func iter]. f_equal.
  induction IH as [|x r Hx _ IHr]; cbn [flat_map]; [reflexivity|]. rewrite Hx, IHr. reflexivity.
Qed.

Theorem iter_func_none hl i v : iter_func (fun _ => None) (tree_of hl i v) = flatten v.
Proof. rewrite iter_func_none_iter. apply iter_tree_of. Qed.

(* ================================================================== *)
(* the node stack up to pending filled type-name frames               *)
(* ================================================================== *)
Definition settle (st : list oframe) : list oframe := pop_filled (length st) st.

Lemma filled_tok f : is_filled_name f = true -> exists t, of_tok f = Some t.
Proof. unfold is_filled_name. destruct (of_tok f); [eauto|discriminate]. Qed.

Lemma pop_filled_top top p r : is_filled_name top = true ->
  exists n, pop (top :: p :: r) = add_sub n p :: r.
Proof.
  intros Hf. destruct (filled_tok _ Hf) as [t Ht]. unfold pop, close_frame. rewrite Ht. eauto.
Qed.

Lemma pop_filled_S f st :
  pop_filled (S f) st = match st with
                        | top :: _ :: _ => if is_filled_name top then pop_filled f (pop st) else st
                        | _ => st
                        end.
Proof. reflexivity. Qed.

Lemma pop_filled_fuel : forall f1 f2 st, length st <= f1 -> length st <= f2 ->
  pop_filled f1 st = pop_filled f2 st.
Proof.
  induction f1 as [|f1 IH]; intros f2 st H1 H2.
  - destruct st; [|cbn in H1; lia]. destruct f2; reflexivity.
  - destruct f2 as [|f2]. { destruct st; [reflexivity|cbn in H2; lia]. }
    destruct st as [|top [|p r]]; try reflexivity.
    rewrite !pop_filled_S. destruct (is_filled_name top) eqn:Hf; [|reflexivity].
    destruct (pop_filled_top top p r Hf) as [n Hn]. rewrite Hn.
    apply IH; cbn [length] in *; lia.
Qed.

Lemma settle_cons2 top p r :
  settle (top :: p :: r) = if is_filled_name top then settle (pop (top :: p :: r)) else top :: p :: r.
Proof.
  unfold settle at 1. cbn [length]. rewrite pop_filled_S. destruct (is_filled_name top) eqn:Hf; [|reflexivity].
  destruct (pop_filled_top top p r Hf) as [n Hn]. rewrite Hn.
  change (settle (add_sub n p :: r)) with (pop_filled (length (add_sub n p :: r)) (add_sub n p :: r)).
  apply pop_filled_fuel; cbn [length]; lia.
Qed.

Lemma settle_not_filled top r : is_filled_name top = false -> settle (top :: r) = top :: r.
Proof. intros Hf. destruct r as [|p r]; [reflexivity|]. rewrite settle_cons2, Hf. reflexivity. Qed.

Lemma settle_ind (P : list oframe -> list oframe -> Prop) :
  P [] [] -> (forall x, P [x] [x]) ->
  (forall top p r, is_filled_name top = false -> P (top :: p :: r) (top :: p :: r)) ->
  (forall top p r n, is_filled_name top = true -> pop (top :: p :: r) = add_sub n p :: r ->
     P (add_sub n p :: r) (settle (add_sub n p :: r)) -> P (top :: p :: r) (settle (add_sub n p :: r))) ->
  forall st, P st (settle st).
Proof.
  intros H0 H1 Hnf Hf st.
  remember (length st) as n eqn:Hn. revert st Hn.
  induction n as [n IH] using lt_wf_ind. intros st Hn.
  destruct st as [|top [|p r]]; [exact H0 | exact (H1 top) |].
  rewrite settle_cons2. destruct (is_filled_name top) eqn:Hft.
  - destruct (pop_filled_top top p r Hft) as [m Hm]. rewrite Hm.
    apply Hf; [assumption | assumption |].
    apply (IH (length (add_sub m p :: r))); [subst n; cbn [length]; lia | reflexivity].
  - apply Hnf. assumption.
Qed.

Lemma settle_idem st : settle (settle st) = settle st.
Proof.
  apply (settle_ind (fun _ s => settle s = s)); try reflexivity.
  - intros top p r Hf. apply settle_not_filled. assumption.
  - intros top p r n _ _ IH. exact IH.
Qed.

Lemma settle_nonempty st : st <> [] -> settle st <> [].
Proof.
  apply (settle_ind (fun st s => st <> [] -> s <> [])); try (intros; assumption).
  intros top p r n _ _ IH _. apply IH. discriminate.
Qed.

Lemma flush_settle st : flush (length (settle st)) (settle st) = flush (length st) st.
Proof.
  apply (settle_ind (fun st s => flush (length s) s = flush (length st) st)); try reflexivity.
  intros top p r n _ Hp IH. rewrite IH. cbn [length flush]. rewrite Hp. reflexivity.
Qed.

Lemma tree_finish_settle st h : tree_finish (settle st) h = tree_finish st h.
Proof. unfold tree_finish. rewrite flush_settle. reflexivity. Qed.

(* ---------------- one step ---------------- *)
Lemma tree_step_eq st i t h : tree_step st i t h =
  if is_open_kind (kind t) || (kind t =? KTypeName)%N then inl (OF i (Some t) h [] :: settle st)
  else if is_end_kind (kind t) then
    match settle st with
    | [_] | [] => inr EUnexpEndTok
    | top :: rest => inl (pop (add_sub (Node i t (Some (of_idx top)) h []) top :: rest))
    end
  else match settle st with
       | top :: rest => inl (add_sub (Node i t None h []) top :: rest)
       | [] => inr EOther
       end.
Proof. reflexivity. Qed.

Lemma tree_step_settle st i t h : tree_step (settle st) i t h = tree_step st i t h.
Proof. rewrite !tree_step_eq, settle_idem. reflexivity. Qed.

Definition push_sub (n : tree) (st : list oframe) : list oframe :=
  match st with top :: rest => add_sub n top :: rest | [] => [] end.

(* adding a finished value to the innermost open node *)
Definition add_value (n : tree) (st : list oframe) : list oframe := settle (push_sub n (settle st)).

Lemma tree_step_open st i t h : is_open_kind (kind t) || (kind t =? KTypeName)%N = true ->
  tree_step st i t h = inl (OF i (Some t) h [] :: settle st).
Proof. intros Hk. rewrite tree_step_eq, Hk. reflexivity. Qed.

Lemma tree_step_leaf st i t h : is_leaf_token t = true -> st <> [] ->
  tree_step st i t h = inl (push_sub (Node i t None h []) (settle st)).
Proof.
  intros Hl Hst. destruct (leaf_token_inv t Hl) as [Ho He]. rewrite tree_step_eq, Ho, He.
  pose proof (settle_nonempty st Hst) as Hne. destruct (settle st); [congruence|reflexivity].
Qed.

Lemma tree_step_end_single st i t h x : is_end_kind (kind t) = true -> settle st = [x] ->
  tree_step st i t h = inr EUnexpEndTok.
Proof. intros He Hs. rewrite tree_step_eq, (end_not_open _ He), He, Hs. reflexivity. Qed.

(* ---------------- runs, for any per-token labelling of the nodes ---------------- *)
Section Build.
Variable lab : token -> option bytes.
Hypothesis lab_open : forall t, is_open_kind (kind t) || (kind t =? KTypeName)%N = true -> lab t = None.

Fixpoint build_l (st : list oframe) (i : nat) (ts : list token) : list oframe + eclass :=
  match ts with
  | [] => inl st
  | t :: r => match tree_step st i t (lab t) with
              | inl st' => build_l st' (S i) r
              | inr e => inr e
              end
  end.

Definition run_l (st : list oframe) (i : nat) (ts : list token) : list oframe + eclass :=
  match build_l st i ts with inl st' => inl (settle st') | inr e => inr e end.

Lemma run_l_cons st i t r :
  run_l st i (t :: r) = match tree_step st i t (lab t) with
                        | inl st' => run_l st' (S i) r
                        | inr e => inr e
                        end.
Proof. unfold run_l. cbn [build_l]. destruct (tree_step st i t (lab t)); reflexivity. Qed.

Lemma run_l_nil st i : run_l st i [] = inl (settle st).
Proof. reflexivity. Qed.

Lemma run_l_settle st i ts : run_l (settle st) i ts = run_l st i ts.
Proof.
  destruct ts as [|t r]; [rewrite !run_l_nil, settle_idem; reflexivity|].
  rewrite !run_l_cons, tree_step_settle. reflexivity.
Qed.

Lemma run_l_app a : forall st i b,
  run_l st i (a ++ b) = match run_l st i a with
                        | inl st' => run_l st' (i + length a) b
                        | inr e => inr e
                        end.
Proof.
  induction a as [|t a IH]; intros st i b.
  - cbn [app length]. rewrite run_l_nil, run_l_settle, Nat.add_0_r. reflexivity.
  - cbn [app length]. rewrite !run_l_cons. destruct (tree_step st i t (lab t)) as [st'|e]; [|reflexivity].
    rewrite IH. replace (S i + length a) with (i + S (length a)) by lia. reflexivity.
Qed.

Definition consumes (v : value) : Prop :=
  forall i st, st <> [] -> run_l st i (flatten v) = inl (add_value (tree_of lab i v) st).

Lemma open_frame_not_filled i tok h acc : (kind tok =? KTypeName)%N = false ->
  is_filled_name (OF i (Some tok) h acc) = false.
Proof. intros Hk. unfold is_filled_name. cbn [of_tok]. rewrite Hk. reflexivity. Qed.

Lemma run_items kc items : is_end_kind kc = true -> Forall consumes items ->
  forall i tok h acc j top rest, (kind tok =? KTypeName)%N = false ->
  run_l (OF i (Some tok) h acc :: top :: rest) j (flat_map flatten items ++ [T kc VNone])
  = inl (settle (add_sub (Node i tok None h (rev acc ++ subs_of lab i kc j items)) top :: rest)).
Proof.
  intros Hkc Hall. induction Hall as [|x r Hx _ IH]; intros i tok h acc j top rest Hk.
  - cbn [flat_map app subs_of]. rewrite run_l_cons, tree_step_eq. cbn [kind].
    rewrite (end_not_open _ Hkc), Hkc.
    rewrite (settle_not_filled _ _ (open_frame_not_filled i tok h acc Hk)).
    rewrite run_l_nil. reflexivity.
  - cbn [flat_map subs_of]. rewrite <- app_assoc, run_l_app.
    rewrite Hx by discriminate. unfold add_value.
    rewrite (settle_not_filled _ _ (open_frame_not_filled i tok h acc Hk)).
    cbn [push_sub]. unfold add_sub at 1. cbn [of_idx of_tok of_hash of_subs].
    rewrite (settle_not_filled _ _ (open_frame_not_filled i tok h _ Hk)).
    rewrite IH by assumption. cbn [rev]. rewrite <- app_assoc. reflexivity.
Qed.

Theorem run_value v : wf_value v = true -> consumes v.
Proof.
  induction v as [t|ko kc items IH|n v IH] using value_ind2; intros Hwf i st Hst.
  - apply wf_leaf_inv in Hwf. destruct Hwf as [Hl _].
    cbn [flatten tree_of]. rewrite run_l_cons, (tree_step_leaf _ _ _ _ Hl Hst), run_l_nil. reflexivity.
  - destruct (wf_comp_inv _ _ _ Hwf) as (Ho & Hc & Hi).
    assert (Hall : Forall consumes items).
    { apply Forall_forall. intros x Hx. rewrite Forall_forall in IH, Hi. apply IH; auto. }
    rewrite tree_of_comp. cbn [flatten].
    assert (Hopen : is_open_kind (kind (T ko VNone)) || (kind (T ko VNone) =? KTypeName)%N = true).
    { cbn [kind]. rewrite Ho. reflexivity. }
    rewrite run_l_cons, (tree_step_open _ _ _ _ Hopen), (lab_open _ Hopen).
    pose proof (settle_nonempty st Hst) as Hne. unfold add_value.
    destruct (settle st) as [|top rest]; [congruence|].
    rewrite (run_items kc items Hc Hall) by (cbn [kind]; apply open_not_name; assumption).
    reflexivity.
  - apply wf_named_inv in Hwf. specialize (IH Hwf).
    cbn [flatten tree_of].
    assert (Hopen : is_open_kind (kind (T KTypeName (VStr n))) || (kind (T KTypeName (VStr n)) =? KTypeName)%N = true)
      by reflexivity.
    rewrite run_l_cons, (tree_step_open _ _ _ _ Hopen), (lab_open _ Hopen).
    rewrite IH by discriminate. unfold add_value.
    pose proof (settle_nonempty st Hst) as Hne.
    destruct (settle st) as [|top rest]; [congruence|].
    rewrite settle_not_filled by reflexivity.
    cbn [push_sub]. rewrite settle_cons2. reflexivity.
Qed.

End Build.

(* ================================================================== *)
(* C12: TreeFromStream without options                                *)
(* ================================================================== *)
Definition no_lab (_ : token) : option bytes := None.

Lemma build_from_l ts : forall st i, build_from st i ts = build_l no_lab st i ts.
Proof.
  induction ts as [|t r IH]; intros st i; cbn [build_from build_l]; [reflexivity|].
  unfold no_lab at 1. destruct (tree_step st i t None); [apply IH|reflexivity].
Qed.

Lemma build_run ts :
  build ts = match run_l no_lab [root_frame] 0 ts with
             | inl st => tree_finish st None
             | inr e => inr e
             end.
Proof.
  unfold build, run_l. rewrite build_from_l.
  destruct (build_l no_lab [root_frame] 0 ts) as [st|e]; [|reflexivity].
  rewrite tree_finish_settle. reflexivity.
Qed.

Lemma t_hash_tree_of hl i v :
  t_hash (tree_of hl i v) = match v with Leaf t => hl t | _ => None end.
Proof. destruct v; reflexivity. Qed.

Lemma set_hash_same t : set_hash (t_hash t) t = t.
Proof. destruct t; reflexivity. Qed.

Lemma add_value_root n : add_value n [root_frame] = [OF 0 None None [n]].
Proof. reflexivity. Qed.

Lemma run_root lab v :
  (forall t, is_open_kind (kind t) || (kind t =? KTypeName)%N = true -> lab t = None) ->
  wf_value v = true -> run_l lab [root_frame] 0 (flatten v) = inl [OF 0 None None [tree_of lab 0 v]].
Proof.
  intros Hlab Hwf. rewrite (run_value lab Hlab v Hwf) by discriminate. reflexivity.
Qed.

Theorem build_tree_of v : wf_value v = true -> build (flatten v) = inl (Some (plain_tree 0 v)).
Proof.
  intros Hwf. rewrite build_run, (run_root no_lab v) by auto.
  unfold tree_finish. cbn [length flush of_subs rev app]. f_equal. f_equal.
  unfold plain_tree.
  change (fun _ : token => None (A:=bytes)) with no_lab.
  replace (None (A:=bytes)) with (t_hash (tree_of no_lab 0 v)) at 1; [apply set_hash_same|].
  rewrite t_hash_tree_of. destruct v; reflexivity.
Qed.

Example build_tree_of_nested_names :
  let v := Comp KArray KArrayEnd [Named [97%N] (Named [98%N] (Leaf (T KInt (VI WNat 1)))); Leaf (T KInt (VI WNat 2))] in
  wf_value v = true /\
  build (flatten v) =
    inl (Some (Node 0 (T KArray VNone) None None
                 [Node 1 (T KTypeName (VStr [97%N])) None None
                    [Node 2 (T KTypeName (VStr [98%N])) None None
                       [Node 3 (T KInt (VI WNat 1)) None None []]];
                  Node 4 (T KInt (VI WNat 2)) None None [];
                  Node 5 (T KArrayEnd VNone) (Some 0) None []])) /\
  build (flatten v) = inl (Some (plain_tree 0 v)).
Proof. vm_compute. repeat split. Qed.

Theorem build_iter v : wf_value v = true ->
  exists t, build (flatten v) = inl (Some t) /\ iter t = flatten v /\
            iter_func (fun _ => None) t = flatten v.
Proof.
  intros Hwf. exists (plain_tree 0 v). split; [apply build_tree_of; assumption|].
  split; [apply iter_tree_of | apply iter_func_none].
Qed.

Theorem stray_end v k rest : wf_value v = true -> is_end_kind k = true ->
  build (flatten v ++ T k VNone :: rest) = inr EUnexpEndTok.
Proof.
  intros Hwf Hk. rewrite build_run, run_l_app, (run_root no_lab v) by auto.
  rewrite run_l_cons, (tree_step_end_single _ _ _ _ (OF 0 None None [tree_of no_lab 0 v])); auto.
Qed.

Theorem stray_end_first k rest : is_end_kind k = true -> build (T k VNone :: rest) = inr EUnexpEndTok.
Proof.
  intros Hk. rewrite build_run, run_l_cons, (tree_step_end_single _ _ _ _ root_frame); auto.
Qed.

Theorem more_than_one v w : wf_value v = true -> wf_value w = true ->
  build (flatten v ++ flatten w) = inr EMoreThanOne.
Proof.
  intros Hv Hw. rewrite build_run, run_l_app, (run_root no_lab v) by auto.
  rewrite (run_value no_lab) by (auto || discriminate). reflexivity.
Qed.

Theorem build_empty : build [] = inl None.
Proof. reflexivity. Qed.

(* ================================================================== *)
(* C12 / C09: FillHash                                                *)
(* ================================================================== *)
Lemma kind_in_list k l : existsb (N.eqb k) l = true -> In k l.
Proof.
  intros Hk. apply existsb_exists in Hk. destruct Hk as (x & Hin & Hx).
  apply N.eqb_eq in Hx. subst x. exact Hin.
Qed.

(* the kinds a well-formed leaf token can have, as the hash code sees them *)
Lemma wf_leaf_kinds t : is_leaf_token t = true -> wf_token t = true ->
  ((kind t =? KRef)%N = true /\ exists x, val t = VBytes x) \/
  ((kind t =? KRef)%N = false /\ is_hash_leaf_kind (kind t) = true).
Proof.
  destruct t as [k v]. unfold wf_token. cbn [kind val]. intros Hl Hw.
  apply andb_true_iff in Hw. destruct Hw as [Hs _].
  assert (Hin : In k [KMin; KNil; KNaN; KMax; KBool; KString; KLiteral; KBytes; KInt; KInt8; KInt16;
                      KInt32; KInt64; KUint; KUint8; KUint16; KUint32; KUint64; KPointer;
                      KFloat32; KFloat64] \/ (k = KRef /\ exists x, v = VBytes x)).
  { unfold is_leaf_token in Hl. cbn [kind] in Hl.
    destruct v as [|b|w z|w n|n|b|b|s|s]; cbn [kind_shape] in Hs.
    - apply kind_in_list in Hs. cbn [In] in Hs.
      destruct Hs as [<-|[<-|[<-|[<-|[<-|[<-|[<-|[<-|[<-|[<-|[<-|[<-|[]]]]]]]]]]]]];
        try discriminate Hl; left; cbn [In]; tauto.
    - apply N.eqb_eq in Hs. subst k. left. cbn [In]. tauto.
    - destruct w; apply N.eqb_eq in Hs; subst k; left; cbn [In]; tauto.
    - destruct w; apply N.eqb_eq in Hs; subst k; left; cbn [In]; tauto.
    - apply N.eqb_eq in Hs. subst k. left. cbn [In]. tauto.
    - apply N.eqb_eq in Hs. subst k. left. cbn [In]. tauto.
    - apply N.eqb_eq in Hs. subst k. left. cbn [In]. tauto.
    - rewrite !orb_true_iff, !N.eqb_eq in Hs. destruct Hs as [[-> | ->] | ->];
        try discriminate Hl; left; cbn [In]; tauto.
    - rewrite !orb_true_iff, !N.eqb_eq in Hs. destruct Hs as [-> | ->].
      + left. cbn [In]. tauto.
      + right. eauto. }
  destruct Hin as [Hin | [-> Hx]]; [|left; split; [reflexivity | exact Hx]].
  right. cbn [In] in Hin.
  destruct Hin as [<-|[<-|[<-|[<-|[<-|[<-|[<-|[<-|[<-|[<-|[<-|[<-|[<-|[<-|[<-|[<-|[<-|[<-|[<-|[<-|[<-|[]]]]]]]]]]]]]]]]]]]]]];
    split; reflexivity.
Qed.

Fixpoint fill_subs (H : bytes -> bytes) (l : list tree) : (list tree * bytes) + eclass :=
  match l with
  | [] => inl ([], [])
  | s :: r => match fill_hash H s with
              | inr e => inr e
              | inl s' => match fill_subs H r with
                          | inr e => inr e
                          | inl (r', hs) =>
                              inl (s' :: r', match t_hash s' with Some x => x | None => [] end ++ hs)
                          end
              end
  end.

Lemma fill_hash_eq H i tok p h subs :
  fill_hash H (Node i tok p h subs) =
    if has_hash h then inl (Node i tok p h subs)
    else
      let k := kind tok in
      if (k =? KRef)%N then
        match val tok with VBytes x => inl (Node i tok p (Some x) subs) | _ => inr EPanic end
      else if is_hash_leaf_kind k then inl (Node i tok p (Some (H (k :: hash_payload (val tok)))) subs)
      else if is_open_kind k then
        match fill_subs H subs with
        | inr e => inr e
        | inl (subs', hs) => inl (Node i tok p (Some (H (k :: hs))) subs')
        end
      else if (k =? KTypeName)%N then
        match val tok, fill_subs H subs with
        | VStr n, inl (subs', hs) => inl (Node i tok p (Some (H (k :: n ++ hs))) subs')
        | _, inr e => inr e
        | _, _ => inr EPanic
        end
      else inr EPanic.
Proof.
  cbn [fill_hash].
  set (g := fix go (l : list tree) : (list tree * bytes) + eclass := _).
  assert (Hg : forall l, g l = fill_subs H l).
  { induction l as [|s r IH]; [reflexivity|].
    subst g. cbn [fill_subs]. cbv beta iota. fold fill_hash.
    destruct (fill_hash H s) as [s'|e]; [|reflexivity].
    rewrite IH. reflexivity. }
  rewrite !Hg. reflexivity.
Qed.

Section WithH.
Variable H : bytes -> bytes.

(* the tree of a value after FillHash: every node carries a hash *)
Fixpoint full_tree (i : nat) (v : value) : tree :=
  match v with
  | Leaf t => Node i t None (Some (leaf_hash H t)) []
  | Comp ko kc items =>
      Node i (T ko VNone) None (Some (mhash H v))
        ((fix subs (j : nat) (l : list value) : list tree :=
            match l with
            | [] => [Node j (T kc VNone) (Some i) (Some (H [kc])) []]
            | x :: r => full_tree j x :: subs (j + vlen x) r
            end) (S i) items)
  | Named n v' => Node i (T KTypeName (VStr n)) None (Some (mhash H v)) [full_tree (S i) v']
  end.

Fixpoint full_subs (i : nat) (kc : N) (j : nat) (l : list value) : list tree :=
  match l with
  | [] => [Node j (T kc VNone) (Some i) (Some (H [kc])) []]
  | x :: r => full_tree j x :: full_subs i kc (j + vlen x) r
  end.

Lemma full_tree_comp i ko kc items :
  full_tree i (Comp ko kc items) =
    Node i (T ko VNone) None (Some (mhash H (Comp ko kc items))) (full_subs i kc (S i) items).
Proof.
  cbn [full_tree]. f_equal. generalize (S i) as j.
  induction items as [|x r IH]; intros j; cbn [full_subs]; [reflexivity|]. f_equal. apply IH.
Qed.

Lemma full_tree_shape i v :
  exists tok p subs, full_tree i v = Node i tok p (Some (mhash H v)) subs.
Proof. destruct v; [cbn [full_tree mhash] | rewrite full_tree_comp | cbn [full_tree]]; eauto. Qed.

Lemma t_hash_full i v : t_hash (full_tree i v) = Some (mhash H v).
Proof. destruct (full_tree_shape i v) as (tok & p & subs & ->). reflexivity. Qed.

Lemma t_idx_full i v : t_idx (full_tree i v) = i.
Proof. destruct (full_tree_shape i v) as (tok & p & subs & ->). reflexivity. Qed.

Lemma iter_full_tree v : forall i, iter (full_tree i v) = flatten v.
Proof.
  induction v as [t|ko kc items IH|n v IH] using value_ind2; intros i.
  - reflexivity.
  - rewrite full_tree_comp. cbn [iter flatten]. f_equal. generalize (S i) as j.
    induction IH as [|x r Hx _ IHr]; intros j; cbn [full_subs flat_map]; [reflexivity|].
    rewrite Hx, IHr, app_assoc. reflexivity.
  - cbn [full_tree iter flatten flat_map]. rewrite IH, app_nil_r. reflexivity.
Qed.

Lemma fill_end_marker j kc p : is_end_kind kc = true ->
  fill_hash H (Node j (T kc VNone) p None []) = inl (Node j (T kc VNone) p (Some (H [kc])) []).
Proof. intros Hk. destruct (end_cases kc Hk) as [-> | [-> | [-> | ->]]]; reflexivity. Qed.

Lemma fill_hash_full v : wf_value v = true ->
  forall i, fill_hash H (plain_tree i v) = inl (full_tree i v).
Proof.
  unfold plain_tree. change (fun _ : token => None (A:=bytes)) with no_lab.
  induction v as [t|ko kc items IH|n v IH] using value_ind2; intros Hwf i.
  - apply wf_leaf_inv in Hwf. destruct Hwf as [Hl Hw].
    cbn [tree_of full_tree]. unfold no_lab. rewrite fill_hash_eq. cbn [has_hash]. cbv zeta.
    unfold leaf_hash.
    destruct (wf_leaf_kinds t Hl Hw) as [[Hr (x & Hx)] | [Hr Hk]]; rewrite Hr.
    + rewrite Hx. reflexivity.
    + rewrite Hk. reflexivity.
  - destruct (wf_comp_inv _ _ _ Hwf) as (Ho & Hc & Hi).
    rewrite tree_of_comp, full_tree_comp, fill_hash_eq. cbn [has_hash kind]. cbv zeta.
    assert (Hsubs : forall j, fill_subs H (subs_of no_lab i kc j items)
                              = inl (full_subs i kc j items, flat_map (mhash H) items ++ H [kc])).
    { clear Hwf. induction items as [|x r IHr]; intros j; cbn [subs_of full_subs fill_subs flat_map].
      - unfold no_lab at 1. rewrite (fill_end_marker _ _ _ Hc). cbn [t_hash app].
        rewrite app_nil_r. reflexivity.
      - inversion IH as [|? ? Hx Hr]; subst. inversion Hi as [|? ? Hwx Hwr]; subst.
        rewrite (Hx Hwx), (IHr Hr Hwr), t_hash_full, app_assoc. reflexivity. }
    rewrite Hsubs.
    destruct (open_cases ko Ho) as [-> | [-> | [-> | ->]]]; reflexivity.
  - apply wf_named_inv in Hwf.
    cbn [tree_of full_tree]. rewrite fill_hash_eq. cbn [has_hash kind val fill_subs]. cbv zeta.
    rewrite (IH Hwf), t_hash_full, app_nil_r. reflexivity.
Qed.

Theorem fill_hash_tree_of i v : wf_value v = true ->
  exists t', fill_hash H (plain_tree i v) = inl t' /\ t_hash t' = Some (mhash H v) /\ iter t' = flatten v.
Proof.
  intros Hwf. exists (full_tree i v).
  split; [apply fill_hash_full; assumption|]. split; [apply t_hash_full | apply iter_full_tree].
Qed.

Theorem fill_hash_root v : wf_value v = true ->
  exists t t', build (flatten v) = inl (Some t) /\ fill_hash H t = inl t' /\ t_hash t' = Some (mhash H v).
Proof.
  intros Hwf. exists (plain_tree 0 v), (full_tree 0 v).
  split; [apply build_tree_of; assumption|]. split; [apply fill_hash_full; assumption | apply t_hash_full].
Qed.

End WithH.

(* ================================================================== *)
(* C12: FindByHash                                                    *)
(* ================================================================== *)
Lemma bytes_eqb_eq a : forall b, bytes_eqb a b = true <-> a = b.
Proof.
  induction a as [|x a IH]; intros [|y b]; cbn [bytes_eqb].
  - split; reflexivity.
  - split; discriminate.
  - split; discriminate.
  - rewrite andb_true_iff, N.eqb_eq, IH. split.
    + intros [-> ->]. reflexivity.
    + intros E. inversion E. auto.
Qed.

Definition hit (hh : option bytes) (h : bytes) : bool := bytes_eq_opt hh h && has_hash hh.

Lemma hit_some y h : hit (Some y) h = true <-> y = h /\ h <> [].
Proof.
  unfold hit. cbn [bytes_eq_opt has_hash]. rewrite andb_true_iff, bytes_eqb_eq. split.
  - intros [-> Hh]. split; [reflexivity|]. destruct h; [discriminate Hh | discriminate].
  - intros [-> Hne]. split; [reflexivity|]. destruct h; [congruence | reflexivity].
Qed.

Fixpoint find_nodes (h : bytes) (l : list tree) : option tree :=
  match l with
  | [] => None
  | s :: r => match find_node h s with Some x => Some x | None => find_nodes h r end
  end.

Lemma find_node_eq h i tok p hh subs :
  find_node h (Node i tok p hh subs) =
    if hit hh h then Some (Node i tok p hh subs) else find_nodes h subs.
Proof.
  cbn [find_node t_hash]. unfold hit. destruct (bytes_eq_opt hh h && has_hash hh); [reflexivity|].
  induction subs as [|s r IH]; [reflexivity|]. cbn [find_nodes]. rewrite <- IH. reflexivity.
Qed.

Lemma subvalue_wf s v : subvalue s v -> wf_value v = true -> wf_value s = true.
Proof.
  induction 1 as [v | s ko kc items x Hin _ IH | s n v _ IH]; intros Hwf.
  - assumption.
  - apply IH. destruct (wf_comp_inv _ _ _ Hwf) as (_ & _ & Hi).
    rewrite Forall_forall in Hi. apply Hi. assumption.
  - apply IH. apply wf_named_inv in Hwf. assumption.
Qed.

Section Find.
Variable H : bytes -> bytes.

(* what a node found in the filled tree of v can be *)
Definition good (v : value) (h : bytes) (n : tree) : Prop :=
  (exists s j, subvalue s v /\ mhash H s = h /\ n = full_tree H j s) \/
  (exists kc j p, is_end_kind kc = true /\ h = H [kc] /\ n = Node j (T kc VNone) p (Some (H [kc])) []).

Lemma good_mono v w h n : (forall s, subvalue s v -> subvalue s w) -> good v h n -> good w h n.
Proof.
  intros Hsub [(s & j & Hs & Hh & Hn) | Hend]; [left | right; exact Hend].
  exists s, j. auto.
Qed.

Definition finds_good (h : bytes) (v : value) : Prop :=
  forall i n, find_node h (full_tree H i v) = Some n -> h <> [] /\ good v h n.

Lemma find_nodes_full_subs h i kc items : is_end_kind kc = true -> Forall (finds_good h) items ->
  forall j n, find_nodes h (full_subs H i kc j items) = Some n ->
    h <> [] /\ ((exists x, In x items /\ good x h n) \/
                (exists j', h = H [kc] /\ n = Node j' (T kc VNone) (Some i) (Some (H [kc])) [])).
Proof.
  intros Hkc Hall. induction Hall as [|x r Hx _ IH]; intros j n; cbn [full_subs find_nodes].
  - rewrite find_node_eq. destruct (hit (Some (H [kc])) h) eqn:Hh; cbn [find_nodes]; [|discriminate].
    intros E. inversion E; subst n. apply hit_some in Hh. destruct Hh as [Hh Hne].
    split; [assumption|]. right. exists j. auto.
  - destruct (find_node h (full_tree H j x)) as [m|] eqn:E.
    + intros E'. inversion E'; subst m. destruct (Hx j n E) as [Hne Hg].
      split; [assumption|]. left. exists x. split; [left; reflexivity | assumption].
    + intros E'. destruct (IH _ _ E') as [Hne [(y & Hy & Hg) | Hend]]; (split; [assumption|]).
      * left. exists y. split; [right; assumption | assumption].
      * right. exact Hend.
Qed.

Lemma find_node_good h v : wf_value v = true -> finds_good h v.
Proof.
  induction v as [t|ko kc items IH|n v IH] using value_ind2; intros Hwf i m.
  - cbn [full_tree]. rewrite find_node_eq.
    destruct (hit (Some (leaf_hash H t)) h) eqn:Hh; cbn [find_nodes]; [|discriminate].
    intros E. inversion E; subst m. apply hit_some in Hh. destruct Hh as [Hh Hne].
    split; [assumption|]. left. exists (Leaf t), i. split; [constructor | auto].
  - destruct (wf_comp_inv _ _ _ Hwf) as (Ho & Hc & Hi).
    rewrite full_tree_comp, find_node_eq.
    destruct (hit (Some (mhash H (Comp ko kc items))) h) eqn:Hh.
    + intros E. inversion E; subst m. apply hit_some in Hh. destruct Hh as [Hh Hne].
      split; [assumption|]. left. exists (Comp ko kc items), i.
      split; [constructor | split; [assumption | symmetry; apply full_tree_comp]].
    + intros E. assert (Hall : Forall (finds_good h) items).
      { apply Forall_forall. intros x Hx. rewrite Forall_forall in IH, Hi. apply IH; auto. }
      destruct (find_nodes_full_subs h i kc items Hc Hall _ _ E) as [Hne [(x & Hx & Hg) | (j' & Hj & Hn)]];
        (split; [assumption|]).
      * apply (good_mono x); [|assumption]. intros s Hs. apply (sv_item s ko kc items x); assumption.
      * right. exists kc, j', (Some i). auto.
  - apply wf_named_inv in Hwf. cbn [full_tree]. rewrite find_node_eq.
    destruct (hit (Some (mhash H (Named n v))) h) eqn:Hh.
    + intros E. inversion E; subst m. apply hit_some in Hh. destruct Hh as [Hh Hne].
      split; [assumption|]. left. exists (Named n v), i. split; [constructor | auto].
    + cbn [find_nodes]. destruct (find_node h (full_tree H (S i) v)) as [m'|] eqn:E; [|discriminate].
      intros E'. inversion E'; subst m'. destruct (IH Hwf _ _ E) as [Hne Hg].
      split; [assumption|]. apply (good_mono v); [|assumption]. intros s Hs. apply sv_named. assumption.
Qed.

Lemma find_node_complete s v : subvalue s v -> mhash H s <> [] ->
  forall i, exists n, find_node (mhash H s) (full_tree H i v) = Some n.
Proof.
  induction 1 as [v | s ko kc items x Hin _ IH | s n v _ IH]; intros Hne i.
  - destruct (full_tree_shape H i v) as (tok & p & subs & ->). rewrite find_node_eq.
    assert (Hh : hit (Some (mhash H v)) (mhash H v) = true) by (apply hit_some; auto).
    rewrite Hh. eauto.
  - rewrite full_tree_comp, find_node_eq.
    destruct (hit _ _); [eauto|]. specialize (IH Hne). generalize (S i) as j.
    induction items as [|y r IHr]; [destruct Hin|]. intros j. cbn [full_subs find_nodes].
    destruct Hin as [-> | Hin].
    + destruct (IH j) as [m ->]. eauto.
    + destruct (find_node (mhash H s) (full_tree H j y)); [eauto | apply IHr; assumption].
  - cbn [full_tree]. rewrite find_node_eq.
    destruct (hit _ _); [eauto|]. cbn [find_nodes]. destruct (IH Hne (S i)) as [m ->]. eauto.
Qed.

Lemma find_by_hash_eq v h : wf_value v = true ->
  find_by_hash H (flatten v) h = match find_node h (full_tree H 0 v) with
                                 | Some n => inl (iter n)
                                 | None => inr ENotFound
                                 end.
Proof.
  intros Hwf. unfold find_by_hash. rewrite (build_tree_of v Hwf), (fill_hash_full H v Hwf). reflexivity.
Qed.

Theorem find_sound v h ts : wf_value v = true -> find_by_hash H (flatten v) h = inl ts ->
  h <> [] /\ ((exists s, subvalue s v /\ mhash H s = h /\ ts = flatten s) \/
              (exists kc, is_end_kind kc = true /\ h = H [kc] /\ ts = [T kc VNone])).
Proof.
  intros Hwf. rewrite (find_by_hash_eq v h Hwf).
  destruct (find_node h (full_tree H 0 v)) as [n|] eqn:E; [|discriminate].
  intros E'. inversion E'; subst ts.
  destruct (find_node_good h v Hwf _ _ E) as [Hne [(s & j & Hs & Hh & ->) | (kc & j & p & Hk & Hh & ->)]];
    (split; [assumption|]).
  - left. exists s. rewrite iter_full_tree. auto.
  - right. exists kc. auto.
Qed.

Theorem find_complete v s : wf_value v = true -> subvalue s v -> mhash H s <> [] ->
  exists ts, find_by_hash H (flatten v) (mhash H s) = inl ts.
Proof.
  intros Hwf Hs Hne. rewrite (find_by_hash_eq v _ Hwf).
  destruct (find_node_complete s v Hs Hne 0) as [n ->]. eauto.
Qed.

Theorem find_absent v h : wf_value v = true ->
  (forall s, subvalue s v -> mhash H s <> h) -> (forall kc, is_end_kind kc = true -> H [kc] <> h) ->
  find_by_hash H (flatten v) h = inr ENotFound.
Proof.
  intros Hwf Hsub Hend. rewrite (find_by_hash_eq v h Hwf).
  destruct (find_node h (full_tree H 0 v)) as [n|] eqn:E; [|reflexivity]. exfalso.
  destruct (find_node_good h v Hwf _ _ E) as [_ [(s & j & Hs & Hh & _) | (kc & j & p & Hk & Hh & _)]].
  - exact (Hsub s Hs Hh).
  - exact (Hend kc Hk (eq_sym Hh)).
Qed.

Lemma hash_result_end_marker kc : is_end_kind kc = true -> hash_result H [T kc VNone] = inl (H [kc]).
Proof. intros Hk. destruct (end_cases kc Hk) as [-> | [-> | [-> | ->]]]; reflexivity. Qed.

(* what FindByHash returns hashes (with the streaming sink) to the hash that was asked for *)
Theorem find_result_hash v h ts : wf_value v = true -> find_by_hash H (flatten v) h = inl ts ->
  hash_result H ts = inl h.
Proof.
  intros Hwf E. destruct (find_sound v h ts Hwf E) as [_ [(s & Hs & Hh & ->) | (kc & Hk & -> & ->)]].
  - rewrite (sink_hash_is_merkle H s (subvalue_wf s v Hs Hwf)), Hh. reflexivity.
  - apply hash_result_end_marker. assumption.
Qed.

End Find.

(* ================================================================== *)
(* C10 at tree level: IterFunc replacing selected nodes by references *)
(* ================================================================== *)
Definition in_nat (i : nat) (l : list nat) : bool := existsb (Nat.eqb i) l.
Definition ref_fn (sel : list nat) (t : tree) : option token :=
  if in_nat (t_idx t) sel
  then match t_hash t with Some h => Some (T KRef (VBytes h)) | None => None end
  else None.

Lemma in_nat_false i l : ~ In i l -> in_nat i l = false.
Proof.
  intros Hn. unfold in_nat. destruct (existsb (Nat.eqb i) l) eqn:E; [|reflexivity].
  apply existsb_exists in E. destruct E as (x & Hx & Hix). apply Nat.eqb_eq in Hix. subst x. contradiction.
Qed.

Lemma iter_func_eq fn i tok p h subs :
  iter_func fn (Node i tok p h subs) =
    match fn (Node i tok p h subs) with
    | Some r => [r]
    | None => tok :: flat_map (iter_func fn) subs
    end.
Proof. reflexivity. Qed.

Section Subst.
Variable H : bytes -> bytes.

Fixpoint subst_items (sel : list nat) (j : nat) (l : list value) : list value :=
  match l with
  | [] => []
  | x :: r => subst_at H sel j x :: subst_items sel (j + vlen x) r
  end.

Fixpoint end_items (j : nat) (l : list value) : list nat :=
  match l with
  | [] => [j]
  | x :: r => end_indices j x ++ end_items (j + vlen x) r
  end.

Lemma subst_at_comp sel i ko kc items :
  subst_at H sel i (Comp ko kc items) =
    if in_nat i sel then Leaf (T KRef (VBytes (mhash H (Comp ko kc items))))
    else Comp ko kc (subst_items sel (S i) items).
Proof.
  cbn [subst_at]. unfold in_nat. destruct (existsb (Nat.eqb i) sel); [reflexivity|]. f_equal.
  generalize (S i) as j. induction items as [|x r IH]; intros j; cbn [subst_items]; [reflexivity|].
  f_equal. apply IH.
Qed.

Lemma end_indices_comp i ko kc items : end_indices i (Comp ko kc items) = end_items (S i) items.
Proof.
  cbn [end_indices]. generalize (S i) as j.
  induction items as [|x r IH]; intros j; cbn [end_items]; [reflexivity|]. rewrite IH. reflexivity.
Qed.

Lemma iter_func_subst_gen sel v : forall i, (forall j, In j sel -> ~ In j (end_indices i v)) ->
  iter_func (ref_fn sel) (full_tree H i v) = flatten (subst_at H sel i v).
Proof.
  induction v as [t|ko kc items IH|n v IH] using value_ind2; intros i Hsel.
  - cbn [full_tree subst_at]. rewrite iter_func_eq. unfold ref_fn. cbn [t_idx t_hash]. unfold in_nat.
    destruct (existsb (Nat.eqb i) sel); reflexivity.
  - rewrite full_tree_comp, subst_at_comp, iter_func_eq. unfold ref_fn. cbn [t_idx t_hash].
    destruct (in_nat i sel); [reflexivity|]. cbn [flatten]. f_equal.
    rewrite end_indices_comp in Hsel. revert Hsel. generalize (S i) as j.
    induction IH as [|x r Hx _ IHr]; intros j Hsel; cbn [full_subs subst_items flat_map].
    + rewrite iter_func_eq. unfold ref_fn. cbn [t_idx t_hash].
      rewrite in_nat_false; [reflexivity|]. intros Hj. apply (Hsel j Hj). left. reflexivity.
    + rewrite Hx, IHr, app_assoc; [reflexivity | |].
      * intros j' Hj' Hin. apply (Hsel j' Hj'). cbn [end_items]. apply in_or_app. right. assumption.
      * intros j' Hj' Hin. apply (Hsel j' Hj'). cbn [end_items]. apply in_or_app. left. assumption.
  - cbn [full_tree]. rewrite iter_func_eq. unfold ref_fn. cbn [t_idx t_hash subst_at]. unfold in_nat.
    destruct (existsb (Nat.eqb i) sel); [reflexivity|].
    cbn [flatten flat_map]. rewrite IH, app_nil_r; [reflexivity|].
    intros j Hj. apply (Hsel j Hj).
Qed.

Theorem iter_func_subst sel i v : (forall j, In j sel -> ~ In j (end_indices i v)) ->
  iter_func (ref_fn sel) (full_tree H i v) = flatten (subst_at H sel i v).
Proof. apply iter_func_subst_gen. Qed.

End Subst.

(* ================================================================== *)
(* C12: TreeFromStream with the WithHash option                       *)
(* ================================================================== *)
Section HashTree.
Variable H : bytes -> bytes.

(* the hash TreeFromStream sees in its callback when token t arrives (while the sink is live) *)
Definition tok_label (t : token) : option bytes :=
  if (kind t =? KRef)%N then match val t with VBytes h => norm_hash h | _ => None end
  else if is_hash_leaf_kind (kind t) then norm_hash (H (kind t :: hash_payload (val t)))
  else None.

Lemma tok_label_open t : is_open_kind (kind t) || (kind t =? KTypeName)%N = true -> tok_label t = None.
Proof.
  destruct t as [k v]. cbn [kind]. intros Hk. apply orb_true_iff in Hk. destruct Hk as [Hk|Hk].
  - destruct (open_cases k Hk) as [-> | [-> | [-> | ->]]]; reflexivity.
  - apply N.eqb_eq in Hk. subst k. reflexivity.
Qed.

Lemma tok_label_leaf t : is_leaf_token t = true -> wf_token t = true ->
  tok_label t = norm_hash (leaf_hash H t).
Proof.
  intros Hl Hw. unfold tok_label, leaf_hash.
  destruct (wf_leaf_kinds t Hl Hw) as [[Hr (x & Hx)] | [Hr Hk]]; rewrite Hr.
  - rewrite Hx. reflexivity.
  - rewrite Hk. reflexivity.
Qed.

Lemma tok_label_end kc : is_end_kind kc = true ->
  tok_label (T kc VNone) = norm_hash (leaf_hash H (T kc VNone)).
Proof. intros Hk. destruct (end_cases kc Hk) as [-> | [-> | [-> | ->]]]; reflexivity. Qed.

Lemma tree_of_labels v : wf_value v = true ->
  forall i, tree_of tok_label i v = tree_of (fun t => norm_hash (leaf_hash H t)) i v.
Proof.
  induction v as [t|ko kc items IH|n v IH] using value_ind2; intros Hwf i.
  - apply wf_leaf_inv in Hwf. destruct Hwf as [Hl Hw]. cbn [tree_of]. rewrite tok_label_leaf; auto.
  - destruct (wf_comp_inv _ _ _ Hwf) as (Ho & Hc & Hi). rewrite !tree_of_comp. f_equal.
    generalize (S i) as j. clear Hwf.
    induction items as [|x r IHr]; intros j; cbn [subs_of].
    + rewrite tok_label_end by assumption. reflexivity.
    + inversion IH as [|? ? Hx Hr]; subst. inversion Hi as [|? ? Hwx Hwr]; subst.
      rewrite (Hx Hwx), (IHr Hr Hwr). reflexivity.
  - apply wf_named_inv in Hwf. cbn [tree_of]. rewrite (IH Hwf). reflexivity.
Qed.

(* ---------------- callback events ---------------- *)
Definition ev_lab (e : event) : option bytes :=
  match fst e with Some ((_ :: _) as h) => Some h | _ => None end.

Lemma last_hash_snoc cur pre e : last_hash cur (pre ++ [e]) = ev_lab e.
Proof. unfold last_hash. rewrite fold_left_app. reflexivity. Qed.

Lemma last_hash_cons cur e ev : last_hash cur (e :: ev) = last_hash (ev_lab e) ev.
Proof. reflexivity. Qed.

Lemma ev_lab_some h i : ev_lab (Some h, i) = norm_hash h.
Proof. destruct h; reflexivity. Qed.

Definition herr (s : hstate) : bool := match s with HErr _ => true | _ => false end.

Lemma herr_deliver sub ks : herr (deliver sub ks) = false.
Proof. destruct ks; reflexivity. Qed.

Lemma hf_lab ks i t cur pre : herr (fst (hf H ks i t)) = false ->
  last_hash cur (pre ++ snd (hf H ks i t)) = tok_label t.
Proof.
  unfold hf, tok_label. destruct (kind t =? KRef)%N.
  { destruct (val t); cbn [fst snd herr]; try discriminate.
    intros _. rewrite last_hash_snoc. apply ev_lab_some. }
  destruct (is_hash_leaf_kind (kind t)).
  { cbn [fst snd]. intros _.
    change (pre ++ [(None, i); (Some (H (kind t :: hash_payload (val t))), i)])
      with (pre ++ [(None (A:=bytes), i)] ++ [(Some (H (kind t :: hash_payload (val t))), i)]).
    rewrite app_assoc, last_hash_snoc. apply ev_lab_some. }
  destruct (is_open_kind (kind t)).
  { cbn [fst snd]. intros _. rewrite last_hash_snoc. reflexivity. }
  destruct (kind t =? KTypeName)%N; [|cbn [fst herr]; discriminate].
  destruct (val t); cbn [fst snd herr]; try discriminate.
  intros _. rewrite last_hash_snoc. reflexivity.
Qed.

Lemma hc_lab st idx ks i t cur pre : herr (fst (hc H st idx ks i t)) = false ->
  last_hash cur (pre ++ snd (hc H st idx ks i t)) = tok_label t.
Proof. unfold hc. destruct (is_end_kind (kind t)); apply hf_lab. Qed.

(* one step of the tee'd hash sink, as TreeFromStream observes it *)
Definition step_lab (s : hstate) (cur : option bytes) (i : nat) (t : token)
  : option (hstate * option bytes) :=
  let '(s', ev) := hstep H s i (Some t) in
  match s' with HErr _ => None | _ => Some (s', last_hash cur ev) end.

Definition lab_res (r : hstate * list event) (t : token) : option (hstate * option bytes) :=
  if herr (fst r) then None else Some (fst r, tok_label t).

Lemma lab_of_res (r : hstate * list event) cur pre t :
  (herr (fst r) = false -> last_hash cur (pre ++ snd r) = tok_label t) ->
  match fst r with HErr _ => None | _ => Some (fst r, last_hash cur (pre ++ snd r)) end = lab_res r t.
Proof.
  unfold lab_res. destruct r as [s' ev]. cbn [fst snd].
  destruct s'; cbn [herr]; intros Hl; try rewrite (Hl eq_refl); reflexivity.
Qed.

(* pending continuations: fold every finished compound / type name down to the next open compound *)
Fixpoint hsettle (sub : bytes) (ks : list frame) : bytes * list frame :=
  match ks with
  | FClose st _ :: ks' => hsettle (H (st ++ sub)) ks'
  | FName st _ :: ks' => hsettle (H (st ++ sub)) ks'
  | _ => (sub, ks)
  end.

Lemma unwind_item fuel : forall sub ks, length ks < fuel ->
  forall s0 st0 idx ks0, hsettle sub ks = (s0, FItem st0 idx :: ks0) ->
  forall i t, exists pre,
    unwind H fuel sub ks i (Some t)
    = (fst (hc H (st0 ++ s0) idx ks0 i t), pre ++ snd (hc H (st0 ++ s0) idx ks0 i t)).
Proof.
  induction fuel as [|f IH]; intros sub ks Hlt s0 st0 idx ks0 Hs i t; [lia|].
  destruct ks as [|[st idx'|st idx'|st idx'] ks']; cbn [hsettle] in Hs; cbn [unwind].
  - discriminate.
  - inversion Hs; subst. exists []. destruct (hc H (st0 ++ s0) idx ks0 i t). reflexivity.
  - destruct (IH (H (st ++ sub)) ks' ltac:(cbn [length] in Hlt; lia) _ _ _ _ Hs i t) as [pre ->].
    exists ((Some (H (st ++ sub)), idx') :: pre). reflexivity.
  - destruct (IH (H (st ++ sub)) ks' ltac:(cbn [length] in Hlt; lia) _ _ _ _ Hs i t) as [pre ->].
    exists ((Some (H (st ++ sub)), idx') :: pre). reflexivity.
Qed.

Lemma unwind_done fuel : forall sub ks, length ks < fuel ->
  forall s0, hsettle sub ks = (s0, []) ->
  forall i t, exists ev,
    unwind H fuel sub ks i t = (HDone s0, ev) /\
    forall cur, last_hash cur ev = match ks with [] => cur | _ => norm_hash s0 end.
Proof.
  induction fuel as [|f IH]; intros sub ks Hlt s0 Hs i t; [lia|].
  destruct ks as [|[st idx'|st idx'|st idx'] ks']; cbn [hsettle] in Hs; cbn [unwind].
  - inversion Hs; subst. exists []. split; reflexivity.
  - discriminate.
  - destruct (IH (H (st ++ sub)) ks' ltac:(cbn [length] in Hlt; lia) _ Hs i t) as (ev & -> & Hev).
    exists ((Some (H (st ++ sub)), idx') :: ev). split; [reflexivity|].
    intros cur. rewrite last_hash_cons, Hev, ev_lab_some.
    destruct ks'; [|reflexivity]. cbn [hsettle] in Hs. inversion Hs. reflexivity.
  - destruct (IH (H (st ++ sub)) ks' ltac:(cbn [length] in Hlt; lia) _ Hs i t) as (ev & -> & Hev).
    exists ((Some (H (st ++ sub)), idx') :: ev). split; [reflexivity|].
    intros cur. rewrite last_hash_cons, Hev, ev_lab_some.
    destruct ks'; [|reflexivity]. cbn [hsettle] in Hs. inversion Hs. reflexivity.
Qed.

(* states that take the next token as HashFunc with continuation ks / as HashCompound *)
Definition accepts_v (s : hstate) (ks : list frame) : Prop :=
  forall cur i t, is_end_kind (kind t) = false -> step_lab s cur i t = lab_res (hf H ks i t) t.
Definition accepts_c (s : hstate) (st : bytes) (idx : nat) (ks : list frame) : Prop :=
  forall cur i t, step_lab s cur i t = lab_res (hc H st idx ks i t) t.

Lemma accepts_await ks : accepts_v (HAwait ks) ks.
Proof.
  intros cur i t _. unfold step_lab. cbn [hstep].
  rewrite (surjective_pairing (hf H ks i t)).
  apply (lab_of_res (hf H ks i t) cur [] t). apply hf_lab.
Qed.

Lemma accepts_in st idx ks : accepts_c (HIn st idx ks) st idx ks.
Proof.
  intros cur i t. unfold step_lab. cbn [hstep].
  rewrite (surjective_pairing (hc H st idx ks i t)).
  apply (lab_of_res (hc H st idx ks i t) cur [] t). apply hc_lab.
Qed.

Lemma accepts_item s st idx ks : accepts_c s st idx ks -> accepts_v s (FItem st idx :: ks).
Proof. intros Hc cur i t He. rewrite Hc. unfold hc. rewrite He. reflexivity. Qed.

Lemma accepts_pend sub ks' s0 st0 idx ks : hsettle sub ks' = (s0, FItem st0 idx :: ks) ->
  accepts_c (deliver sub ks') (st0 ++ s0) idx ks.
Proof.
  intros Hs cur i t. destruct ks' as [|f ks'']; [cbn [hsettle] in Hs; discriminate|].
  cbn [deliver]. unfold step_lab. cbn [hstep].
  destruct (unwind_item (S (length (f :: ks''))) sub (f :: ks'') (Nat.lt_succ_diag_r _) _ _ _ _ Hs i t)
    as [pre ->].
  apply (lab_of_res (hc H (st0 ++ s0) idx ks i t) cur pre t). apply hc_lab.
Qed.

(* a run of the tee'd sink in which every token gets its own label *)
Fixpoint labelled (s : hstate) (cur : option bytes) (i : nat) (ts : list token)
                  (s' : hstate) (cur' : option bytes) : Prop :=
  match ts with
  | [] => s' = s /\ cur' = cur
  | t :: r => exists s1, step_lab s cur i t = Some (s1, tok_label t) /\
                         labelled s1 (tok_label t) (S i) r s' cur'
  end.

Lemma labelled_app a : forall s cur i b s1 c1 s2 c2,
  labelled s cur i a s1 c1 -> labelled s1 c1 (i + length a) b s2 c2 -> labelled s cur i (a ++ b) s2 c2.
Proof.
  induction a as [|t a IH]; intros s cur i b s1 c1 s2 c2 Ha Hb; cbn [labelled app length] in *.
  - destruct Ha as [-> ->]. rewrite Nat.add_0_r in Hb. exact Hb.
  - destruct Ha as (s' & Hs & Ha). exists s'. split; [exact Hs|].
    apply (IH _ _ _ _ s1 c1); [exact Ha|]. replace (S i + length a) with (i + S (length a)) by lia. exact Hb.
Qed.

(* the state of the sink right after the last token of v: hash still to be handed on, and to whom *)
Fixpoint pend (v : value) (i : nat) (ks : list frame) : bytes * list frame :=
  match v with
  | Leaf t => (leaf_hash H t, ks)
  | Comp ko kc items => (H [kc], FClose (ko :: flat_map (mhash H) items) i :: ks)
  | Named n v' => pend v' (S i) (FName (KTypeName :: n) i :: ks)
  end.

Fixpoint last_label (v : value) : option bytes :=
  match v with
  | Leaf t => tok_label t
  | Comp _ kc _ => tok_label (T kc VNone)
  | Named _ v' => last_label v'
  end.

Lemma pend_settle v : forall i ks,
  hsettle (fst (pend v i ks)) (snd (pend v i ks)) = hsettle (mhash H v) ks.
Proof.
  induction v as [t|ko kc items|n v IH]; intros i ks; cbn [pend fst snd mhash].
  - reflexivity.
  - reflexivity.
  - rewrite IH. reflexivity.
Qed.

Lemma pend_nonempty v : forall i ks, ks <> [] -> snd (pend v i ks) <> [].
Proof.
  induction v as [t|ko kc items|n v IH]; intros i ks Hks; cbn [pend snd].
  - assumption.
  - discriminate.
  - apply IH. discriminate.
Qed.

Lemma pend_empty_leaf v i : snd (pend v i []) = [] -> exists t, v = Leaf t.
Proof.
  destruct v as [t|ko kc items|n v]; cbn [pend snd]; intros E.
  - eauto.
  - discriminate.
  - exfalso. revert E. apply pend_nonempty. discriminate.
Qed.

Definition after (v : value) (i : nat) (ks : list frame) : hstate :=
  deliver (fst (pend v i ks)) (snd (pend v i ks)).

Definition hconsumes (v : value) : Prop :=
  forall s ks cur i, accepts_v s ks -> labelled s cur i (flatten v) (after v i ks) (last_label v).

Lemma hf_leaf_fst ks i t : is_leaf_token t = true -> wf_token t = true ->
  fst (hf H ks i t) = deliver (leaf_hash H t) ks.
Proof.
  intros Hl Hw. unfold hf, leaf_hash.
  destruct (wf_leaf_kinds t Hl Hw) as [[Hr (x & Hx)] | [Hr Hk]]; rewrite Hr.
  - rewrite Hx. reflexivity.
  - rewrite Hk. reflexivity.
Qed.

Lemma hf_open_fst ks i ko : is_open_kind ko = true -> fst (hf H ks i (T ko VNone)) = HIn [ko] i ks.
Proof. intros Ho. destruct (open_cases ko Ho) as [-> | [-> | [-> | ->]]]; reflexivity. Qed.

Lemma hc_end_fst st idx ks i kc : is_end_kind kc = true ->
  fst (hc H st idx ks i (T kc VNone)) = HPend (H [kc]) (FClose st idx :: ks).
Proof. intros Hk. destruct (end_cases kc Hk) as [-> | [-> | [-> | ->]]]; reflexivity. Qed.

Lemma hitems kc items : is_end_kind kc = true -> Forall hconsumes items ->
  forall s st idx ks cur j, accepts_c s st idx ks ->
    labelled s cur j (flat_map flatten items ++ [T kc VNone])
             (HPend (H [kc]) (FClose (st ++ flat_map (mhash H) items) idx :: ks)) (tok_label (T kc VNone)).
Proof.
  intros Hkc Hall. induction Hall as [|x r Hx _ IH]; intros s st idx ks cur j Hacc.
  - cbn [flat_map app labelled]. rewrite app_nil_r. eexists. split; [|split; reflexivity].
    rewrite Hacc. unfold lab_res. rewrite (hc_end_fst _ _ _ _ _ Hkc). reflexivity.
  - cbn [flat_map]. rewrite <- app_assoc.
    apply (labelled_app _ _ _ _ _ (after x j (FItem st idx :: ks)) (last_label x)).
    + apply Hx. apply accepts_item. assumption.
    + rewrite app_assoc. apply IH. unfold after. apply accepts_pend.
      rewrite pend_settle. reflexivity.
Qed.

Theorem hash_value v : wf_value v = true -> hconsumes v.
Proof.
  induction v as [t|ko kc items IH|n v IH] using value_ind2; intros Hwf s ks cur i Hacc.
  - apply wf_leaf_inv in Hwf. destruct Hwf as [Hl Hw]. destruct (leaf_token_inv t Hl) as [_ He].
    cbn [flatten labelled]. eexists. split; [|split; reflexivity].
    rewrite (Hacc _ _ _ He). unfold lab_res. rewrite (hf_leaf_fst _ _ _ Hl Hw), herr_deliver. reflexivity.
  - destruct (wf_comp_inv _ _ _ Hwf) as (Ho & Hc & Hi).
    assert (Hall : Forall hconsumes items).
    { apply Forall_forall. intros x Hx. rewrite Forall_forall in IH, Hi. apply IH; auto. }
    cbn [flatten labelled]. exists (HIn [ko] i ks). split.
    + rewrite Hacc.
      * unfold lab_res. rewrite (hf_open_fst _ _ _ Ho). reflexivity.
      * cbn [kind]. destruct (open_cases ko Ho) as [-> | [-> | [-> | ->]]]; reflexivity.
    + unfold after. cbn [pend fst snd deliver last_label].
      change (ko :: flat_map (mhash H) items) with ([ko] ++ flat_map (mhash H) items).
      apply (hitems kc items Hc Hall). apply accepts_in.
  - apply wf_named_inv in Hwf. specialize (IH Hwf).
    cbn [flatten labelled]. exists (HAwait (FName (KTypeName :: n) i :: ks)). split.
    + rewrite Hacc by reflexivity. reflexivity.
    + apply IH. apply accepts_await.
Qed.

(* ---------------- the tree builder driven by a labelled run ---------------- *)
Lemma build_h_from_cons st hs cur i t r s1 c1 : step_lab hs cur i t = Some (s1, c1) ->
  build_h_from H st hs cur i (t :: r) =
    match tree_step st i t c1 with
    | inl st' => build_h_from H st' s1 c1 (S i) r
    | inr e => inr e
    end.
Proof.
  unfold step_lab. cbn [build_h_from]. destruct (hstep H hs i (Some t)) as [hs1 ev].
  destruct hs1; intros E; inversion E; subst; reflexivity.
Qed.

Lemma build_h_from_labelled ts : forall st hs cur i hs' cur', labelled hs cur i ts hs' cur' ->
  build_h_from H st hs cur i ts =
    match build_l tok_label st i ts with
    | inl st' => inl (st', hs', cur')
    | inr e => inr e
    end.
Proof.
  induction ts as [|t r IH]; intros st hs cur i hs' cur' Hl; cbn [labelled] in Hl.
  - destruct Hl as [-> ->]. reflexivity.
  - destruct Hl as (s1 & Hs & Hl). rewrite (build_h_from_cons _ _ _ _ _ _ _ _ Hs). cbn [build_l].
    destruct (tree_step st i t (tok_label t)) as [st'|e]; [|reflexivity]. apply IH. exact Hl.
Qed.

Theorem build_with_hash_tree v : wf_value v = true ->
  build_with_hash H (flatten v) = inl (Some (hashed_tree H v)).
Proof.
  intros Hwf. unfold build_with_hash.
  rewrite (build_h_from_labelled _ _ _ _ _ _ _ (hash_value v Hwf _ _ None 0 (accepts_await []))).
  pose proof (run_root tok_label v tok_label_open Hwf) as Hrun. unfold run_l in Hrun.
  destruct (build_l tok_label [root_frame] 0 (flatten v)) as [st'|e]; [|discriminate].
  injection Hrun as Hst.
  assert (Hfin : forall h, tree_finish st' h
                           = inl (Some (set_hash h (tree_of (fun t => norm_hash (leaf_hash H t)) 0 v)))).
  { intros h. rewrite <- tree_finish_settle, Hst, (tree_of_labels v Hwf). reflexivity. }
  unfold after. pose proof (pend_settle v 0 []) as Hps.
  pose proof (pend_empty_leaf v 0) as Hleaf.
  destruct (pend v 0 []) as [sub ks']. cbn [fst snd] in *. cbn [hsettle] in Hps.
  destruct ks' as [|f ks''].
  - cbn [hsettle] in Hps. inversion Hps; subst sub. cbn [deliver]. cbv iota beta.
    rewrite Hfin. destruct (Hleaf eq_refl) as [t ->].
    apply wf_leaf_inv in Hwf. destruct Hwf as [Hl Hw].
    cbn [last_hash fold_left last_label]. rewrite (tok_label_leaf t Hl Hw). reflexivity.
  - cbn [deliver hstep].
    destruct (unwind_done (S (length (f :: ks''))) sub (f :: ks'') (Nat.lt_succ_diag_r _) _ Hps
                          (length (flatten v)) None) as (ev & -> & Hev).
    rewrite Hfin, Hev. reflexivity.
Qed.

Example build_with_hash_tree_ex :
  let Hx := fun b : bytes => [N.of_nat (length b); 7%N] in
  let v := Comp KArray KArrayEnd [Named [97%N] (Named [98%N] (Leaf (T KInt (VI WNat 1)))); Leaf (T KRef (VBytes [5%N]))] in
  wf_value v = true /\ build_with_hash Hx (flatten v) = inl (Some (hashed_tree Hx v)).
Proof. vm_compute. split; reflexivity. Qed.

End HashTree.

(* ================================================================== *)
(* the hypotheses are satisfiable: concrete instances                 *)
(* ================================================================== *)
Module Examples.
  (* a toy (injective) hash function *)
  Definition Hx (b : bytes) : bytes := N.of_nat (length b) :: b.
  Definition inner : value := Named [97%N] (Named [98%N] (Leaf (T KInt (VI WNat 1)))).
  Definition v0 : value :=
    Comp KArray KArrayEnd [inner; Leaf (T KInt (VI WNat 2)); Comp KTuple KTupleEnd [Leaf (T KNil VNone)]].

  Example v0_wf : wf_value v0 = true.
  Proof. reflexivity. Qed.

  Example build_iter_ex :
    build (flatten v0) = inl (Some (plain_tree 0 v0)) /\ iter (plain_tree 0 v0) = flatten v0.
  Proof. vm_compute. split; reflexivity. Qed.

  Example stray_end_ex : build (flatten v0 ++ [T KMapEnd VNone; T KNil VNone]) = inr EUnexpEndTok.
  Proof. reflexivity. Qed.

  Example more_than_one_ex : build (flatten v0 ++ flatten inner) = inr EMoreThanOne.
  Proof. reflexivity. Qed.

  Example fill_hash_ex :
    fill_hash Hx (plain_tree 0 v0) = inl (full_tree Hx 0 v0) /\
    t_hash (full_tree Hx 0 v0) = Some (mhash Hx v0).
  Proof. vm_compute. split; reflexivity. Qed.

  Example find_ex :
    subvalue inner v0 /\ mhash Hx inner <> [] /\
    find_by_hash Hx (flatten v0) (mhash Hx inner) = inl (flatten inner).
  Proof.
    split; [apply (sv_item _ _ _ _ inner); [left; reflexivity | constructor]|].
    split; [discriminate | reflexivity].
  Qed.

  (* the second alternative of find_sound is real: an end marker's own hash finds the bare marker *)
  Example find_end_marker_ex :
    find_by_hash Hx (flatten v0) (Hx [KTupleEnd]) = inl [T KTupleEnd VNone].
  Proof. reflexivity. Qed.

  Example find_absent_ex : find_by_hash Hx (flatten v0) [1%N; 2%N; 3%N] = inr ENotFound.
  Proof. reflexivity. Qed.

  Example iter_func_subst_ex :
    (forall j, In j [1; 6] -> ~ In j (end_indices 0 v0)) /\
    iter_func (ref_fn [1; 6]) (full_tree Hx 0 v0) = flatten (subst_at Hx [1; 6] 0 v0) /\
    subst_at Hx [1; 6] 0 v0 =
      Comp KArray KArrayEnd [Leaf (T KRef (VBytes (mhash Hx inner))); Leaf (T KInt (VI WNat 2));
                             Comp KTuple KTupleEnd [Leaf (T KRef (VBytes (mhash Hx (Leaf (T KNil VNone)))))]].
  Proof.
    split; [|split; reflexivity].
    intros j [<- | [<- | []]]; vm_compute; intros [E | [E | []]]; discriminate E.
  Qed.

  Example build_with_hash_ex : build_with_hash Hx (flatten v0) = inl (Some (hashed_tree Hx v0)).
  Proof. reflexivity. Qed.
End Examples.

Print Assumptions build_tree_of.
Print Assumptions iter_tree_of.
Print Assumptions iter_func_none.
Print Assumptions build_iter.
Print Assumptions stray_end.
Print Assumptions stray_end_first.
Print Assumptions more_than_one.
Print Assumptions build_empty.
Print Assumptions fill_hash_full.
Print Assumptions fill_hash_tree_of.
Print Assumptions fill_hash_root.
Print Assumptions build_with_hash_tree.
Print Assumptions find_sound.
Print Assumptions find_complete.
Print Assumptions find_absent.
Print Assumptions find_result_hash.
Print Assumptions iter_func_subst.
