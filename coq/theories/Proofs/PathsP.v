(* Proofs/PathsP.v — C17 (reported paths identify the element being processed, and stay that way).
   Part A (module AliasP, over Abstract/PathsAlias.v):
     1. snapshot versus view.  An error carries a COPY of the path (`snapshot`, a list); a kept slice header
        read later is a `view`.  `later qs st st'` = the store after ANY sequence of further appends / visits
        started from the slice headers in qs.  The snapshot is the true path for every later store
        (snapshot_stable); a child's view is stable when every later writer uses another array or is at least
        as long (view_stable_general), in particular when the parent was full (view_stable_when_full), and it
        is NOT stable in general: with spare capacity at the parent the next sibling's append overwrites the
        child's last cell (view_refuted; hdrs_refuted is the same defect on a whole traversal that starts from
        the empty path under a doubling growth policy).  This is why errors must copy the path.
     2. sequential runs from one base context: every run taps the true paths of its own tree
        (runs_taps_true_paths, runs_independent).
   Part B (module TapsP, over Model/MarshalTaps.v): a declarative account of the elements of a typed value
     (`elements`: a tree of nodes whose edges are labelled by the path element they add, if any) and the one
     generic sentence "the path of a node is the list of labels from the root" (`vpaths`);
     marshal_taps_are_paths: the tap log of MarshalTaps.v is exactly that, for every value whose maps have
     pairwise distinct, self-equal key streams (maps_ok); structural corollaries. *)
From Coq Require Import List Arith Lia Bool.
From SbModel Require Abstract.PathsAlias.
From SbModel Require Model.MarshalTaps.
From SbModel Require Spec.Conform.

(* ====================================================================== *)
(* Part A: the aliasing model                                              *)
(* ====================================================================== *)
Module AliasP.
Import ListNotations.
Import PathsAlias.

Section Alias.
Variable grow : nat -> nat.
Hypothesis grow_ok : forall n, n < grow n.

(* what an error carries: a copy of the path, taken when the error is built (errors.go: WithPath copies) *)
Definition snapshot (st : store) (p : slice) : list nat := read st p.
(* what a kept slice header shows when it is read in a later store *)
Definition view (p : slice) (st' : store) : list nat := read st' p.

(* one further piece of processing started from the slice header q: ctx.WithPath(x) on a context whose Path is
   q, or the whole traversal of a value under such a context *)
Inductive step (q : slice) (st st' : store) : Prop :=
| step_append x q' : append grow st q x = (st', q') -> step q st st'
| step_visit t taps : visit grow st q t = (st', taps) -> step q st st'.

(* any sequence of such pieces, each started from one of the headers in qs *)
Inductive later (qs : list slice) : store -> store -> Prop :=
| later_refl st : later qs st st
| later_step st q st1 st2 : In q qs -> step q st st1 -> later qs st1 st2 -> later qs st st2.

Lemma step_frame q st st' : wf st q -> step q st st' -> frame st st' (arr q) (len q).
Proof.
  intros Hwf [x q' Ha|t taps Hv].
  - destruct (append_spec grow grow_ok st q x st' q' Hwf Ha) as (_ & _ & _ & Hf & _). exact Hf.
  - pose proof (visit_all_ok grow grow_ok t st q (read st q) Hwf eq_refl) as H.
    rewrite Hv in H. destruct H as [_ Hf]. exact Hf.
Qed.

Lemma wf_mono st st' q : wf st q -> next st <= next st' -> wf st' q.
Proof. intros [Ha Hl] Hn. split; [lia|exact Hl]. Qed.

(* a view q is stable as long as every later writer r works in another array or at least as deep as q *)
Theorem view_stable_general qs q : forall st st',
  arr q < next st ->
  (forall r, In r qs -> wf st r /\ (arr r <> arr q \/ len q <= len r)) ->
  later qs st st' -> view q st' = view q st.
Proof.
  intros st st' Hq Hqs Hl. induction Hl as [st|st r st1 st2 Hin Hs _ IH]; [reflexivity|].
  destruct (Hqs r Hin) as [Hwf Hc].
  destruct (step_frame r st st1 Hwf Hs) as [Hn Hf].
  rewrite IH.
  - unfold view. apply read_ext. intros j Hj. apply Hf; [exact Hq|].
    destruct Hc as [Hc|Hc]; [left; intros E; apply Hc; symmetry; exact E|right; lia].
  - lia.
  - intros r' Hr'. destruct (Hqs r' Hr') as [Hwf' Hc']. split; [exact (wf_mono st st1 r' Hwf' Hn)|exact Hc'].
Qed.

(* the context being processed: whatever is done below it, it still reads its own path *)
Corollary view_stable_own st st' p : wf st p -> later [p] st st' -> view p st' = view p st.
Proof.
  intros Hwf. apply view_stable_general; [apply Hwf|].
  intros r [<-|[]]. split; [exact Hwf|right; lia].
Qed.

(* the snapshot taken for a child is the child's true path, whatever happens afterwards: it is a value *)
Theorem snapshot_stable st p pi x st1 p1 :
  wf st p -> read st p = pi -> append grow st p x = (st1, p1) ->
  let e := snapshot st1 p1 in
  forall st', later [p; p1] st1 st' -> e = pi ++ [x].
Proof.
  intros Hwf Hr Ha e st' _. unfold e, snapshot.
  destruct (append_spec grow grow_ok st p x st1 p1 Hwf Ha) as (_ & Hr1 & _). rewrite Hr1, Hr. reflexivity.
Qed.

(* a full parent: append copies, the child lives in a fresh array which neither the child's own subtree
   (deeper) nor the later siblings (other array) can change *)
Theorem view_stable_when_full st p x st1 p1 :
  wf st p -> len p = cap p -> append grow st p x = (st1, p1) ->
  forall st', later [p; p1] st1 st' -> view p1 st' = view p1 st1.
Proof.
  intros Hwf Hfull Ha st'.
  destruct (append_spec grow grow_ok st p x st1 p1 Hwf Ha) as (Hwf1 & _ & _ & [Hn _] & _).
  assert (Harr : arr p1 = next st).
  { unfold append in Ha. destruct (len p <? cap p) eqn:E; [apply Nat.ltb_lt in E; lia|].
    injection Ha as _ <-. reflexivity. }
  apply view_stable_general; [apply Hwf1|].
  intros r [<-|[<-|[]]].
  - split; [exact (wf_mono st st1 p Hwf Hn)|left; destruct Hwf; lia].
  - split; [exact Hwf1|right; lia].
Qed.

(* ---- sequential runs from one base context ---- *)
Fixpoint runs (st : store) (p : slice) (ts : list tree) : store * list (list (list nat)) :=
  match ts with
  | [] => (st, [])
  | t :: r =>
      let '(st1, taps) := visit grow st p t in
      let '(st2, rest) := runs st1 p r in
      (st2, taps :: rest)
  end.

Theorem runs_taps_true_paths ts : forall st p pi, wf st p -> read st p = pi ->
  let '(st', tapss) := runs st p ts in
  tapss = map (paths pi) ts /\ frame st st' (arr p) (len p).
Proof.
  induction ts as [|t r IH]; intros st p pi Hwf Hr; cbn [runs map].
  - split; [reflexivity|apply frame_refl].
  - pose proof (visit_all_ok grow grow_ok t st p pi Hwf Hr) as Hv.
    destruct (visit grow st p t) as [st1 taps]. destruct Hv as [-> Hf1].
    assert (Hwf1 : wf st1 p) by (apply (wf_mono st); [exact Hwf|apply Hf1]).
    assert (Hr1 : read st1 p = pi).
    { rewrite <- Hr. apply read_ext. intros j Hj. apply Hf1; [apply Hwf|right; exact Hj]. }
    specialize (IH st1 p pi Hwf1 Hr1). destruct (runs st1 p r) as [st2 rest]. destruct IH as [-> Hf2].
    split; [reflexivity|].
    eapply frame_trans; [exact Hf1|exact Hf2|left; split; [reflexivity|lia]].
Qed.

(* each run reports what it would report if it were the only one *)
Corollary runs_independent ts st p : wf st p ->
  snd (runs st p ts) = map (fun t => snd (visit grow st p t)) ts.
Proof.
  intros Hwf. pose proof (runs_taps_true_paths ts st p (read st p) Hwf eq_refl) as H.
  destruct (runs st p ts) as [st' tapss]. destruct H as [-> _]. cbn [snd].
  apply map_ext. intros t.
  pose proof (visit_all_ok grow grow_ok t st p (read st p) Hwf eq_refl) as Hv.
  destruct (visit grow st p t) as [st1 taps]. destruct Hv as [-> _]. reflexivity.
Qed.

Corollary runs_from_root ts : snd (runs st0 p0 ts) = map (paths []) ts.
Proof.
  pose proof (runs_taps_true_paths ts st0 p0 [] ltac:(split; cbn; lia) eq_refl) as H.
  destruct (runs st0 p0 ts) as [st' tapss]. destruct H as [-> _]. reflexivity.
Qed.

(* ---- the same contrast on a whole traversal: keep the slice HEADER handed to each tap ---- *)
Fixpoint visit_h (st : store) (p : slice) (t : tree) {struct t} : store * list slice :=
  match t with
  | Node cs =>
      let '(st', hs) :=
        (fix kids (st : store) (l : list (nat * tree)) : store * list slice :=
           match l with
           | [] => (st, [])
           | (lab, c) :: r =>
               let '(st1, p1) := append grow st p lab in
               let '(st2, h1) := visit_h st1 p1 c in
               let '(st3, h2) := kids st2 r in
               (st3, h1 ++ h2)
           end) st cs in
      (st', p :: hs)
  end.

Definition kids_h (p : slice) :=
  fix kids (st : store) (l : list (nat * tree)) : store * list slice :=
    match l with
    | [] => (st, [])
    | (lab, c) :: r =>
        let '(st1, p1) := append grow st p lab in
        let '(st2, h1) := visit_h st1 p1 c in
        let '(st3, h2) := kids st2 r in
        (st3, h1 ++ h2)
    end.
End Alias.

(* a growth policy that never leaves spare capacity: every append copies *)
Definition exact (n : nat) : nat := S n.
Lemma exact_ok n : n < exact n.
Proof. unfold exact. lia. Qed.

(* old: nothing below next st is written *)
Definition untouched (st st' : store) : Prop :=
  next st <= next st' /\ forall b j, b < next st -> cell st' b j = cell st b j.

Definition visit_h_ok (t : tree) : Prop :=
  forall st p pi, wf st p -> len p = cap p -> read st p = pi ->
    let '(st', hs) := visit_h exact st p t in
    map (fun h => read st' h) hs = paths pi t /\ untouched st st' /\ Forall (fun h => arr h < next st') hs.

Lemma read_untouched st st' h : untouched st st' -> arr h < next st -> read st' h = read st h.
Proof. intros [_ Hu] Hh. apply read_ext. intros j _. apply Hu. exact Hh. Qed.

Lemma kids_h_ok p pi : forall cs, Forall (fun c => visit_h_ok (snd c)) cs ->
  forall st, wf st p -> len p = cap p -> read st p = pi ->
    let '(st', hs) := kids_h exact p st cs in
    map (fun h => read st' h) hs = kpaths pi cs /\ untouched st st' /\ Forall (fun h => arr h < next st') hs.
Proof.
  induction 1 as [|[lab c] r Hc _ IH]; intros st Hwf Hfull Hr; cbn [kids_h kpaths].
  - split; [reflexivity|]. split; [split; [lia|auto]|constructor].
  - destruct (append exact st p lab) as [st1 p1] eqn:Ea.
    destruct (append_spec exact exact_ok st p lab st1 p1 Hwf Ea) as (Hwf1 & Hr1 & Hlen1 & _ & _).
    assert (Hu1 : untouched st st1 /\ len p1 = cap p1).
    { unfold append in Ea. destruct (len p <? cap p) eqn:E; [apply Nat.ltb_lt in E; lia|].
      injection Ea as <- <-. unfold untouched, exact. cbn [len cap next cell]. split; [split; [lia|]|reflexivity].
      intros b j Hb. destruct (Nat.eqb_spec b (next st)); [lia|reflexivity]. }
    destruct Hu1 as [Hu1 Hfull1].
    specialize (Hc st1 p1 (pi ++ [lab]) Hwf1 Hfull1 ltac:(rewrite Hr1, Hr; reflexivity)). cbn [snd] in Hc.
    destruct (visit_h exact st1 p1 c) as [st2 h1]. destruct Hc as (Hm1 & Hu2 & Hb1).
    assert (Hu12 : untouched st st2).
    { destruct Hu1 as [Hn1 Hc1], Hu2 as [Hn2 Hc2]. split; [lia|]. intros b j Hb. rewrite Hc2; [apply Hc1; exact Hb|lia]. }
    assert (Hwf2 : wf st2 p) by (apply (wf_mono st); [exact Hwf|apply Hu12]).
    assert (Hr2 : read st2 p = pi) by (rewrite <- Hr; apply read_untouched; [exact Hu12|apply Hwf]).
    specialize (IH st2 Hwf2 Hfull Hr2). destruct (kids_h exact p st2 r) as [st3 h2]. destruct IH as (Hm2 & Hu3 & Hb2).
    split; [|split].
    + rewrite map_app, Hm2. f_equal. rewrite <- Hm1. apply map_ext_in. intros h Hh.
      apply read_untouched; [exact Hu3|]. rewrite Forall_forall in Hb1. exact (Hb1 h Hh).
    + destruct Hu12 as [Hn1 Hc1], Hu3 as [Hn2 Hc2]. split; [lia|]. intros b j Hb. rewrite Hc2; [apply Hc1; exact Hb|lia].
    + apply Forall_app. split; [|exact Hb2]. destruct Hu3 as [Hn3 _].
      rewrite Forall_forall in *. intros h Hh. specialize (Hb1 h Hh). lia.
Qed.

(* with no spare capacity anywhere (full base slice, exact growth) every kept header still shows, at the END
   of the traversal, the path its element was tapped with *)
Theorem hdrs_stable_exact_growth : forall t, visit_h_ok t.
Proof.
  induction t as [cs IH] using tree_ind2. intros st p pi Hwf Hfull Hr.
  change (visit_h exact st p (Node cs)) with (let '(st', hs) := kids_h exact p st cs in (st', p :: hs)).
  pose proof (kids_h_ok p pi cs IH st Hwf Hfull Hr) as Hk.
  destruct (kids_h exact p st cs) as [st' hs]. destruct Hk as (Hm & Hu & Hb).
  split; [|split; [exact Hu|]].
  - cbn [map]. change (paths pi (Node cs)) with (pi :: kpaths pi cs). f_equal; [|exact Hm].
    rewrite <- Hr. apply read_untouched; [exact Hu|apply Hwf].
  - constructor; [|exact Hb]. destruct Hwf as [Ha _], Hu as [Hn _]. lia.
Qed.

(* ---- the contrast: a kept header CAN be changed by the next sibling ---- *)
(* Go-like growth: double *)
Definition double (n : nat) : nat := 2 * n + 2.
Lemma double_ok n : n < double n.
Proof. unfold double. lia. Qed.

(* a parent context at path [7;8;9] whose slice has one spare cell (len 3, cap 4) *)
Definition st_w : store := {| cell := fun b j => if Nat.eqb b 0 then nth j [7; 8; 9] 0 else 0; next := 1 |}.
Definition p_w : slice := {| arr := 0; len := 3; cap := 4 |}.

Theorem view_refuted :
  exists (grow : nat -> nat) st p pi x y st1 p1 st2 p2,
    (forall n, n < grow n) /\ wf st p /\ read st p = pi /\ x <> y /\
    append grow st p x = (st1, p1) /\            (* the first child's context ... *)
    append grow st1 p y = (st2, p2) /\           (* ... and then its sibling's, from the same parent *)
    later grow [p; p1] st1 st2 /\
    snapshot st1 p1 = pi ++ [x] /\               (* the copy taken for the first child *)
    view p1 st1 = pi ++ [x] /\                   (* its header, read at once *)
    view p1 st2 = pi ++ [y] /\                   (* its header, read after the sibling: the SIBLING's path *)
    view p1 st2 <> view p1 st1.
Proof.
  exists double, st_w, p_w, [7; 8; 9], 1, 2,
         (fst (append double st_w p_w 1)), (snd (append double st_w p_w 1)),
         (fst (append double (fst (append double st_w p_w 1)) p_w 2)),
         (snd (append double (fst (append double st_w p_w 1)) p_w 2)).
  split; [exact double_ok|]. split; [split; cbn; lia|]. split; [reflexivity|]. split; [discriminate|].
  split; [reflexivity|]. split; [reflexivity|].
  split.
  { eapply later_step; [left; reflexivity| |apply later_refl].
    eapply step_append with (x := 2). reflexivity. }
  split; [reflexivity|]. split; [reflexivity|]. split; [reflexivity|]. vm_compute. discriminate.
Qed.

(* the same on a whole traversal from the empty path: root -> 1 -> {2, 3}.  Under doubling the context [1] has
   len 1, cap 2, so the contexts [1;2] and [1;3] share one cell: at the end the header kept for [1;2] reads [1;3] *)
Definition t_w : tree := Node [(1, Node [(2, Node []); (3, Node [])])].

Theorem hdrs_refuted :
  exists (grow : nat -> nat) t,
    (forall n, n < grow n) /\
    let '(st', hs) := visit_h grow st0 p0 t in
    snd (visit grow st0 p0 t) = [[]; [1]; [1; 2]; [1; 3]] /\        (* what the taps saw: the true paths *)
    map (fun h => read st' h) hs = [[]; [1]; [1; 3]; [1; 3]] /\      (* what the kept headers show afterwards *)
    map (fun h => read st' h) hs <> paths [] t.
Proof.
  exists double, t_w. split; [exact double_ok|]. vm_compute.
  split; [reflexivity|]. split; [reflexivity|discriminate].
Qed.

(* ---- examples (non-vacuity) ---- *)
Example later_ex :   (* a later store that is really later: a sibling append and a whole sibling subtree *)
  later double [p_w] st_w (fst (visit double (fst (append double st_w p_w 5)) p_w (Node [(6, Node [(7, Node [])])]))).
Proof.
  eapply later_step; [left; reflexivity|eapply step_append with (x := 5); reflexivity|].
  eapply later_step; [left; reflexivity| |apply later_refl].
  eapply step_visit with (t := Node [(6, Node [(7, Node [])])]). apply surjective_pairing.
Qed.

Example view_stable_own_ex :
  view p_w (fst (visit double (fst (append double st_w p_w 5)) p_w (Node [(6, Node [(7, Node [])])]))) = [7; 8; 9].
Proof. vm_compute. reflexivity. Qed.

Example view_stable_when_full_ex :   (* parent len 3 = cap 3: the first child's header survives its sibling *)
  let p := {| arr := 0; len := 3; cap := 3 |} in
  let '(st1, p1) := append double st_w p 1 in
  let '(st2, p2) := append double st1 p 2 in
  view p1 st1 = [7; 8; 9; 1] /\ view p1 st2 = [7; 8; 9; 1] /\ view p2 st2 = [7; 8; 9; 2].
Proof. vm_compute. repeat split. Qed.

Example snapshot_stable_ex :
  let '(st1, p1) := append double st_w p_w 1 in
  let e := snapshot st1 p1 in
  let '(st2, _) := append double st1 p_w 2 in
  e = [7; 8; 9; 1] /\ view p1 st2 = [7; 8; 9; 2].
Proof. vm_compute. split; reflexivity. Qed.

Example runs_ex :
  snd (runs double st0 p0 [t_w; Node [(4, Node []); (5, Node [(6, Node [])])]; t_w]) =
  [ [[]; [1]; [1; 2]; [1; 3]];  [[]; [4]; [5]; [5; 6]];  [[]; [1]; [1; 2]; [1; 3]] ].
Proof. vm_compute. reflexivity. Qed.

Example runs_shared_spare_ex :   (* a base context with spare capacity shared by all runs *)
  snd (runs double st_w p_w [t_w; Node [(4, Node [])]]) =
  [ [[7; 8; 9]; [7; 8; 9; 1]; [7; 8; 9; 1; 2]; [7; 8; 9; 1; 3]];  [[7; 8; 9]; [7; 8; 9; 4]] ].
Proof. vm_compute. reflexivity. Qed.

Example hdrs_stable_exact_ex :
  let '(st', hs) := visit_h exact st0 p0 t_w in
  map (fun h => read st' h) hs = [[]; [1]; [1; 2]; [1; 3]].
Proof. vm_compute. reflexivity. Qed.

End AliasP.

(* ====================================================================== *)
(* Part B: which path each element of a typed value is tapped under        *)
(* ====================================================================== *)
Module TapsP.
Import ListNotations.
Import MarshalTaps.
Local Open Scope N_scope.

(* ---- B.1 the spec ---- *)
(* The elements of a value form a tree.  An edge carries the path element it ADDS (a field name, an index, a map
   key) or nothing (the referent of a pointer / the content of an interface, and the auxiliary tokens handed to
   ctx.Marshal on the way: the End token of a container under the container's path, the string bridging a
   time.Time).  A node carries the reflect.Kind the tap sees. *)
Inductive vtree := VNode (kind : N) (kids : list (option pelem * vtree)).
Definition leaf (k : N) : vtree := VNode k [].

Section vtree_ind2.
  Variable P : vtree -> Prop.
  Hypothesis HN : forall k cs, Forall (fun c => P (snd c)) cs -> P (VNode k cs).
  Fixpoint vtree_ind2 (n : vtree) : P n :=
    match n with VNode k cs => HN k cs ((fix go l : Forall (fun c => P (snd c)) l :=
       match l with [] => Forall_nil _ | c :: r => Forall_cons _ (vtree_ind2 (snd c)) (go r) end) cs) end.
End vtree_ind2.

(* THE sentence of C17: the path of an element is the list of the path elements on the way from the root;
   elements are reported in pre-order *)
Definition ext (pi : list pelem) (lab : option pelem) : list pelem :=
  match lab with None => pi | Some e => pi ++ [e] end.
Fixpoint vpaths (pi : list pelem) (n : vtree) {struct n} : list tap :=
  match n with
  | VNode k cs => (pi, k) :: (fix go l := match l with [] => [] | (lab, c) :: r => vpaths (ext pi lab) c ++ go r end) cs
  end.
Definition kpaths (pi : list pelem) :=
  fix go (l : list (option pelem * vtree)) : list tap :=
    match l with [] => [] | (lab, c) :: r => vpaths (ext pi lab) c ++ go r end.
Lemma vpaths_node pi k cs : vpaths pi (VNode k cs) = (pi, k) :: kpaths pi cs.
Proof. reflexivity. Qed.
Lemma kpaths_app pi a : forall b, kpaths pi (a ++ b) = kpaths pi a ++ kpaths pi b.
Proof.
  induction a as [|[lab c] r IH]; intros b; cbn [kpaths app]; [reflexivity|]. rewrite IH, app_assoc. reflexivity.
Qed.

(* the static element type at each position (the defaults are unreachable for well-typed values, has_type) *)
Definition elem_ty (t : ty) : ty := match underlying t with TArray _ e | TSlice e => e | _ => TAny end.
Definition kv_ty (t : ty) : ty * ty := match underlying t with TMap k v => (k, v) | _ => (TAny, TAny) end.
Definition fields_of (t : ty) : list (bytes * bool * ty) := match underlying t with TStruct fs => fs | _ => [] end.
Definition ptr_ty (t : ty) : ty := match underlying t with TPtr e => e | _ => TAny end.
Definition outs_of (t : ty) : list ty := match underlying t with TFunc outs => outs | _ => [] end.
(* the stream a map key is sorted by, and the omitempty test of a field *)
Definition sortkey (kt : ty) (k : gval) : list token := match marshal default_opts kt k with Ok ts => ts | _ => [] end.
Definition skipped (o : copts) (fd : bytes * bool * ty) (x : gval) : bool :=
  skip_empty o && (is_zero (snd fd) x || (is_slice_kind (snd fd) && Nat.eqb (glen x) 0)).

(* insertion sort of things tagged with a key stream: the order of Marshal.sort_entries *)
Definition tkey_le {A} (a b : list token * A) : bool :=
  match cmp_tokens (fst a) (fst b) with Some Gt => false | _ => true end.
Fixpoint tinsert {A} (e : list token * A) (l : list (list token * A)) : list (list token * A) :=
  match l with
  | [] => [e]
  | x :: r => if tkey_le e x then e :: l else x :: tinsert e r
  end.
Definition tsort {A} (l : list (list token * A)) : list (list token * A) := fold_right tinsert [] l.

(* the elements of a typed value:
   - a slice / array: its items, item i under index i; then the End token under the container's own path
   - a struct: for every field that is emitted (exported, not omitted), in declaration order, the name token and
     the field value, both under the field name; then the End token
   - a map: its entries in the marshalled (sorted) order; key and value both under the key (key_elem: an int, a
     string, or the key value itself); then the End token
   - a non-nil pointer / interface: the referent / the content, under the SAME path
   - a tuple func: its results, result i under index i; then the End token
   - a time.Time: the bridging string under the same path *)
Fixpoint elements (o : copts) (t : ty) (v : gval) {struct v} : vtree :=
  VNode (tap_kind t)
    match v with
    | GTime _ => [(None, leaf 24)]
    | GList _ items =>
        let et := elem_ty t in
        (fix go (l : list gval) (i : Z) : list (option pelem * vtree) :=
           match l with
           | [] => [(None, leaf 22)]
           | x :: r => (Some (PIdx i), elements o et x) :: go r (i + 1)%Z
           end) items 0%Z
    | GMap _ entries =>
        let '(kt, vt) := kv_ty t in
        flat_map snd
          (tsort ((fix go (l : list (gval * gval)) : list (list token * list (option pelem * vtree)) :=
                     match l with
                     | [] => []
                     | (k, x) :: r =>
                         (sortkey kt k, [(Some (key_elem kt k), elements o kt k); (Some (key_elem kt k), elements o vt x)])
                         :: go r
                     end) entries))
        ++ [(None, leaf 22)]
    | GStruct vals =>
        (fix go (l : list gval) (f : list (bytes * bool * ty)) : list (option pelem * vtree) :=
           match l, f with
           | x :: r, fd :: fr =>
               if skipped o fd x then go r fr
               else if negb (fexported fd) then go r fr
               else (Some (PStr (fname fd)), leaf 24) :: (Some (PStr (fname fd)), elements o (snd fd) x) :: go r fr
           | _, _ => [(None, leaf 22)]
           end) vals (fields_of t)
    | GPtr (Some x) => [(None, elements o (ptr_ty t) x)]
    | GAny (Some (t', x)) => [(None, elements o t' x)]
    | GFunc r =>
        if ignore_funcs o then []
        else match r with
             | None => [(None, leaf 22)]
             | Some items =>
                 (fix go (l : list gval) (ts : list ty) (i : Z) : list (option pelem * vtree) :=
                    match l, ts with
                    | x :: r', xt :: tr => (Some (PIdx i), elements o xt x) :: go r' tr (i + 1)%Z
                    | _, _ => [(None, leaf 22)]
                    end) items (outs_of t) 0%Z
             end
    | _ => []
    end.

(* the spec: the (path, kind) pairs of all elements of v : t, from the root path pi *)
Definition paths_of (o : copts) (t : ty) (v : gval) (pi : list pelem) : list tap := vpaths pi (elements o t v).

(* ---- B.2 the domain: the key streams of every map are self-equal and pairwise different under Compare ---- *)
Definition is_eq (c : option comparison) : bool := match c with Some Eq => true | _ => false end.
Fixpoint keys_goodb (ks : list (list token)) : bool :=
  match ks with
  | [] => true
  | k :: r => is_eq (cmp_tokens k k) && negb (existsb (fun k' => is_eq (cmp_tokens k k')) r) && keys_goodb r
  end.

Fixpoint maps_ok (t : ty) (v : gval) {struct v} : bool :=
  match v with
  | GList _ items =>
      let et := elem_ty t in
      (fix all (l : list gval) : bool := match l with [] => true | x :: r => maps_ok et x && all r end) items
  | GMap _ entries =>
      let '(kt, vt) := kv_ty t in
      keys_goodb (map (fun e => sortkey kt (fst e)) entries) &&
      (fix all (l : list (gval * gval)) : bool :=
         match l with [] => true | (k, x) :: r => maps_ok kt k && maps_ok vt x && all r end) entries
  | GStruct vals =>
      (fix all (l : list gval) (f : list (bytes * bool * ty)) : bool :=
         match l, f with x :: r, fd :: fr => maps_ok (snd fd) x && all r fr | _, _ => true end) vals (fields_of t)
  | GPtr (Some x) => maps_ok (ptr_ty t) x
  | GAny (Some (t', x)) => maps_ok t' x
  | GFunc (Some items) =>
      (fix all (l : list gval) (ts : list ty) : bool :=
         match l, ts with x :: r, xt :: tr => maps_ok xt x && all r tr | _, _ => true end) items (outs_of t)
  | _ => true
  end.

(* ---- B.3 named forms of the local fixpoints and their unfolding equations ---- *)
Definition mt_items (o : copts) (et : ty) (path : list pelem) :=
  fix go (l : list gval) (i : Z) : list tap :=
    match l with
    | [] => [(path, 22)]
    | x :: r => mtaps o et x (path ++ [PIdx i]) ++ go r (i + 1)%Z
    end.
Definition mt_fields (o : copts) (path : list pelem) :=
  fix go (l : list gval) (f : list (bytes * bool * ty)) : list tap :=
    match l, f with
    | x :: r, fd :: fr =>
        if skipped o fd x then go r fr
        else if negb (fexported fd) then go r fr
        else (path ++ [PStr (fname fd)], 24) :: mtaps o (snd fd) x (path ++ [PStr (fname fd)]) ++ go r fr
    | _, _ => [(path, 22)]
    end.
Definition mt_outs (o : copts) (path : list pelem) :=
  fix go (l : list gval) (ts : list ty) (i : Z) : list tap :=
    match l, ts with
    | x :: r', xt :: tr => mtaps o xt x (path ++ [PIdx i]) ++ go r' tr (i + 1)%Z
    | _, _ => [(path, 22)]
    end.
Definition mt_entries (o : copts) (kt vt : ty) (path : list pelem) :=
  fix go (l : list (gval * gval)) : list entry * list (list token * list tap) :=
    match l with
    | [] => ([], [])
    | (k, x) :: r =>
        let '(a, b) := go r in
        ((sortkey kt k, [], []) :: a,
         (sortkey kt k, mtaps o kt k (path ++ [key_elem kt k]) ++ mtaps o vt x (path ++ [key_elem kt k])) :: b)
    end.
Definition lookup (tagged : list (list token * list tap)) (e : entry) : list tap :=
  match find (fun p => is_eq (cmp_tokens (fst p) (fst (fst e)))) tagged with
  | Some p => snd p
  | None => []
  end.

Lemma mtaps_list o t n items path :
  mtaps o t (GList n items) path = (path, tap_kind t) :: mt_items o (elem_ty t) path items 0%Z.
Proof. reflexivity. Qed.
Lemma mtaps_struct o t vals path :
  mtaps o t (GStruct vals) path = (path, tap_kind t) :: mt_fields o path vals (fields_of t).
Proof. reflexivity. Qed.
Lemma mtaps_func o t items path :
  mtaps o t (GFunc (Some items)) path =
  (path, tap_kind t) :: (if ignore_funcs o then [] else mt_outs o path items (outs_of t) 0%Z).
Proof. reflexivity. Qed.
Lemma mtaps_map o t n es path :
  mtaps o t (GMap n es) path =
  (path, tap_kind t) ::
  (let '(kt, vt) := kv_ty t in
   flat_map (lookup (snd (mt_entries o kt vt path es))) (sort_entries (fst (mt_entries o kt vt path es))) ++ [(path, 22)]).
Proof. cbn [mtaps]. unfold kv_ty. destruct (underlying t); reflexivity. Qed.

Definition el_items (o : copts) (et : ty) :=
  fix go (l : list gval) (i : Z) : list (option pelem * vtree) :=
    match l with
    | [] => [(None, leaf 22)]
    | x :: r => (Some (PIdx i), elements o et x) :: go r (i + 1)%Z
    end.
Definition el_fields (o : copts) :=
  fix go (l : list gval) (f : list (bytes * bool * ty)) : list (option pelem * vtree) :=
    match l, f with
    | x :: r, fd :: fr =>
        if skipped o fd x then go r fr
        else if negb (fexported fd) then go r fr
        else (Some (PStr (fname fd)), leaf 24) :: (Some (PStr (fname fd)), elements o (snd fd) x) :: go r fr
    | _, _ => [(None, leaf 22)]
    end.
Definition el_outs (o : copts) :=
  fix go (l : list gval) (ts : list ty) (i : Z) : list (option pelem * vtree) :=
    match l, ts with
    | x :: r', xt :: tr => (Some (PIdx i), elements o xt x) :: go r' tr (i + 1)%Z
    | _, _ => [(None, leaf 22)]
    end.
Definition el_entries (o : copts) (kt vt : ty) :=
  fix go (l : list (gval * gval)) : list (list token * list (option pelem * vtree)) :=
    match l with
    | [] => []
    | (k, x) :: r =>
        (sortkey kt k, [(Some (key_elem kt k), elements o kt k); (Some (key_elem kt k), elements o vt x)]) :: go r
    end.

Lemma elements_list o t n items :
  elements o t (GList n items) = VNode (tap_kind t) (el_items o (elem_ty t) items 0%Z).
Proof. reflexivity. Qed.
Lemma elements_struct o t vals :
  elements o t (GStruct vals) = VNode (tap_kind t) (el_fields o vals (fields_of t)).
Proof. reflexivity. Qed.
Lemma elements_func o t items :
  elements o t (GFunc (Some items)) =
  VNode (tap_kind t) (if ignore_funcs o then [] else el_outs o items (outs_of t) 0%Z).
Proof. reflexivity. Qed.
Lemma elements_map o t n es :
  elements o t (GMap n es) =
  VNode (tap_kind t) (let '(kt, vt) := kv_ty t in flat_map snd (tsort (el_entries o kt vt es)) ++ [(None, leaf 22)]).
Proof. cbn [elements]. destruct (kv_ty t); reflexivity. Qed.

Definition all_items (et : ty) :=
  fix all (l : list gval) : bool := match l with [] => true | x :: r => maps_ok et x && all r end.
Definition all_fields :=
  fix all (l : list gval) (f : list (bytes * bool * ty)) : bool :=
    match l, f with x :: r, fd :: fr => maps_ok (snd fd) x && all r fr | _, _ => true end.
Definition all_outs :=
  fix all (l : list gval) (ts : list ty) : bool :=
    match l, ts with x :: r, xt :: tr => maps_ok xt x && all r tr | _, _ => true end.
Definition all_entries (kt vt : ty) :=
  fix all (l : list (gval * gval)) : bool :=
    match l with [] => true | (k, x) :: r => maps_ok kt k && maps_ok vt x && all r end.
Lemma maps_ok_list t n items : maps_ok t (GList n items) = all_items (elem_ty t) items.
Proof. reflexivity. Qed.
Lemma maps_ok_struct t vals : maps_ok t (GStruct vals) = all_fields vals (fields_of t).
Proof. reflexivity. Qed.
Lemma maps_ok_func t items : maps_ok t (GFunc (Some items)) = all_outs items (outs_of t).
Proof. reflexivity. Qed.
Lemma maps_ok_map t n es :
  maps_ok t (GMap n es) =
  (let '(kt, vt) := kv_ty t in keys_goodb (map (fun e => sortkey kt (fst e)) es) && all_entries kt vt es).
Proof. cbn [maps_ok]. destruct (kv_ty t); reflexivity. Qed.

(* ---- B.4 sorting lemmas ---- *)
Definition bare {A} (e : list token * A) : entry := (fst e, [], []).

Lemma insert_bare {A} (e : list token * A) l : insert_entry (bare e) (map bare l) = map bare (tinsert e l).
Proof.
  induction l as [|x r IH]; [reflexivity|]. cbn [map insert_entry tinsert].
  change (key_le (bare e) (bare x)) with (tkey_le e x).
  destruct (tkey_le e x); [reflexivity|]. cbn [map]. rewrite IH. reflexivity.
Qed.
Lemma sort_bare {A} (l : list (list token * A)) : sort_entries (map bare l) = map bare (tsort l).
Proof.
  induction l as [|x r IH]; [reflexivity|]. cbn [map]. unfold sort_entries, tsort in *. cbn [fold_right].
  rewrite IH. apply insert_bare.
Qed.

Definition pmap {A B} (f : A -> B) (e : list token * A) : list token * B := (fst e, f (snd e)).
Lemma tinsert_pmap {A B} (f : A -> B) e l : tinsert (pmap f e) (map (pmap f) l) = map (pmap f) (tinsert e l).
Proof.
  induction l as [|x r IH]; [reflexivity|]. cbn [map tinsert].
  change (tkey_le (pmap f e) (pmap f x)) with (tkey_le e x).
  destruct (tkey_le e x); [reflexivity|]. cbn [map]. rewrite IH. reflexivity.
Qed.
Lemma tsort_pmap {A B} (f : A -> B) l : tsort (map (pmap f) l) = map (pmap f) (tsort l).
Proof.
  induction l as [|x r IH]; [reflexivity|]. cbn [map]. unfold tsort in *. cbn [fold_right].
  rewrite IH. apply tinsert_pmap.
Qed.

Lemma tinsert_in {A} (e x : list token * A) l : In x (tinsert e l) -> x = e \/ In x l.
Proof.
  induction l as [|y r IH]; cbn [tinsert].
  - intros [<-|[]]. left; reflexivity.
  - destruct (tkey_le e y).
    + intros [<-|H]; [left; reflexivity|right; exact H].
    + intros [<-|H]; [right; left; reflexivity|]. destruct (IH H) as [->|H']; [left; reflexivity|right; right; exact H'].
Qed.
Lemma tsort_in {A} (x : list token * A) l : In x (tsort l) -> In x l.
Proof.
  induction l as [|y r IH]; [intros []|]. unfold tsort in *. cbn [fold_right]. intros H.
  destruct (tinsert_in _ _ _ H) as [->|H']; [left; reflexivity|right; exact (IH H')].
Qed.

(* looking an entry up by its key finds the entry itself *)
Lemma find_self {A} (l : list (list token * A)) : keys_goodb (map fst l) = true ->
  forall e, In e l -> find (fun p => is_eq (cmp_tokens (fst p) (fst e))) l = Some e.
Proof.
  induction l as [|a r IH]; intros Hg e Hin; [destruct Hin|].
  cbn [map keys_goodb] in Hg. apply andb_true_iff in Hg. destruct Hg as [Hg Hr].
  apply andb_true_iff in Hg. destruct Hg as [Hrefl Hne]. apply negb_true_iff in Hne.
  cbn [find]. destruct Hin as [<-|Hin]; [rewrite Hrefl; reflexivity|].
  destruct (is_eq (cmp_tokens (fst a) (fst e))) eqn:E; [|exact (IH Hr e Hin)].
  exfalso. assert (Hex : existsb (fun k' => is_eq (cmp_tokens (fst a) k')) (map fst r) = true).
  { apply existsb_exists. exists (fst e). split; [apply in_map; exact Hin|exact E]. }
  rewrite Hex in Hne. discriminate.
Qed.

Lemma lookup_sorted (tagged : list (list token * list tap)) : keys_goodb (map fst tagged) = true ->
  flat_map (lookup tagged) (sort_entries (map bare tagged)) = flat_map snd (tsort tagged).
Proof.
  intros Hg. rewrite sort_bare.
  assert (H : forall l', (forall e, In e l' -> In e tagged) ->
                         flat_map (lookup tagged) (map bare l') = flat_map snd l').
  { induction l' as [|e r IH]; intros Hin; [reflexivity|]. cbn [map flat_map].
    rewrite IH by (intros e' He'; apply Hin; right; exact He'). f_equal.
    unfold lookup, bare. cbn [fst]. rewrite (find_self tagged Hg e) by (apply Hin; left; reflexivity). reflexivity. }
  apply H. intros e. apply tsort_in.
Qed.

Definition tagged_taps (o : copts) (kt vt : ty) (path : list pelem) (es : list (gval * gval)) :=
  map (fun e : gval * gval =>
         (sortkey kt (fst e),
          mtaps o kt (fst e) (path ++ [key_elem kt (fst e)]) ++ mtaps o vt (snd e) (path ++ [key_elem kt (fst e)]))) es.

Lemma mt_entries_eq o kt vt path es :
  mt_entries o kt vt path es = (map bare (tagged_taps o kt vt path es), tagged_taps o kt vt path es).
Proof.
  induction es as [|[k x] r IH]; [reflexivity|]. cbn [mt_entries]. rewrite IH. reflexivity.
Qed.

(* ---- B.5 the adequacy theorem ---- *)
Section gval_ind4.
  Variable P : gval -> Prop.
  Hypothesis Hbool : forall b, P (GBool b).
  Hypothesis Hint : forall z, P (GInt z).
  Hypothesis Huint : forall n, P (GUint n).
  Hypothesis Hf32 : forall b, P (GF32 b).
  Hypothesis Hf64 : forall b, P (GF64 b).
  Hypothesis Hstr : forall s, P (GStr s).
  Hypothesis Hbytes : forall n s, P (GBytes n s).
  Hypothesis Hlist : forall n l, Forall P l -> P (GList n l).
  Hypothesis Hmap : forall n es, Forall (fun e => P (fst e) /\ P (snd e)) es -> P (GMap n es).
  Hypothesis Hstruct : forall l, Forall P l -> P (GStruct l).
  Hypothesis Hpnil : P (GPtr None).
  Hypothesis Hptr : forall x, P x -> P (GPtr (Some x)).
  Hypothesis Hanil : P (GAny None).
  Hypothesis Hany : forall t x, P x -> P (GAny (Some (t, x))).
  Hypothesis Hfnil : P (GFunc None).
  Hypothesis Hfunc : forall l, Forall P l -> P (GFunc (Some l)).
  Hypothesis Htime : forall e, P (GTime e).
  Fixpoint gval_ind4 (v : gval) : P v :=
    let all := (fix go (l : list gval) : Forall P l :=
                  match l with [] => Forall_nil _ | x :: r => Forall_cons _ (gval_ind4 x) (go r) end) in
    match v with
    | GBool b => Hbool b | GInt z => Hint z | GUint n => Huint n | GF32 b => Hf32 b | GF64 b => Hf64 b
    | GStr s => Hstr s | GBytes n s => Hbytes n s
    | GList n l => Hlist n l (all l)
    | GMap n es =>
        Hmap n es ((fix go (l : list (gval * gval)) : Forall (fun e => P (fst e) /\ P (snd e)) l :=
                      match l with
                      | [] => Forall_nil _
                      | e :: r => Forall_cons _ (conj (gval_ind4 (fst e)) (gval_ind4 (snd e))) (go r)
                      end) es)
    | GStruct l => Hstruct l (all l)
    | GPtr None => Hpnil
    | GPtr (Some x) => Hptr x (gval_ind4 x)
    | GAny None => Hanil
    | GAny (Some (t, x)) => Hany t x (gval_ind4 x)
    | GFunc None => Hfnil
    | GFunc (Some l) => Hfunc l (all l)
    | GTime e => Htime e
    end.
End gval_ind4.

Definition adequate (v : gval) : Prop :=
  forall o t path, maps_ok t v = true -> mtaps o t v path = vpaths path (elements o t v).

Lemma items_adequate o et path : forall items, Forall adequate items ->
  forall i, all_items et items = true -> mt_items o et path items i = kpaths path (el_items o et items i).
Proof.
  induction 1 as [|x r Hx _ IH]; intros i Hok; cbn [mt_items el_items kpaths all_items] in *; [reflexivity|].
  apply andb_true_iff in Hok. destruct Hok as [Hokx Hokr].
  rewrite (Hx o et _ Hokx), (IH _ Hokr). reflexivity.
Qed.

Lemma fields_adequate o path : forall vals, Forall adequate vals ->
  forall fs, all_fields vals fs = true -> mt_fields o path vals fs = kpaths path (el_fields o vals fs).
Proof.
  induction 1 as [|x r Hx _ IH]; intros fs Hok; [destruct fs; reflexivity|].
  destruct fs as [|fd fr]; [reflexivity|]. cbn [mt_fields el_fields all_fields] in *.
  apply andb_true_iff in Hok. destruct Hok as [Hokx Hokr].
  destruct (skipped o fd x); [exact (IH fr Hokr)|].
  destruct (negb (fexported fd)); [exact (IH fr Hokr)|].
  cbn [kpaths ext]. rewrite (Hx o (snd fd) _ Hokx), (IH fr Hokr). reflexivity.
Qed.

Lemma outs_adequate o path : forall items, Forall adequate items ->
  forall ts i, all_outs items ts = true -> mt_outs o path items ts i = kpaths path (el_outs o items ts i).
Proof.
  induction 1 as [|x r Hx _ IH]; intros ts i Hok; [destruct ts; reflexivity|].
  destruct ts as [|xt tr]; [reflexivity|]. cbn [mt_outs el_outs all_outs kpaths ext] in *.
  apply andb_true_iff in Hok. destruct Hok as [Hokx Hokr].
  rewrite (Hx o xt _ Hokx), (IH tr _ Hokr). reflexivity.
Qed.

Lemma entries_adequate o kt vt path : forall es, Forall (fun e => adequate (fst e) /\ adequate (snd e)) es ->
  all_entries kt vt es = true ->
  tagged_taps o kt vt path es = map (pmap (kpaths path)) (el_entries o kt vt es).
Proof.
  induction 1 as [|[k x] r [Hk Hx] _ IH]; intros Hok; [reflexivity|]. cbn [fst snd] in Hk, Hx.
  cbn [all_entries] in Hok. apply andb_true_iff in Hok. destruct Hok as [Hok Hokr].
  apply andb_true_iff in Hok. destruct Hok as [Hokk Hokx].
  unfold tagged_taps in *. cbn [map el_entries fst snd]. rewrite (IH Hokr). f_equal.
  unfold pmap. cbn [fst snd kpaths ext]. rewrite (Hk o kt _ Hokk), (Hx o vt _ Hokx), app_nil_r. reflexivity.
Qed.

Lemma flat_pmap_kpaths path (l : list (list token * list (option pelem * vtree))) :
  flat_map snd (map (pmap (kpaths path)) l) = kpaths path (flat_map snd l).
Proof.
  induction l as [|e r IH]; [reflexivity|]. cbn [map flat_map]. rewrite kpaths_app, IH. reflexivity.
Qed.

Theorem mtaps_adequate : forall v, adequate v.
Proof.
  induction v as [b|z|n|b|b|s|n s|n l IH|n es IH|l IH| |x IH| |t' x IH| |l IH|e] using gval_ind4;
    intros o t path Hok; try reflexivity.
  - rewrite mtaps_list, elements_list, vpaths_node. f_equal.
    rewrite maps_ok_list in Hok. exact (items_adequate o (elem_ty t) path l IH 0%Z Hok).
  - rewrite mtaps_map, elements_map, vpaths_node. f_equal.
    rewrite maps_ok_map in Hok. destruct (kv_ty t) as [kt vt].
    apply andb_true_iff in Hok. destruct Hok as [Hkeys Hall].
    rewrite mt_entries_eq. cbn [fst snd].
    rewrite lookup_sorted.
    + rewrite (entries_adequate o kt vt path es IH Hall), tsort_pmap, flat_pmap_kpaths, kpaths_app. reflexivity.
    + unfold tagged_taps. rewrite map_map. exact Hkeys.
  - rewrite mtaps_struct, elements_struct, vpaths_node. f_equal.
    rewrite maps_ok_struct in Hok. exact (fields_adequate o path l IH (fields_of t) Hok).
  - cbn [mtaps elements maps_ok] in *. rewrite vpaths_node. f_equal. cbn [kpaths ext].
    rewrite app_nil_r. exact (IH o _ path Hok).
  - cbn [mtaps elements maps_ok] in *. rewrite vpaths_node. f_equal. cbn [kpaths ext].
    rewrite app_nil_r. exact (IH o _ path Hok).
  - cbn [mtaps elements]. destruct (ignore_funcs o); reflexivity.
  - rewrite mtaps_func, elements_func, vpaths_node. f_equal.
    rewrite maps_ok_func in Hok. destruct (ignore_funcs o); [reflexivity|].
    exact (outs_adequate o path l IH (outs_of t) 0%Z Hok).
Qed.

(* the tap log of Model/MarshalTaps.v is the declarative path spec, from any root path *)
Theorem marshal_taps_are_paths o t v pi : maps_ok t v = true -> mtaps o t v pi = paths_of o t v pi.
Proof. exact (mtaps_adequate v o t pi). Qed.

(* a value without maps is in the domain outright *)
Fixpoint no_maps (v : gval) : bool :=
  match v with
  | GMap _ _ => false
  | GList _ items => forallb no_maps items
  | GStruct vals => forallb no_maps vals
  | GPtr (Some x) => no_maps x
  | GAny (Some (_, x)) => no_maps x
  | GFunc (Some items) => forallb no_maps items
  | _ => true
  end.

Definition no_maps_ok_at (v : gval) : Prop := no_maps v = true -> forall t, maps_ok t v = true.

Lemma no_maps_ok : forall v, no_maps_ok_at v.
Proof.
  induction v as [b|z|n|b|b|s|n s|n l IH|n es IH|l IH| |x IH| |t' x IH| |l IH|e] using gval_ind4;
    intros H t; try reflexivity; try discriminate H.
  - rewrite maps_ok_list. cbn [no_maps] in H. generalize (elem_ty t). intros et.
    induction IH as [|x r Hx _ IHr]; [reflexivity|]. cbn [forallb all_items] in *.
    apply andb_true_iff in H. destruct H as [H1 H2]. rewrite (Hx H1 et), (IHr H2). reflexivity.
  - rewrite maps_ok_struct. cbn [no_maps] in H. generalize (fields_of t). intros fs. revert fs.
    induction IH as [|x r Hx _ IHr]; intros fs; [destruct fs; reflexivity|]. destruct fs as [|fd fr]; [reflexivity|].
    cbn [forallb all_fields] in *.
    apply andb_true_iff in H. destruct H as [H1 H2]. rewrite (Hx H1 (snd fd)), (IHr H2 fr). reflexivity.
  - cbn [no_maps maps_ok] in *. exact (IH H _).
  - cbn [no_maps maps_ok] in *. exact (IH H _).
  - rewrite maps_ok_func. cbn [no_maps] in H. generalize (outs_of t). intros ts. revert ts.
    induction IH as [|x r Hx _ IHr]; intros ts; [destruct ts; reflexivity|]. destruct ts as [|xt tr]; [reflexivity|].
    cbn [forallb all_outs] in *.
    apply andb_true_iff in H. destruct H as [H1 H2]. rewrite (Hx H1 xt), (IHr H2 tr). reflexivity.
Qed.

(* the universe without maps: no side condition at all *)
Corollary marshal_taps_are_paths_no_maps o t v pi : no_maps v = true -> mtaps o t v pi = paths_of o t v pi.
Proof. intros H. apply marshal_taps_are_paths. exact (no_maps_ok v H t). Qed.

(* ---- B.6 what the spec implies ---- *)
(* the element itself is reported first, under the path it was reached by (the root: the empty path) *)
Theorem root_tap_path o t v pi : exists tl, mtaps o t v pi = (pi, tap_kind t) :: tl.
Proof. destruct v; eexists; reflexivity. Qed.

(* every other tap of the value lies below that path *)
Lemma vpaths_prefix : forall n pi tp, In tp (vpaths pi n) -> exists s, fst tp = pi ++ s.
Proof.
  induction n as [k cs IH] using vtree_ind2. intros pi tp. rewrite vpaths_node. intros [<-|Hin].
  - exists []. cbn [fst]. rewrite app_nil_r. reflexivity.
  - induction IH as [|[lab c] r Hc _ IHr]; [destruct Hin|]. cbn [kpaths] in Hin.
    apply in_app_or in Hin. destruct Hin as [Hin|Hin]; [|exact (IHr Hin)].
    cbn [snd] in Hc. destruct (Hc _ _ Hin) as [s Hs]. destruct lab as [e|]; cbn [ext] in Hs.
    + exists (e :: s). rewrite Hs, <- app_assoc. reflexivity.
    + exists s. exact Hs.
Qed.

Theorem taps_extend_root o t v pi tp : maps_ok t v = true -> In tp (mtaps o t v pi) -> exists s, fst tp = pi ++ s.
Proof. intros Hok. rewrite (marshal_taps_are_paths o t v pi Hok). apply vpaths_prefix. Qed.

(* two elements reached from the same parent by DIFFERENT path elements (two indices, two field names, two map
   keys) never report the same path, nor does anything below them.  (Same path element: a field name token and
   the field value, a map key and its value; no path element: a pointer and its referent, an interface and its
   content, a container and its End token - these share a path by design.) *)
Theorem sibling_taps_disjoint o pi e1 e2 t1 v1 t2 v2 a b :
  e1 <> e2 -> maps_ok t1 v1 = true -> maps_ok t2 v2 = true ->
  In a (mtaps o t1 v1 (pi ++ [e1])) -> In b (mtaps o t2 v2 (pi ++ [e2])) -> fst a <> fst b.
Proof.
  intros Hne H1 H2 Ha Hb E.
  destruct (taps_extend_root o t1 v1 _ a H1 Ha) as [s1 Hs1].
  destruct (taps_extend_root o t2 v2 _ b H2 Hb) as [s2 Hs2].
  rewrite E, Hs2, <- !app_assoc in Hs1. apply app_inv_head in Hs1. cbn [app] in Hs1.
  injection Hs1 as H _. apply Hne. symmetry. exact H.
Qed.

(* one tap per node of the element tree *)
Fixpoint vsize (n : vtree) : nat :=
  match n with
  | VNode _ cs => S ((fix go l := match l with [] => O | (_, c) :: r => (vsize c + go r)%nat end) cs)
  end.
Definition ksize := fix go (l : list (option pelem * vtree)) : nat :=
  match l with [] => O | (_, c) :: r => (vsize c + go r)%nat end.

Lemma vpaths_length : forall n pi, length (vpaths pi n) = vsize n.
Proof.
  induction n as [k cs IH] using vtree_ind2. intros pi. rewrite vpaths_node.
  change (vsize (VNode k cs)) with (S (ksize cs)). cbn [length]. f_equal.
  induction IH as [|[lab c] r Hc _ IHr]; [reflexivity|]. cbn [kpaths ksize]. rewrite app_length, IHr.
  cbn [snd] in Hc. rewrite Hc. reflexivity.
Qed.

Theorem taps_count o t v pi : maps_ok t v = true -> length (mtaps o t v pi) = vsize (elements o t v).
Proof. intros Hok. rewrite (marshal_taps_are_paths o t v pi Hok). apply vpaths_length. Qed.

(* ---- B.7 the side condition is needed: two Go map keys with Eq key streams (+0 and -0) ---- *)
Theorem marshal_taps_are_paths_refuted :
  exists o t v, Conform.has_type t v = true /\ maps_ok t v = false /\ mtaps o t v [] <> paths_of o t v [].
Proof.
  exists default_opts, (TMap TF64 TBool),
         (GMap false [(GF64 0, GBool true); (GF64 9223372036854775808, GBool false)]).
  split; [reflexivity|]. split; [reflexivity|]. vm_compute. discriminate.
Qed.

(* ---- B.8 examples ---- *)
(* struct { A []int; b string; M map[string]*int8; P any; T time.Time; F func() (bool, string) } *)
Definition t_ex : ty :=
  TStruct [([65], true, TSlice (TInt WNat)); ([98], false, TString);
           ([77], true, TMap TString (TPtr (TInt W8))); ([80], true, TAny);
           ([84], true, TTime); ([70], true, TFunc [TBool; TString])].
Definition v_ex : gval :=
  GStruct [GList false [GInt 5; GInt 6]; GStr [120];
           GMap false [(GStr [122], GPtr (Some (GInt 1))); (GStr [97], GPtr None)];
           GAny (Some (TArray 1 TBool, GList false [GBool true]));
           GTime [1; 0; 0; 0; 0; 0; 0; 0; 0; 0; 0; 0; 0; 255; 255];
           GFunc (Some [GBool true; GStr []])].

Example ex_in_domain : Conform.has_type t_ex v_ex = true /\ maps_ok t_ex v_ex = true.
Proof. split; reflexivity. Qed.

Example ex_elements :
  elements default_opts t_ex v_ex =
  VNode 25
    [(Some (PStr [65]), leaf 24);
     (Some (PStr [65]), VNode 23 [(Some (PIdx 0), leaf 2); (Some (PIdx 1), leaf 2); (None, leaf 22)]);
     (* b is unexported: no element *)
     (Some (PStr [77]), leaf 24);
     (Some (PStr [77]),
      VNode 21 [(Some (PStr [97]), leaf 24); (Some (PStr [97]), leaf 22);                       (* "a": nil *)
                (Some (PStr [122]), leaf 24); (Some (PStr [122]), VNode 22 [(None, leaf 3)]);   (* "z": *int8 -> int8 *)
                (None, leaf 22)]);
     (Some (PStr [80]), leaf 24);
     (Some (PStr [80]), VNode 20 [(None, VNode 17 [(Some (PIdx 0), leaf 1); (None, leaf 22)])]);
     (Some (PStr [84]), leaf 24);
     (Some (PStr [84]), VNode 25 [(None, leaf 24)]);
     (Some (PStr [70]), leaf 24);
     (Some (PStr [70]), VNode 19 [(Some (PIdx 0), leaf 1); (Some (PIdx 1), leaf 24); (None, leaf 22)]);
     (None, leaf 22)].
Proof. vm_compute. reflexivity. Qed.

Example ex_taps :
  mtaps default_opts t_ex v_ex [] = paths_of default_opts t_ex v_ex [] /\
  mtaps default_opts t_ex v_ex [] =
  [([], 25);
   ([PStr [65]], 24); ([PStr [65]], 23); ([PStr [65]; PIdx 0], 2); ([PStr [65]; PIdx 1], 2); ([PStr [65]], 22);
   ([PStr [77]], 24); ([PStr [77]], 21);
     ([PStr [77]; PStr [97]], 24); ([PStr [77]; PStr [97]], 22);
     ([PStr [77]; PStr [122]], 24); ([PStr [77]; PStr [122]], 22); ([PStr [77]; PStr [122]], 3);
     ([PStr [77]], 22);
   ([PStr [80]], 24); ([PStr [80]], 20); ([PStr [80]], 17); ([PStr [80]; PIdx 0], 1); ([PStr [80]], 22);
   ([PStr [84]], 24); ([PStr [84]], 25); ([PStr [84]], 24);
   ([PStr [70]], 24); ([PStr [70]], 19); ([PStr [70]; PIdx 0], 1); ([PStr [70]; PIdx 1], 24); ([PStr [70]], 22);
   ([], 22)].
Proof. split; vm_compute; reflexivity. Qed.

Example ex_count : length (mtaps default_opts t_ex v_ex []) = 28%nat /\ vsize (elements default_opts t_ex v_ex) = 28%nat.
Proof. split; vm_compute; reflexivity. Qed.

Example ex_no_maps :
  no_maps (GList false [GPtr (Some (GInt 1)); GPtr None]) = true /\
  mtaps default_opts (TSlice (TPtr (TInt WNat))) (GList false [GPtr (Some (GInt 1)); GPtr None]) [PStr [120]] =
  [([PStr [120]], 23); ([PStr [120]; PIdx 0], 22); ([PStr [120]; PIdx 0], 2); ([PStr [120]; PIdx 1], 22);
   ([PStr [120]], 22)].
Proof. split; vm_compute; reflexivity. Qed.

Example ex_siblings :   (* the hypotheses of sibling_taps_disjoint on two items of one slice *)
  PIdx 0 <> PIdx 1 /\
  In ([PStr [65]; PIdx 0], 2) (mtaps default_opts (TInt WNat) (GInt 5) ([PStr [65]] ++ [PIdx 0])) /\
  In ([PStr [65]; PIdx 1], 2) (mtaps default_opts (TInt WNat) (GInt 6) ([PStr [65]] ++ [PIdx 1])).
Proof. split; [discriminate|]. split; left; reflexivity. Qed.

End TapsP.

(* ====================================================================== *)
Definition PathsP_main_theorems :=
  (AliasP.snapshot_stable, AliasP.view_stable_general, AliasP.view_stable_own, AliasP.view_stable_when_full,
   AliasP.view_refuted, AliasP.hdrs_stable_exact_growth, AliasP.hdrs_refuted,
   AliasP.runs_taps_true_paths, AliasP.runs_independent, AliasP.runs_from_root,
   TapsP.marshal_taps_are_paths, TapsP.marshal_taps_are_paths_no_maps, TapsP.marshal_taps_are_paths_refuted,
   TapsP.root_tap_path, TapsP.taps_extend_root, TapsP.sibling_taps_disjoint, TapsP.taps_count).
Print Assumptions PathsP_main_theorems.
