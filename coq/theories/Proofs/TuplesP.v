(* Proofs/TuplesP.v — sb.Tuple and sb.TypedTuple as unmarshal targets (Model/Tuples.v):
   the head both hooks share, the round trip of a typed tuple on the canonical streams of its items,
   too few / too many items, a typed tuple with an empty target reads what a func-typed target of the
   unmarshal model reads, a plain tuple with an empty target reads what the schema-less target reads on a
   Tuple token, totality with an explicit fuel bound. *)
From Coq Require Import Lia ZifyBool ZifyNat ZifyN Arith.
From SbModel Require Import Spec.Conform Model.Tuples Proofs.UnmarshalP.
Local Open Scope N_scope.

(* ====================================================================================== *)
(* Definitions used in the statements                                                      *)
(* ====================================================================================== *)

(* the item a typed tuple stores at a position of static type t after reading the value v *)
Definition item_of (t : ty) (v : gval) : dyn := match t with TAny => dyn_of v | _ => Some (t, v) end.

Fixpoint items_of (types : list ty) (vals : list gval) : list dyn :=
  match types, vals with
  | t :: ts, v :: vs => item_of t v :: items_of ts vs
  | _, _ => []
  end.

(* the concatenated canonical streams of the items *)
Fixpoint marshal_all (types : list ty) (vals : list gval) : res (list token) :=
  match types, vals with
  | t :: ts, v :: vs => bind (marshal default_opts t v) (fun a => bind (marshal_all ts vs) (fun b => Ok (a ++ b)))
  | [], [] => Ok []
  | _, _ => Err EOther
  end.

(* the hypotheses of the simple round trip, per position *)
Definition all_ok (types : list ty) (vals : list gval) : Prop :=
  Forall2 (fun t v => wf_ty t = true /\ simple_ty t = true /\ has_type t v = true /\ no_ptr_to_nil v = true) types vals.

Fixpoint vsize_all (vals : list gval) : nat :=
  match vals with [] => 0%nat | v :: r => (vsize v + vsize_all r)%nat end.

(* the normal forms, position-wise *)
Fixpoint map2_normal (types : list ty) (vals : list gval) : list gval :=
  match types, vals with
  | t :: ts, v :: vs => normal t v :: map2_normal ts vs
  | _, _ => []
  end.

(* the value and the dynamic type held by an item *)
Definition val_of (d : dyn) : gval := match d with Some (_, v) => v | None => GAny None end.
Definition ty_of (d : dyn) : ty := match d with Some (t, _) => t | None => TAny end.

(* ====================================================================================== *)
(* 1.  The head                                                                            *)
(* ====================================================================================== *)

Theorem tuple_head_rejects : forall A (k : list token -> res A) tk rest,
  (kind tk =? KLiteral) = false -> (kind tk =? KTuple) = false ->
  tuple_head (tk :: rest) k = Err (EMismatch (kind tk) 19).
Proof. intros A k tk rest H1 H2. unfold tuple_head. rewrite H1, H2. reflexivity. Qed.

Theorem tuple_head_empty : forall A (k : list token -> res A), tuple_head [] k = Err EEnd.
Proof. reflexivity. Qed.

Lemma tuple_head_literal A (k : list token -> res A) tk rest :
  (kind tk =? KLiteral) = true -> tuple_head (tk :: rest) k = Err EBadTarget.
Proof. intros H. unfold tuple_head. rewrite H. reflexivity. Qed.

Lemma tuple_head_tuple A (k : list token -> res A) v rest : tuple_head (T KTuple v :: rest) k = k rest.
Proof. reflexivity. Qed.

(* a successful head: the first token is a Tuple token *)
Lemma tuple_head_ok A (k : list token -> res A) ts x :
  tuple_head ts k = Ok x -> exists v rest, ts = T KTuple v :: rest /\ k rest = Ok x.
Proof.
  unfold tuple_head. destruct ts as [|[kd v] rest]; [discriminate|]. cbn [kind].
  destruct (kd =? KLiteral); [discriminate|].
  destruct (kd =? KTuple) eqn:Ht; [|discriminate].
  apply N.eqb_eq in Ht. subst kd. intros H. exists v, rest. split; [reflexivity|exact H].
Qed.

Example tuple_head_rejects_ex :
  typed_tuple_unm (fun _ _ => None) 5 default_opts [] [TBool] [] [T KArray VNone; T KArrayEnd VNone]
    = Err (EMismatch KArray 19).
Proof. apply tuple_head_rejects; reflexivity. Qed.

(* ====================================================================================== *)
(* Small facts                                                                             *)
(* ====================================================================================== *)

Lemma nth_error_len {A} (l : list A) : nth_error l (length l) = None.
Proof. apply nth_error_None. lia. Qed.

Lemma head_not_tupend tk : head_ok tk -> (kind tk =? KTupleEnd) = false.
Proof. intros [_ H]. unfold is_end_kind in H. apply orb_false_iff in H. apply H. Qed.

Lemma item_of_concrete t v : t <> TAny -> item_of t v = Some (t, v).
Proof. intros H. destruct t; try reflexivity. congruence. Qed.

Lemma vsize_all_app a b : vsize_all (a ++ b) = (vsize_all a + vsize_all b)%nat.
Proof. induction a as [|x a IH]; cbn [app vsize_all]; [reflexivity|]. rewrite IH. lia. Qed.

Lemma marshal_all_cons_inv t ts v vs body :
  marshal_all (t :: ts) (v :: vs) = Ok body ->
  exists a b, marshal default_opts t v = Ok a /\ marshal_all ts vs = Ok b /\ body = a ++ b.
Proof.
  cbn [marshal_all]. intros H. apply bind_ok in H. destruct H as (a & Ha & H).
  apply bind_ok in H. destruct H as (b & Hb & H). injection H as <-. exists a, b. repeat split; assumption.
Qed.

Lemma all_ok_length types vals : all_ok types vals -> length types = length vals.
Proof. intros H. induction H as [|t v ts vs _ _ IH]; cbn [length]; [reflexivity|]. now rewrite IH. Qed.

(* every item's stream is non-empty *)
Lemma marshal_all_len types vals : all_ok types vals ->
  forall body, marshal_all types vals = Ok body -> (length vals <= length body)%nat.
Proof.
  intros Hok. induction Hok as [|t v ts vs (Hwf & Hs & Hty & Hnp) _ IH]; intros body Hm; [cbn [length]; lia|].
  apply marshal_all_cons_inv in Hm. destruct Hm as (a & b & Ha & Hb & ->).
  destruct (marshal_head _ _ _ _ Hty Hs Ha) as (tk & r & -> & _).
  specialize (IH _ Hb). rewrite app_length. cbn [length]. lia.
Qed.

Lemma marshal_all_app : forall types1 vals1, length types1 = length vals1 ->
  forall types2 vals2,
  marshal_all (types1 ++ types2) (vals1 ++ vals2) =
  bind (marshal_all types1 vals1) (fun a => bind (marshal_all types2 vals2) (fun b => Ok (a ++ b))).
Proof.
  induction types1 as [|t ts IH]; intros [|v vs] Hl types2 vals2; try discriminate Hl.
  - cbn [app marshal_all bind]. destruct (marshal_all types2 vals2); reflexivity.
  - cbn [app marshal_all]. injection Hl as Hl. rewrite (IH vs Hl).
    destruct (marshal default_opts t v) as [a|e|]; cbn [bind]; try reflexivity.
    destruct (marshal_all ts vs) as [b|e|]; cbn [bind]; try reflexivity.
    destruct (marshal_all types2 vals2) as [c|e|]; cbn [bind]; try reflexivity.
    now rewrite app_assoc.
Qed.

Lemma all_ok_app types1 vals1 types2 vals2 :
  all_ok types1 vals1 -> all_ok types2 vals2 -> all_ok (types1 ++ types2) (vals1 ++ vals2).
Proof. apply Forall2_app. Qed.

(* ====================================================================================== *)
(* 2, 3.  The typed tuple on the canonical streams of its items                            *)
(* ====================================================================================== *)

Section Typed.
Variable pf : bytes -> N -> option N.
Variable o : copts.
Variable R : registry.

(* one iteration at the position behind the items read so far *)
Lemma typed_items_step g f types acc t ts tk r :
  ts = tk :: r -> nth_error types (length acc) = Some t -> (kind tk =? KTupleEnd) = false ->
  typed_items pf (S g) f o R types acc (length acc) ts =
  bind (unm pf f o R t (zero t) ts) (fun x =>
    typed_items pf g f o R types (acc ++ [item_of t (fst x)]) (S (length acc)) (snd x)).
Proof.
  intros -> Hn Hk. cbn [typed_items]. rewrite Hk, Hn, nth_error_len, Nat.ltb_irrefl. reflexivity.
Qed.

Lemma typed_items_end g f types acc tk r :
  (kind tk =? KTupleEnd) = true ->
  typed_items pf (S g) f o R types acc (length acc) (tk :: r) =
  if Nat.eqb (length acc) (length types) then Ok (acc, r) else Err ETooFew.
Proof. intros Hk. cbn [typed_items]. rewrite Hk. reflexivity. Qed.

Lemma typed_items_over g f types acc tk r :
  (kind tk =? KTupleEnd) = false -> nth_error types (length acc) = None ->
  typed_items pf (S g) f o R types acc (length acc) (tk :: r) = Err ETooMany.
Proof. intros Hk Hn. cbn [typed_items]. rewrite Hk, Hn. reflexivity. Qed.

(* reading a prefix of items: the canonical streams of [valsA] at the positions behind [acc], whatever
   follows.  Each item costs one unit of the loop fuel. *)
Lemma typed_items_prefix f T : forall typesA valsA, all_ok typesA valsA ->
  (2 * vsize_all valsA < f)%nat ->
  forall body, marshal_all typesA valsA = Ok body ->
  forall acc g tail,
  (forall j t, nth_error typesA j = Some t -> nth_error T (length acc + j) = Some t) ->
  typed_items pf (length valsA + g) f o R T acc (length acc) (body ++ tail) =
  typed_items pf g f o R T (acc ++ items_of typesA (map2_normal typesA valsA)) (length acc + length typesA) tail.
Proof.
  intros typesA valsA Hok.
  induction Hok as [|t v ts vs (Hwf & Hs & Hty & Hnp) _ IH]; intros Hf body Hm acc g tail Hnth.
  - cbn [marshal_all] in Hm. injection Hm as <-.
    cbn [length items_of app plus]. rewrite app_nil_r, Nat.add_0_r. reflexivity.
  - apply marshal_all_cons_inv in Hm. destruct Hm as (a & b & Ha & Hb & ->).
    cbn [vsize_all] in Hf.
    destruct (marshal_head _ _ _ _ Hty Hs Ha) as (tk & r & Ea & Hh & _).
    rewrite <- app_assoc. cbn [length plus].
    assert (Ht : nth_error T (length acc) = Some t).
    { specialize (Hnth 0%nat t eq_refl). rewrite Nat.add_0_r in Hnth. exact Hnth. }
    rewrite (typed_items_step _ f T acc t (a ++ b ++ tail) tk (r ++ b ++ tail));
      [|rewrite Ea; reflexivity|exact Ht|apply head_not_tupend, Hh].
    rewrite (roundtrip_simple_fuel pf o R t v a (b ++ tail) f Hwf Hs Hty Hnp Ha) by lia.
    cbn [bind fst snd].
    replace (S (length acc)) with (length (acc ++ [item_of t (normal t v)])) by (rewrite app_length; cbn [length]; lia).
    rewrite IH; [|lia|exact Hb|].
    + cbn [items_of map2_normal length]. rewrite <- app_assoc. cbn [app]. f_equal.
      rewrite app_length. cbn [length]. lia.
    + intros j t' Hj. rewrite app_length. cbn [length].
      replace (length acc + 1 + j)%nat with (length acc + S j)%nat by lia. apply Hnth. exact Hj.
Qed.

(* the loop fuel S (length of the stream) covers one iteration per item and the closing one *)
Lemma loop_fuel_split (vals : list gval) (body tail : list token) :
  (length vals <= length body)%nat ->
  S (length (body ++ tail)) = (length vals + S (length body - length vals + length tail))%nat.
Proof. intros H. rewrite app_length. lia. Qed.

(* 2.  Fuel: 2 * vsize_all vals + 2 < f as suggested (2 * vsize_all vals < f is what the proof uses). *)
Theorem typed_tuple_roundtrip : forall types vals body rest f,
  all_ok types vals -> marshal_all types vals = Ok body -> (2 * vsize_all vals + 2 < f)%nat ->
  typed_tuple_unm pf f o R types [] (T KTuple VNone :: body ++ T KTupleEnd VNone :: rest)
    = Ok (items_of types (map2_normal types vals), rest).
Proof.
  intros types vals body rest f Hok Hm Hf.
  unfold typed_tuple_unm. rewrite tuple_head_tuple.
  rewrite (loop_fuel_split vals) by (eapply marshal_all_len; eassumption).
  change 0%nat with (length (@nil dyn)).
  rewrite (typed_items_prefix f types types vals Hok ltac:(lia) body Hm);
    [|intros j t Hj; exact Hj].
  cbn [length plus app].
  set (its := items_of types (map2_normal types vals)).
  assert (Hl : length types = length its).
  { subst its. clear - Hok. induction Hok as [|t v ts vs _ _ IH]; cbn [items_of map2_normal length]; [reflexivity|].
    now rewrite IH. }
  rewrite Hl. rewrite typed_items_end by reflexivity.
  rewrite <- Hl, Nat.eqb_refl. reflexivity.
Qed.

(* 3a.  The target expects more items than the stream holds *)
Theorem typed_tuple_too_few : forall types vals t more body rest f,
  all_ok types vals -> marshal_all types vals = Ok body -> (2 * vsize_all vals + 2 < f)%nat ->
  typed_tuple_unm pf f o R (types ++ t :: more) [] (T KTuple VNone :: body ++ T KTupleEnd VNone :: rest)
    = Err ETooFew.
Proof.
  intros types vals t more body rest f Hok Hm Hf.
  unfold typed_tuple_unm. rewrite tuple_head_tuple.
  rewrite (loop_fuel_split vals) by (eapply marshal_all_len; eassumption).
  change 0%nat with (length (@nil dyn)).
  rewrite (typed_items_prefix f (types ++ t :: more) types vals Hok ltac:(lia) body Hm).
  - cbn [length plus app].
    set (its := items_of types (map2_normal types vals)).
    assert (Hl : length types = length its).
    { subst its. clear - Hok. induction Hok as [|t v ts vs _ _ IH]; cbn [items_of map2_normal length]; [reflexivity|].
      now rewrite IH. }
    rewrite Hl. rewrite typed_items_end by reflexivity.
    rewrite <- Hl, app_length. cbn [length].
    destruct (Nat.eqb (length types) (length types + S (length more))) eqn:E; [|reflexivity].
    apply Nat.eqb_eq in E. lia.
  - intros j t' Hj. cbn [length plus]. rewrite nth_error_app1; [exact Hj|].
    apply nth_error_Some. congruence.
Qed.

(* 3b.  The stream holds more items than the target expects *)
Theorem typed_tuple_too_many : forall types1 vals1 t v types2 vals2 body rest f,
  all_ok types1 vals1 -> all_ok (t :: types2) (v :: vals2) ->
  marshal_all (types1 ++ t :: types2) (vals1 ++ v :: vals2) = Ok body ->
  (2 * vsize_all (vals1 ++ v :: vals2) + 2 < f)%nat ->
  typed_tuple_unm pf f o R types1 [] (T KTuple VNone :: body ++ T KTupleEnd VNone :: rest)
    = Err ETooMany.
Proof.
  intros types1 vals1 t v types2 vals2 body rest f Hok1 Hok2 Hm Hf.
  rewrite marshal_all_app in Hm by (apply all_ok_length, Hok1).
  apply bind_ok in Hm. destruct Hm as (b1 & Hb1 & Hm).
  apply bind_ok in Hm. destruct Hm as (b2 & Hb2 & Hm). injection Hm as <-.
  apply marshal_all_cons_inv in Hb2. destruct Hb2 as (a & b & Ha & _ & ->).
  inversion Hok2 as [|? ? ? ? (Hwf & Hs & Hty & Hnp) _]; subst.
  destruct (marshal_head _ _ _ _ Hty Hs Ha) as (tk & r & -> & Hh & _).
  rewrite vsize_all_app in Hf.
  unfold typed_tuple_unm. rewrite tuple_head_tuple.
  rewrite <- app_assoc.
  rewrite (loop_fuel_split vals1) by (eapply marshal_all_len; eassumption).
  change 0%nat with (length (@nil dyn)).
  rewrite (typed_items_prefix f types1 types1 vals1 Hok1 ltac:(lia) b1 Hb1); [|intros j t' Hj; exact Hj].
  cbn [length plus app].
  set (its := items_of types1 (map2_normal types1 vals1)).
  assert (Hl : length types1 = length its).
  { subst its. clear - Hok1. induction Hok1 as [|t v ts vs _ _ IH]; cbn [items_of map2_normal length]; [reflexivity|].
    now rewrite IH. }
  rewrite Hl. apply typed_items_over; [apply head_not_tupend, Hh|].
  rewrite <- Hl. apply nth_error_len.
Qed.

End Typed.

(* ====================================================================================== *)
(* 4, 5.  Empty targets against the func-typed and the schema-less target of [unm]          *)
(* ====================================================================================== *)

Section AgainstUnm.
Variable pf : bytes -> N -> option N.
Variable o : copts.
Variable R : registry.

(* one step of unm on a Tuple token *)
Lemma unm_func_step f outs cur v rest :
  unm pf (S f) o R (TFunc outs) cur (T KTuple v :: rest) =
  tuple_case (unm pf f o R) (TFunc outs) (TFunc outs) KTuple rest.
Proof. rewrite unm_S. reflexivity. Qed.

Lemma unm_any_tuple_step f cur v rest :
  unm pf (S f) o R TAny cur (T KTuple v :: rest) =
  tuple_case (unm pf f o R) TAny TAny KTuple rest.
Proof. rewrite unm_S. reflexivity. Qed.

(* ---- 4 ---- *)
Lemma typed_items_func f : forall g done outs acc tys ts items rest,
  Forall (fun t => t <> TAny) outs -> length acc = length done ->
  typed_items pf g f o R (done ++ outs) acc (length acc) ts = Ok (items, rest) ->
  exists tys', tuple_loop (unm pf f o R) g outs tys (map val_of acc) ts = Ok ([], map val_of items, tys', rest)
               /\ length items = length (done ++ outs).
Proof.
  induction g as [|g IH]; intros done outs acc tys ts items rest Hall Hlen H; [discriminate H|].
  destruct ts as [|tk r]; [discriminate H|].
  destruct (kind tk =? KTupleEnd) eqn:Hk.
  - rewrite typed_items_end in H by exact Hk.
    destruct (Nat.eqb (length acc) (length (done ++ outs))) eqn:He; [|discriminate H].
    injection H as <- <-. apply Nat.eqb_eq in He.
    destruct outs as [|ot outs']; [|exfalso; rewrite app_length in He; cbn [length] in He; lia].
    exists tys. cbn [tuple_loop]. rewrite Hk. split; [reflexivity|exact He].
  - destruct outs as [|ot outs'].
    + rewrite app_nil_r in H. rewrite typed_items_over in H; [discriminate H|exact Hk|].
      rewrite Hlen. apply nth_error_len.
    + assert (Hn : nth_error (done ++ ot :: outs') (length acc) = Some ot).
      { rewrite Hlen, nth_error_app2, Nat.sub_diag by lia. reflexivity. }
      rewrite (typed_items_step pf o R g f _ acc ot _ tk r eq_refl Hn Hk) in H.
      apply bind_ok in H. destruct H as (x & Hx & H).
      inversion Hall as [|? ? Hot Hall']; subst.
      rewrite (item_of_concrete ot (fst x) Hot) in H.
      replace (S (length acc)) with (length (acc ++ [Some (ot, fst x)])) in H by (rewrite app_length; cbn [length]; lia).
      replace (done ++ ot :: outs') with ((done ++ [ot]) ++ outs') in H by (rewrite <- app_assoc; reflexivity).
      assert (Hlen' : length (acc ++ [Some (ot, fst x)]) = length (done ++ [ot])).
      { rewrite !app_length. cbn [length]. lia. }
      destruct (IH (done ++ [ot]) outs' (acc ++ [Some (ot, fst x)]) (tys ++ [ot]) (snd x) items rest Hall' Hlen' H)
        as (tys' & Hl & Hlen2).
      exists tys'. cbn [tuple_loop]. rewrite Hk, Hx. cbn [bind].
      rewrite map_app in Hl. cbn [map val_of] in Hl.
      split; [exact Hl|]. rewrite <- app_assoc in Hlen2. exact Hlen2.
Qed.

(* No side condition beyond the two given is needed: a first token that is not a Tuple token (a TypeName in
   particular) makes the typed tuple fail, so the hypothesis excludes it. *)
Lemma typed_tuple_is_func_s : forall f types cur ts items rest,
  Forall (fun t => t <> TAny) types -> (length types <= 50)%nat ->
  typed_tuple_unm pf f o R types [] ts = Ok (items, rest) ->
  unm pf (S f) o R (TFunc types) cur ts =
    Ok (GFunc (Some (map (fun d => match d with Some (_, v) => v | None => GAny None end) items)), rest).
Proof.
  intros f types cur ts items rest Hall H50 H.
  unfold typed_tuple_unm in H. apply tuple_head_ok in H. destruct H as (v & r & -> & H).
  rewrite unm_func_step. unfold tuple_case.
  apply (typed_items_func f (S (length r)) [] types [] [] r items rest Hall eq_refl) in H.
  destruct H as (tys' & Hl & Hlen). cbn [map app] in Hl, Hlen.
  rewrite Hl. cbn [bind]. rewrite map_length, Hlen.
  destruct (Nat.ltb 50 (length types)) eqn:E; [apply Nat.ltb_lt in E; lia|].
  rewrite Nat.eqb_refl. reflexivity.
Qed.

(* ---- 5 ---- *)

(* the schema-less target holding nil always receives an interface value *)
Definition rec_any (rec : rec_t) : Prop :=
  forall ts x, rec TAny (GAny None) ts = Ok x -> exists d, fst x = GAny d.

Ltac dif H := match type of H with (if ?c then _ else _) = _ => destruct c end.

Lemma newstruct_loop_any_shape (rec : rec_t) : forall g fs vals ts x,
  newstruct_loop rec g fs vals ts = Ok x -> exists d, fst x = GAny d.
Proof.
  induction g as [|g IH]; intros fs vals ts x H; [discriminate H|].
  cbn [newstruct_loop] in H. destruct ts as [|tk r]; [discriminate H|].
  destruct (kind tk =? KObjectEnd); [injection H as <-; eexists; reflexivity|].
  apply bind_ok in H. destruct H as (nr & _ & H). cbv zeta in H.
  dif H; [discriminate H|]. dif H; [discriminate H|].
  apply bind_ok in H. destruct H as (vr & _ & H).
  destruct (fst vr) as [| | | | | | | | | | |[[vt v]|]| |]; try discriminate H.
  eapply IH, H.
Qed.

Lemma genmap_loop_any_shape (rec : rec_t) : forall g m ts x,
  genmap_loop rec g m ts = Ok x -> exists d, fst x = GAny d.
Proof.
  induction g as [|g IH]; intros m ts x H; [discriminate H|].
  cbn [genmap_loop] in H. destruct ts as [|tk r]; [discriminate H|].
  destruct (kind tk =? KMapEnd); [injection H as <-; eexists; reflexivity|].
  apply bind_ok in H. destruct H as (kr & _ & H). cbv zeta in H.
  destruct (to_comparable (fst kr)) as [| | | | | | | | | | |[[kt kv]|]| |]; try discriminate H.
  dif H; [discriminate H|]. dif H; [discriminate H|].
  apply bind_ok in H. destruct H as (vr & _ & H). eapply IH, H.
Qed.

Lemma ustep_any (rec : rec_t) : rec_any rec -> rec_any (ustep pf o R rec).
Proof.
  intros Hrec ts x H. unfold ustep in H. destruct ts as [|tk0 rest]; [discriminate H|].
  unfold conv_tok in H. destruct (kind tk0 =? KLiteral).
  { destruct (val tk0); discriminate H. }
  cbn [bind ptr_base negb underlying] in H. rewrite Bool.andb_false_r in H.
  destruct (kind tk0 =? KNil); [injection H as <-; eexists; reflexivity|].
  destruct (is_end_kind (kind tk0)); [discriminate H|].
  unfold ptr_or_dispatch, dispatch in H.
  destruct (kind tk0 =? KNaN). { injection H as <-. eexists; reflexivity. }
  destruct (kind tk0 =? KBytes).
  { unfold bytes_case in H. destruct (val tk0); try discriminate H. injection H as <-. eexists; reflexivity. }
  destruct (kind tk0 =? KArray).
  { unfold array_case in H. apply bind_ok in H. destruct H as (a & _ & H). injection H as <-. eexists; reflexivity. }
  destruct (kind tk0 =? KObject). { eapply newstruct_loop_any_shape, H. }
  destruct (kind tk0 =? KMap). { eapply genmap_loop_any_shape, H. }
  destruct (kind tk0 =? KTuple).
  { unfold tuple_case in H. apply bind_ok in H. destruct H as ([[[outs' vals] tys] rest'] & _ & H).
    destruct (Nat.ltb 50 (length vals)); [discriminate H|]. injection H as <-. eexists; reflexivity. }
  destruct (kind tk0 =? KTypeName).
  { unfold typename_case in H. destruct (val tk0); try (eapply Hrec, H).
    destruct (reg_lookup R s) as [rt|]; [|eapply Hrec, H].
    apply bind_ok in H. destruct H as (a & _ & H). injection H as <-. eexists; reflexivity. }
  unfold scalar_case in H.
  destruct (val tk0); try discriminate H;
    (destruct ((kind tk0 =? KRef) || (kind tk0 =? KLiteral)); [discriminate H|]);
    (destruct (any_of_token tk0); [|discriminate H]); injection H as <-; eexists; reflexivity.
Qed.

Lemma unm_any_shape : forall f, rec_any (unm pf f o R).
Proof.
  induction f as [|f IH]; intros ts x H.
  - rewrite unm_O in H. discriminate H.
  - rewrite unm_S in H. eapply ustep_any; eassumption.
Qed.

Lemma tuple_items_step g f acc tk r :
  (kind tk =? KTupleEnd) = false ->
  tuple_items pf (S g) f o R acc (length acc) (tk :: r) =
  bind (unm pf f o R TAny (GAny None) (tk :: r)) (fun x =>
    tuple_items pf g f o R (acc ++ [dyn_of (fst x)]) (S (length acc)) (snd x)).
Proof. intros Hk. cbn [tuple_items]. rewrite Hk, nth_error_len. reflexivity. Qed.

Lemma tuple_items_any f : forall g acc ts items rest,
  tuple_items pf g f o R acc (length acc) ts = Ok (items, rest) ->
  tuple_loop (unm pf f o R) g [] (map ty_of acc) (map val_of acc) ts
    = Ok ([], map val_of items, map ty_of items, rest).
Proof.
  induction g as [|g IH]; intros acc ts items rest H; [discriminate H|].
  destruct ts as [|tk r]; [discriminate H|].
  destruct (kind tk =? KTupleEnd) eqn:Hk.
  - cbn [tuple_items] in H. rewrite Hk in H. injection H as <- <-.
    cbn [tuple_loop]. rewrite Hk. reflexivity.
  - rewrite tuple_items_step in H by exact Hk.
    apply bind_ok in H. destruct H as (x & Hx & H).
    destruct (unm_any_shape f _ _ Hx) as (d & Hd).
    replace (S (length acc)) with (length (acc ++ [dyn_of (fst x)])) in H by (rewrite app_length; cbn [length]; lia).
    apply IH in H. cbn [tuple_loop]. rewrite Hk, Hx. cbn [bind].
    rewrite !map_app in H. cbn [map] in H. rewrite Hd in H |- *. cbn [dyn_of] in H.
    replace (dyn_ty (GAny d)) with (ty_of d) by (destruct d as [[t v]|]; reflexivity).
    replace (dyn_val (GAny d)) with (val_of d) by (destruct d as [[t v]|]; reflexivity).
    exact H.
Qed.

(* No further side condition is needed. *)
Lemma tuple_unm_is_any_s : forall f ts items rest,
  tuple_unm pf f o R [] ts = Ok (items, rest) -> (length items <= 50)%nat ->
  unm pf (S f) o R TAny (GAny None) ts =
    Ok (GAny (Some (TFunc (map (fun d => match d with Some (t, _) => t | None => TAny end) items),
                    GFunc (Some (map (fun d => match d with Some (_, v) => v | None => GAny None end) items)))), rest).
Proof.
  intros f ts items rest H H50.
  unfold tuple_unm in H. apply tuple_head_ok in H. destruct H as (v & r & -> & H).
  rewrite unm_any_tuple_step. unfold tuple_case.
  apply (tuple_items_any f (S (length r)) [] r items rest) in H. cbn [map] in H.
  rewrite H. cbn [bind]. rewrite map_length.
  destruct (Nat.ltb 50 (length items)) eqn:E; [apply Nat.ltb_lt in E; lia|]. reflexivity.
Qed.

End AgainstUnm.

(* 4.  No side condition beyond the two given ones is needed: a first token that is not a Tuple token (a
   TypeName in particular) makes the typed tuple fail, so the hypothesis excludes it. *)
Theorem typed_tuple_is_func : forall pf f o R types cur ts items rest,
  Forall (fun t => t <> TAny) types -> (length types <= 50)%nat ->
  typed_tuple_unm pf f o R types [] ts = Ok (items, rest) ->
  unm pf (S f) o R (TFunc types) cur ts =
    Ok (GFunc (Some (map (fun d => match d with Some (_, v) => v | None => GAny None end) items)), rest).
Proof. intros pf f o R types cur ts items rest. apply typed_tuple_is_func_s. Qed.

(* 5.  No further side condition is needed. *)
Theorem tuple_unm_is_any : forall pf f o R ts items rest,
  tuple_unm pf f o R [] ts = Ok (items, rest) -> (length items <= 50)%nat ->
  unm pf (S f) o R TAny (GAny None) ts =
    Ok (GAny (Some (TFunc (map (fun d => match d with Some (t, _) => t | None => TAny end) items),
                    GFunc (Some (map (fun d => match d with Some (_, v) => v | None => GAny None end) items)))), rest).
Proof. intros pf f o R ts items rest. apply tuple_unm_is_any_s. Qed.

(* ====================================================================================== *)
(* 6.  Totality                                                                            *)
(* ====================================================================================== *)

Fixpoint tys_depth (l : list ty) : nat :=
  match l with [] => 0%nat | t :: r => Nat.max (ty_depth t) (tys_depth r) end.

Lemma tys_depth_in t l : In t l -> (ty_depth t <= tys_depth l)%nat.
Proof.
  induction l as [|x l IH]; cbn [In tys_depth]; [tauto|]. intros [->|H]; [lia|]. specialize (IH H). lia.
Qed.

Fixpoint dyn_depth (l : list dyn) : nat :=
  match l with
  | [] => 1%nat
  | Some (t, _) :: r => Nat.max (ty_depth t) (dyn_depth r)
  | None :: r => dyn_depth r
  end.

Lemma dyn_depth_pos l : (1 <= dyn_depth l)%nat.
Proof. induction l as [|[[t v]|] l IH]; cbn [dyn_depth]; lia. Qed.

Lemma dyn_depth_nth l : forall j t v, nth_error l j = Some (Some (t, v)) -> (ty_depth t <= dyn_depth l)%nat.
Proof.
  induction l as [|d l IH]; intros [|j] t v H; cbn [nth_error] in H; try discriminate H.
  - injection H as ->. cbn [dyn_depth]. lia.
  - specialize (IH _ _ _ H). destruct d as [[t' v']|]; cbn [dyn_depth]; lia.
Qed.

Lemma nth_error_set_nth_other {A} (x : A) : forall l i j, i <> j -> nth_error (set_nth i x l) j = nth_error l j.
Proof.
  induction l as [|y l IH]; intros [|i] [|j] H; cbn [set_nth nth_error]; try reflexivity; try lia.
  apply IH. lia.
Qed.

Section Totality.
Variable pf : bytes -> N -> option N.
Variable o : copts.
Variable R : registry.

Lemma unm_noof_ge t cur ts f :
  (length ts * S (reg_depth R) + ty_depth t + 1 <= f)%nat -> unm pf f o R t cur ts <> OutOfFuel.
Proof. intros H. rewrite unm_fuel_enough by exact H. apply unm_total_bound. Qed.

Lemma unm_noof_le L D t cur ts f :
  (L * S (reg_depth R) + D + 1 <= f)%nat -> (length ts <= L)%nat -> (ty_depth t <= D)%nat ->
  unm pf f o R t cur ts <> OutOfFuel.
Proof.
  intros Hf Hl Hd. apply unm_noof_ge.
  pose proof (Nat.mul_le_mono_r _ _ (S (reg_depth R)) Hl). lia.
Qed.

Lemma typed_items_tot f types L :
  (forall t cur ts', In t types -> (length ts' <= L)%nat -> unm pf f o R t cur ts' <> OutOfFuel) ->
  forall g items i ts, (length ts <= L)%nat -> (length ts < g)%nat ->
  typed_items pf g f o R types items i ts <> OutOfFuel.
Proof.
  intros Hrec. induction g as [|g IH]; intros items i ts HL Hg; [lia|].
  cbn [typed_items]. destruct ts as [|tk r]; [discriminate|].
  destruct (kind tk =? KTupleEnd). { destruct (Nat.eqb i (length types)); discriminate. }
  destruct (nth_error types i) as [t|] eqn:Hn; [|discriminate].
  apply bind_noof.
  - apply Hrec; [eapply nth_error_In, Hn|exact HL].
  - intros [v rest'] Ha. apply unm_consumes in Ha. cbn [snd]. cbn [length] in *. apply IH; lia.
Qed.

Theorem typed_tuple_total : forall types items ts,
  exists f0, forall f, (f0 <= f)%nat -> typed_tuple_unm pf f o R types items ts <> OutOfFuel.
Proof.
  intros types items ts. exists (length ts * S (reg_depth R) + tys_depth types + 1)%nat. intros f Hf.
  unfold typed_tuple_unm, tuple_head. destruct ts as [|tk rest]; [discriminate|].
  destruct (kind tk =? KLiteral); [discriminate|].
  destruct (kind tk =? KTuple); [|discriminate].
  apply (typed_items_tot f types (length (tk :: rest))); [|cbn [length]; lia|lia].
  intros t cur ts' Hin Hl. eapply unm_noof_le; [exact Hf|exact Hl|apply tys_depth_in, Hin].
Qed.

(* the items at and behind the current position keep the types of the initial target *)
Definition dyn_bound (D : nat) (items : list dyn) (i : nat) : Prop :=
  forall j t v, (i <= j)%nat -> nth_error items j = Some (Some (t, v)) -> (ty_depth t <= D)%nat.

Lemma dyn_bound_set D items i x : dyn_bound D items i -> dyn_bound D (set_nth i x items) (S i).
Proof.
  intros H j t v Hj Hn. rewrite nth_error_set_nth_other in Hn by lia. eapply H; [|exact Hn]. lia.
Qed.

Lemma dyn_bound_app D items i x : nth_error items i = None -> dyn_bound D (items ++ [x]) (S i).
Proof.
  intros Hnone j t v Hj Hn. apply nth_error_None in Hnone.
  assert (Hnn : nth_error (items ++ [x]) j = None).
  { apply nth_error_None. rewrite app_length. cbn [length]. lia. }
  congruence.
Qed.

Lemma tuple_items_tot f D L :
  (forall t cur ts', (ty_depth t <= D)%nat -> (length ts' <= L)%nat -> unm pf f o R t cur ts' <> OutOfFuel) ->
  (1 <= D)%nat ->
  forall g items i ts, dyn_bound D items i -> (length ts <= L)%nat -> (length ts < g)%nat ->
  tuple_items pf g f o R items i ts <> OutOfFuel.
Proof.
  intros Hrec HD. induction g as [|g IH]; intros items i ts Hb HL Hg; [lia|].
  cbn [tuple_items]. destruct ts as [|tk r]; [discriminate|].
  destruct (kind tk =? KTupleEnd); [discriminate|].
  destruct (nth_error items i) as [[[t v]|]|] eqn:Hn.
  - apply bind_noof.
    + apply Hrec; [eapply Hb; [|exact Hn]; lia|exact HL].
    + intros [v' rest'] Ha. apply unm_consumes in Ha. cbn [snd fst]. cbn [length] in *.
      apply IH; [apply dyn_bound_set, Hb|lia|lia].
  - apply bind_noof.
    + apply Hrec; [exact HD|exact HL].
    + intros [v' rest'] Ha. apply unm_consumes in Ha. cbn [snd fst]. cbn [length] in *.
      apply IH; [apply dyn_bound_set, Hb|lia|lia].
  - apply bind_noof.
    + apply Hrec; [exact HD|exact HL].
    + intros [v' rest'] Ha. apply unm_consumes in Ha. cbn [snd fst]. cbn [length] in *.
      apply IH; [apply dyn_bound_app, Hn|lia|lia].
Qed.

Theorem tuple_unm_total : forall items ts,
  exists f0, forall f, (f0 <= f)%nat -> tuple_unm pf f o R items ts <> OutOfFuel.
Proof.
  intros items ts. exists (length ts * S (reg_depth R) + dyn_depth items + 1)%nat. intros f Hf.
  unfold tuple_unm, tuple_head. destruct ts as [|tk rest]; [discriminate|].
  destruct (kind tk =? KLiteral); [discriminate|].
  destruct (kind tk =? KTuple); [|discriminate].
  apply (tuple_items_tot f (dyn_depth items) (length (tk :: rest))).
  - intros t cur ts' Hd Hl. eapply unm_noof_le; [exact Hf|exact Hl|exact Hd].
  - apply dyn_depth_pos.
  - intros j t v _ Hn. eapply dyn_depth_nth, Hn.
  - cbn [length]; lia.
  - lia.
Qed.

End Totality.

(* ====================================================================================== *)
(* 7.  Examples                                                                            *)
(* ====================================================================================== *)

Definition ex_pf : bytes -> N -> option N := fun _ _ => None.
Definition ex_types : list ty := [TInt WNat; TString; TBytes; TPtr (TInt W16)].
Definition ex_vals : list gval := [GInt 7; GStr [104; 105]; GBytes true []; GPtr (Some (GInt (-3)))].
Definition ex_body : list token :=
  [T KInt (VI WNat 7); T KString (VStr [104; 105]); T KBytes (VBytes []); T KInt16 (VI W16 (-3))].
Definition ex_tail : list token := [T KBool (VBool true)].

Example ex_marshal_all : marshal_all ex_types ex_vals = Ok ex_body.
Proof. vm_compute. reflexivity. Qed.

Example ex_all_ok : all_ok ex_types ex_vals.
Proof. repeat constructor. Qed.

(* a typed tuple read from a concrete stream: the nil []byte comes back in normal form (empty, non-nil) *)
Example ex_typed_run :
  typed_tuple_unm ex_pf 12 default_opts [] ex_types [] (T KTuple VNone :: ex_body ++ T KTupleEnd VNone :: ex_tail)
  = Ok ([Some (TInt WNat, GInt 7); Some (TString, GStr [104; 105]); Some (TBytes, GBytes false []);
         Some (TPtr (TInt W16), GPtr (Some (GInt (-3))))], ex_tail).
Proof. vm_compute. reflexivity. Qed.

(* the same through the theorem *)
Example ex_typed_thm : forall pf o R f, (12 < f)%nat ->
  typed_tuple_unm pf f o R ex_types [] (T KTuple VNone :: ex_body ++ T KTupleEnd VNone :: ex_tail)
  = Ok (items_of ex_types (map2_normal ex_types ex_vals), ex_tail).
Proof.
  intros pf o R f Hf. apply typed_tuple_roundtrip; [exact ex_all_ok|exact ex_marshal_all|cbn; lia].
Qed.

Example ex_too_few_run :
  typed_tuple_unm ex_pf 12 default_opts [] (ex_types ++ [TBool]) [] (T KTuple VNone :: ex_body ++ T KTupleEnd VNone :: ex_tail)
  = Err ETooFew.
Proof. vm_compute. reflexivity. Qed.

Example ex_too_few_thm : forall pf o R f, (12 < f)%nat ->
  typed_tuple_unm pf f o R (ex_types ++ [TBool]) [] (T KTuple VNone :: ex_body ++ T KTupleEnd VNone :: ex_tail)
  = Err ETooFew.
Proof.
  intros pf o R f Hf. apply (typed_tuple_too_few pf o R ex_types ex_vals); [exact ex_all_ok|exact ex_marshal_all|cbn; lia].
Qed.

Example ex_too_many_run :
  typed_tuple_unm ex_pf 12 default_opts [] [TInt WNat; TString] [] (T KTuple VNone :: ex_body ++ T KTupleEnd VNone :: ex_tail)
  = Err ETooMany.
Proof. vm_compute. reflexivity. Qed.

Example ex_too_many_thm : forall pf o R f, (12 < f)%nat ->
  typed_tuple_unm pf f o R [TInt WNat; TString] [] (T KTuple VNone :: ex_body ++ T KTupleEnd VNone :: ex_tail)
  = Err ETooMany.
Proof.
  intros pf o R f Hf.
  apply (typed_tuple_too_many pf o R [TInt WNat; TString] [GInt 7; GStr [104; 105]]
           TBytes (GBytes true []) [TPtr (TInt W16)] [GPtr (Some (GInt (-3)))]);
    [repeat constructor|repeat constructor|vm_compute; reflexivity|cbn; lia].
Qed.

(* a pre-filled plain tuple target: typed first item, schema-less second, appended third *)
Example ex_plain_prefilled :
  tuple_unm ex_pf 5 default_opts [] [Some (TInt WNat, GInt 0); None]
    [T KTuple VNone; T KInt (VI WNat 5); T KString (VStr [120]); T KBool (VBool true); T KTupleEnd VNone]
  = Ok ([Some (TInt WNat, GInt 5); Some (TString, GStr [120]); Some (TBool, GBool true)], []).
Proof. vm_compute. reflexivity. Qed.

(* items 4 and 5 on concrete inputs: the statement checked by computation, then through the theorem *)
Definition ex_func_stream : list token :=
  [T KTuple VNone; T KInt (VI WNat 5); T KArray VNone; T KBool (VBool true); T KArrayEnd VNone;
   T KTypeName (VStr [80]); T KString (VStr [120]); T KTupleEnd VNone; T KNil VNone].
Definition ex_func_types : list ty := [TInt WNat; TSlice TBool; TNamed [81] false [] TAny].

Example ex_is_func_run :
  typed_tuple_unm ex_pf 6 default_opts [] ex_func_types [] ex_func_stream
  = Ok ([Some (TInt WNat, GInt 5); Some (TSlice TBool, GList false [GBool true]);
         Some (TNamed [81] false [] TAny, GAny (Some (TString, GStr [120])))], [T KNil VNone]) /\
  unm ex_pf 7 default_opts [] (TFunc ex_func_types) (GFunc None) ex_func_stream
  = Ok (GFunc (Some [GInt 5; GList false [GBool true]; GAny (Some (TString, GStr [120]))]), [T KNil VNone]).
Proof. split; vm_compute; reflexivity. Qed.

Example ex_is_func_thm :
  unm ex_pf 7 default_opts [] (TFunc ex_func_types) (GFunc None) ex_func_stream
  = Ok (GFunc (Some [GInt 5; GList false [GBool true]; GAny (Some (TString, GStr [120]))]), [T KNil VNone]).
Proof.
  apply (typed_tuple_is_func ex_pf 6 default_opts [] ex_func_types (GFunc None) ex_func_stream
           [Some (TInt WNat, GInt 5); Some (TSlice TBool, GList false [GBool true]);
            Some (TNamed [81] false [] TAny, GAny (Some (TString, GStr [120])))]).
  - repeat constructor; discriminate.
  - cbn; lia.
  - vm_compute. reflexivity.
Qed.

(* with an interface-typed position the two targets differ (the reason for the hypothesis of item 4):
   the tuple keeps the dynamic value only, the func keeps the interface value *)
Example ex_is_func_any_differs :
  typed_tuple_unm ex_pf 3 default_opts [] [TAny] [] [T KTuple VNone; T KBool (VBool true); T KTupleEnd VNone]
  = Ok ([Some (TBool, GBool true)], []) /\
  unm ex_pf 4 default_opts [] (TFunc [TAny]) (GFunc None) [T KTuple VNone; T KBool (VBool true); T KTupleEnd VNone]
  = Ok (GFunc (Some [GAny (Some (TBool, GBool true))]), []).
Proof. split; vm_compute; reflexivity. Qed.

Definition ex_any_stream : list token :=
  [T KTuple VNone; T KInt (VI WNat 5); T KNil VNone; T KArray VNone; T KBool (VBool true); T KArrayEnd VNone;
   T KTupleEnd VNone; T KNil VNone].

Example ex_is_any_run :
  tuple_unm ex_pf 6 default_opts [] [] ex_any_stream
  = Ok ([Some (TInt WNat, GInt 5); None; Some (TSlice TAny, GList false [GAny (Some (TBool, GBool true))])],
        [T KNil VNone]) /\
  unm ex_pf 7 default_opts [] TAny (GAny None) ex_any_stream
  = Ok (GAny (Some (TFunc [TInt WNat; TAny; TSlice TAny],
                    GFunc (Some [GInt 5; GAny None; GList false [GAny (Some (TBool, GBool true))]]))), [T KNil VNone]).
Proof. split; vm_compute; reflexivity. Qed.

Example ex_is_any_thm :
  unm ex_pf 7 default_opts [] TAny (GAny None) ex_any_stream
  = Ok (GAny (Some (TFunc [TInt WNat; TAny; TSlice TAny],
                    GFunc (Some [GInt 5; GAny None; GList false [GAny (Some (TBool, GBool true))]]))), [T KNil VNone]).
Proof.
  apply (tuple_unm_is_any ex_pf 6 default_opts [] ex_any_stream
           [Some (TInt WNat, GInt 5); None; Some (TSlice TAny, GList false [GAny (Some (TBool, GBool true))])]).
  - vm_compute. reflexivity.
  - cbn; lia.
Qed.

Print Assumptions tuple_head_rejects.
Print Assumptions tuple_head_empty.
Print Assumptions typed_tuple_roundtrip.
Print Assumptions typed_tuple_too_few.
Print Assumptions typed_tuple_too_many.
Print Assumptions typed_tuple_is_func.
Print Assumptions tuple_unm_is_any.
Print Assumptions typed_tuple_total.
Print Assumptions tuple_unm_total.
