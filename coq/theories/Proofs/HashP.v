(* Proofs/HashP.v — C09: the streaming hash sink computes the Merkle function (for every
   hash function H); the Merkle function is injective for an ideal H; C10: replacing
   sub-values by references keeps the hash, and Deref restores the stream. *)
From Coq Require Import List NArith ZArith Bool Lia ZifyBool ZifyNat ZifyN.
From SbModel Require Import Base.Bytes Base.Tokens Base.Values Model.Codec Model.Hash Model.Tree Spec.TreeSpec.
From SbModel Require Import Proofs.BytesP Proofs.CodecP.
Import ListNotations.
Local Open Scope N_scope.

(* ------------------------------------------------------------------ *)
(* kind tables                                                         *)
(* ------------------------------------------------------------------ *)

Ltac split_kinds :=
  repeat match goal with
  | Hk : (_ || _) = true |- _ => apply orb_true_iff in Hk; destruct Hk as [Hk|Hk]
  | Hk : (_ =? _) = true |- _ => apply N.eqb_eq in Hk; subst
  | Hk : false = true |- _ => discriminate Hk
  end.

Lemma open_kind_facts k : is_open_kind k = true ->
  (k =? KRef) = false /\ is_hash_leaf_kind k = false /\ is_end_kind k = false /\ (k =? KTypeName) = false.
Proof. unfold is_open_kind. intros Hk. split_kinds; vm_compute; auto. Qed.

Lemma end_of_facts k :
  (end_of k =? KRef) = false /\ is_hash_leaf_kind (end_of k) = true /\ is_end_kind (end_of k) = true.
Proof.
  unfold end_of.
  destruct (k =? KArray); [vm_compute; auto|].
  destruct (k =? KObject); [vm_compute; auto|].
  destruct (k =? KMap); vm_compute; auto.
Qed.

(* a well-formed leaf token is a reference carrying bytes, or one of the kinds HashFunc hashes directly *)
Lemma wf_leaf_kind t : is_leaf_token t = true -> wf_token t = true ->
  is_end_kind (kind t) = false /\
  (((kind t =? KRef) = true /\ exists h, val t = VBytes h) \/
   ((kind t =? KRef) = false /\ is_hash_leaf_kind (kind t) = true)).
Proof.
  destruct t as [k v]. unfold is_leaf_token, wf_token. cbn [kind val].
  intros Hl Hw.
  apply andb_true_iff in Hw. destruct Hw as [Hs _].
  apply andb_true_iff in Hl. destruct Hl as [Hl Hn].
  apply andb_true_iff in Hl. destruct Hl as [Ho He].
  apply negb_true_iff in Ho. apply negb_true_iff in He. apply negb_true_iff in Hn.
  split; [exact He|].
  destruct v as [|b|w z|w n|n|b|b|s|s];
    try (destruct w); cbn [kind_shape existsb] in Hs; split_kinds;
    try (vm_compute in Ho; discriminate Ho);
    try (vm_compute in He; discriminate He);
    try (vm_compute in Hn; discriminate Hn);
    try (right; vm_compute; auto; fail).
  left. split; [reflexivity|]. exists s. reflexivity.
Qed.

(* ------------------------------------------------------------------ *)
(* list splitting, payload injectivity                                 *)
(* ------------------------------------------------------------------ *)

Lemma app_inv_len_head {A} (a b c d : list A) : length a = length b ->
  a ++ c = b ++ d -> a = b /\ c = d.
Proof.
  revert b. induction a as [|x a IH]; intros [|y b] Hl He; cbn [length app] in *; try discriminate Hl.
  - split; [reflexivity | exact He].
  - injection He as Hx He. injection Hl as Hl. destruct (IH b Hl He) as [Ha Hc].
    subst. split; reflexivity.
Qed.

Lemma app_inv_len_tail {A} (a b c d : list A) : length c = length d ->
  a ++ c = b ++ d -> a = b /\ c = d.
Proof.
  intros Hl He. apply app_inv_len_head; [|exact He].
  apply (f_equal (@length A)) in He. rewrite !app_length in He. lia.
Qed.

Lemma payload_inj_VI w z1 z2 : in_irange w z1 = true -> in_irange w z2 = true ->
  hash_payload (VI w z1) = hash_payload (VI w z2) -> z1 = z2.
Proof.
  intros H1 H2 Hp. cbn [hash_payload] in Hp.
  apply (f_equal (fun b => untwos (wbytes w) (le_val b))) in Hp.
  rewrite !int_roundtrip in Hp by assumption. exact Hp.
Qed.

Lemma payload_inj_le w n1 n2 : n1 < 2 ^ (8 * N.of_nat w) -> n2 < 2 ^ (8 * N.of_nat w) ->
  le_bytes w n1 = le_bytes w n2 -> n1 = n2.
Proof.
  intros H1 H2 Hp. apply (f_equal le_val) in Hp.
  rewrite !uint_roundtrip in Hp by assumption. exact Hp.
Qed.

(* among well-formed tokens of one kind the hashed payload determines the value *)
Lemma payload_inj k v1 v2 : kind_shape k v1 = true -> kind_shape k v2 = true ->
  wf_val v1 = true -> wf_val v2 = true -> hash_payload v1 = hash_payload v2 -> v1 = v2.
Proof.
  intros Hs1 Hs2 Hw1 Hw2 Hp.
  destruct v1 as [|b1|w1 z1|w1 n1|n1|b1|b1|s1|s1]; try destruct w1;
    cbn [kind_shape existsb] in Hs1; split_kinds;
    (destruct v2 as [|b2|w2 z2|w2 n2|n2|b2|b2|s2|s2]; try destruct w2;
     try (vm_compute in Hs2; discriminate Hs2));
    clear Hs2; cbn [wf_val] in Hw1, Hw2;
    try reflexivity;
    try (f_equal; exact (payload_inj_VI _ _ _ Hw1 Hw2 Hp));
    try (f_equal; unfold in_urange in Hw1, Hw2; apply N.ltb_lt in Hw1; apply N.ltb_lt in Hw2;
         cbn [hash_payload] in Hp; exact (payload_inj_le _ _ _ Hw1 Hw2 Hp));
    try (f_equal; cbn [hash_payload] in Hp; exact Hp).
  - destruct b1, b2; try reflexivity; cbn [hash_payload] in Hp; discriminate Hp.
  - f_equal. apply N.ltb_lt in Hw1. apply N.ltb_lt in Hw2. cbn [hash_payload] in Hp.
    apply (payload_inj_le 8 n1 n2); [exact Hw1 | exact Hw2 | exact Hp].
  - f_equal. apply N.ltb_lt in Hw1. apply N.ltb_lt in Hw2. cbn [hash_payload] in Hp.
    apply (payload_inj_le 4 b1 b2); [exact Hw1 | exact Hw2 | exact Hp].
  - f_equal. apply N.ltb_lt in Hw1. apply N.ltb_lt in Hw2. cbn [hash_payload] in Hp.
    apply (payload_inj_le 8 b1 b2); [exact Hw1 | exact Hw2 | exact Hp].
Qed.

Lemma leaf_preimage_inj t1 t2 : wf_token t1 = true -> wf_token t2 = true ->
  kind t1 :: hash_payload (val t1) = kind t2 :: hash_payload (val t2) -> t1 = t2.
Proof.
  destruct t1 as [k1 v1], t2 as [k2 v2]. unfold wf_token. cbn [kind val].
  intros Hw1 Hw2 He. injection He as Hk Hp. subst k2.
  apply andb_true_iff in Hw1. destruct Hw1 as [Hs1 Hw1].
  apply andb_true_iff in Hw2. destruct Hw2 as [Hs2 Hw2].
  rewrite (payload_inj k1 v1 v2 Hs1 Hs2 Hw1 Hw2 Hp). reflexivity.
Qed.

Section WithH.
Variable H : bytes -> bytes.

(* ------------------------------------------------------------------ *)
(* the machine on a stream of option tokens, events dropped            *)
(* ------------------------------------------------------------------ *)

Fixpoint hrunO (s : hstate) (i : nat) (ts : list (option token)) : hstate :=
  match ts with
  | [] => s
  | t :: r => hrunO (fst (hstep H s i t)) (S i) r
  end.

Lemma hrunO_cons s i t r : hrunO s i (t :: r) = hrunO (fst (hstep H s i t)) (S i) r.
Proof. reflexivity. Qed.

Lemma hrunO_done sum i ts : hrunO (HDone sum) i ts = HDone sum.
Proof. revert i. induction ts as [|t r IH]; intros i; cbn [hrunO hstep fst]; [reflexivity | apply IH]. Qed.

Lemma hrunO_err e i ts : hrunO (HErr e) i ts = HErr e.
Proof. revert i. induction ts as [|t r IH]; intros i; cbn [hrunO hstep fst]; [reflexivity | apply IH]. Qed.

Lemma hrun_hrunO s i ts : fst (hrun H s i ts) = hrunO s i (map Some ts).
Proof.
  revert s i. induction ts as [|t r IH]; intros s i; cbn [hrun map hrunO].
  - reflexivity.
  - destruct (hstep H s i (Some t)) as [s1 e1] eqn:E1. cbn [fst].
    specialize (IH s1 (S i)). destruct (hrun H s1 (S i) r) as [s2 e2]. exact IH.
Qed.

Lemma hrunO_app s i a b : hrunO s i (a ++ b) = hrunO (hrunO s i a) (i + length a) b.
Proof.
  revert s i. induction a as [|t a IH]; intros s i; cbn [app hrunO length].
  - rewrite Nat.add_0_r. reflexivity.
  - rewrite IH. replace (S i + length a)%nat with (i + S (length a))%nat by lia. reflexivity.
Qed.

Lemma hash_stream_hrunO ts :
  fst (hash_stream H ts) = hrunO (HAwait []) 0 (map Some ts ++ [None]).
Proof.
  unfold hash_stream. rewrite hrunO_app. rewrite <- hrun_hrunO.
  rewrite map_length. cbn [Nat.add].
  destruct (hrun H (HAwait []) 0 ts) as [s ev]. cbn [fst].
  destruct s as [ks|st idx ks|sub ks|sum|e]; cbn [hrunO].
  - destruct (hstep H (HAwait ks) (length ts) None) as [s' ev']. reflexivity.
  - destruct (hstep H (HIn st idx ks) (length ts) None) as [s' ev']. reflexivity.
  - destruct (hstep H (HPend sub ks) (length ts) None) as [s' ev']. reflexivity.
  - reflexivity.
  - reflexivity.
Qed.

(* ------------------------------------------------------------------ *)
(* single steps                                                        *)
(* ------------------------------------------------------------------ *)

Lemma unwind_close f sub st idx ks i t :
  fst (unwind H (S f) sub (FClose st idx :: ks) i t) = fst (unwind H f (H (st ++ sub)) ks i t).
Proof. cbn [unwind]. destruct (unwind H f (H (st ++ sub)) ks i t) as [s ev]. reflexivity. Qed.

Lemma unwind_name f sub st idx ks i t :
  fst (unwind H (S f) sub (FName st idx :: ks) i t) = fst (unwind H f (H (st ++ sub)) ks i t).
Proof. cbn [unwind]. destruct (unwind H f (H (st ++ sub)) ks i t) as [s ev]. reflexivity. Qed.

Lemma step_through_close sub st idx ks i t :
  fst (hstep H (HPend sub (FClose st idx :: ks)) i t) = fst (hstep H (deliver (H (st ++ sub)) ks) i t).
Proof.
  cbn [hstep length]. rewrite unwind_close.
  destruct ks as [|fr ks']; cbn [deliver hstep unwind]; reflexivity.
Qed.

Lemma step_through_name sub st idx ks i t :
  fst (hstep H (HPend sub (FName st idx :: ks)) i t) = fst (hstep H (deliver (H (st ++ sub)) ks) i t).
Proof.
  cbn [hstep length]. rewrite unwind_name.
  destruct ks as [|fr ks']; cbn [deliver hstep unwind]; reflexivity.
Qed.

(* a finished item inside a compound: the pending hash is absorbed by the next step *)
Lemma step_pend_item sub st idx ks i t :
  hstep H (HPend sub (FItem st idx :: ks)) i t = hstep H (HIn (st ++ sub) idx ks) i t.
Proof. cbn [hstep length unwind]. destruct t as [t|]; reflexivity. Qed.

Lemma step_in_item st idx ks i t : is_end_kind (kind t) = false ->
  hstep H (HIn st idx ks) i (Some t) = hstep H (HAwait (FItem st idx :: ks)) i (Some t).
Proof. intros He. cbn [hstep]. unfold hc. rewrite He. reflexivity. Qed.

Lemma hf_leaf ks i t : is_leaf_token t = true -> wf_token t = true ->
  fst (hf H ks i t) = deliver (leaf_hash H t) ks.
Proof.
  intros Hl Hw. destruct (wf_leaf_kind t Hl Hw) as [_ [[Hr [h Hv]]|[Hr Hk]]];
    unfold hf, leaf_hash; rewrite Hr.
  - rewrite Hv. reflexivity.
  - rewrite Hk. reflexivity.
Qed.

Lemma hf_open ks i ko : is_open_kind ko = true ->
  hf H ks i (T ko VNone) = (HIn [ko] i ks, [(None, i)]).
Proof.
  intros Ho. destruct (open_kind_facts ko Ho) as (Hr & Hk & _ & _).
  unfold hf. cbn [kind val]. rewrite Hr, Hk, Ho. reflexivity.
Qed.

Lemma hf_name ks i n :
  hf H ks i (T KTypeName (VStr n)) = (HAwait (FName (KTypeName :: n) i :: ks), [(None, i)]).
Proof. reflexivity. Qed.

Lemma hc_end st idx ks i ko :
  hc H st idx ks i (T (end_of ko) VNone)
  = (HPend (H [end_of ko]) (FClose st idx :: ks), [(None, i); (Some (H [end_of ko]), i)]).
Proof.
  destruct (end_of_facts ko) as (Hr & Hk & He).
  unfold hc, hf. cbn [kind val]. rewrite He, Hr, Hk. reflexivity.
Qed.

(* the first token of a well-formed value is not an end marker *)
Lemma flatten_head v : wf_value v = true ->
  exists t r, flatten v = t :: r /\ is_end_kind (kind t) = false.
Proof.
  destruct v as [t|ko kc items|n v]; cbn [flatten wf_value]; intros Hw.
  - apply andb_true_iff in Hw. destruct Hw as [Hl Hw].
    exists t, []. split; [reflexivity|]. apply (wf_leaf_kind t Hl Hw).
  - apply andb_true_iff in Hw. destruct Hw as [Hw _].
    apply andb_true_iff in Hw. destruct Hw as [Ho _].
    eexists. eexists. split; [reflexivity|]. cbn [kind].
    apply (open_kind_facts ko Ho).
  - eexists. eexists. split; [reflexivity|]. reflexivity.
Qed.

(* ------------------------------------------------------------------ *)
(* adequacy up to the next step                                        *)
(* ------------------------------------------------------------------ *)

Definition adequate (v : value) : Prop :=
  wf_value v = true ->
  forall ks i fut, fut <> [] ->
    hrunO (HAwait ks) i (map Some (flatten v) ++ fut)
    = hrunO (deliver (mhash H v) ks) (i + length (flatten v)) fut.

Lemma item_from_await v : adequate v -> wf_value v = true ->
  forall st idx ks i fut, fut <> [] ->
    hrunO (HIn st idx ks) i (map Some (flatten v) ++ fut)
    = hrunO (HPend (mhash H v) (FItem st idx :: ks)) (i + length (flatten v)) fut.
Proof.
  intros Hv Hw st idx ks i fut Hf.
  transitivity (hrunO (HAwait (FItem st idx :: ks)) i (map Some (flatten v) ++ fut));
    [|exact (Hv Hw (FItem st idx :: ks) i fut Hf)].
  destruct (flatten_head v Hw) as (t & r & -> & He).
  cbn [map app]. rewrite !hrunO_cons. rewrite (step_in_item st idx ks i t He). reflexivity.
Qed.

Lemma items_run items : Forall adequate items -> forallb wf_value items = true ->
  forall st idx ks i fut, fut <> [] ->
    hrunO (HIn st idx ks) i (map Some (flat_map flatten items) ++ fut)
    = hrunO (HIn (st ++ flat_map (mhash H) items) idx ks) (i + length (flat_map flatten items)) fut.
Proof.
  induction 1 as [|v items Hv _ IH]; intros Hw st idx ks i fut Hf.
  - cbn [flat_map map app length]. rewrite app_nil_r, Nat.add_0_r. reflexivity.
  - cbn [forallb] in Hw. apply andb_true_iff in Hw. destruct Hw as [Hwv Hwi].
    cbn [flat_map]. rewrite map_app, <- app_assoc.
    assert (Hf' : map Some (flat_map flatten items) ++ fut <> []).
    { destruct (map Some (flat_map flatten items)); [exact Hf | discriminate]. }
    rewrite (item_from_await v Hv Hwv st idx ks i _ Hf').
    destruct (map Some (flat_map flatten items) ++ fut) as [|t more] eqn:Em; [congruence|].
    rewrite hrunO_cons, step_pend_item, <- hrunO_cons, <- Em.
    rewrite (IH Hwi _ idx ks _ fut Hf).
    rewrite app_length, <- app_assoc, Nat.add_assoc. reflexivity.
Qed.

Theorem all_adequate : forall v, adequate v.
Proof.
  induction v as [t|ko kc items IH|n v IH] using value_ind2; intros Hw ks i fut Hf.
  - cbn [wf_value] in Hw. apply andb_true_iff in Hw. destruct Hw as [Hl Hw].
    cbn [flatten map app length mhash]. rewrite hrunO_cons. cbn [hstep].
    rewrite (hf_leaf ks i t Hl Hw). rewrite Nat.add_1_r. reflexivity.
  - cbn [wf_value] in Hw. apply andb_true_iff in Hw. destruct Hw as [Hw Hwi].
    apply andb_true_iff in Hw. destruct Hw as [Ho Hc]. apply N.eqb_eq in Hc. subst kc.
    cbn [flatten map]. rewrite map_app. cbn [map app]. rewrite <- app_assoc. cbn [app].
    rewrite hrunO_cons. cbn [hstep]. rewrite (hf_open ks i ko Ho). cbn [fst].
    rewrite (items_run items IH Hwi) by discriminate.
    rewrite hrunO_cons. cbn [hstep]. rewrite hc_end. cbn [fst].
    destruct fut as [|t fut']; [congruence|].
    rewrite hrunO_cons, step_through_close, <- hrunO_cons.
    cbn [mhash app length]. rewrite app_length. cbn [length].
    replace (S (S i + length (flat_map flatten items)))
      with (i + S (length (flat_map flatten items) + 1))%nat by lia.
    reflexivity.
  - cbn [wf_value] in Hw. apply andb_true_iff in Hw. destruct Hw as [_ Hw].
    cbn [flatten map app].
    rewrite hrunO_cons. cbn [hstep]. rewrite hf_name. cbn [fst].
    rewrite (IH Hw) by exact Hf.
    cbn [deliver].
    destruct fut as [|t fut']; [congruence|].
    rewrite hrunO_cons, step_through_name, <- hrunO_cons.
    cbn [mhash app length].
    replace (S i + length (flatten v))%nat with (i + S (length (flatten v)))%nat by lia.
    reflexivity.
Qed.

(* ------------------------------------------------------------------ *)
(* C09: the sink computes the Merkle function                          *)
(* ------------------------------------------------------------------ *)

Lemma hash_result_hrunO ts :
  hash_result H ts = match hrunO (HAwait []) 0 (map Some ts ++ [None]) with
                     | HDone sum => inl sum
                     | HErr e => inr e
                     | _ => inr EOther
                     end.
Proof. unfold hash_result. rewrite hash_stream_hrunO. reflexivity. Qed.

(* the sink stops after the first complete value, whatever follows *)
Theorem hash_two_values v more : wf_value v = true ->
  hash_result H (flatten v ++ more) = inl (mhash H v).
Proof.
  intros Hw. rewrite hash_result_hrunO, map_app, <- app_assoc.
  rewrite (all_adequate v Hw) by (destruct (map Some more); discriminate).
  cbn [deliver]. rewrite hrunO_done. reflexivity.
Qed.

Corollary hash_two_values_stream v w rest : wf_value v = true ->
  hash_result H (flatten v ++ flatten w ++ rest) = inl (mhash H v).
Proof. apply hash_two_values. Qed.

Theorem sink_hash_is_merkle v : wf_value v = true ->
  hash_result H (flatten v) = inl (mhash H v).
Proof.
  intros Hw. rewrite <- (app_nil_r (flatten v)). apply hash_two_values. exact Hw.
Qed.

Theorem hash_empty : hash_result H [] = inr EEnd.
Proof. reflexivity. Qed.

(* a compound cut before its end marker: io.ErrUnexpectedEOF *)
Theorem hash_unclosed ko kc items : wf_value (Comp ko kc items) = true ->
  hash_result H (removelast (flatten (Comp ko kc items))) = inr EEnd.
Proof.
  intros Hw. pose proof (all_adequate) as Had.
  cbn [wf_value] in Hw. apply andb_true_iff in Hw. destruct Hw as [Hw Hwi].
  apply andb_true_iff in Hw. destruct Hw as [Ho _].
  cbn [flatten]. rewrite app_comm_cons, removelast_app by discriminate.
  cbn [removelast]. rewrite app_nil_r.
  rewrite hash_result_hrunO. cbn [map app].
  rewrite hrunO_cons. cbn [hstep]. rewrite (hf_open [] 0%nat ko Ho). cbn [fst].
  rewrite (items_run items) by (try discriminate; try exact Hwi; apply Forall_forall; intros x _; apply Had).
  reflexivity.
Qed.

(* ------------------------------------------------------------------ *)
(* C09: the callback events; the last one carries the root hash        *)
(* ------------------------------------------------------------------ *)

Fixpoint hrunE (s : hstate) (i : nat) (ts : list (option token)) : hstate * list event :=
  match ts with
  | [] => (s, [])
  | t :: r => let '(s1, e1) := hstep H s i t in
              let '(s2, e2) := hrunE s1 (S i) r in (s2, e1 ++ e2)
  end.

(* events [evs] happen first *)
Definition pre (evs : list event) (p : hstate * list event) : hstate * list event :=
  (fst p, evs ++ snd p).

Lemma pre_nil p : pre [] p = p.
Proof. destruct p as [s e]. reflexivity. Qed.

Lemma pre_pre a b p : pre a (pre b p) = pre (a ++ b) p.
Proof. unfold pre. cbn [fst snd]. rewrite app_assoc. reflexivity. Qed.

Lemma hrunE_cons s i t r :
  hrunE s i (t :: r) = pre (snd (hstep H s i t)) (hrunE (fst (hstep H s i t)) (S i) r).
Proof.
  cbn [hrunE]. destruct (hstep H s i t) as [s1 e1]. cbn [fst snd].
  destruct (hrunE s1 (S i) r) as [s2 e2]. reflexivity.
Qed.

Lemma hrunE_cons_pre s s' a i t r : hstep H s i t = pre a (hstep H s' i t) ->
  hrunE s i (t :: r) = pre a (hrunE s' i (t :: r)).
Proof.
  intros He. rewrite !hrunE_cons, He. unfold pre. cbn [fst snd]. rewrite app_assoc. reflexivity.
Qed.

Lemma hrun_hrunE s i ts : hrun H s i ts = hrunE s i (map Some ts).
Proof.
  revert s i. induction ts as [|t r IH]; intros s i; cbn [hrun map hrunE].
  - reflexivity.
  - destruct (hstep H s i (Some t)) as [s1 e1]. rewrite IH. reflexivity.
Qed.

Lemma hrunE_app s i a b :
  hrunE s i (a ++ b) = pre (snd (hrunE s i a)) (hrunE (fst (hrunE s i a)) (i + length a) b).
Proof.
  revert s i. induction a as [|t a IH]; intros s i.
  - cbn [app hrunE length fst snd]. rewrite Nat.add_0_r, pre_nil. reflexivity.
  - cbn [app length]. rewrite !hrunE_cons, IH. unfold pre. cbn [fst snd].
    replace (S i + length a)%nat with (i + S (length a))%nat by lia.
    rewrite app_assoc. reflexivity.
Qed.

Lemma hrunE_done sum i ts : hrunE (HDone sum) i ts = (HDone sum, []).
Proof.
  revert i. induction ts as [|t r IH]; intros i; [reflexivity|].
  rewrite hrunE_cons. cbn [hstep fst snd]. rewrite IH. reflexivity.
Qed.

Lemma hash_stream_hrunE ts :
  hash_stream H ts = hrunE (HAwait []) 0 (map Some ts ++ [None]).
Proof.
  unfold hash_stream. rewrite hrunE_app, <- hrun_hrunE, map_length. cbn [Nat.add].
  destruct (hrun H (HAwait []) 0 ts) as [s ev]. cbn [fst snd]. rewrite hrunE_cons. cbn [hrunE].
  destruct s as [ks|st idx ks|sub ks|sum|e];
    try (destruct (hstep H _ (length ts) None) as [s' ev']; unfold pre; cbn [fst snd];
         rewrite app_nil_r; reflexivity);
    unfold pre; cbn [hstep fst snd app]; rewrite app_nil_r; reflexivity.
Qed.

Lemma unwindE_close f sub st idx ks i t :
  unwind H (S f) sub (FClose st idx :: ks) i t
  = pre [(Some (H (st ++ sub)), idx)] (unwind H f (H (st ++ sub)) ks i t).
Proof. cbn [unwind]. destruct (unwind H f (H (st ++ sub)) ks i t) as [s ev]. reflexivity. Qed.

Lemma unwindE_name f sub st idx ks i t :
  unwind H (S f) sub (FName st idx :: ks) i t
  = pre [(Some (H (st ++ sub)), idx)] (unwind H f (H (st ++ sub)) ks i t).
Proof. cbn [unwind]. destruct (unwind H f (H (st ++ sub)) ks i t) as [s ev]. reflexivity. Qed.

Lemma stepE_through_close sub st idx ks i t :
  hstep H (HPend sub (FClose st idx :: ks)) i t
  = pre [(Some (H (st ++ sub)), idx)] (hstep H (deliver (H (st ++ sub)) ks) i t).
Proof.
  cbn [hstep length]. rewrite unwindE_close. f_equal.
  destruct ks as [|fr ks']; cbn [deliver hstep unwind]; reflexivity.
Qed.

Lemma stepE_through_name sub st idx ks i t :
  hstep H (HPend sub (FName st idx :: ks)) i t
  = pre [(Some (H (st ++ sub)), idx)] (hstep H (deliver (H (st ++ sub)) ks) i t).
Proof.
  cbn [hstep length]. rewrite unwindE_name. f_equal.
  destruct ks as [|fr ks']; cbn [deliver hstep unwind]; reflexivity.
Qed.

Lemma hf_leafE ks i t : is_leaf_token t = true -> wf_token t = true ->
  exists evs, hf H ks i t = (deliver (leaf_hash H t) ks, evs ++ [(Some (leaf_hash H t), i)]).
Proof.
  intros Hl Hw. destruct (wf_leaf_kind t Hl Hw) as [_ [[Hr [h Hv]]|[Hr Hk]]];
    unfold hf, leaf_hash; rewrite Hr.
  - rewrite Hv. exists []. reflexivity.
  - rewrite Hk. exists [(None, i)]. reflexivity.
Qed.

Definition adequateE (v : value) : Prop :=
  wf_value v = true ->
  forall ks i fut, fut <> [] ->
  exists evs,
    hrunE (HAwait ks) i (map Some (flatten v) ++ fut)
    = pre (evs ++ [(Some (mhash H v), i)])
          (hrunE (deliver (mhash H v) ks) (i + length (flatten v)) fut).

Lemma item_from_awaitE v : adequateE v -> wf_value v = true ->
  forall st idx ks i fut, fut <> [] ->
  exists evs,
    hrunE (HIn st idx ks) i (map Some (flatten v) ++ fut)
    = pre evs (hrunE (HPend (mhash H v) (FItem st idx :: ks)) (i + length (flatten v)) fut).
Proof.
  intros Hv Hw st idx ks i fut Hf.
  destruct (Hv Hw (FItem st idx :: ks) i fut Hf) as [evs Hev].
  exists (evs ++ [(Some (mhash H v), i)]).
  transitivity (hrunE (HAwait (FItem st idx :: ks)) i (map Some (flatten v) ++ fut));
    [|exact Hev].
  destruct (flatten_head v Hw) as (t & r & -> & He).
  cbn [map app]. rewrite !hrunE_cons. rewrite (step_in_item st idx ks i t He). reflexivity.
Qed.

Lemma items_runE items : Forall adequateE items -> forallb wf_value items = true ->
  forall st idx ks i fut, fut <> [] ->
  exists evs,
    hrunE (HIn st idx ks) i (map Some (flat_map flatten items) ++ fut)
    = pre evs (hrunE (HIn (st ++ flat_map (mhash H) items) idx ks)
                     (i + length (flat_map flatten items)) fut).
Proof.
  induction 1 as [|v items Hv _ IH]; intros Hw st idx ks i fut Hf.
  - exists []. cbn [flat_map map app length]. rewrite app_nil_r, Nat.add_0_r, pre_nil. reflexivity.
  - cbn [forallb] in Hw. apply andb_true_iff in Hw. destruct Hw as [Hwv Hwi].
    cbn [flat_map]. rewrite map_app, <- app_assoc.
    assert (Hf' : map Some (flat_map flatten items) ++ fut <> []).
    { destruct (map Some (flat_map flatten items)); [exact Hf | discriminate]. }
    destruct (item_from_awaitE v Hv Hwv st idx ks i _ Hf') as [e1 E1]. rewrite E1.
    destruct (map Some (flat_map flatten items) ++ fut) as [|t more] eqn:Em; [congruence|].
    rewrite hrunE_cons, step_pend_item, <- hrunE_cons, <- Em.
    destruct (IH Hwi (st ++ mhash H v) idx ks (i + length (flatten v))%nat fut Hf) as [e2 E2].
    rewrite E2, pre_pre. exists (e1 ++ e2).
    rewrite app_length, <- app_assoc, Nat.add_assoc. reflexivity.
Qed.

Theorem all_adequateE : forall v, adequateE v.
Proof.
  induction v as [t|ko kc items IH|n v IH] using value_ind2; intros Hw ks i fut Hf.
  - cbn [wf_value] in Hw. apply andb_true_iff in Hw. destruct Hw as [Hl Hw].
    cbn [flatten map app length mhash]. rewrite hrunE_cons. cbn [hstep].
    destruct (hf_leafE ks i t Hl Hw) as [evs Hev]. rewrite Hev. cbn [fst snd].
    exists evs. rewrite Nat.add_1_r. reflexivity.
  - cbn [wf_value] in Hw. apply andb_true_iff in Hw. destruct Hw as [Hw Hwi].
    apply andb_true_iff in Hw. destruct Hw as [Ho Hc]. apply N.eqb_eq in Hc. subst kc.
    cbn [flatten map]. rewrite map_app. cbn [map app]. rewrite <- app_assoc. cbn [app].
    rewrite hrunE_cons. cbn [hstep]. rewrite (hf_open ks i ko Ho). cbn [fst snd].
    destruct (items_runE items IH Hwi [ko] i ks (S i) (Some (T (end_of ko) VNone) :: fut)) as [e1 E1];
      [discriminate|].
    rewrite E1.
    rewrite hrunE_cons. cbn [hstep]. rewrite hc_end. cbn [fst snd].
    destruct fut as [|t fut']; [congruence|].
    rewrite (hrunE_cons_pre _ _ _ _ _ _ (stepE_through_close _ _ _ _ _ _)).
    rewrite !pre_pre.
    cbn [mhash length]. rewrite app_length. cbn [length].
    replace (S (S i + length (flat_map flatten items)))
      with (i + S (length (flat_map flatten items) + 1))%nat by lia.
    eexists. reflexivity.
  - cbn [wf_value] in Hw. apply andb_true_iff in Hw. destruct Hw as [_ Hw].
    cbn [flatten map app].
    rewrite hrunE_cons. cbn [hstep]. rewrite hf_name. cbn [fst snd].
    destruct (IH Hw (FName (KTypeName :: n) i :: ks) (S i) fut Hf) as [e1 E1]. rewrite E1.
    cbn [deliver].
    destruct fut as [|t fut']; [congruence|].
    rewrite (hrunE_cons_pre _ _ _ _ _ _ (stepE_through_name _ _ _ _ _ _)).
    rewrite !pre_pre.
    cbn [mhash length].
    replace (S i + length (flatten v))%nat with (i + S (length (flatten v)))%nat by lia.
    eexists. reflexivity.
Qed.

(* every event of the run, and the final state: the last callback reports the root hash
   (for the first token), which is what TreeFromStream(WithHash) attaches to the root *)
Theorem sink_events_last_strong v more : wf_value v = true ->
  exists evs, hash_stream H (flatten v ++ more) = (HDone (mhash H v), evs ++ [(Some (mhash H v), 0%nat)]).
Proof.
  intros Hw. rewrite hash_stream_hrunE, map_app, <- app_assoc.
  destruct (all_adequateE v Hw [] 0%nat (map Some more ++ [None])) as [evs Hev];
    [destruct (map Some more); discriminate|].
  rewrite Hev. cbn [deliver]. rewrite hrunE_done. exists evs.
  unfold pre. cbn [fst snd]. rewrite app_nil_r. reflexivity.
Qed.

Theorem sink_events_last v : wf_value v = true -> mhash H v <> [] ->
  exists evs idx, snd (hash_stream H (flatten v)) = evs ++ [(Some (mhash H v), idx)].
Proof.
  intros Hw _. destruct (sink_events_last_strong v [] Hw) as [evs Hev].
  rewrite app_nil_r in Hev. rewrite Hev. exists evs, 0%nat. reflexivity.
Qed.

(* ------------------------------------------------------------------ *)
(* C10: substitution of references                                     *)
(* ------------------------------------------------------------------ *)

Lemma subst_hash_gen sel : forall v i, mhash H (subst_at H sel i v) = mhash H v.
Proof.
  induction v as [t|ko kc items IH|n v IH] using value_ind2; intros i; cbn [subst_at];
    destruct (existsb (Nat.eqb i) sel); try reflexivity.
  - cbn [mhash]. f_equal. f_equal. f_equal.
    generalize (S i). induction IH as [|x l Hx _ IHl]; intros j; cbn [flat_map]; [reflexivity|].
    rewrite Hx, IHl. reflexivity.
  - cbn [mhash]. rewrite IH. reflexivity.
Qed.

Theorem subst_hash sel i v : mhash H (subst_at H sel i v) = mhash H v.
Proof. apply subst_hash_gen. Qed.

Lemma wf_bytesb_of s : wf_bytes s -> wf_bytesb s = true.
Proof.
  unfold wf_bytes, wf_bytesb. intros Hs. apply forallb_forall. intros x Hx.
  rewrite Forall_forall in Hs. specialize (Hs x Hx). unfold wf_byte in Hs. unfold wf_byteb. lia.
Qed.

Lemma mhash_wf v : (forall x, wf_bytes (H x)) -> wf_value v = true -> wf_bytesb (mhash H v) = true.
Proof.
  intros HH Hw. destruct v as [t|ko kc items|n v]; cbn [mhash]; try (apply wf_bytesb_of, HH).
  cbn [wf_value] in Hw. apply andb_true_iff in Hw. destruct Hw as [_ Hw].
  unfold leaf_hash. destruct (kind t =? KRef); [|apply wf_bytesb_of, HH].
  unfold wf_token in Hw. apply andb_true_iff in Hw. destruct Hw as [_ Hw].
  destruct (val t); try reflexivity. exact Hw.
Qed.

Lemma subst_wf_gen sel : (forall x, wf_bytes (H x)) ->
  forall v i, wf_value v = true -> wf_value (subst_at H sel i v) = true.
Proof.
  intros HH.
  induction v as [t|ko kc items IH|n v IH] using value_ind2; intros i Hw; cbn [subst_at];
    destruct (existsb (Nat.eqb i) sel);
    try (cbn [wf_value]; unfold is_leaf_token, wf_token; cbn [kind val wf_val];
         rewrite (mhash_wf _ HH Hw); reflexivity).
  - exact Hw.
  - cbn [wf_value] in *. apply andb_true_iff in Hw. destruct Hw as [Hw Hwi]. rewrite Hw. cbn [andb].
    generalize (S i). induction IH as [|x l Hx _ IHl]; intros j; cbn [forallb]; [reflexivity|].
    cbn [forallb] in Hwi. apply andb_true_iff in Hwi. destruct Hwi as [Hwx Hwl].
    rewrite (Hx j Hwx), (IHl Hwl). reflexivity.
  - cbn [wf_value] in *. apply andb_true_iff in Hw. destruct Hw as [Hn Hw].
    rewrite Hn, (IH _ Hw). reflexivity.
Qed.

(* a hash returns bytes: needed for the reference tokens to be well-formed *)
Theorem subst_wf sel i v : (forall x, wf_bytes (H x)) -> wf_value v = true ->
  wf_value (subst_at H sel i v) = true.
Proof. intros HH Hw. apply subst_wf_gen; assumption. Qed.

Corollary subst_then_hash sel i v : wf_value v = true -> (forall x, wf_bytes (H x)) ->
  hash_result H (flatten (subst_at H sel i v)) = inl (mhash H v).
Proof.
  intros Hw HH. rewrite sink_hash_is_merkle by (apply subst_wf; assumption).
  rewrite subst_hash. reflexivity.
Qed.

(* ---- Deref ---- *)

Lemma deref_cons_noref resolve t r : kind t <> KRef ->
  deref resolve (t :: r) = (t :: fst (deref resolve r), snd (deref resolve r)).
Proof.
  intros Hk. cbn [deref]. apply N.eqb_neq in Hk. rewrite Hk.
  destruct (deref resolve r) as [o e]. reflexivity.
Qed.

Lemma deref_app resolve a : forall a' b, deref resolve a = (a', ENone) ->
  deref resolve (a ++ b) = (a' ++ fst (deref resolve b), snd (deref resolve b)).
Proof.
  induction a as [|t r IH]; intros a' b Ha.
  - cbn [deref] in Ha. inversion Ha; subst. cbn [app]. apply surjective_pairing.
  - cbn [app deref] in *. destruct (kind t =? KRef).
    + destruct (val t) as [|b0|w z|w n|n|b0|b0|s|h]; try discriminate Ha.
      destruct (resolve h) as [sub| |].
      * destruct (deref resolve r) as [o e]. inversion Ha; subst.
        rewrite (IH o b eq_refl). rewrite app_assoc. reflexivity.
      * destruct (deref resolve r) as [o e]. inversion Ha; subst.
        rewrite (IH o b eq_refl). reflexivity.
      * discriminate Ha.
    + destruct (deref resolve r) as [o e]. inversion Ha; subst.
      rewrite (IH o b eq_refl). reflexivity.
Qed.

Theorem deref_no_refs resolve ts : (forall t, In t ts -> kind t <> KRef) ->
  deref resolve ts = (ts, ENone).
Proof.
  induction ts as [|t r IH]; intros Hk; [reflexivity|].
  rewrite deref_cons_noref by (apply Hk; left; reflexivity).
  rewrite IH by (intros t' Ht'; apply Hk; right; exact Ht'). reflexivity.
Qed.

Theorem deref_error resolve pre h post : (forall t, In t pre -> kind t <> KRef) -> resolve h = RFail ->
  deref resolve (pre ++ T KRef (VBytes h) :: post) = (pre, EFault).
Proof.
  intros Hk Hr. rewrite (deref_app resolve pre pre) by (apply deref_no_refs; exact Hk).
  cbn [deref kind val]. rewrite N.eqb_refl, Hr. cbn [fst snd]. rewrite app_nil_r. reflexivity.
Qed.

Lemma ref_shape v : kind_shape KRef v = true -> exists h, v = VBytes h.
Proof.
  destruct v as [|b|w z|w n|n|b|b|s|s]; try destruct w; intros Hs;
    try (vm_compute in Hs; discriminate Hs).
  exists s. reflexivity.
Qed.

(* the statement without a hypothesis on the tokens is false: a Ref token without bytes panics *)
Theorem deref_declined_refuted :
  exists resolve ts, (forall h, resolve h = RDecline) /\ deref resolve ts <> (ts, ENone).
Proof. exists (fun _ => RDecline), [T KRef VNone]. split; [reflexivity|]. vm_compute. discriminate. Qed.

Theorem deref_declined_partial resolve ts : (forall h, resolve h = RDecline) ->
  (forall t, In t ts -> wf_token t = true) -> deref resolve ts = (ts, ENone).
Proof.
  intros Hd. induction ts as [|t r IH]; intros Hw; [reflexivity|].
  assert (IHr : deref resolve r = (r, ENone)) by (apply IH; intros t' Ht'; apply Hw; right; exact Ht').
  cbn [deref]. destruct (kind t =? KRef) eqn:Ek.
  - apply N.eqb_eq in Ek. specialize (Hw t (or_introl eq_refl)).
    unfold wf_token in Hw. apply andb_true_iff in Hw. destruct Hw as [Hs _].
    rewrite Ek in Hs. destruct (ref_shape _ Hs) as [h Hv]. rewrite Hv, Hd, IHr. reflexivity.
  - rewrite IHr. reflexivity.
Qed.

Lemma deref_ref_single resolve h sub : resolve h = RStream sub ->
  deref resolve [T KRef (VBytes h)] = (sub, ENone).
Proof. intros Hr. cbn [deref kind val]. rewrite N.eqb_refl, Hr, app_nil_r. reflexivity. Qed.

Lemma deref_subst resolve sel : forall v i,
  Forall (fun t => kind t <> KRef) (flatten v) ->
  (forall j s, In (j, s) (selected sel i v) -> resolve (mhash H s) = RStream (flatten s)) ->
  deref resolve (flatten (subst_at H sel i v)) = (flatten v, ENone).
Proof.
  induction v as [t|ko kc items IH|n v IH] using value_ind2; intros i Hnr Hsel;
    cbn [subst_at selected] in *; destruct (existsb (Nat.eqb i) sel);
    try (apply deref_ref_single; apply (Hsel i); left; reflexivity).
  - cbn [flatten] in *. apply deref_no_refs. intros t' [<-|[]]. inversion Hnr; assumption.
  - cbn [flatten] in *. inversion Hnr as [|t0 l0 Hko Hrest]; subst.
    apply Forall_app in Hrest. destruct Hrest as [Hitems Hkc].
    rewrite deref_cons_noref by exact Hko.
    assert (Hgo : forall j,
      (forall j' s, In (j', s)
         ((fix go (j : nat) (l : list value) : list (nat * value) :=
             match l with
             | [] => []
             | x :: r => selected sel j x ++ go (j + vlen x)%nat r
             end) j items) -> resolve (mhash H s) = RStream (flatten s)) ->
      deref resolve (flat_map flatten
         ((fix go (j : nat) (l : list value) : list value :=
             match l with
             | [] => []
             | x :: r => subst_at H sel j x :: go (j + vlen x)%nat r
             end) j items)) = (flat_map flatten items, ENone)).
    { clear Hsel Hnr. revert Hitems.
      induction IH as [|x l Hx _ IHl]; intros Hitems j Hs; [reflexivity|].
      cbn [flat_map] in *. apply Forall_app in Hitems. destruct Hitems as [Hfx Hfl].
      rewrite (deref_app resolve _ (flatten x)).
      - rewrite (IHl Hfl (j + vlen x)%nat) by (intros j' s Hin; apply (Hs j'); apply in_or_app; right; exact Hin).
        reflexivity.
      - apply Hx; [exact Hfx|]. intros j' s Hin. apply (Hs j'). apply in_or_app. left. exact Hin. }
    rewrite (deref_app resolve _ (flat_map flatten items)) by (apply Hgo; exact Hsel).
    rewrite deref_no_refs by (intros t' [<-|[]]; inversion Hkc; assumption).
    reflexivity.
  - cbn [flatten] in *. inversion Hnr as [|t0 l0 Hk Hrest]; subst.
    rewrite deref_cons_noref by exact Hk.
    rewrite (IH (S i) Hrest Hsel). reflexivity.
Qed.

Lemma wf_ref_free_tokens v : wf_value v = true -> ref_free v = true ->
  Forall (fun t => kind t <> KRef) (flatten v).
Proof.
  induction v as [t|ko kc items IH|n v IH] using value_ind2; cbn [wf_value ref_free flatten]; intros Hw Hr.
  - constructor; [|constructor]. apply negb_true_iff in Hr. apply N.eqb_neq. exact Hr.
  - apply andb_true_iff in Hw. destruct Hw as [Hw Hwi].
    apply andb_true_iff in Hw. destruct Hw as [Ho Hc]. apply N.eqb_eq in Hc. subst kc.
    constructor.
    + cbn [kind]. apply N.eqb_neq. apply (open_kind_facts ko Ho).
    + apply Forall_app. split.
      * induction IH as [|x l Hx _ IHl]; cbn [flat_map]; [constructor|].
        cbn [forallb] in *. apply andb_true_iff in Hwi. destruct Hwi as [Hwx Hwl].
        apply andb_true_iff in Hr. destruct Hr as [Hrx Hrl].
        apply Forall_app. split; [apply Hx; assumption | apply IHl; assumption].
      * constructor; [|constructor]. cbn [kind]. apply N.eqb_neq. apply (end_of_facts ko).
  - apply andb_true_iff in Hw. destruct Hw as [_ Hw].
    constructor; [cbn [kind]; apply N.eqb_neq; reflexivity | apply IH; assumption].
Qed.

(* without well-formedness the statement is false: an opening token of kind Ref panics *)
Theorem deref_restores_refuted :
  exists resolve sel i v, ref_free v = true /\
    (forall j s, In (j, s) (selected sel i v) -> resolve (mhash H s) = RStream (flatten s)) /\
    deref resolve (flatten (subst_at H sel i v)) <> (flatten v, ENone).
Proof.
  exists (fun _ => RDecline), [], 0%nat, (Comp KRef 0 []).
  split; [reflexivity|]. split; [intros j s []|]. vm_compute. discriminate.
Qed.

Theorem deref_restores_partial resolve sel i v : wf_value v = true -> ref_free v = true ->
  (forall j s, In (j, s) (selected sel i v) -> resolve (mhash H s) = RStream (flatten s)) ->
  deref resolve (flatten (subst_at H sel i v)) = (flatten v, ENone).
Proof.
  intros Hw Hr Hsel. apply deref_subst; [apply wf_ref_free_tokens; assumption | exact Hsel].
Qed.

(* ------------------------------------------------------------------ *)
(* C09: the Merkle function is injective for an ideal hash             *)
(* ------------------------------------------------------------------ *)

Definition fixed_len (L : nat) := forall x, length (H x) = L.
Definition inj := forall x y, H x = H y -> x = y.

(* what is hashed at the root of a reference-free value *)
Definition preimage (v : value) : bytes :=
  match v with
  | Leaf t => kind t :: hash_payload (val t)
  | Comp ko kc items => ko :: flat_map (mhash H) items ++ H [kc]
  | Named n v => KTypeName :: n ++ mhash H v
  end.

Lemma mhash_preimage v : ref_free v = true -> mhash H v = H (preimage v).
Proof.
  destruct v as [t|ko kc items|n v]; cbn [ref_free mhash preimage]; intros Hr; try reflexivity.
  unfold leaf_hash. apply negb_true_iff in Hr. rewrite Hr. reflexivity.
Qed.

Lemma mhash_len L v : fixed_len L -> ref_free v = true -> length (mhash H v) = L.
Proof. intros HL Hr. rewrite mhash_preimage by exact Hr. apply HL. Qed.

Lemma items_split L : fixed_len L -> (0 < L)%nat ->
  forall items1 items2 tl1 tl2, length tl1 = L -> length tl2 = L ->
  forallb ref_free items1 = true -> forallb ref_free items2 = true ->
  flat_map (mhash H) items1 ++ tl1 = flat_map (mhash H) items2 ++ tl2 ->
  Forall2 (fun a b => mhash H a = mhash H b) items1 items2 /\ tl1 = tl2.
Proof.
  intros HL Hpos. induction items1 as [|x1 r1 IH]; intros [|x2 r2] tl1 tl2 Ht1 Ht2 Hr1 Hr2 He;
    cbn [flat_map forallb app] in *.
  - split; [constructor | exact He].
  - apply andb_true_iff in Hr2. destruct Hr2 as [Hx2 _].
    apply (f_equal (@length N)) in He. rewrite !app_length, (mhash_len L x2 HL Hx2) in He. lia.
  - apply andb_true_iff in Hr1. destruct Hr1 as [Hx1 _].
    apply (f_equal (@length N)) in He. rewrite !app_length, (mhash_len L x1 HL Hx1) in He. lia.
  - apply andb_true_iff in Hr1. destruct Hr1 as [Hx1 Hr1].
    apply andb_true_iff in Hr2. destruct Hr2 as [Hx2 Hr2].
    rewrite <- !app_assoc in He.
    apply app_inv_len_head in He;
      [|rewrite (mhash_len L x1 HL Hx1), (mhash_len L x2 HL Hx2); reflexivity].
    destruct He as [Hx He].
    destruct (IH r2 tl1 tl2 Ht1 Ht2 Hr1 Hr2 He) as [Hf Ht].
    split; [constructor; assumption | exact Ht].
Qed.

Lemma mhash_injective_gen L : inj -> fixed_len L -> (0 < L)%nat ->
  forall v1 v2, wf_value v1 = true -> wf_value v2 = true -> ref_free v1 = true -> ref_free v2 = true ->
  mhash H v1 = mhash H v2 -> flatten v1 = flatten v2.
Proof.
  intros Hinj HL Hpos.
  induction v1 as [t1|ko1 kc1 items1 IH|n1 v1 IH] using value_ind2;
    intros v2 Hw1 Hw2 Hr1 Hr2 Hm;
    rewrite (mhash_preimage _ Hr1), (mhash_preimage _ Hr2) in Hm; apply Hinj in Hm;
    destruct v2 as [t2|ko2 kc2 items2|n2 v2]; cbn [preimage] in Hm;
    cbn [wf_value] in Hw1, Hw2; cbn [ref_free] in Hr1, Hr2.
  - (* leaf, leaf *)
    apply andb_true_iff in Hw1. destruct Hw1 as [_ Hw1].
    apply andb_true_iff in Hw2. destruct Hw2 as [_ Hw2].
    rewrite (leaf_preimage_inj t1 t2 Hw1 Hw2 Hm). reflexivity.
  - (* leaf, compound *)
    exfalso. injection Hm as Hk _.
    apply andb_true_iff in Hw1. destruct Hw1 as [Hl _]. unfold is_leaf_token in Hl.
    apply andb_true_iff in Hl. destruct Hl as [Hl _]. apply andb_true_iff in Hl. destruct Hl as [Hl _].
    apply andb_true_iff in Hw2. destruct Hw2 as [Hw2 _]. apply andb_true_iff in Hw2. destruct Hw2 as [Ho _].
    rewrite Hk, Ho in Hl. discriminate Hl.
  - (* leaf, name *)
    exfalso. injection Hm as Hk _.
    apply andb_true_iff in Hw1. destruct Hw1 as [Hl _]. unfold is_leaf_token in Hl.
    apply andb_true_iff in Hl. destruct Hl as [_ Hl]. rewrite Hk in Hl. discriminate Hl.
  - (* compound, leaf *)
    exfalso. injection Hm as Hk _.
    apply andb_true_iff in Hw2. destruct Hw2 as [Hl _]. unfold is_leaf_token in Hl.
    apply andb_true_iff in Hl. destruct Hl as [Hl _]. apply andb_true_iff in Hl. destruct Hl as [Hl _].
    apply andb_true_iff in Hw1. destruct Hw1 as [Hw1 _]. apply andb_true_iff in Hw1. destruct Hw1 as [Ho _].
    rewrite <- Hk, Ho in Hl. discriminate Hl.
  - (* compound, compound *)
    injection Hm as Hk He. subst ko2.
    apply andb_true_iff in Hw1. destruct Hw1 as [_ Hwi1].
    apply andb_true_iff in Hw2. destruct Hw2 as [_ Hwi2].
    destruct (items_split L HL Hpos items1 items2 (H [kc1]) (H [kc2]) (HL _) (HL _) Hr1 Hr2 He) as [Hf Hc].
    apply Hinj in Hc. injection Hc as Hc. subst kc2.
    cbn [flatten]. f_equal. f_equal.
    clear He. revert IH Hwi1 Hwi2 Hr1 Hr2.
    induction Hf as [|x1 x2 r1 r2 Hx _ IHf]; intros IH Hwi1 Hwi2 Hr1 Hr2; [reflexivity|].
    cbn [flat_map forallb] in *.
    apply andb_true_iff in Hwi1. destruct Hwi1 as [Hwx1 Hwi1].
    apply andb_true_iff in Hwi2. destruct Hwi2 as [Hwx2 Hwi2].
    apply andb_true_iff in Hr1. destruct Hr1 as [Hrx1 Hr1].
    apply andb_true_iff in Hr2. destruct Hr2 as [Hrx2 Hr2].
    inversion IH as [|x0 l0 IHx IHr]; subst.
    rewrite (IHx x2 Hwx1 Hwx2 Hrx1 Hrx2 Hx), (IHf IHr Hwi1 Hwi2 Hr1 Hr2). reflexivity.
  - (* compound, name *)
    exfalso. injection Hm as Hk _.
    apply andb_true_iff in Hw1. destruct Hw1 as [Hw1 _]. apply andb_true_iff in Hw1. destruct Hw1 as [Ho _].
    rewrite Hk in Ho. discriminate Ho.
  - (* name, leaf *)
    exfalso. injection Hm as Hk _.
    apply andb_true_iff in Hw2. destruct Hw2 as [Hl _]. unfold is_leaf_token in Hl.
    apply andb_true_iff in Hl. destruct Hl as [_ Hl]. rewrite <- Hk in Hl. discriminate Hl.
  - (* name, compound *)
    exfalso. injection Hm as Hk _.
    apply andb_true_iff in Hw2. destruct Hw2 as [Hw2 _]. apply andb_true_iff in Hw2. destruct Hw2 as [Ho _].
    rewrite <- Hk in Ho. discriminate Ho.
  - (* name, name *)
    injection Hm as He.
    apply app_inv_len_tail in He;
      [|rewrite (mhash_len L v1 HL Hr1), (mhash_len L v2 HL Hr2); reflexivity].
    destruct He as [Hn He]. subst n2.
    apply andb_true_iff in Hw1. destruct Hw1 as [_ Hw1].
    apply andb_true_iff in Hw2. destruct Hw2 as [_ Hw2].
    cbn [flatten]. rewrite (IH v2 Hw1 Hw2 Hr1 Hr2 He). reflexivity.
Qed.

Theorem mhash_injective L v1 v2 : inj -> fixed_len L -> (0 < L)%nat ->
  wf_value v1 = true -> wf_value v2 = true -> ref_free v1 = true -> ref_free v2 = true ->
  mhash H v1 = mhash H v2 -> flatten v1 = flatten v2.
Proof. intros Hinj HL Hpos. apply (mhash_injective_gen L Hinj HL Hpos). Qed.

End WithH.

(* ------------------------------------------------------------------ *)
(* satisfiability examples                                             *)
(* ------------------------------------------------------------------ *)

(* a toy hash: (length mod 256, byte sum mod 256) *)
Definition toyH (bs : bytes) : bytes :=
  [N.of_nat (length bs) mod 256; fold_right N.add 0 bs mod 256].

Lemma toyH_wf x : wf_bytes (toyH x).
Proof. unfold toyH. constructor; [apply mod256_lt|]. constructor; [apply mod256_lt|constructor]. Qed.

(* indices: 0 name, 1 array, 2 int, 3 string, 4 map, 5 map end, 6 name, 7 bool, 8 array end *)
Definition ex_value : value :=
  Named [1; 2]
    (Comp KArray KArrayEnd
       [Leaf (T KInt (VI WNat 5)); Leaf (T KString (VStr [104; 105]));
        Comp KMap KMapEnd []; Named [7] (Leaf (T KBool (VBool true)))]).

Example ex_sink_hash_is_merkle :
  wf_value ex_value = true /\
  hash_result toyH (flatten ex_value) = inl (mhash toyH ex_value) /\
  mhash toyH ex_value <> [] /\
  snd (hash_stream toyH (flatten ex_value))
    = removelast (snd (hash_stream toyH (flatten ex_value))) ++ [(Some (mhash toyH ex_value), 0%nat)].
Proof. vm_compute. repeat split; try reflexivity. discriminate. Qed.

Example ex_hash_two_values :
  hash_result toyH (flatten ex_value ++ flatten ex_value ++ [T KArrayEnd VNone]) = inl (mhash toyH ex_value).
Proof. vm_compute. reflexivity. Qed.

Example ex_hash_unclosed :
  wf_value (Comp KArray KArrayEnd [ex_value]) = true /\
  hash_result toyH (removelast (flatten (Comp KArray KArrayEnd [ex_value]))) = inr EEnd.
Proof. vm_compute. split; reflexivity. Qed.

Definition ex_resolve (sel : list nat) (h : bytes) : resolution :=
  match find (fun p => bytes_eqb (mhash toyH (snd p)) h) (selected sel 0 ex_value) with
  | Some (_, s) => RStream (flatten s)
  | None => RDecline
  end.

Example ex_subst :
  ref_free ex_value = true /\
  map fst (selected [3; 4]%nat 0 ex_value) = [3; 4]%nat /\
  wf_value (subst_at toyH [3; 4]%nat 0 ex_value) = true /\
  mhash toyH (subst_at toyH [3; 4]%nat 0 ex_value) = mhash toyH ex_value /\
  length (flatten (subst_at toyH [3; 4]%nat 0 ex_value)) = 8%nat /\
  (forall j s, In (j, s) (selected [3; 4]%nat 0 ex_value) ->
     ex_resolve [3; 4]%nat (mhash toyH s) = RStream (flatten s)) /\
  deref (ex_resolve [3; 4]%nat) (flatten (subst_at toyH [3; 4]%nat 0 ex_value)) = (flatten ex_value, ENone).
Proof.
  repeat split; try (vm_compute; reflexivity).
  intros j s Hin. vm_compute in Hin.
  destruct Hin as [E|[E|[]]]; inversion E; subst; vm_compute; reflexivity.
Qed.

Example ex_deref_error :
  deref (fun _ => RFail) ([T KArray VNone] ++ T KRef (VBytes [1; 2]) :: [T KArrayEnd VNone])
  = ([T KArray VNone], EFault).
Proof. vm_compute. reflexivity. Qed.

(* an ideal hash exists: an injective function with outputs of one fixed length
   (a self-delimiting binary code of the byte list, as a single number) *)
Fixpoint encpos (q tail : positive) : positive :=
  match q with
  | xH => xO (xI tail)
  | xO q' => xI (xO (encpos q' tail))
  | xI q' => xI (xI (encpos q' tail))
  end.
Definition encN (a : N) (tail : positive) : positive :=
  match a with N0 => xO (xO tail) | Npos q => encpos q tail end.
Fixpoint enc (l : bytes) : positive :=
  match l with [] => xH | a :: r => encN a (enc r) end.
Definition idealH (x : bytes) : bytes := [Npos (enc x)].

Lemma encpos_inj q : forall q' t t', encpos q t = encpos q' t' -> q = q' /\ t = t'.
Proof.
  induction q as [q IH|q IH|]; intros [q'|q'|] t t' He; cbn [encpos] in He; try discriminate He.
  - injection He as He. destruct (IH q' t t' He) as [-> ->]. split; reflexivity.
  - injection He as He. destruct (IH q' t t' He) as [-> ->]. split; reflexivity.
  - injection He as He. subst. split; reflexivity.
Qed.

Lemma encN_inj a a' t t' : encN a t = encN a' t' -> a = a' /\ t = t'.
Proof.
  destruct a as [|q], a' as [|q']; cbn [encN]; intros He.
  - injection He as He. subst. split; reflexivity.
  - destruct q'; discriminate He.
  - destruct q; discriminate He.
  - destruct (encpos_inj q q' t t' He) as [-> ->]. split; reflexivity.
Qed.

Lemma enc_inj l : forall l', enc l = enc l' -> l = l'.
Proof.
  induction l as [|a r IH]; intros [|a' r'] He; cbn [enc] in He.
  - reflexivity.
  - destruct a' as [|[q|q|]]; discriminate He.
  - destruct a as [|[q|q|]]; discriminate He.
  - destruct (encN_inj a a' _ _ He) as [-> Hr]. rewrite (IH r' Hr). reflexivity.
Qed.

Example ex_ideal_hash : inj idealH /\ fixed_len idealH 1 /\ (0 < 1)%nat.
Proof.
  split; [|split; [intros x; reflexivity | lia]].
  intros x y He. unfold idealH in He. injection He as He. apply enc_inj. exact He.
Qed.

Example ex_mhash_injective v :
  wf_value v = true -> ref_free v = true -> mhash idealH v = mhash idealH ex_value ->
  flatten v = flatten ex_value.
Proof.
  intros Hw Hr Hm. destruct ex_ideal_hash as (Hi & Hl & Hp).
  apply (mhash_injective idealH 1 v ex_value Hi Hl Hp Hw); [reflexivity | exact Hr | reflexivity | exact Hm].
Qed.

Print Assumptions sink_hash_is_merkle.
Print Assumptions sink_events_last.
Print Assumptions sink_events_last_strong.
Print Assumptions hash_two_values.
Print Assumptions hash_two_values_stream.
Print Assumptions hash_empty.
Print Assumptions hash_unclosed.
Print Assumptions mhash_injective.
Print Assumptions subst_hash.
Print Assumptions subst_wf.
Print Assumptions subst_then_hash.
Print Assumptions deref_restores_partial.
Print Assumptions deref_restores_refuted.
Print Assumptions deref_declined_partial.
Print Assumptions deref_declined_refuted.
Print Assumptions deref_no_refs.
Print Assumptions deref_error.
Print Assumptions ex_ideal_hash.
Print Assumptions ex_mhash_injective.
