(* Proofs/HashP.v — C09: the streaming hash sink computes the Merkle function (for every
   hash function H); the Merkle function is injective for an ideal H; C10: replacing
   sub-values by references keeps the hash, and Deref restores the stream. *)
From Coq Require Import List NArith ZArith Bool Lia ZifyBool ZifyNat ZifyN.
From SbModel Require Import Base.Bytes Base.Tokens Base.Values Model.Codec Model.Hash Model.Tree Spec.TreeSpec.
From SbModel Require Import Proofs.BytesP Proofs.CodecP.
Import ListNotations.
Local Open Scope N_scope.

(* ------------------------------------------------------------------ *)
(* kind tables                                                         *)
(* ------------------------------------------------------------------ *)

Ltac split_kinds :=
  repeat match goal with
  | Hk : (_ || _) = true |- _ => apply orb_true_iff in Hk; destruct Hk as [Hk|Hk]
  | Hk : (_ =? _) = true |- _ => apply N.eqb_eq in Hk; subst
  | Hk : false = true |- _ => discriminate Hk
  end.

Lemma open_kind_facts k : is_open_kind k = true ->
  (k =? KRef) = false /\ is_hash_leaf_kind k = false /\ is_end_kind k = false /\ (k =? KTypeName) = false.
Proof. unfold is_open_kind. intros Hk. split_kinds; vm_compute; auto. Qed.

Lemma end_of_facts k :
  (end_of k =? KRef) = false /\ is_hash_leaf_kind (end_of k) = true /\ is_end_kind (end_of k) = true.
Proof.
  unfold end_of.
  destruct (k =? KArray); [vm_compute; auto|].
  destruct (k =? KObject); [vm_compute; auto|].
  destruct (k =? KMap); vm_compute; auto.
Qed.

(* a well-formed leaf token is a reference carrying bytes, or one of the kinds HashFunc hashes directly *)
Lemma wf_leaf_kind t : is_leaf_token t = true -> wf_token t = true ->
  is_end_kind (kind t) = false /\
  (((kind t =? KRef) = true /\ exists h, val t = VBytes h) \/
   ((kind t =? KRef) = false /\ is_hash_leaf_kind (kind t) = true)).
Proof.
  destruct t as [k v]. unfold is_leaf_token, wf_token. cbn [kind val].
  intros Hl Hw.
  apply andb_true_iff in Hw. destruct Hw as [Hs _].
  apply andb_true_iff in Hl. destruct Hl as [Hl Hn].
  apply andb_true_iff in Hl. destruct Hl as [Ho He].
  apply negb_true_iff in Ho. apply negb_true_iff in He. apply negb_true_iff in Hn.
  split; [exact He|].
  destruct v as [|b|w z|w n|n|b|b|s|s];
    try (destruct w); cbn [kind_shape existsb] in Hs; split_kinds;
    try (vm_compute in Ho; discriminate Ho);
    try (vm_compute in He; discriminate He);
    try (vm_compute in Hn; discriminate Hn);
    try (right; vm_compute; auto; fail).
  left. split; [reflexivity|]. exists s. reflexivity.
Qed.

Section WithH.
Variable H : bytes -> bytes.

(* ------------------------------------------------------------------ *)
(* the machine on a stream of option tokens, events dropped            *)
(* ------------------------------------------------------------------ *)

Fixpoint hrunO (s : hstate) (i : nat) (ts : list (option token)) : hstate :=
  match ts with
  | [] => s
  | t :: r => hrunO (fst (hstep H s i t)) (S i) r
  end.

Lemma hrunO_cons s i t r : hrunO s i (t :: r) = hrunO (fst (hstep H s i t)) (S i) r.
Proof. reflexivity. Qed.

Lemma hrunO_done sum i ts : hrunO (HDone sum) i ts = HDone sum.
Proof. revert i. induction ts as [|t r IH]; intros i; cbn [hrunO hstep fst]; [reflexivity | apply IH]. Qed.

Lemma hrunO_err e i ts : hrunO (HErr e) i ts = HErr e.
Proof. revert i. induction ts as [|t r IH]; intros i; cbn [hrunO hstep fst]; [reflexivity | apply IH]. Qed.

Lemma hrun_hrunO s i ts : fst (hrun H s i ts) = hrunO s i (map Some ts).
Proof.
  revert s i. induction ts as [|t r IH]; intros s i; cbn [hrun map hrunO].
  - reflexivity.
  - destruct (hstep H s i (Some t)) as [s1 e1] eqn:E1. cbn [fst].
    specialize (IH s1 (S i)). destruct (hrun H s1 (S i) r) as [s2 e2]. exact IH.
Qed.

Lemma hrunO_app s i a b : hrunO s i (a ++ b) = hrunO (hrunO s i a) (i + length a) b.
Proof.
  revert s i. induction a as [|t a IH]; intros s i; cbn [app hrunO length].
  - rewrite Nat.add_0_r. reflexivity.
  - rewrite IH. replace (S i + length a)%nat with (i + S (length a))%nat by lia. reflexivity.
Qed.

Lemma hash_stream_hrunO ts :
  fst (hash_stream H ts) = hrunO (HAwait []) 0 (map Some ts ++ [None]).
Proof.
  unfold hash_stream. rewrite hrunO_app. rewrite <- hrun_hrunO.
  rewrite map_length. cbn [Nat.add].
  destruct (hrun H (HAwait []) 0 ts) as [s ev]. cbn [fst].
  destruct s as [ks|st idx ks|sub ks|sum|e]; cbn [hrunO].
  - destruct (hstep H (HAwait ks) (length ts) None) as [s' ev']. reflexivity.
  - destruct (hstep H (HIn st idx ks) (length ts) None) as [s' ev']. reflexivity.
  - destruct (hstep H (HPend sub ks) (length ts) None) as [s' ev']. reflexivity.
  - reflexivity.
  - reflexivity.
Qed.

(* ------------------------------------------------------------------ *)
(* single steps                                                        *)
(* ------------------------------------------------------------------ *)

Lemma unwind_close f sub st idx ks i t :
  fst (unwind H (S f) sub (FClose st idx :: ks) i t) = fst (unwind H f (H (st ++ sub)) ks i t).
Proof. cbn [unwind]. destruct (unwind H f (H (st ++ sub)) ks i t) as [s ev]. reflexivity. Qed.

Lemma unwind_name f sub st idx ks i t :
  fst (unwind H (S f) sub (FName st idx :: ks) i t) = fst (unwind H f (H (st ++ sub)) ks i t).
Proof. cbn [unwind]. destruct (unwind H f (H (st ++ sub)) ks i t) as [s ev]. reflexivity. Qed.

Lemma step_through_close sub st idx ks i t :
  fst (hstep H (HPend sub (FClose st idx :: ks)) i t) = fst (hstep H (deliver (H (st ++ sub)) ks) i t).
Proof.
  cbn [hstep length]. rewrite unwind_close.
  destruct ks as [|fr ks']; cbn [deliver hstep unwind]; reflexivity.
Qed.

Lemma step_through_name sub st idx ks i t :
  fst (hstep H (HPend sub (FName st idx :: ks)) i t) = fst (hstep H (deliver (H (st ++ sub)) ks) i t).
Proof.
  cbn [hstep length]. rewrite unwind_name.
  destruct ks as [|fr ks']; cbn [deliver hstep unwind]; reflexivity.
Qed.

(* a finished item inside a compound: the pending hash is absorbed by the next step *)
Lemma step_pend_item sub st idx ks i t :
  hstep H (HPend sub (FItem st idx :: ks)) i t = hstep H (HIn (st ++ sub) idx ks) i t.
Proof. cbn [hstep length unwind]. destruct t as [t|]; reflexivity. Qed.

Lemma step_in_item st idx ks i t : is_end_kind (kind t) = false ->
  hstep H (HIn st idx ks) i (Some t) = hstep H (HAwait (FItem st idx :: ks)) i (Some t).
Proof. intros He. cbn [hstep]. unfold hc. rewrite He. reflexivity. Qed.

Lemma hf_leaf ks i t : is_leaf_token t = true -> wf_token t = true ->
  fst (hf H ks i t) = deliver (leaf_hash H t) ks.
Proof.
  intros Hl Hw. destruct (wf_leaf_kind t Hl Hw) as [_ [[Hr [h Hv]]|[Hr Hk]]];
    unfold hf, leaf_hash; rewrite Hr.
  - rewrite Hv. reflexivity.
  - rewrite Hk. reflexivity.
Qed.

Lemma hf_open ks i ko : is_open_kind ko = true ->
  hf H ks i (T ko VNone) = (HIn [ko] i ks, [(None, i)]).
Proof.
  intros Ho. destruct (open_kind_facts ko Ho) as (Hr & Hk & _ & _).
  unfold hf. cbn [kind val]. rewrite Hr, Hk, Ho. reflexivity.
Qed.

Lemma hf_name ks i n :
  hf H ks i (T KTypeName (VStr n)) = (HAwait (FName (KTypeName :: n) i :: ks), [(None, i)]).
Proof. reflexivity. Qed.

Lemma hc_end st idx ks i ko :
  hc H st idx ks i (T (end_of ko) VNone)
  = (HPend (H [end_of ko]) (FClose st idx :: ks), [(None, i); (Some (H [end_of ko]), i)]).
Proof.
  destruct (end_of_facts ko) as (Hr & Hk & He).
  unfold hc, hf. cbn [kind val]. rewrite He, Hr, Hk. reflexivity.
Qed.

(* the first token of a well-formed value is not an end marker *)
Lemma flatten_head v : wf_value v = true ->
  exists t r, flatten v = t :: r /\ is_end_kind (kind t) = false.
Proof.
  destruct v as [t|ko kc items|n v]; cbn [flatten wf_value]; intros Hw.
  - apply andb_true_iff in Hw. destruct Hw as [Hl Hw].
    exists t, []. split; [reflexivity|]. apply (wf_leaf_kind t Hl Hw).
  - apply andb_true_iff in Hw. destruct Hw as [Hw _].
    apply andb_true_iff in Hw. destruct Hw as [Ho _].
    eexists. eexists. split; [reflexivity|]. cbn [kind].
    apply (open_kind_facts ko Ho).
  - eexists. eexists. split; [reflexivity|]. reflexivity.
Qed.

(* ------------------------------------------------------------------ *)
(* adequacy up to the next step                                        *)
(* ------------------------------------------------------------------ *)

Definition adequate (v : value) : Prop :=
  wf_value v = true ->
  forall ks i fut, fut <> [] ->
    hrunO (HAwait ks) i (map Some (flatten v) ++ fut)
    = hrunO (deliver (mhash H v) ks) (i + length (flatten v)) fut.

Lemma item_from_await v : adequate v -> wf_value v = true ->
  forall st idx ks i fut, fut <> [] ->
    hrunO (HIn st idx ks) i (map Some (flatten v) ++ fut)
    = hrunO (HPend (mhash H v) (FItem st idx :: ks)) (i + length (flatten v)) fut.
Proof.
  intros Hv Hw st idx ks i fut Hf.
  rewrite <- (Hv Hw (FItem st idx :: ks) i fut Hf).
  destruct (flatten_head v Hw) as (t & r & -> & He).
  cbn [map app]. rewrite !hrunO_cons. rewrite (step_in_item st idx ks i t He). reflexivity.
Qed.

Lemma items_run items : Forall adequate items -> forallb wf_value items = true ->
  forall st idx ks i fut, fut <> [] ->
    hrunO (HIn st idx ks) i (map Some (flat_map flatten items) ++ fut)
    = hrunO (HIn (st ++ flat_map (mhash H) items) idx ks) (i + length (flat_map flatten items)) fut.
Proof.
  induction 1 as [|v items Hv _ IH]; intros Hw st idx ks i fut Hf.
  - cbn [flat_map map app length]. rewrite app_nil_r, Nat.add_0_r. reflexivity.
  - cbn [forallb] in Hw. apply andb_true_iff in Hw. destruct Hw as [Hwv Hwi].
    cbn [flat_map]. rewrite map_app, <- app_assoc.
    assert (Hf' : map Some (flat_map flatten items) ++ fut <> []).
    { destruct (map Some (flat_map flatten items)); [exact Hf | discriminate]. }
    rewrite (item_from_await v Hv Hwv st idx ks i _ Hf').
    destruct (map Some (flat_map flatten items) ++ fut) as [|t more] eqn:Em; [congruence|].
    rewrite hrunO_cons, step_pend_item, <- hrunO_cons, <- Em.
    rewrite (IH Hwi _ idx ks _ fut Hf).
    rewrite app_length, <- app_assoc, Nat.add_assoc. reflexivity.
Qed.

Theorem all_adequate : forall v, adequate v.
Proof.
  induction v as [t|ko kc items IH|n v IH] using value_ind2; intros Hw ks i fut Hf.
  - cbn [wf_value] in Hw. apply andb_true_iff in Hw. destruct Hw as [Hl Hw].
    cbn [flatten map app length mhash]. rewrite hrunO_cons. cbn [hstep].
    rewrite (hf_leaf ks i t Hl Hw). rewrite Nat.add_1_r. reflexivity.
  - cbn [wf_value] in Hw. apply andb_true_iff in Hw. destruct Hw as [Hw Hwi].
    apply andb_true_iff in Hw. destruct Hw as [Ho Hc]. apply N.eqb_eq in Hc. subst kc.
    cbn [flatten map]. rewrite map_app. cbn [map app]. rewrite <- app_assoc. cbn [app].
    rewrite hrunO_cons. cbn [hstep]. rewrite (hf_open ks i ko Ho). cbn [fst].
    rewrite (items_run items IH Hwi) by discriminate.
    rewrite hrunO_cons. cbn [hstep]. rewrite hc_end. cbn [fst].
    destruct fut as [|t fut']; [congruence|].
    rewrite hrunO_cons, step_through_close, <- hrunO_cons.
    cbn [mhash app length]. rewrite app_length. cbn [length].
    replace (S (S i + length (flat_map flatten items)))
      with (i + S (length (flat_map flatten items) + 1))%nat by lia.
    reflexivity.
  - cbn [wf_value] in Hw. apply andb_true_iff in Hw. destruct Hw as [_ Hw].
    cbn [flatten map app].
    rewrite hrunO_cons. cbn [hstep]. rewrite hf_name. cbn [fst].
    rewrite (IH Hw) by exact Hf.
    cbn [deliver].
    destruct fut as [|t fut']; [congruence|].
    rewrite hrunO_cons, step_through_name, <- hrunO_cons.
    cbn [mhash app length].
    replace (S i + length (flatten v))%nat with (i + S (length (flatten v)))%nat by lia.
    reflexivity.
Qed.

(* ------------------------------------------------------------------ *)
(* C09: the sink computes the Merkle function                          *)
(* ------------------------------------------------------------------ *)

Lemma hash_result_hrunO ts :
  hash_result H ts = match hrunO (HAwait []) 0 (map Some ts ++ [None]) with
                     | HDone sum => inl sum
                     | HErr e => inr e
                     | _ => inr EOther
                     end.
Proof. unfold hash_result. rewrite hash_stream_hrunO. reflexivity. Qed.

(* the sink stops after the first complete value, whatever follows *)
Theorem hash_two_values v more : wf_value v = true ->
  hash_result H (flatten v ++ more) = inl (mhash H v).
Proof.
  intros Hw. rewrite hash_result_hrunO, map_app, <- app_assoc.
  rewrite (all_adequate v Hw) by (destruct (map Some more); discriminate).
  cbn [deliver]. rewrite hrunO_done. reflexivity.
Qed.

Theorem sink_hash_is_merkle v : wf_value v = true ->
  hash_result H (flatten v) = inl (mhash H v).
Proof.
  intros Hw. rewrite <- (app_nil_r (flatten v)). apply hash_two_values. exact Hw.
Qed.

Theorem hash_empty : hash_result H [] = inr EEnd.
Proof. reflexivity. Qed.

End WithH.

Print Assumptions sink_hash_is_merkle.
