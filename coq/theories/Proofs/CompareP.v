(* Proofs/CompareP.v — Compare is the documented order (C06); Compare, CompareBytes and
   Compare over the two segmenting decoders agree (C07). *)
From Coq Require Import List NArith ZArith Bool Lia ZifyBool ZifyNat ZifyN.
From SbModel Require Import Base.Bytes Base.Tokens Base.Floats Model.Codec Model.Compare.
From SbModel Require Import Spec.LexOrder Spec.DecodeGrammar.
From SbModel Require Import Proofs.BytesP Proofs.CodecP.
Import ListNotations.
Local Open Scope N_scope.

(* ------------------------------------------------------------------ *)
(* bytes_cmp                                                           *)
(* ------------------------------------------------------------------ *)

Lemma bytes_cmp_refl x : bytes_cmp x x = Eq.
Proof.
  induction x as [|a x IH]; cbn [bytes_cmp]; [reflexivity|].
  rewrite N.compare_refl. exact IH.
Qed.

Lemma bytes_cmp_eq x : forall y, bytes_cmp x y = Eq -> x = y.
Proof.
  induction x as [|a x IH]; intros [|b y]; cbn [bytes_cmp]; try discriminate; [reflexivity|].
  destruct (a ?= b) eqn:E; try discriminate.
  intros H. apply N.compare_eq in E. subst b. f_equal. apply IH. exact H.
Qed.

Lemma bytes_cmp_antisym x : forall y, bytes_cmp y x = CompOpp (bytes_cmp x y).
Proof.
  induction x as [|a x IH]; intros [|b y]; cbn [bytes_cmp CompOpp]; try reflexivity.
  rewrite (N.compare_antisym a b).
  destruct (a ?= b); cbn [CompOpp]; [apply IH | reflexivity | reflexivity].
Qed.

Lemma bytes_cmp_lt_trans x : forall y z,
  bytes_cmp x y = Lt -> bytes_cmp y z = Lt -> bytes_cmp x z = Lt.
Proof.
  induction x as [|a x IH]; intros [|b y] [|c z]; cbn [bytes_cmp]; try discriminate; try reflexivity.
  destruct (N.compare_spec a b) as [Hab|Hab|Hab]; try discriminate;
  destruct (N.compare_spec b c) as [Hbc|Hbc|Hbc]; try discriminate;
  destruct (N.compare_spec a c) as [Hac|Hac|Hac]; try lia; try reflexivity.
  apply IH.
Qed.

Lemma bytes_eqb_cmp x : forall y,
  bytes_eqb x y = match bytes_cmp x y with Eq => true | _ => false end.
Proof.
  induction x as [|a x IH]; intros [|b y]; cbn [bytes_eqb bytes_cmp]; try reflexivity.
  destruct (N.compare_spec a b) as [Hab|Hab|Hab].
  - assert (E : (a =? b) = true) by lia. rewrite E. cbn [andb]. apply IH.
  - assert (E : (a =? b) = false) by lia. rewrite E. reflexivity.
  - assert (E : (a =? b) = false) by lia. rewrite E. reflexivity.
Qed.

(* cutting both operands at the same position *)
Lemma bytes_cmp_firstn_skipn (n : nat) : forall x y,
  bytes_cmp x y = match bytes_cmp (firstn n x) (firstn n y) with
                  | Eq => bytes_cmp (skipn n x) (skipn n y)
                  | c => c
                  end.
Proof.
  induction n as [|n IH]; intros x y.
  - reflexivity.
  - destruct x as [|a x], y as [|b y]; cbn [firstn skipn bytes_cmp]; try reflexivity.
    destruct (a ?= b); try reflexivity. apply IH.
Qed.

(* ------------------------------------------------------------------ *)
(* kinds and value shapes of well-formed tokens                        *)
(* ------------------------------------------------------------------ *)

Definition vctor (v : tval) : N :=
  match v with
  | VNone => 0 | VBool _ => 1 | VI _ _ => 2 | VU _ _ => 3 | VPtr _ => 4
  | VF32 _ => 5 | VF64 _ => 6 | VStr _ => 7 | VBytes _ => 8
  end.
Definition vwidth (v : tval) : width :=
  match v with VI w _ | VU w _ => w | _ => WNat end.

Definition vkinds (v : tval) : list N :=
  match v with
  | VNone => [KMin; KArrayEnd; KObjectEnd; KMapEnd; KTupleEnd; KNil; KNaN;
              KArray; KObject; KMap; KTuple; KMax]
  | VBool _ => [KBool]
  | VI w _ => [ikind w]
  | VU w _ => [ukind w]
  | VPtr _ => [KPointer]
  | VF32 _ => [KFloat32]
  | VF64 _ => [KFloat64]
  | VStr _ => [KString; KTypeName; KLiteral]
  | VBytes _ => [KBytes; KRef]
  end.

Lemma shape_kinds k v : kind_shape k v = true -> In k (vkinds v).
Proof.
  destruct v as [|b|w z|w n|n|n|n|s|s]; cbn [vkinds]; intros H.
  - apply existsb_eqb_In. exact H.
  - cbn [kind_shape] in H. apply N.eqb_eq in H. left. auto.
  - apply shape_VI in H. left. auto.
  - apply shape_VU in H. left. auto.
  - cbn [kind_shape] in H. apply N.eqb_eq in H. left. auto.
  - cbn [kind_shape] in H. apply N.eqb_eq in H. left. auto.
  - cbn [kind_shape] in H. apply N.eqb_eq in H. left. auto.
  - apply (str_kind_In k). exact H.
  - apply (bytes_kind_In k). exact H.
Qed.

(* the class (constructor, width) a kind prescribes *)
Definition kcls (k : N) : N * width :=
  if is_valueless_kind k then (0, WNat)
  else if k =? KBool then (1, WNat)
  else if k =? KInt then (2, WNat) else if k =? KInt8 then (2, W8)
  else if k =? KInt16 then (2, W16) else if k =? KInt32 then (2, W32)
  else if k =? KInt64 then (2, W64)
  else if k =? KUint then (3, WNat) else if k =? KUint8 then (3, W8)
  else if k =? KUint16 then (3, W16) else if k =? KUint32 then (3, W32)
  else if k =? KUint64 then (3, W64)
  else if k =? KPointer then (4, WNat)
  else if k =? KFloat32 then (5, WNat)
  else if k =? KFloat64 then (6, WNat)
  else if is_str_kind k then (7, WNat)
  else if is_bytes_kind k then (8, WNat)
  else (9, WNat).

(* every kind a well-formed token can carry: in 1..255, and none of the segment markers *)
Definition kind_ok (k : N) : bool :=
  (1 <=? k) && (k <=? 255) && negb (k =? KStringEnd) && negb (k =? KStringBegin)
  && negb (k =? KBytesEnd) && negb (k =? KBytesBegin).

Ltac kinds_in H :=
  cbn [In] in H;
  repeat (destruct H as [H|H]; [subst; vm_compute; reflexivity|]);
  try contradiction.

Lemma shape_cls k v : kind_shape k v = true -> kcls k = (vctor v, vwidth v).
Proof.
  intros H. apply shape_kinds in H.
  destruct v as [|b|w z|w n|n|n|n|s|s]; cbn [vkinds vctor vwidth] in *;
    try (destruct w); kinds_in H.
Qed.

Lemma shape_kind_ok k v : kind_shape k v = true -> kind_ok k = true.
Proof.
  intros H. apply shape_kinds in H.
  destruct v as [|b|w z|w n|n|n|n|s|s]; cbn [vkinds] in *;
    try (destruct w); kinds_in H.
Qed.

Lemma wf_cmp_token t : wf_cmp t = true -> wf_token t = true.
Proof. unfold wf_cmp. intros H. apply andb_true_iff in H. tauto. Qed.

Lemma wf_cmp_nan t : wf_cmp t = true -> not_nan_payload (val t) = true.
Proof. unfold wf_cmp. intros H. apply andb_true_iff in H. tauto. Qed.

Lemma wf_token_shape t : wf_token t = true -> kind_shape (kind t) (val t) = true.
Proof. unfold wf_token. intros H. apply andb_true_iff in H. tauto. Qed.

Lemma wf_token_val t : wf_token t = true -> wf_val (val t) = true.
Proof. unfold wf_token. intros H. apply andb_true_iff in H. tauto. Qed.

Lemma wf_same_kind s t : wf_token s = true -> wf_token t = true -> kind s = kind t ->
  vctor (val s) = vctor (val t) /\ vwidth (val s) = vwidth (val t).
Proof.
  intros Hs Ht Hk.
  apply wf_token_shape, shape_cls in Hs. apply wf_token_shape, shape_cls in Ht.
  rewrite Hk in Hs. rewrite Hs in Ht. inversion Ht. split; reflexivity.
Qed.

Lemma width_eqb_refl w : width_eqb w w = true.
Proof. destruct w; reflexivity. Qed.

(* ------------------------------------------------------------------ *)
(* C06: Compare computes the documented order                          *)
(* ------------------------------------------------------------------ *)

Lemma cmp_val_ord v1 v2 :
  vctor v1 = vctor v2 -> vwidth v1 = vwidth v2 ->
  not_nan_payload v1 = true -> not_nan_payload v2 = true ->
  cmp_val v1 v2 = Some (val_ord v1 v2).
Proof.
  destruct v1 as [|b1|w1 z1|w1 n1|n1|n1|n1|s1|s1], v2 as [|b2|w2 z2|w2 n2|n2|n2|n2|s2|s2];
    cbn [vctor]; try discriminate; intros _ Hw N1 N2; cbn [vwidth] in Hw;
    cbn [cmp_val iface_eq val_ord not_nan_payload] in *.
  - reflexivity.
  - destruct b1, b2; reflexivity.
  - subst w2. rewrite width_eqb_refl. cbn [andb]. unfold lt_gt.
    destruct (Z.compare_spec z1 z2) as [H|H|H].
    + assert (E : (z1 =? z2)%Z = true) by lia. rewrite E. reflexivity.
    + assert (E : (z1 =? z2)%Z = false) by lia. rewrite E.
      assert (E' : (z1 <? z2)%Z = true) by lia. rewrite E'. reflexivity.
    + assert (E : (z1 =? z2)%Z = false) by lia. rewrite E.
      assert (E' : (z1 <? z2)%Z = false) by lia. rewrite E'. reflexivity.
  - subst w2. rewrite width_eqb_refl. cbn [andb]. unfold lt_gt.
    destruct (N.compare_spec n1 n2) as [H|H|H].
    + assert (E : (n1 =? n2) = true) by lia. rewrite E. reflexivity.
    + assert (E : (n1 =? n2) = false) by lia. rewrite E.
      assert (E' : (n1 <? n2) = true) by lia. rewrite E'. reflexivity.
    + assert (E : (n1 =? n2) = false) by lia. rewrite E.
      assert (E' : (n1 <? n2) = false) by lia. rewrite E'. reflexivity.
  - unfold lt_gt.
    destruct (N.compare_spec n1 n2) as [H|H|H].
    + assert (E : (n1 =? n2) = true) by lia. rewrite E. reflexivity.
    + assert (E : (n1 =? n2) = false) by lia. rewrite E.
      assert (E' : (n1 <? n2) = true) by lia. rewrite E'. reflexivity.
    + assert (E : (n1 =? n2) = false) by lia. rewrite E.
      assert (E' : (n1 <? n2) = false) by lia. rewrite E'. reflexivity.
  - unfold f32_eq, f32_lt, lt_gt. rewrite N1, N2. cbn [andb].
    destruct (Z.compare_spec (f32_key n1) (f32_key n2)) as [H|H|H].
    + assert (E : (f32_key n1 =? f32_key n2)%Z = true) by lia. rewrite E. reflexivity.
    + assert (E : (f32_key n1 =? f32_key n2)%Z = false) by lia. rewrite E.
      assert (E' : (f32_key n1 <? f32_key n2)%Z = true) by lia. rewrite E'. reflexivity.
    + assert (E : (f32_key n1 =? f32_key n2)%Z = false) by lia. rewrite E.
      assert (E' : (f32_key n1 <? f32_key n2)%Z = false) by lia. rewrite E'. reflexivity.
  - unfold f64_eq, f64_lt, lt_gt. rewrite N1, N2. cbn [andb].
    destruct (Z.compare_spec (f64_key n1) (f64_key n2)) as [H|H|H].
    + assert (E : (f64_key n1 =? f64_key n2)%Z = true) by lia. rewrite E. reflexivity.
    + assert (E : (f64_key n1 =? f64_key n2)%Z = false) by lia. rewrite E.
      assert (E' : (f64_key n1 <? f64_key n2)%Z = true) by lia. rewrite E'. reflexivity.
    + assert (E : (f64_key n1 =? f64_key n2)%Z = false) by lia. rewrite E.
      assert (E' : (f64_key n1 <? f64_key n2)%Z = false) by lia. rewrite E'. reflexivity.
  - rewrite bytes_eqb_cmp. unfold lt_gt. destruct (bytes_cmp s1 s2); reflexivity.
  - reflexivity.
Qed.

(* one loop iteration of Compare on well-formed tokens *)
Lemma cmp_tokens_cons x y a b : wf_cmp x = true -> wf_cmp y = true ->
  cmp_tokens (x :: a) (y :: b) = match tok_ord x y with Eq => cmp_tokens a b | c => Some c end.
Proof.
  intros Hx Hy. cbn [cmp_tokens]. unfold tok_ord.
  destruct (N.compare_spec (kind x) (kind y)) as [H|H|H].
  - assert (E : (kind x <? kind y) = false) by lia. rewrite E.
    assert (E' : (kind y <? kind x) = false) by lia. rewrite E'.
    destruct (wf_same_kind x y (wf_cmp_token x Hx) (wf_cmp_token y Hy) H) as [Hc Hw].
    rewrite (cmp_val_ord _ _ Hc Hw (wf_cmp_nan x Hx) (wf_cmp_nan y Hy)).
    destruct (val_ord (val x) (val y)); reflexivity.
  - assert (E : (kind x <? kind y) = true) by lia. rewrite E. reflexivity.
  - assert (E : (kind x <? kind y) = false) by lia. rewrite E.
    assert (E' : (kind y <? kind x) = true) by lia. rewrite E'. reflexivity.
Qed.

Definition wf_cmps (ts : list token) : Prop := Forall (fun t => wf_cmp t = true) ts.

Theorem cmp_is_lex a b :
  Forall (fun t => wf_cmp t = true) a -> Forall (fun t => wf_cmp t = true) b ->
  cmp_tokens a b = Some (lex a b).
Proof.
  intros Ha. revert b. induction Ha as [|x a Hx Ha IH]; intros b Hb.
  - destruct b; reflexivity.
  - destruct Hb as [|y b Hy Hb]; [reflexivity|].
    rewrite (cmp_tokens_cons x y a b Hx Hy). cbn [lex].
    destruct (tok_ord x y); try reflexivity. apply IH. exact Hb.
Qed.

Example cmp_is_lex_ex :
  let a := [T KArray VNone; T KInt8 (VI W8 (-3)); T KString (VStr [104; 105])] in
  let b := [T KArray VNone; T KInt8 (VI W8 (-3)); T KString (VStr [104; 105; 33])] in
  wf_cmps a /\ wf_cmps b /\ cmp_tokens a b = Some Lt.
Proof. repeat split; repeat constructor. Qed.

(* ------------------------------------------------------------------ *)
(* C06: the documented order is a total preorder on the domain         *)
(* ------------------------------------------------------------------ *)

Lemma val_ord_refl v : val_ord v v = Eq.
Proof.
  destruct v as [|b|w z|w n|n|n|n|s|s]; cbn [val_ord]; try reflexivity.
  - destruct b; reflexivity.
  - apply Z.compare_refl.
  - apply N.compare_refl.
  - apply N.compare_refl.
  - apply Z.compare_refl.
  - apply Z.compare_refl.
  - apply bytes_cmp_refl.
  - apply bytes_cmp_refl.
Qed.

Lemma tok_ord_refl t : tok_ord t t = Eq.
Proof. unfold tok_ord. rewrite N.compare_refl. apply val_ord_refl. Qed.

Theorem lex_refl a : lex a a = Eq.
Proof.
  induction a as [|x a IH]; cbn [lex]; [reflexivity|].
  rewrite tok_ord_refl. exact IH.
Qed.

Lemma val_ord_antisym v1 v2 : val_ord v2 v1 = CompOpp (val_ord v1 v2).
Proof.
  destruct v1 as [|b1|w1 z1|w1 n1|n1|n1|n1|s1|s1], v2 as [|b2|w2 z2|w2 n2|n2|n2|n2|s2|s2];
    cbn [val_ord CompOpp]; try reflexivity.
  - destruct b1, b2; reflexivity.
  - apply Z.compare_antisym.
  - apply N.compare_antisym.
  - apply N.compare_antisym.
  - apply Z.compare_antisym.
  - apply Z.compare_antisym.
  - apply bytes_cmp_antisym.
  - apply bytes_cmp_antisym.
Qed.

Lemma tok_ord_antisym s t : tok_ord t s = CompOpp (tok_ord s t).
Proof.
  unfold tok_ord. rewrite (N.compare_antisym (kind s) (kind t)).
  destruct (kind s ?= kind t); cbn [CompOpp]; try reflexivity.
  apply val_ord_antisym.
Qed.

Theorem lex_antisym a b : lex b a = CompOpp (lex a b).
Proof.
  revert b. induction a as [|x a IH]; intros [|y b]; cbn [lex CompOpp]; try reflexivity.
  rewrite (tok_ord_antisym x y).
  destruct (tok_ord x y); cbn [CompOpp]; try reflexivity. apply IH.
Qed.

(* a comparison key: on well-formed tokens tok_ord is the lexicographic order on
   (kind, numeric key, byte key) *)
Definition vkeyZ (v : tval) : Z :=
  match v with
  | VBool b => if b then 1%Z else 0%Z
  | VI _ z => z
  | VU _ n | VPtr n => Z.of_N n
  | VF32 b => f32_key b
  | VF64 b => f64_key b
  | _ => 0%Z
  end.
Definition vkeyB (v : tval) : bytes :=
  match v with VStr s | VBytes s => s | _ => [] end.

Definition vk_cmp (v1 v2 : tval) : comparison :=
  match (vkeyZ v1 ?= vkeyZ v2)%Z with Eq => bytes_cmp (vkeyB v1) (vkeyB v2) | c => c end.
Definition tkey_cmp (s t : token) : comparison :=
  match kind s ?= kind t with Eq => vk_cmp (val s) (val t) | c => c end.

Lemma val_ord_key v1 v2 : vctor v1 = vctor v2 -> val_ord v1 v2 = vk_cmp v1 v2.
Proof.
  destruct v1 as [|b1|w1 z1|w1 n1|n1|n1|n1|s1|s1], v2 as [|b2|w2 z2|w2 n2|n2|n2|n2|s2|s2];
    cbn [vctor]; try discriminate; intros _; unfold vk_cmp; cbn [val_ord vkeyZ vkeyB bytes_cmp].
  - reflexivity.
  - destruct b1, b2; reflexivity.
  - destruct (z1 ?= z2)%Z; reflexivity.
  - rewrite N2Z.inj_compare. destruct (n1 ?= n2); reflexivity.
  - rewrite N2Z.inj_compare. destruct (n1 ?= n2); reflexivity.
  - destruct (f32_key n1 ?= f32_key n2)%Z; reflexivity.
  - destruct (f64_key n1 ?= f64_key n2)%Z; reflexivity.
  - reflexivity.
  - reflexivity.
Qed.

Lemma tok_ord_key s t : wf_token s = true -> wf_token t = true -> tok_ord s t = tkey_cmp s t.
Proof.
  intros Hs Ht. unfold tok_ord, tkey_cmp.
  destruct (N.compare_spec (kind s) (kind t)) as [H|H|H]; try reflexivity.
  apply val_ord_key. apply (wf_same_kind s t Hs Ht H).
Qed.

Lemma vk_eq_l v1 v2 v3 : vk_cmp v1 v2 = Eq -> vk_cmp v1 v3 = vk_cmp v2 v3.
Proof.
  unfold vk_cmp. destruct (Z.compare_spec (vkeyZ v1) (vkeyZ v2)) as [H|H|H]; try discriminate.
  intros HB. apply bytes_cmp_eq in HB. rewrite H, HB. reflexivity.
Qed.

Lemma vk_lt_trans v1 v2 v3 : vk_cmp v1 v2 = Lt -> vk_cmp v2 v3 = Lt -> vk_cmp v1 v3 = Lt.
Proof.
  unfold vk_cmp.
  destruct (Z.compare_spec (vkeyZ v1) (vkeyZ v2)) as [H12|H12|H12]; try discriminate;
  destruct (Z.compare_spec (vkeyZ v2) (vkeyZ v3)) as [H23|H23|H23]; try discriminate;
  destruct (Z.compare_spec (vkeyZ v1) (vkeyZ v3)) as [H13|H13|H13]; try lia; try reflexivity.
  apply bytes_cmp_lt_trans.
Qed.

Lemma tkey_eq_l s t u : tkey_cmp s t = Eq -> tkey_cmp s u = tkey_cmp t u.
Proof.
  unfold tkey_cmp. destruct (N.compare_spec (kind s) (kind t)) as [H|H|H]; try discriminate.
  intros HV. rewrite H. destruct (kind t ?= kind u); try reflexivity.
  apply vk_eq_l. exact HV.
Qed.

Lemma tkey_lt_trans s t u : tkey_cmp s t = Lt -> tkey_cmp t u = Lt -> tkey_cmp s u = Lt.
Proof.
  unfold tkey_cmp.
  destruct (N.compare_spec (kind s) (kind t)) as [H12|H12|H12]; try discriminate;
  destruct (N.compare_spec (kind t) (kind u)) as [H23|H23|H23]; try discriminate;
  destruct (N.compare_spec (kind s) (kind u)) as [H13|H13|H13]; try lia; try reflexivity.
  apply vk_lt_trans.
Qed.

Lemma tok_ord_eq_l s t u : wf_token s = true -> wf_token t = true -> wf_token u = true ->
  tok_ord s t = Eq -> tok_ord s u = tok_ord t u.
Proof.
  intros Hs Ht Hu. rewrite !tok_ord_key by assumption. apply tkey_eq_l.
Qed.

Lemma tok_ord_lt_trans s t u : wf_token s = true -> wf_token t = true -> wf_token u = true ->
  tok_ord s t = Lt -> tok_ord t u = Lt -> tok_ord s u = Lt.
Proof.
  intros Hs Ht Hu. rewrite !tok_ord_key by assumption. apply tkey_lt_trans.
Qed.

Lemma tok_ord_eq_r s t u : wf_token s = true -> wf_token t = true -> wf_token u = true ->
  tok_ord t u = Eq -> tok_ord s t = tok_ord s u.
Proof.
  intros Hs Ht Hu H.
  assert (H' : tok_ord u t = Eq) by (rewrite tok_ord_antisym, H; reflexivity).
  rewrite (tok_ord_antisym t s), (tok_ord_antisym u s).
  f_equal. symmetry. apply tok_ord_eq_l; assumption.
Qed.

Lemma lex_eq_l a : forall b c, wf_cmps a -> wf_cmps b -> wf_cmps c ->
  lex a b = Eq -> lex a c = lex b c.
Proof.
  induction a as [|x a IH]; intros [|y b] c Ha Hb Hc; cbn [lex]; try discriminate; [reflexivity|].
  inversion Ha as [|? ? Hx Ha']; subst. inversion Hb as [|? ? Hy Hb']; subst.
  destruct (tok_ord x y) eqn:Exy; try discriminate. intros Hab.
  destruct c as [|z c]; cbn [lex]; [reflexivity|].
  inversion Hc as [|? ? Hz Hc']; subst.
  rewrite (tok_ord_eq_l x y z) by (try apply wf_cmp_token; assumption).
  destruct (tok_ord y z); try reflexivity.
  apply IH; assumption.
Qed.

Lemma lex_lt_trans a : forall b c, wf_cmps a -> wf_cmps b -> wf_cmps c ->
  lex a b = Lt -> lex b c = Lt -> lex a c = Lt.
Proof.
  induction a as [|x a IH]; intros [|y b] [|z c] Ha Hb Hc; cbn [lex]; try discriminate; try reflexivity.
  inversion Ha as [|? ? Hx Ha']; subst. inversion Hb as [|? ? Hy Hb']; subst.
  inversion Hc as [|? ? Hz Hc']; subst.
  apply wf_cmp_token in Hx, Hy, Hz.
  destruct (tok_ord x y) eqn:Exy; try discriminate; intros Hab.
  - rewrite (tok_ord_eq_l x y z Hx Hy Hz Exy).
    destruct (tok_ord y z) eqn:Eyz; try discriminate; intros Hbc; [|reflexivity].
    apply (IH b c); assumption.
  - destruct (tok_ord y z) eqn:Eyz; try discriminate; intros Hbc.
    + rewrite <- (tok_ord_eq_r x y z Hx Hy Hz Eyz), Exy. reflexivity.
    + rewrite (tok_ord_lt_trans x y z Hx Hy Hz Exy Eyz). reflexivity.
Qed.

Lemma lex_eq_r a b c : wf_cmps a -> wf_cmps b -> wf_cmps c ->
  lex b c = Eq -> lex a b = lex a c.
Proof.
  intros Ha Hb Hc H.
  assert (H' : lex c b = Eq) by (rewrite lex_antisym, H; reflexivity).
  rewrite (lex_antisym b a), (lex_antisym c a).
  f_equal. symmetry. apply lex_eq_l; assumption.
Qed.

Theorem lex_trans_lt a b c :
  Forall (fun t => wf_cmp t = true) a -> Forall (fun t => wf_cmp t = true) b ->
  Forall (fun t => wf_cmp t = true) c ->
  lex a b = Lt -> lex b c <> Gt -> lex a c = Lt.
Proof.
  intros Ha Hb Hc Hab Hbc. destruct (lex b c) eqn:E.
  - rewrite <- (lex_eq_r a b c Ha Hb Hc E). exact Hab.
  - apply (lex_lt_trans a b c); assumption.
  - contradiction.
Qed.

Theorem lex_trans_lt' a b c :
  Forall (fun t => wf_cmp t = true) a -> Forall (fun t => wf_cmp t = true) b ->
  Forall (fun t => wf_cmp t = true) c ->
  lex a b <> Gt -> lex b c = Lt -> lex a c = Lt.
Proof.
  intros Ha Hb Hc Hab Hbc. destruct (lex a b) eqn:E.
  - rewrite (lex_eq_l a b c Ha Hb Hc E). exact Hbc.
  - apply (lex_lt_trans a b c); assumption.
  - contradiction.
Qed.

Theorem lex_trans a b c :
  Forall (fun t => wf_cmp t = true) a -> Forall (fun t => wf_cmp t = true) b ->
  Forall (fun t => wf_cmp t = true) c ->
  lex a b <> Gt -> lex b c <> Gt -> lex a c <> Gt.
Proof.
  intros Ha Hb Hc Hab Hbc. destruct (lex a b) eqn:E.
  - rewrite (lex_eq_l a b c Ha Hb Hc E). exact Hbc.
  - rewrite (lex_trans_lt a b c Ha Hb Hc E Hbc). discriminate.
  - contradiction.
Qed.

Example lex_trans_ex :
  let a := [T KBool (VBool false)] in
  let b := [T KBool (VBool true)] in
  let c := [T KBool (VBool true); T KNil VNone] in
  wf_cmps a /\ wf_cmps b /\ wf_cmps c /\ lex a b = Lt /\ lex b c = Lt /\ lex a c = Lt.
Proof. repeat split; repeat constructor. Qed.

(* without the domain restriction the relation is not transitive: values of the
   wrong dynamic type all compare Eq with one another *)
Example lex_trans_needs_wf :
  let a := [T KBool (VBool true)] in
  let b := [T KBool VNone] in
  let c := [T KBool (VBool false)] in
  lex a b = Eq /\ lex b c = Eq /\ lex a c = Gt.
Proof. repeat split. Qed.

Theorem lex_eq_iff a b : lex a b = Eq <-> Forall2 tok_same a b.
Proof.
  revert b. induction a as [|x a IH]; intros [|y b]; cbn [lex].
  - split; [constructor | reflexivity].
  - split; [discriminate | intros H; inversion H].
  - split; [discriminate | intros H; inversion H].
  - split.
    + destruct (tok_ord x y) eqn:E; try discriminate.
      intros H. constructor; [exact E | apply IH; exact H].
    + intros H. inversion H as [|? ? ? ? Hxy Hab]; subst.
      unfold tok_same in Hxy. rewrite Hxy. apply IH. exact Hab.
Qed.

Lemma f32_key_inj x y : x < 2 ^ 32 -> y < 2 ^ 32 -> f32_key x = f32_key y ->
  x = y \/ (f32_key x = 0%Z /\ f32_key y = 0%Z).
Proof.
  unfold f32_key. change (2 ^ 32) with 4294967296. change (2 ^ 31) with 2147483648.
  intros Hx Hy.
  destruct (x <? 2147483648) eqn:Ex; destruct (y <? 2147483648) eqn:Ey; intros H; lia.
Qed.

Lemma f64_key_inj x y : x < 2 ^ 64 -> y < 2 ^ 64 -> f64_key x = f64_key y ->
  x = y \/ (f64_key x = 0%Z /\ f64_key y = 0%Z).
Proof.
  unfold f64_key. change (2 ^ 64) with 18446744073709551616.
  change (2 ^ 63) with 9223372036854775808.
  intros Hx Hy.
  destruct (x <? 9223372036854775808) eqn:Ex; destruct (y <? 9223372036854775808) eqn:Ey;
    intros H; lia.
Qed.

(* Eq exactly for identical tokens, up to +0 / -0 *)
Theorem tok_same_wf s t : wf_cmp s = true -> wf_cmp t = true -> tok_same s t ->
  s = t \/
  (exists x y, kind s = kind t /\
     ((val s = VF32 x /\ val t = VF32 y /\ f32_key x = 0%Z /\ f32_key y = 0%Z) \/
      (val s = VF64 x /\ val t = VF64 y /\ f64_key x = 0%Z /\ f64_key y = 0%Z))).
Proof.
  intros Hs Ht. apply wf_cmp_token in Hs, Ht. unfold tok_same, tok_ord.
  destruct (N.compare_spec (kind s) (kind t)) as [Hk|Hk|Hk]; try discriminate.
  destruct (wf_same_kind s t Hs Ht Hk) as [Hc Hw].
  apply wf_token_val in Hs, Ht.
  destruct s as [k v1], t as [k' v2]. cbn [kind val] in *. subst k'.
  destruct v1 as [|b1|w1 z1|w1 n1|n1|n1|n1|s1|s1], v2 as [|b2|w2 z2|w2 n2|n2|n2|n2|s2|s2];
    cbn [vctor] in Hc; try discriminate Hc; cbn [vwidth] in Hw; cbn [val_ord wf_val] in *; intros H.
  - left. reflexivity.
  - left. destruct b1, b2; try discriminate H; reflexivity.
  - left. apply Z.compare_eq in H. subst. reflexivity.
  - left. apply N.compare_eq in H. subst. reflexivity.
  - left. apply N.compare_eq in H. subst. reflexivity.
  - apply Z.compare_eq in H. apply N.ltb_lt in Hs, Ht.
    destruct (f32_key_inj n1 n2 Hs Ht H) as [E|[E1 E2]].
    + left. subst. reflexivity.
    + right. exists n1, n2. split; [reflexivity|]. left. repeat split; assumption.
  - apply Z.compare_eq in H. apply N.ltb_lt in Hs, Ht.
    destruct (f64_key_inj n1 n2 Hs Ht H) as [E|[E1 E2]].
    + left. subst. reflexivity.
    + right. exists n1, n2. split; [reflexivity|]. right. repeat split; assumption.
  - left. apply bytes_cmp_eq in H. subst. reflexivity.
  - left. apply bytes_cmp_eq in H. subst. reflexivity.
Qed.

(* both alternatives occur *)
Example tok_same_zero :
  let s := T KFloat64 (VF64 0) in let t := T KFloat64 (VF64 9223372036854775808) in
  wf_cmp s = true /\ wf_cmp t = true /\ tok_same s t /\ s <> t.
Proof. repeat split. discriminate. Qed.

Theorem lex_prefix a b : b <> [] -> lex a (a ++ b) = Lt.
Proof.
  intros Hb. induction a as [|x a IH]; cbn [app lex].
  - destruct b; [contradiction | reflexivity].
  - rewrite tok_ord_refl. exact IH.
Qed.

Theorem min_max t : wf_cmp t = true -> kind t <> KMin -> kind t <> KMax ->
  lex [T KMin VNone] [t] = Lt /\ lex [t] [T KMax VNone] = Lt.
Proof.
  intros Ht Hmin Hmax. apply wf_cmp_token, wf_token_shape, shape_kind_ok in Ht.
  unfold kind_ok in Ht. unfold KMin, KMax in *.
  cbn [lex]. unfold tok_ord. cbn [kind val]. unfold KMin, KMax.
  destruct (N.compare_spec 1 (kind t)) as [H|H|H]; try lia.
  destruct (N.compare_spec (kind t) 255) as [H'|H'|H']; try lia.
  split; reflexivity.
Qed.

Example min_max_ex : let t := T KString (VStr []) in
  wf_cmp t = true /\ kind t <> KMin /\ kind t <> KMax.
Proof. repeat split; discriminate. Qed.

(* a NaN bit pattern carried as a float payload (outside the domain: the canonical
   NaN is the NaN kind) compares greater than itself *)
Theorem nan_payload_irreflexive : exists t, wf_token t = true /\ cmp_tokens [t] [t] = Some Gt.
Proof. exists (T KFloat64 (VF64 9221120237041090560)). vm_compute. split; reflexivity. Qed.

(* ------------------------------------------------------------------ *)
(* C07: CompareBytes on the encodings                                  *)
(* ------------------------------------------------------------------ *)

Definition wf_route (t : token) : Prop :=
  wf_cmp t = true /\ match val t with VStr s | VBytes s => lenN s < 2 ^ 56 | _ => True end.

Lemma cb_len_prefix l r : l < 2 ^ 56 -> cb_len (len_prefix l ++ r) = inl (l, r).
Proof.
  intros Hl. unfold len_prefix. destruct (l <? 128) eqn:E.
  - cbn [app]. unfold cb_len. rewrite E. reflexivity.
  - cbv zeta. cbn [app]. unfold cb_len.
    pose proof (put_uvarint_len l Hl) as Hlen.
    assert (Hc : compl8 (compl8 (lenN (put_uvarint l))) = lenN (put_uvarint l))
      by (unfold compl8, lenN; lia).
    assert (E1 : (compl8 (lenN (put_uvarint l)) <? 128) = false) by (unfold compl8, lenN; lia).
    rewrite E1. cbv zeta. rewrite Hc.
    assert (E2 : (8 <? lenN (put_uvarint l)) = false) by (unfold lenN; lia). rewrite E2.
    rewrite takeN_app. unfold uvarint_val. rewrite (read_put_uvarint l Hl).
    assert (E3 : (l =? 0) = false) by lia. rewrite E3. reflexivity.
Qed.

Lemma cb_field_prefix s r : lenN s < 2 ^ 56 -> cb_field (len_prefix (lenN s) ++ s ++ r) = inl (s, r).
Proof.
  intros Hl. unfold cb_field. rewrite (cb_len_prefix _ _ Hl). rewrite takeN_app. reflexivity.
Qed.

Lemma cb_fixed_ikind w : cb_fixed (ikind w) = Some (N.of_nat (wbytes w), CbSigned).
Proof. destruct w; reflexivity. Qed.

Lemma cb_fixed_ukind w : cb_fixed (ukind w) = Some (N.of_nat (wbytes w), CbUnsigned).
Proof. destruct w; reflexivity. Qed.

Lemma ord_of_Z x y : ord_of (x <? y)%Z (y <? x)%Z = (x ?= y)%Z.
Proof.
  unfold ord_of. destruct (Z.compare_spec x y) as [H|H|H].
  - assert (E : (x <? y)%Z = false) by lia. assert (E' : (y <? x)%Z = false) by lia.
    rewrite E, E'. reflexivity.
  - assert (E : (x <? y)%Z = true) by lia. rewrite E. reflexivity.
  - assert (E : (x <? y)%Z = false) by lia. assert (E' : (y <? x)%Z = true) by lia.
    rewrite E, E'. reflexivity.
Qed.

Lemma ord_of_N x y : ord_of (x <? y) (y <? x) = (x ?= y).
Proof.
  unfold ord_of. destruct (N.compare_spec x y) as [H|H|H].
  - assert (E : (x <? y) = false) by lia. assert (E' : (y <? x) = false) by lia.
    rewrite E, E'. reflexivity.
  - assert (E : (x <? y) = true) by lia. rewrite E. reflexivity.
  - assert (E : (x <? y) = false) by lia. assert (E' : (y <? x) = true) by lia.
    rewrite E, E'. reflexivity.
Qed.

Lemma cmp_bytes_f_same f k a1 b1 :
  cmp_bytes_f (S f) (k :: a1) (k :: b1) =
  match cb_fixed k with
  | Some (w, c) =>
      match takeN w a1 with
      | None => CBErr EEnd
      | Some (ia, a2) =>
          match takeN w b1 with
          | None => CBErr EEnd
          | Some (ib, b2) =>
              match cb_cmp_fixed c w (le_val ia) (le_val ib) with
              | Eq => cmp_bytes_f f a2 b2
              | r => CB r
              end
          end
      end
  | None =>
      if cb_is_field_kind k then
        match cb_field a1 with
        | inr e => CBErr e
        | inl (pa, a2) =>
            match cb_field b1 with
            | inr e => CBErr e
            | inl (pb, b2) =>
                match bytes_cmp pa pb with
                | Eq => cmp_bytes_f f a2 b2
                | r => CB r
                end
            end
        end
      else if is_valueless_kind k then cmp_bytes_f f a1 b1
      else CBErr EBadKind
  end.
Proof. cbn [cmp_bytes_f]. rewrite N.ltb_irrefl. reflexivity. Qed.

Lemma valueless_cb k : is_valueless_kind k = true -> cb_fixed k = None /\ cb_is_field_kind k = false.
Proof.
  intros H. unfold is_valueless_kind in H. apply existsb_eqb_In in H.
  cbn [In] in H.
  repeat (destruct H as [H|H]; [subst; vm_compute; auto|]); contradiction.
Qed.

Lemma str_kind_cb k : is_str_kind k = true -> cb_fixed k = None /\ cb_is_field_kind k = true.
Proof.
  intros H. apply str_kind_In in H. cbn [In] in H.
  repeat (destruct H as [H|H]; [subst; vm_compute; auto|]); contradiction.
Qed.

Lemma bytes_kind_cb k : is_bytes_kind k = true -> cb_fixed k = None /\ cb_is_field_kind k = true.
Proof.
  intros H. apply bytes_kind_In in H. cbn [In] in H.
  repeat (destruct H as [H|H]; [subst; vm_compute; auto|]); contradiction.
Qed.

Lemma f32_ord x y : f32_is_nan x = false -> f32_is_nan y = false ->
  ord_of (f32_lt x y) (f32_lt y x) = (f32_key x ?= f32_key y)%Z.
Proof.
  intros Hx Hy. unfold f32_lt. rewrite Hx, Hy. cbn [negb andb]. apply ord_of_Z.
Qed.

Lemma f64_ord x y : f64_is_nan x = false -> f64_is_nan y = false ->
  ord_of (f64_lt x y) (f64_lt y x) = (f64_key x ?= f64_key y)%Z.
Proof.
  intros Hx Hy. unfold f64_lt. rewrite Hx, Hy. cbn [negb andb]. apply ord_of_Z.
Qed.

(* one loop iteration of CompareBytes on two encoded tokens *)
Lemma cb_token f x y ra rb : wf_route x -> wf_route y ->
  cmp_bytes_f (S f) (encode_token x ++ ra) (encode_token y ++ rb) =
  match tok_ord x y with Eq => cmp_bytes_f f ra rb | c => CB c end.
Proof.
  intros [Hx Lx] [Hy Ly]. unfold encode_token, tok_ord. cbn [app].
  destruct (N.compare_spec (kind x) (kind y)) as [H|H|H].
  2:{ cbn [cmp_bytes_f]. assert (E : (kind x <? kind y) = true) by lia. rewrite E. reflexivity. }
  2:{ cbn [cmp_bytes_f]. assert (E : (kind x <? kind y) = false) by lia. rewrite E.
      assert (E' : (kind y <? kind x) = true) by lia. rewrite E'. reflexivity. }
  pose proof (wf_cmp_nan x Hx) as Nx. pose proof (wf_cmp_nan y Hy) as Ny.
  apply wf_cmp_token in Hx, Hy.
  destruct (wf_same_kind x y Hx Hy H) as [Hc Hw].
  pose proof (wf_token_shape x Hx) as Sx.
  pose proof (wf_token_val x Hx) as Vx. pose proof (wf_token_val y Hy) as Vy.
  destruct x as [k v1], y as [k' v2]. cbn [kind val] in *. subst k'.
  rewrite cmp_bytes_f_same.
  destruct v1 as [|b1|w1 z1|w1 n1|n1|n1|n1|s1|s1], v2 as [|b2|w2 z2|w2 n2|n2|n2|n2|s2|s2];
    cbn [vctor] in Hc; try discriminate Hc; cbn [vwidth] in Hw;
    cbn [val_ord wf_val enc_val not_nan_payload] in *.
  - destruct (valueless_cb k Sx) as [E1 E2]. rewrite E1, E2.
    change (is_valueless_kind k = true) in Sx. rewrite Sx. reflexivity.
  - cbn [kind_shape] in Sx. apply N.eqb_eq in Sx. subst k.
    change (cb_fixed KBool) with (Some (1, CbBool)). cbv beta iota.
    rewrite (takeN_app' 1 [if b1 then 1 else 0] ra eq_refl).
    rewrite (takeN_app' 1 [if b2 then 1 else 0] rb eq_refl).
    destruct b1, b2; reflexivity.
  - subst w2. apply shape_VI in Sx. subst k. rewrite cb_fixed_ikind. cbv beta iota.
    rewrite (takeN_app' _ _ ra (le_bytes_lenN (wbytes w1) _)).
    rewrite (takeN_app' _ _ rb (le_bytes_lenN (wbytes w1) _)).
    unfold cb_cmp_fixed. rewrite Nat2N.id.
    rewrite (int_roundtrip w1 z1 Vx), (int_roundtrip w1 z2 Vy). rewrite ord_of_Z.
    destruct (z1 ?= z2)%Z; reflexivity.
  - subst w2. apply shape_VU in Sx. subst k. rewrite cb_fixed_ukind. cbv beta iota.
    rewrite (takeN_app' _ _ ra (le_bytes_lenN (wbytes w1) _)).
    rewrite (takeN_app' _ _ rb (le_bytes_lenN (wbytes w1) _)).
    unfold cb_cmp_fixed. unfold in_urange in Vx, Vy.
    rewrite (uint_roundtrip (wbytes w1) n1) by lia.
    rewrite (uint_roundtrip (wbytes w1) n2) by lia.
    rewrite ord_of_N. destruct (n1 ?= n2); reflexivity.
  - cbn [kind_shape] in Sx. apply N.eqb_eq in Sx. subst k.
    change (cb_fixed KPointer) with (Some (8, CbUnsigned)). cbv beta iota.
    rewrite (takeN_app' 8 _ ra (le_bytes_lenN 8 _)).
    rewrite (takeN_app' 8 _ rb (le_bytes_lenN 8 _)).
    unfold cb_cmp_fixed. apply N.ltb_lt in Vx, Vy.
    rewrite (uint_roundtrip 8 n1) by exact Vx.
    rewrite (uint_roundtrip 8 n2) by exact Vy.
    rewrite ord_of_N. destruct (n1 ?= n2); reflexivity.
  - cbn [kind_shape] in Sx. apply N.eqb_eq in Sx. subst k.
    change (cb_fixed KFloat32) with (Some (4, CbF32)). cbv beta iota.
    rewrite (takeN_app' 4 _ ra (le_bytes_lenN 4 _)).
    rewrite (takeN_app' 4 _ rb (le_bytes_lenN 4 _)).
    unfold cb_cmp_fixed. apply N.ltb_lt in Vx, Vy.
    rewrite (uint_roundtrip 4 n1) by exact Vx.
    rewrite (uint_roundtrip 4 n2) by exact Vy.
    apply negb_true_iff in Nx, Ny. rewrite (f32_ord n1 n2 Nx Ny).
    destruct (f32_key n1 ?= f32_key n2)%Z; reflexivity.
  - cbn [kind_shape] in Sx. apply N.eqb_eq in Sx. subst k.
    change (cb_fixed KFloat64) with (Some (8, CbF64)). cbv beta iota.
    rewrite (takeN_app' 8 _ ra (le_bytes_lenN 8 _)).
    rewrite (takeN_app' 8 _ rb (le_bytes_lenN 8 _)).
    unfold cb_cmp_fixed. apply N.ltb_lt in Vx, Vy.
    rewrite (uint_roundtrip 8 n1) by exact Vx.
    rewrite (uint_roundtrip 8 n2) by exact Vy.
    apply negb_true_iff in Nx, Ny. rewrite (f64_ord n1 n2 Nx Ny).
    destruct (f64_key n1 ?= f64_key n2)%Z; reflexivity.
  - destruct (str_kind_cb k Sx) as [E1 E2]. rewrite E1, E2.
    rewrite <- !app_assoc. rewrite (cb_field_prefix s1 ra Lx), (cb_field_prefix s2 rb Ly).
    destruct (bytes_cmp s1 s2); reflexivity.
  - destruct (bytes_kind_cb k Sx) as [E1 E2]. rewrite E1, E2.
    rewrite <- !app_assoc. rewrite (cb_field_prefix s1 ra Lx), (cb_field_prefix s2 rb Ly).
    destruct (bytes_cmp s1 s2); reflexivity.
Qed.

Lemma encode_length_ge ts : (length ts <= length (encode ts))%nat.
Proof.
  induction ts as [|t ts IH]; [cbn; lia|].
  rewrite encode_cons, app_length. pose proof (encode_token_length t). cbn [length]. lia.
Qed.

Lemma bytes_route_f a : forall b f, Forall wf_route a -> Forall wf_route b ->
  (length a < f)%nat -> cmp_bytes_f f (encode a) (encode b) = CB (lex a b).
Proof.
  induction a as [|x a IH]; intros b f Ha Hb Hf; (destruct f as [|f]; [lia|]).
  - destruct b as [|y b]; [reflexivity|].
    rewrite encode_cons. unfold encode_token. reflexivity.
  - destruct b as [|y b].
    + rewrite encode_cons. unfold encode_token. reflexivity.
    + inversion Ha as [|? ? Hx Ha']; subst. inversion Hb as [|? ? Hy Hb']; subst.
      rewrite !encode_cons. rewrite (cb_token f x y _ _ Hx Hy). cbn [lex].
      destruct (tok_ord x y); try reflexivity.
      apply IH; try assumption. cbn [length] in Hf. lia.
Qed.

Theorem bytes_route a b : Forall wf_route a -> Forall wf_route b ->
  cmp_bytes (encode a) (encode b) = CB (lex a b).
Proof.
  intros Ha Hb. unfold cmp_bytes. apply bytes_route_f; try assumption.
  pose proof (encode_length_ge a). lia.
Qed.

Example bytes_route_ex :
  let a := [T KString (VStr [104; 105]); T KFloat64 (VF64 9223372036854775808); T KInt16 (VI W16 (-2))] in
  let b := [T KString (VStr [104; 105]); T KFloat64 (VF64 0); T KInt16 (VI W16 1)] in
  Forall wf_route a /\ Forall wf_route b /\ cmp_bytes (encode a) (encode b) = CB Lt.
Proof.
  repeat split; try (repeat constructor; fail).
Qed.

(* ------------------------------------------------------------------ *)
(* C07: Compare over the segmenting decoders                           *)
(* ------------------------------------------------------------------ *)

(* the cut points of the comparison-oriented decoder: pieces of step, 2*step, 4*step ... bytes *)
Fixpoint chunks (fuel : nat) (step : N) (p : bytes) : list bytes :=
  match fuel with
  | O => []
  | S f => match p with
           | [] => []
           | _ :: _ => firstn_N step p :: chunks f (2 * step) (skipn_N step p)
           end
  end.

Definition mkseg (k : N) (strk : bool) (seg : bytes) : token :=
  T k (if strk then VStr seg else VBytes seg).

Definition seg_kind (strk : bool) : N := if strk then KString else KBytes.
Definition seg_begin (strk : bool) : N := if strk then KStringBegin else KBytesBegin.
Definition seg_end (strk : bool) : N := if strk then KStringEnd else KBytesEnd.

(* Begin, segments, End for one String / Bytes payload *)
Definition seg_of (strk : bool) (p : bytes) : list token :=
  T (seg_begin strk) VNone
  :: map (mkseg (seg_kind strk) strk) (chunks (S (length p)) init_step p)
  ++ [T (seg_end strk) VNone].

Definition seg_tok (t : token) : list token :=
  match val t with
  | VStr p => if kind t =? KString then seg_of true p else [t]
  | VBytes p => if kind t =? KBytes then seg_of false p else [t]
  | _ => [t]
  end.
Definition segmentize (ts : list token) : list token := flat_map seg_tok ts.

Lemma lenN_firstn_N step (p : bytes) : lenN (firstn_N step p) = N.min step (lenN p).
Proof. unfold lenN, firstn_N. rewrite firstn_length. lia. Qed.

Lemma lenN_skipn_N step (p : bytes) : lenN (skipn_N step p) = lenN p - N.min step (lenN p).
Proof. unfold lenN, skipn_N. rewrite skipn_length. lia. Qed.

Lemma length_skipn_N step (p : bytes) : 0 < step -> p <> [] ->
  (length (skipn_N step p) < length p)%nat.
Proof.
  intros Hs Hp. unfold skipn_N. rewrite skipn_length.
  destruct p as [|b p]; [contradiction|]. cbn [length]. lia.
Qed.

Lemma chunks_fuel : forall f1 f2 step p, 0 < step ->
  (length p < f1)%nat -> (length p < f2)%nat -> chunks f1 step p = chunks f2 step p.
Proof.
  induction f1 as [|f1 IH]; intros f2 step p Hs H1 H2; [lia|].
  destruct f2 as [|f2]; [lia|]. cbn [chunks].
  destruct p as [|b p]; [reflexivity|]. f_equal.
  assert (Hlt : (length (skipn_N step (b :: p)) < length (b :: p))%nat)
    by (apply length_skipn_N; [exact Hs | discriminate]).
  apply IH; lia.
Qed.

(* the decoder's segment loop, when the payload is fully available, cuts exactly at [chunks] *)
Lemma segments_chunks k strk fault : forall fuel step p rest off, 0 < step ->
  (length p < fuel)%nat ->
  segments fuel k strk fault step (lenN p) (p ++ rest) off =
  (map (mkseg k strk) (chunks fuel step p), inl (rest, off + lenN p)).
Proof.
  induction fuel as [|f IH]; intros step p rest off Hs Hf; [lia|].
  cbn [segments chunks]. destruct p as [|b p].
  - change (lenN []) with 0. cbn [N.eqb app map]. rewrite N.add_0_r. reflexivity.
  - set (P := b :: p) in *.
    assert (E0 : (lenN P =? 0) = false) by (unfold P; rewrite lenN_cons; lia). rewrite E0.
    assert (Hsplit : P ++ rest = firstn_N step P ++ (skipn_N step P ++ rest)).
    { rewrite app_assoc. unfold firstn_N, skipn_N. rewrite firstn_skipn. reflexivity. }
    rewrite Hsplit.
    rewrite (takeN_app' (N.min step (lenN P)) (firstn_N step P) _ (lenN_firstn_N step P)).
    assert (Hrem : lenN P - N.min step (lenN P) = lenN (skipn_N step P))
      by (rewrite lenN_skipn_N; reflexivity).
    rewrite Hrem.
    assert (Hlt : (length (skipn_N step P) < length P)%nat)
      by (apply length_skipn_N; [exact Hs | unfold P; discriminate]).
    rewrite (IH (2 * step) (skipn_N step P) rest (off + N.min step (lenN P))) by lia.
    cbn [map]. unfold mkseg at 2. f_equal. f_equal. f_equal.
    rewrite lenN_skipn_N. lia.
Qed.

Lemma cmp_val_seg (strk : bool) a b :
  cmp_val (if strk then VStr a else VBytes a) (if strk then VStr b else VBytes b)
  = Some (bytes_cmp a b).
Proof.
  destruct strk; cbn [cmp_val iface_eq]; [|reflexivity].
  rewrite bytes_eqb_cmp. unfold lt_gt. destruct (bytes_cmp a b); reflexivity.
Qed.

Lemma cmp_tokens_mkseg k strk p q a b :
  cmp_tokens (mkseg k strk p :: a) (mkseg k strk q :: b) =
  match bytes_cmp p q with Eq => cmp_tokens a b | c => Some c end.
Proof.
  unfold mkseg. cbn [cmp_tokens kind val]. rewrite N.ltb_irrefl. rewrite cmp_val_seg.
  destruct (bytes_cmp p q); reflexivity.
Qed.

(* comparing two payloads piece by piece, a missing piece being the End marker *)
Lemma chunks_cmp k ek strk : ek < k -> forall fx fy step x y ra rb, 0 < step ->
  (length x < fx)%nat -> (length y < fy)%nat ->
  cmp_tokens (map (mkseg k strk) (chunks fx step x) ++ T ek VNone :: ra)
             (map (mkseg k strk) (chunks fy step y) ++ T ek VNone :: rb)
  = match bytes_cmp x y with Eq => cmp_tokens ra rb | c => Some c end.
Proof.
  intros Hek. induction fx as [|fx IH]; intros fy step x y ra rb Hs Hx Hy; [lia|].
  destruct fy as [|fy]; [lia|]. cbn [chunks].
  destruct x as [|a x], y as [|b y].
  - cbn [map app cmp_tokens kind val bytes_cmp]. rewrite N.ltb_irrefl. reflexivity.
  - cbn [map app cmp_tokens kind val bytes_cmp mkseg].
    assert (E : (ek <? k) = true) by lia. rewrite E. reflexivity.
  - cbn [map app cmp_tokens kind val bytes_cmp mkseg].
    assert (E : (k <? ek) = false) by lia. rewrite E.
    assert (E' : (ek <? k) = true) by lia. rewrite E'. reflexivity.
  - set (X := a :: x) in *. set (Y := b :: y) in *.
    cbn [map app]. rewrite cmp_tokens_mkseg.
    rewrite (bytes_cmp_firstn_skipn (N.to_nat step) X Y).
    fold (firstn_N step X). fold (firstn_N step Y).
    destruct (bytes_cmp (firstn_N step X) (firstn_N step Y)); try reflexivity.
    fold (skipn_N step X). fold (skipn_N step Y).
    assert (HX : (length (skipn_N step X) < length X)%nat)
      by (apply length_skipn_N; [exact Hs | unfold X; discriminate]).
    assert (HY : (length (skipn_N step Y) < length Y)%nat)
      by (apply length_skipn_N; [exact Hs | unfold Y; discriminate]).
    apply IH; lia.
Qed.

Lemma seg_end_lt strk : seg_end strk < seg_kind strk.
Proof. destruct strk; reflexivity. Qed.

Lemma seg_of_cmp strk x y ra rb :
  cmp_tokens (seg_of strk x ++ ra) (seg_of strk y ++ rb)
  = match bytes_cmp x y with Eq => cmp_tokens ra rb | c => Some c end.
Proof.
  unfold seg_of. cbn [app]. rewrite <- !app_assoc. cbn [app].
  cbn [cmp_tokens kind val]. rewrite N.ltb_irrefl. cbn [cmp_val iface_eq].
  apply (chunks_cmp _ _ strk (seg_end_lt strk)); [reflexivity | lia | lia].
Qed.

(* "long strings and blobs that are split into segments compare exactly like the
   unsplit values, including when one is a prefix of the other": whatever follows,
   Begin / 8 / 16 / 32 / ... / End against Begin / 8 / 16 / ... / End gives the
   result of comparing the two whole String (or Bytes) tokens. *)
Theorem segments_like_unsplit strk x y ra rb :
  cmp_tokens (seg_of strk x ++ ra) (seg_of strk y ++ rb)
  = cmp_tokens (mkseg (seg_kind strk) strk x :: ra) (mkseg (seg_kind strk) strk y :: rb).
Proof. rewrite seg_of_cmp, cmp_tokens_mkseg. reflexivity. Qed.

Corollary segments_prefix strk x z ra rb : z <> [] ->
  cmp_tokens (seg_of strk x ++ ra) (seg_of strk (x ++ z) ++ rb) = Some Lt.
Proof.
  intros Hz. rewrite seg_of_cmp.
  assert (H : bytes_cmp x (x ++ z) = Lt).
  { induction x as [|a x IH]; cbn [app bytes_cmp].
    - destruct z; [contradiction | reflexivity].
    - rewrite N.compare_refl. exact IH. }
  rewrite H. reflexivity.
Qed.

Example segments_like_unsplit_ex :
  let x := expand [(24, 7)] in let y := expand [(24, 7); (5, 1)] in
  length (seg_of true x) = 4%nat /\ length (seg_of true y) = 5%nat /\
  cmp_tokens (seg_of true x) (seg_of true y) = Some Lt /\
  cmp_tokens [T KString (VStr x)] [T KString (VStr y)] = Some Lt.
Proof. vm_compute. repeat split. Qed.

(* ---- segmentize preserves Compare ---- *)

Lemma seg_class t : wf_token t = true ->
  (exists p, t = T KString (VStr p) /\ seg_tok t = seg_of true p) \/
  (exists p, t = T KBytes (VBytes p) /\ seg_tok t = seg_of false p) \/
  (kind t <> KString /\ kind t <> KBytes /\ seg_tok t = [t]).
Proof.
  intros Hwf. pose proof (shape_cls _ _ (wf_token_shape t Hwf)) as Hc.
  destruct t as [k v]. cbn [kind val] in *. unfold seg_tok. cbn [kind val].
  destruct (k =? KString) eqn:ES.
  - apply N.eqb_eq in ES. subst k. left.
    destruct v as [|b|w z|w n|n|n|n|s|s]; try (vm_compute in Hc; discriminate Hc).
    exists s. split; reflexivity.
  - destruct (k =? KBytes) eqn:EB.
    + apply N.eqb_eq in EB. subst k. right. left.
      destruct v as [|b|w z|w n|n|n|n|s|s]; try (vm_compute in Hc; discriminate Hc).
      exists s. split; reflexivity.
    + right. right. apply N.eqb_neq in ES, EB. repeat split; try assumption.
      destruct v; reflexivity.
Qed.

Lemma seg_tok_cons t : exists h tl, seg_tok t = h :: tl.
Proof.
  unfold seg_tok, seg_of. destruct (val t); try (eexists; eexists; reflexivity).
  - destruct (kind t =? KString); eexists; eexists; reflexivity.
  - destruct (kind t =? KBytes); eexists; eexists; reflexivity.
Qed.

Lemma seg_of_head_other strk p sa y sb a b :
  kind_ok (kind y) = true -> kind y <> seg_kind strk ->
  cmp_tokens (seg_of strk p ++ sa) (y :: sb) = cmp_tokens (mkseg (seg_kind strk) strk p :: a) (y :: b) /\
  cmp_tokens (y :: sb) (seg_of strk p ++ sa) = cmp_tokens (y :: b) (mkseg (seg_kind strk) strk p :: a).
Proof.
  intros Hok Hne. unfold kind_ok in Hok. unfold seg_of, mkseg. cbn [app cmp_tokens kind val].
  destruct strk; unfold seg_begin, seg_kind, KString, KStringBegin, KStringEnd,
    KBytes, KBytesBegin, KBytesEnd in *.
  - destruct (51 <? kind y) eqn:E1; destruct (50 <? kind y) eqn:E2; try lia;
    destruct (kind y <? 51) eqn:E3; destruct (kind y <? 50) eqn:E4; try lia; split; reflexivity.
  - destruct (56 <? kind y) eqn:E1; destruct (55 <? kind y) eqn:E2; try lia;
    destruct (kind y <? 56) eqn:E3; destruct (kind y <? 55) eqn:E4; try lia; split; reflexivity.
Qed.

Lemma cmp_segmentize a : forall b, wf_cmps a -> wf_cmps b ->
  cmp_tokens (segmentize a) (segmentize b) = cmp_tokens a b.
Proof.
  induction a as [|x a IH]; intros b Ha Hb.
  - destruct b as [|y b]; [reflexivity|].
    cbn [segmentize flat_map]. destruct (seg_tok_cons y) as [h [tl E]]. rewrite E. reflexivity.
  - destruct b as [|y b].
    + cbn [segmentize flat_map]. destruct (seg_tok_cons x) as [h [tl E]]. rewrite E. reflexivity.
    + inversion Ha as [|? ? Hx Ha']; subst. inversion Hb as [|? ? Hy Hb']; subst.
      apply wf_cmp_token in Hx, Hy.
      pose proof (shape_kind_ok _ _ (wf_token_shape x Hx)) as Kx.
      pose proof (shape_kind_ok _ _ (wf_token_shape y Hy)) as Ky.
      change (segmentize (x :: a)) with (seg_tok x ++ segmentize a).
      change (segmentize (y :: b)) with (seg_tok y ++ segmentize b).
      specialize (IH b Ha' Hb').
      destruct (seg_class x Hx) as [[p [Ex Sx]]|[[p [Ex Sx]]|[Nx1 [Nx2 Sx]]]];
      destruct (seg_class y Hy) as [[q [Ey Sy]]|[[q [Ey Sy]]|[Ny1 [Ny2 Sy]]]];
      rewrite Sx, Sy.
      * subst x y. rewrite seg_of_cmp. pose proof (cmp_tokens_mkseg KString true p q a b) as HR.
        unfold mkseg in HR. rewrite HR.
        rewrite IH. reflexivity.
      * subst x y. reflexivity.
      * subst x. cbn [app].
        apply (seg_of_head_other true p (segmentize a) y (segmentize b) a b Ky Ny1).
      * subst x y. reflexivity.
      * subst x y. rewrite seg_of_cmp. pose proof (cmp_tokens_mkseg KBytes false p q a b) as HR.
        unfold mkseg in HR. rewrite HR.
        rewrite IH. reflexivity.
      * subst x. cbn [app].
        apply (seg_of_head_other false p (segmentize a) y (segmentize b) a b Ky Ny2).
      * subst y. cbn [app].
        apply (seg_of_head_other true q (segmentize b) x (segmentize a) b a Kx Nx1).
      * subst y. cbn [app].
        apply (seg_of_head_other false q (segmentize b) x (segmentize a) b a Kx Nx2).
      * cbn [app cmp_tokens]. rewrite IH. reflexivity.
Qed.

(* ---- the segmenting decoder on an encoding ---- *)

Lemma decode_cmp_step_tok maxlen t rest off : wf_enc maxlen t ->
  decode_cmp_step maxlen false (encode_token t ++ rest) off
  = CToks (seg_tok t) rest (off + lenN (encode_token t)).
Proof.
  intros Henc. pose proof Henc as [Hwf Hlen].
  destruct (seg_class t Hwf) as [[p [Et St]]|[[p [Et St]]|[N1 [N2 St]]]]; rewrite St.
  - subst t. cbn [val] in Hlen. destruct Hlen as [Hm Hl].
    unfold encode_token. cbn [kind val enc_val app]. unfold decode_cmp_step.
    change ((KString =? KString) || (KString =? KBytes)) with true. cbv beta iota zeta.
    change (KString =? KString) with true.
    rewrite <- app_assoc.
    rewrite (read_len_complete maxlen false true (lenN p) _ (p ++ rest) (off + 1)
               (len_prefix_field maxlen (lenN p) Hm Hl)).
    rewrite (segments_chunks KString true false (S (length (p ++ rest))) init_step p rest)
      by (try reflexivity; rewrite app_length; lia).
    rewrite (chunks_fuel (S (length (p ++ rest))) (S (length p)) init_step p)
      by (try reflexivity; rewrite ?app_length; lia).
    unfold seg_of, seg_begin, seg_end, seg_kind. f_equal.
    rewrite lenN_cons, !lenN_app. lia.
  - subst t. cbn [val] in Hlen. destruct Hlen as [Hm Hl].
    unfold encode_token. cbn [kind val enc_val app]. unfold decode_cmp_step.
    change ((KBytes =? KString) || (KBytes =? KBytes)) with true. cbv beta iota zeta.
    change (KBytes =? KString) with false.
    rewrite <- app_assoc.
    rewrite (read_len_complete maxlen false false (lenN p) _ (p ++ rest) (off + 1)
               (len_prefix_field maxlen (lenN p) Hm Hl)).
    rewrite (segments_chunks KBytes false false (S (length (p ++ rest))) init_step p rest)
      by (try reflexivity; rewrite app_length; lia).
    rewrite (chunks_fuel (S (length (p ++ rest))) (S (length p)) init_step p)
      by (try reflexivity; rewrite ?app_length; lia).
    unfold seg_of, seg_begin, seg_end, seg_kind. f_equal.
    rewrite lenN_cons, !lenN_app. lia.
  - pose proof (step_exact maxlen false t rest off Henc) as Hstep.
    unfold encode_token in *. cbn [app] in *. unfold decode_cmp_step.
    assert (E1 : (kind t =? KString) = false) by (apply N.eqb_neq; exact N1).
    assert (E2 : (kind t =? KBytes) = false) by (apply N.eqb_neq; exact N2).
    rewrite E1, E2. cbn [orb]. rewrite Hstep. reflexivity.
Qed.

Lemma decode_cmp_all_encode maxlen ts : Forall (wf_enc maxlen) ts -> forall f off,
  (length ts < f)%nat ->
  decode_cmp_all f maxlen false (encode ts) off = (segmentize ts, Done).
Proof.
  intros Hts. induction Hts as [|t ts Ht Hts IH]; intros f off Hf; (destruct f as [|f]; [lia|]).
  - reflexivity.
  - rewrite encode_cons. cbn [decode_cmp_all]. rewrite (decode_cmp_step_tok maxlen t _ off Ht).
    cbn [length] in Hf. rewrite IH by lia. reflexivity.
Qed.

Theorem decode_cmp_encode maxlen ts : Forall (wf_enc maxlen) ts ->
  decode_cmp maxlen (encode ts) = (segmentize ts, Done).
Proof.
  intros Hts. unfold decode_cmp. apply decode_cmp_all_encode; [exact Hts|].
  pose proof (encode_length_ge ts). lia.
Qed.

Lemma wf_route_enc maxlen t : wf_route t ->
  match val t with VStr s | VBytes s => lenN s <= maxlen | _ => True end -> wf_enc maxlen t.
Proof.
  intros [Hc Hl] Hm. split; [apply wf_cmp_token; exact Hc|].
  destruct (val t); try exact I; split; assumption.
Qed.

Lemma wf_route_cmps ts : Forall wf_route ts -> wf_cmps ts.
Proof. intros H. eapply Forall_impl; [|exact H]. intros t [Ht _]. exact Ht. Qed.

Theorem segmented_route maxlen a b : Forall wf_route a -> Forall wf_route b ->
  (forall t, In t (a ++ b) ->
     match val t with VStr s | VBytes s => lenN s <= maxlen | _ => True end) ->
  cmp_segmented maxlen (encode a) (encode b) = Some (lex a b).
Proof.
  intros Ha Hb Hm. unfold cmp_segmented.
  assert (Ea : Forall (wf_enc maxlen) a).
  { rewrite Forall_forall in *. intros t Ht. apply wf_route_enc; [apply Ha; exact Ht|].
    apply Hm. apply in_or_app. left. exact Ht. }
  assert (Eb : Forall (wf_enc maxlen) b).
  { rewrite Forall_forall in *. intros t Ht. apply wf_route_enc; [apply Hb; exact Ht|].
    apply Hm. apply in_or_app. right. exact Ht. }
  rewrite (decode_cmp_encode maxlen a Ea), (decode_cmp_encode maxlen b Eb). cbn [fst].
  rewrite (cmp_segmentize a b (wf_route_cmps a Ha) (wf_route_cmps b Hb)).
  apply cmp_is_lex; apply wf_route_cmps; assumption.
Qed.

Example segmented_route_ex :
  let a := [T KString (VStr (expand [(24, 7)])); T KNil VNone] in
  let b := [T KString (VStr (expand [(24, 7); (5, 1)]))] in
  Forall wf_route a /\ Forall wf_route b /\
  (forall t, In t (a ++ b) ->
     match val t with VStr s | VBytes s => lenN s <= 64 | _ => True end) /\
  cmp_segmented 64 (encode a) (encode b) = Some Lt /\
  cmp_bytes (encode a) (encode b) = CB Lt /\ cmp_tokens a b = Some Lt.
Proof.
  cbv zeta. split; [repeat constructor|]. split; [repeat constructor|]. split.
  - intros t Ht. cbn [app In] in Ht.
    destruct Ht as [<-|[<-|[<-|[]]]]; vm_compute; first [exact I | discriminate].
  - vm_compute. repeat split.
Qed.

(* the three routes agree with one another *)
Corollary routes_agree maxlen a b : Forall wf_route a -> Forall wf_route b ->
  (forall t, In t (a ++ b) ->
     match val t with VStr s | VBytes s => lenN s <= maxlen | _ => True end) ->
  exists c, cmp_tokens a b = Some c /\ cmp_bytes (encode a) (encode b) = CB c /\
            cmp_segmented maxlen (encode a) (encode b) = Some c.
Proof.
  intros Ha Hb Hm. exists (lex a b). split; [|split].
  - apply cmp_is_lex; apply wf_route_cmps; assumption.
  - apply bytes_route; assumption.
  - apply segmented_route; assumption.
Qed.

Print Assumptions cmp_is_lex.
Print Assumptions lex_refl.
Print Assumptions lex_antisym.
Print Assumptions lex_trans.
Print Assumptions lex_trans_lt.
Print Assumptions lex_trans_lt'.
Print Assumptions lex_eq_iff.
Print Assumptions tok_same_wf.
Print Assumptions lex_prefix.
Print Assumptions min_max.
Print Assumptions nan_payload_irreflexive.
Print Assumptions bytes_route.
Print Assumptions segments_like_unsplit.
Print Assumptions segments_prefix.
Print Assumptions decode_cmp_encode.
Print Assumptions segmented_route.
Print Assumptions routes_agree.
