(* Proofs/ConformP.v — C05: the declarative relation [Conforms] (Spec/ConformSpec.v) holds exactly
   when the executable unmarshaller [unm] succeeds, with the same value and the same rest. *)
From Coq Require Import List NArith ZArith Bool Lia ZifyBool ZifyNat ZifyN Arith.
From SbModel Require Import Spec.Conform Spec.ConformSpec Proofs.UnmarshalP.
Import ListNotations.
Local Open Scope N_scope.

(* ====================================================================================== *)
(* Part 0.  Small facts: kinds, the step after literal conversion                          *)
(* ====================================================================================== *)

Ltac split_orb H := repeat (apply orb_false_elim in H; let E := fresh "E" in destruct H as [E H]).
Ltac split_orb_l H := repeat (apply orb_false_elim in H; let E := fresh "E" in destruct H as [H E]).
Ltac use_eqbs k := repeat match goal with E : (k =? _) = false |- _ => rewrite E; clear E end.

Lemma plain_kind_route k : plain_kind k = true ->
  (k =? KNil) = false /\ is_end_kind k = false /\
  (k =? KNaN) = false /\ (k =? KBytes) = false /\ (k =? KArray) = false /\ (k =? KObject) = false /\
  (k =? KMap) = false /\ (k =? KTuple) = false /\ (k =? KTypeName) = false /\ (k =? KRef) = false /\
  (k =? KLiteral) = false.
Proof.
  unfold plain_kind, structural_kinds. cbn [existsb]. intros H. apply negb_true_iff in H. split_orb H.
  repeat split; try assumption. unfold is_end_kind. use_eqbs k. reflexivity.
Qed.

Lemma plain_kind_intro k :
  (k =? KNil) = false -> is_end_kind k = false ->
  (k =? KNaN) = false -> (k =? KBytes) = false -> (k =? KArray) = false -> (k =? KObject) = false ->
  (k =? KMap) = false -> (k =? KTuple) = false -> (k =? KTypeName) = false ->
  ((k =? KRef) || (k =? KLiteral)) = false -> plain_kind k = true.
Proof.
  unfold plain_kind, structural_kinds, is_end_kind. cbn [existsb].
  intros H1 H2 H3 H4 H5 H6 H7 H8 H9 H10. split_orb_l H2. split_orb H10. use_eqbs k. reflexivity.
Qed.

Lemma width_eqb_eq w w' : width_eqb w w' = true -> w = w'.
Proof. destruct w, w'; cbn; congruence. Qed.

Lemma width_eqb_refl w : width_eqb w w = true.
Proof. destruct w; reflexivity. Qed.

Lemma concrete_target_negb t :
  negb (match ptr_base t with TAny => true | _ => false end) = concrete_target t.
Proof. unfold concrete_target. destruct (ptr_base t); reflexivity. Qed.

(* a target that is not concrete is an interface or a pointer *)
Lemma not_concrete_cases t : concrete_target t = false ->
  underlying t = TAny \/ exists e, underlying t = TPtr e.
Proof.
  unfold concrete_target. induction t; cbn [ptr_base underlying]; try discriminate; intros H.
  - right. eexists. reflexivity.
  - left. reflexivity.
  - apply IHt, H.
Qed.

Lemma any_not_concrete t : underlying t = TAny -> concrete_target t = false.
Proof.
  unfold concrete_target. induction t; cbn [ptr_base underlying]; try discriminate; intros H.
  - reflexivity.
  - apply IHt, H.
Qed.

Section Tail.
Variable pf : bytes -> N -> option N.
Variable o : copts.
Variable R : registry.
Variable rec : rec_t.

(* what [ustep] does with the head token once a literal has been converted *)
Definition utail (t : ty) (cur : gval) (tk : token) (rest : list token) : res (gval * list token) :=
  if (kind tk =? KTypeName) && negb (match ptr_base t with TAny => true | _ => false end) then rec t cur rest
  else
  match underlying t with
  | TTime => time_case tk rest
  | ut =>
    if kind tk =? KNil then Ok (cur, rest)
    else if is_end_kind (kind tk) then Err EUnexpEndTok
    else ptr_or_dispatch o R rec t ut cur tk rest
  end.

Lemma ustep_cons t cur tk0 rest :
  ustep pf o R rec t cur (tk0 :: rest) = bind (conv_tok pf t tk0) (fun tk => utail t cur tk rest).
Proof. reflexivity. Qed.

Lemma conv_tok_nonlit t tk : (kind tk =? KLiteral) = false -> conv_tok pf t tk = Ok tk.
Proof. intros H. unfold conv_tok. rewrite H. reflexivity. Qed.

Lemma conv_tok_lit t s : conv_tok pf t (T KLiteral (VStr s)) = convert_literal pf t s.
Proof. reflexivity. Qed.

(* the converted token is a plain scalar token, except in front of a pointer *)
Lemma convert_literal_cases t s tk : convert_literal pf t s = Ok tk ->
  (exists e, underlying t = TPtr e /\ tk = T KLiteral (VStr s)) \/
  ((forall e, underlying t <> TPtr e) /\ (kind tk =? KLiteral) = false).
Proof.
  unfold convert_literal. destruct (underlying t); try discriminate.
  - destruct (parse_bool s); [|discriminate]. intros [= <-]. right. split; [discriminate|reflexivity].
  - destruct (parse_int _ s); [|discriminate]. intros [= <-]. right. split; [discriminate|]. destruct w; reflexivity.
  - destruct (parse_uint _ s); [|discriminate]. intros [= <-]. right. split; [discriminate|]. destruct w; reflexivity.
  - destruct (parse_uint _ s); [|discriminate]. intros [= <-]. right. split; [discriminate|reflexivity].
  - destruct (pf s 32); [|discriminate]. intros [= <-]. right. split; [discriminate|reflexivity].
  - destruct (pf s 64); [|discriminate]. intros [= <-]. right. split; [discriminate|reflexivity].
  - intros [= <-]. right. split; [discriminate|reflexivity].
  - intros [= <-]. left. eexists. split; reflexivity.
Qed.

(* the step on a token that is not a literal, for a target that is neither time.Time nor a pointer,
   once Nil, the end markers and the skipped TypeName are out of the way: the dispatch on the kind *)
Lemma utail_dispatch t cur tk rest :
  underlying t <> TTime -> (forall e, underlying t <> TPtr e) ->
  (kind tk = KTypeName -> concrete_target t = false) ->
  (kind tk =? KNil) = false -> is_end_kind (kind tk) = false ->
  utail t cur tk rest = dispatch o R rec t (underlying t) cur tk rest.
Proof.
  intros Ht Hp Htn Hn He. unfold utail. rewrite Hn, He.
  assert (Hc : ((kind tk =? KTypeName) && negb match ptr_base t with TAny => true | _ => false end) = false).
  { destruct (kind tk =? KTypeName) eqn:E; [|reflexivity]. apply N.eqb_eq in E. specialize (Htn E).
    unfold concrete_target in Htn. cbn [andb]. destruct (ptr_base t); try discriminate. reflexivity. }
  rewrite Hc. unfold ptr_or_dispatch.
  destruct (underlying t) eqn:Hu; try reflexivity; [exfalso; eapply Hp; reflexivity|congruence].
Qed.

End Tail.

(* ====================================================================================== *)
(* Part 1.  Completeness: every successful run of [unm] is a derivation of [Conforms]      *)
(* ====================================================================================== *)

Section Complete.
Variable pf : bytes -> N -> option N.
Variable o : copts.
Variable R : registry.
Variable rec : rec_t.
Hypothesis Hrec : forall t cur ts v rest, rec t cur ts = Ok (v, rest) -> Conforms pf o R t cur ts v rest.
Hypothesis Hstr : forall s0 ts v rest, rec TString (GStr s0) ts = Ok (v, rest) -> exists s, v = GStr s.

Ltac end_token Hk tk :=
  apply N.eqb_eq in Hk; destruct tk as [?k ?x]; cbn [kind] in Hk; subst.

Lemma arr_loop_complete : forall g e items idx ts items' rest,
  arr_loop rec g e items idx ts = Ok (items', rest) -> ConformsArr pf o R e items idx ts items' rest.
Proof.
  induction g as [|g IH]; intros e items idx ts items' rest; cbn [arr_loop]; [discriminate|].
  destruct ts as [|tk ts].
  { destruct (Nat.leb (length items) idx); [discriminate|]. destruct (rec _ _ _); cbn [bind]; discriminate. }
  destruct (kind tk =? KArrayEnd) eqn:Hk.
  { intros [= <- <-]. end_token Hk tk. apply CA_end. }
  destruct (Nat.leb (length items) idx) eqn:Hl; [discriminate|].
  intros H. apply bind_ok in H. destruct H as ([v ts1] & Hr & H). cbn [fst snd] in H.
  eapply CA_item; [apply N.eqb_neq; exact Hk|apply Nat.leb_gt; exact Hl|apply Hrec; exact Hr|apply IH; exact H].
Qed.

Lemma slice_loop_complete : forall g e acc ts r rest,
  slice_loop rec g e acc ts = Ok (r, rest) ->
  exists items, r = acc ++ items /\ ConformsSeq pf o R KArrayEnd e ts items rest.
Proof.
  induction g as [|g IH]; intros e acc ts r rest; cbn [slice_loop]; [discriminate|].
  destruct ts as [|tk ts].
  { destruct (rec _ _ _); cbn [bind]; discriminate. }
  destruct (kind tk =? KArrayEnd) eqn:Hk.
  { intros [= <- <-]. end_token Hk tk. exists []. split; [symmetry; apply app_nil_r|apply CS_end]. }
  intros H. apply bind_ok in H. destruct H as ([v ts1] & Hr & H). cbn [fst snd] in H.
  destruct (IH _ _ _ _ _ H) as (items & -> & Hi).
  exists (v :: items). split; [rewrite <- app_assoc; reflexivity|].
  eapply CS_item; [apply N.eqb_neq; exact Hk|apply Hrec; exact Hr|exact Hi].
Qed.

Lemma struct_loop_complete : forall g fs depr vals ts vals' rest,
  struct_loop o rec g fs depr vals ts = Ok (vals', rest) ->
  ConformsFields pf o R fs depr vals ts vals' rest.
Proof.
  induction g as [|g IH]; intros fs depr vals ts vals' rest; cbn [struct_loop]; [discriminate|].
  destruct ts as [|tk ts]; [discriminate|].
  destruct (kind tk =? KObjectEnd) eqn:Hk.
  { intros [= <- <-]. end_token Hk tk. apply CF_end. }
  apply N.eqb_neq in Hk.
  intros H. apply bind_ok in H. destruct H as ([nv ts1] & Hn & H). cbn [fst snd] in H.
  destruct (Hstr _ _ _ _ Hn) as (name & ->). apply Hrec in Hn.
  destruct (find_field name fs 0) as [[i ft]|] eqn:Hf.
  - apply bind_ok in H. destruct H as ([v ts2] & Hv & H). cbn [fst snd] in H.
    eapply CF_field; [exact Hk|exact Hn|exact Hf|apply Hrec; exact Hv|apply IH; exact H].
  - destruct (strict o && negb (existsb (bytes_eqb name) depr)) eqn:Hs; [discriminate|].
    apply bind_ok in H. destruct H as (ts2 & Hsk & H).
    eapply CF_skip; [exact Hk|exact Hn|exact Hf| |exact Hsk|apply IH; exact H].
    intros Hst. rewrite Hst in Hs. cbn [andb] in Hs. apply negb_false_iff in Hs. exact Hs.
Qed.

Lemma newstruct_loop_complete : forall g fs vals ts v rest,
  newstruct_loop rec g fs vals ts = Ok (v, rest) ->
  ConformsNewStruct pf o R fs vals ts v rest.
Proof.
  induction g as [|g IH]; intros fs vals ts v rest; cbn [newstruct_loop]; [discriminate|].
  destruct ts as [|tk ts]; [discriminate|].
  destruct (kind tk =? KObjectEnd) eqn:Hk.
  { intros [= <- <-]. end_token Hk tk. apply CN_end. }
  apply N.eqb_neq in Hk.
  intros H. apply bind_ok in H. destruct H as ([nv ts1] & Hn & H). cbn [fst snd] in H.
  destruct (Hstr _ _ _ _ Hn) as (name & ->). apply Hrec in Hn.
  destruct (negb (is_exported_ident name)) eqn:Hx; [discriminate|]. apply negb_false_iff in Hx.
  destruct (existsb (fun fd => bytes_eqb (fname fd) name) fs) eqn:Hd; [discriminate|].
  apply bind_ok in H. destruct H as ([fv ts2] & Hv & H). cbn [fst snd] in H.
  destruct fv as [| | | | | | | | | | |[[vt x]|]| |]; try discriminate.
  eapply CN_field; [exact Hk|exact Hn|exact Hx|exact Hd|apply Hrec; exact Hv|apply IH; exact H].
Qed.

Lemma map_loop_complete : forall g kt vt isnil m ts v rest,
  map_loop rec g kt vt isnil m ts = Ok (v, rest) ->
  ConformsEntries pf o R kt vt isnil m ts v rest.
Proof.
  induction g as [|g IH]; intros kt vt isnil m ts v rest; cbn [map_loop]; [discriminate|].
  destruct ts as [|tk ts].
  { destruct (rec _ _ _); cbn [bind]; discriminate. }
  destruct (kind tk =? KMapEnd) eqn:Hk.
  { intros [= <- <-]. end_token Hk tk. apply CM_end. }
  apply N.eqb_neq in Hk.
  intros H. apply bind_ok in H. destruct H as ([k ts1] & Hkr & H). cbn [fst snd] in H.
  destruct (negb (comparable_val (iface_key kt k))) eqn:Hc; [discriminate|]. apply negb_false_iff in Hc.
  apply bind_ok in H. destruct H as ([x ts2] & Hv & H). cbn [fst snd] in H.
  eapply CM_entry; [exact Hk|apply Hrec; exact Hkr|exact Hc|apply Hrec; exact Hv|apply IH; exact H].
Qed.

Lemma genmap_loop_complete : forall g m ts v rest,
  genmap_loop rec g m ts = Ok (v, rest) ->
  ConformsGenEntries pf o R m ts v rest.
Proof.
  induction g as [|g IH]; intros m ts v rest; cbn [genmap_loop]; [discriminate|].
  destruct ts as [|tk ts]; [discriminate|].
  destruct (kind tk =? KMapEnd) eqn:Hk.
  { intros [= <- <-]. end_token Hk tk. apply CG_end. }
  apply N.eqb_neq in Hk.
  intros H. apply bind_ok in H. destruct H as ([k ts1] & Hkr & H). cbn [fst snd] in H.
  destruct (to_comparable k) as [| | | | | | | | | | |[[kt kv]|]| |] eqn:Hkey; try discriminate.
  destruct (negb (comparable_ty kt)) eqn:Hc; [discriminate|]. apply negb_false_iff in Hc.
  fold (nan_key kv) in H. destruct (nan_key kv) eqn:Hnan; [discriminate|].
  apply bind_ok in H. destruct H as ([x ts2] & Hv & H). cbn [fst snd] in H.
  eapply CG_entry; [exact Hk|apply Hrec; exact Hkr|exact Hkey|exact Hc|exact Hnan|apply Hrec; exact Hv|].
  rewrite Hkey. apply IH. exact H.
Qed.

(* the tuple loop only ever appends *)
Lemma tuple_loop_grows : forall g outs tys vals ts outs' vals' tys' rest,
  tuple_loop rec g outs tys vals ts = Ok (outs', vals', tys', rest) -> (length vals <= length vals')%nat.
Proof.
  induction g as [|g IH]; intros outs tys vals ts outs' vals' tys' rest; cbn [tuple_loop]; [discriminate|].
  destruct ts as [|tk ts]; [discriminate|].
  destruct (kind tk =? KTupleEnd); [intros [= _ <- _ _]; lia|].
  destruct outs as [|ot outs2]; intros H; apply bind_ok in H; destruct H as ([v ts1] & _ & H);
    apply IH in H; rewrite app_length in H; cbn [length] in H; lia.
Qed.

(* a func target: the loop ends with every declared result filled and nothing more *)
Lemma tuple_loop_complete : forall g outs tys vals ts vals' tys' rest,
  tuple_loop rec g outs tys vals ts = Ok ([], vals', tys', rest) ->
  length vals' = (length vals + length outs)%nat ->
  exists items, vals' = vals ++ items /\ ConformsOuts pf o R outs ts items rest.
Proof.
  induction g as [|g IH]; intros outs tys vals ts vals' tys' rest; cbn [tuple_loop]; [discriminate|].
  destruct ts as [|tk ts]; [discriminate|].
  destruct (kind tk =? KTupleEnd) eqn:Hk.
  { intros [= -> <- _ <-] _. end_token Hk tk. exists []. split; [symmetry; apply app_nil_r|apply CO_end]. }
  apply N.eqb_neq in Hk.
  destruct outs as [|ot outs2]; intros H Hlen; apply bind_ok in H; destruct H as ([v ts1] & Hr & H); cbn [fst snd] in H.
  - apply tuple_loop_grows in H. rewrite app_length in H. cbn [length] in *. lia.
  - destruct (IH _ _ _ _ _ _ _ H) as (items & -> & Hi).
    { rewrite app_length. cbn [length] in *. lia. }
    exists (v :: items). split; [rewrite <- app_assoc; reflexivity|].
    eapply CO_item; [exact Hk|apply Hrec; exact Hr|exact Hi].
Qed.

(* an interface target: every value is decoded as an interface *)
Lemma tuple_loop_any_complete : forall g tys vals ts outs' vals' tys' rest,
  tuple_loop rec g [] tys vals ts = Ok (outs', vals', tys', rest) ->
  exists items, vals' = vals ++ map dyn_val items /\ tys' = tys ++ map dyn_ty items /\
                ConformsSeq pf o R KTupleEnd TAny ts items rest.
Proof.
  induction g as [|g IH]; intros tys vals ts outs' vals' tys' rest; cbn [tuple_loop]; [discriminate|].
  destruct ts as [|tk ts]; [discriminate|].
  destruct (kind tk =? KTupleEnd) eqn:Hk.
  { intros [= _ <- <- <-]. end_token Hk tk. exists []. cbn [map]. rewrite !app_nil_r. repeat split. apply CS_end. }
  apply N.eqb_neq in Hk.
  intros H. apply bind_ok in H. destruct H as ([v ts1] & Hr & H). cbn [fst snd] in H.
  destruct (IH _ _ _ _ _ _ _ H) as (items & -> & -> & Hi).
  exists (v :: items). cbn [map]. rewrite <- !app_assoc. repeat split.
  eapply CS_item; [exact Hk|apply Hrec; exact Hr|exact Hi].
Qed.

(* ---- the dispatch on the token kind ---- *)
Lemma dispatch_complete t ut cur tk rest v rest' :
  underlying t = ut -> ut <> TTime -> (forall e, ut <> TPtr e) ->
  (kind tk =? KNil) = false -> is_end_kind (kind tk) = false -> (kind tk =? KLiteral) = false ->
  (kind tk = KTypeName -> concrete_target t = false) ->
  dispatch o R rec t ut cur tk rest = Ok (v, rest') ->
  Conforms pf o R t cur (tk :: rest) v rest'.
Proof.
  intros Hut Htime Hptr Hnil Hend Hlit Htn. destruct tk as [k x]. cbn [kind] in *.
  unfold dispatch. cbn [kind].
  destruct (k =? KNaN) eqn:E1.
  { apply N.eqb_eq in E1. subst k. unfold nan_case.
    destruct ut; try discriminate; intros [= <- <-];
      [apply C_nan32|apply C_nan64|apply A_nan]; exact Hut. }
  destruct (k =? KBytes) eqn:E2.
  { apply N.eqb_eq in E2. subst k. unfold bytes_case. cbn [val kind].
    destruct ut; try discriminate; destruct x as [| | | | | | | |s]; try discriminate.
    - intros [= <- <-]. apply C_bytes; exact Hut.
    - match goal with |- context [Nat.ltb ?a ?b] => destruct (Nat.ltb a b) eqn:Hlt; [discriminate|] end.
      apply Nat.ltb_ge in Hlt. intros [= <- <-]. rewrite firstn_all2 by exact Hlt.
      eapply C_bytes_array; [exact Hut|exact Hlt].
    - intros [= <- <-]. apply A_bytes; exact Hut. }
  destruct (k =? KArray) eqn:E3.
  { apply N.eqb_eq in E3. subst k. unfold array_case.
    destruct ut; try discriminate; intros H; apply bind_ok in H; destruct H as ([items r] & Hl & H);
      cbn [fst snd] in H; injection H as <- <-.
    - destruct (slice_loop_complete _ _ _ _ _ _ Hl) as (its & -> & Hi). apply C_slice_bytes; assumption.
    - apply arr_loop_complete in Hl. eapply C_array_bytes; eassumption.
    - apply arr_loop_complete in Hl. eapply C_array; eassumption.
    - destruct (slice_loop_complete _ _ _ _ _ _ Hl) as (its & -> & Hi). eapply C_slice; eassumption.
    - destruct (slice_loop_complete _ _ _ _ _ _ Hl) as (its & -> & Hi). cbn [app]. apply A_array; assumption. }
  destruct (k =? KObject) eqn:E4.
  { apply N.eqb_eq in E4. subst k. unfold object_case.
    destruct ut; try discriminate; intros H.
    - apply bind_ok in H. destruct H as ([vals r] & Hl & H). cbn [fst snd] in H. injection H as <- <-.
      apply struct_loop_complete in Hl. eapply C_struct; [exact Hut|exact Hl].
    - apply newstruct_loop_complete in H. apply A_object; assumption. }
  destruct (k =? KMap) eqn:E5.
  { apply N.eqb_eq in E5. subst k. unfold map_case.
    destruct ut; try discriminate; intros H.
    - eapply C_map; [exact Hut|].
      destruct cur; eapply map_loop_complete; exact H.
    - apply genmap_loop_complete in H. apply A_map; assumption. }
  destruct (k =? KTuple) eqn:E6.
  { apply N.eqb_eq in E6. subst k. unfold tuple_case.
    destruct ut; try discriminate; intros H; apply bind_ok in H;
      destruct H as ([[[outs' vals] tys] r] & Hl & H).
    - destruct (tuple_loop_any_complete _ _ _ _ _ _ _ _ Hl) as (items & -> & -> & Hi). cbn [app] in H.
      destruct (Nat.ltb 50 (length (map dyn_val items))) eqn:H50; [discriminate|]. injection H as <- <-.
      apply Nat.ltb_ge in H50. rewrite map_length in H50. apply A_tuple; assumption.
    - destruct outs' as [|? ?]; [|discriminate].
      destruct (Nat.ltb 50 (length vals)) eqn:H50; [discriminate|]. apply Nat.ltb_ge in H50.
      match type of H with context [Nat.eqb ?a ?b] => destruct (Nat.eqb a b) eqn:Hlen; [|discriminate] end.
      apply Nat.eqb_eq in Hlen. injection H as <- <-.
      destruct (tuple_loop_complete _ _ _ _ _ _ _ _ Hl) as (items & -> & Hi); [cbn [length]; lia|].
      cbn [app] in *. eapply C_func; [exact Hut|lia|exact Hi]. }
  destruct (k =? KTypeName) eqn:E7.
  { apply N.eqb_eq in E7. subst k. specialize (Htn eq_refl).
    destruct (not_concrete_cases t Htn) as [Ha|(e & He)]; [|exfalso; rewrite He in Hut; eapply Hptr; symmetry; exact Hut].
    rewrite Ha in Hut. subst ut. unfold typename_case. cbn [val].
    destruct x as [| | | | | | |name|];
      try (intros H; apply A_typename_unknown; [exact Ha|discriminate|apply Hrec; exact H]).
    destruct (reg_lookup R name) as [rt|] eqn:Hrt; intros H.
    - apply bind_ok in H. destruct H as ([v' r] & Hr & H). cbn [fst snd] in H. injection H as <- <-.
      apply A_typename_registered; [exact Ha|exact Hrt|apply Hrec; exact Hr].
    - apply A_typename_unknown; [exact Ha| |apply Hrec; exact H]. intros n [= <-]. exact Hrt. }
  unfold scalar_case. cbn [val kind].
  destruct ((k =? KRef) || (k =? KLiteral)) eqn:E8.
  { destruct x; discriminate. }
  assert (Hplain : plain_kind k = true) by (apply plain_kind_intro; assumption).
  destruct ut; try (exfalso; apply Htime; reflexivity); try (exfalso; eapply Hptr; reflexivity);
    try (match goal with |- context [any_of_token] => idtac end;
         destruct x; try discriminate;
         match goal with |- context [any_of_token ?tk] => destruct (any_of_token tk) as [d|] eqn:Hd end;
         try discriminate; intros [= <- <-]; apply A_scalar; assumption).
  all: unfold set_scalar; cbn [val kind]; rewrite Hut; destruct x; try discriminate.
  all: try (intros [= <- <-]).
  - apply C_bool; assumption.
  - match goal with |- context [width_eqb ?a ?b] => destruct (width_eqb a b) eqn:Hw; [|discriminate] end.
    apply width_eqb_eq in Hw. subst. intros [= <- <-]. apply C_int; assumption.
  - match goal with |- context [width_eqb ?a ?b] => destruct (width_eqb a b) eqn:Hw; [|discriminate] end.
    apply width_eqb_eq in Hw. subst. intros [= <- <-]. apply C_uint; assumption.
  - apply C_uintptr; assumption.
  - apply C_f32; assumption.
  - apply C_f64; assumption.
  - destruct (k =? KString) eqn:Hs; [|discriminate]. apply N.eqb_eq in Hs. subst k.
    intros [= <- <-]. apply C_string; assumption.
Qed.

(* ---- the step on the (converted) head token ---- *)
Lemma utail_complete t cur tk rest v rest' :
  ((kind tk =? KLiteral) = false \/ exists e, underlying t = TPtr e) ->
  utail o R rec t cur tk rest = Ok (v, rest') -> Conforms pf o R t cur (tk :: rest) v rest'.
Proof.
  intros Hlit. unfold utail. rewrite concrete_target_negb.
  destruct ((kind tk =? KTypeName) && concrete_target t) eqn:Hskip.
  { apply andb_true_iff in Hskip. destruct Hskip as [Hk Hc]. intros H.
    apply N.eqb_eq in Hk. destruct tk as [k x]. cbn [kind] in Hk. subst k.
    apply C_typename_skip; [exact Hc|apply Hrec; exact H]. }
  assert (Htn : kind tk = KTypeName -> concrete_target t = false).
  { intros E. rewrite E in Hskip. exact Hskip. }
  destruct (underlying t) eqn:Hu.
  18: { unfold time_case. destruct tk as [k x]. cbn [kind val].
        destruct (k =? KString) eqn:Hk; [|discriminate]. apply N.eqb_eq in Hk. subst k.
        destruct x as [| | | | | | |s|]; try discriminate. destruct (valid_time_enc s) eqn:Hv; [|discriminate].
        intros [= <- <-]. apply C_time; assumption. }
  all: destruct (kind tk =? KNil) eqn:Hnil;
    [intros [= <- <-]; apply N.eqb_eq in Hnil; destruct tk as [k x]; cbn [kind] in Hnil; subst k;
     apply C_nil; congruence|].
  all: destruct (is_end_kind (kind tk)) eqn:Hend; [discriminate|].
  all: unfold ptr_or_dispatch.
  14: { intros H. apply bind_ok in H. destruct H as ([v' r] & Hr & H). cbn [fst snd] in H. injection H as <- <-.
        eapply C_ptr; [exact Hu|apply N.eqb_neq; exact Hnil|exact Htn|apply Hrec; exact Hr]. }
  all: intros H; eapply dispatch_complete; try exact H; try exact Hu; try assumption; try discriminate.
  all: destruct Hlit as [Hl|(e & He)]; [exact Hl|discriminate].
Qed.

Lemma ustep_complete t cur ts v rest :
  ustep pf o R rec t cur ts = Ok (v, rest) -> Conforms pf o R t cur ts v rest.
Proof.
  destruct ts as [|tk0 ts].
  { unfold ustep. destruct (underlying t); discriminate. }
  rewrite ustep_cons. destruct (kind tk0 =? KLiteral) eqn:El.
  - apply N.eqb_eq in El. destruct tk0 as [k x]. cbn [kind] in El. subst k.
    destruct x; try discriminate. rewrite conv_tok_lit.
    intros H. apply bind_ok in H. destruct H as (tk & Hc & H).
    destruct (convert_literal_cases pf _ _ _ Hc) as [(e & He & ->)|[Hnp Hk]].
    + apply utail_complete; [right; eexists; exact He|exact H].
    + eapply C_literal; [exact Hnp|exact Hc|]. apply utail_complete; [left; exact Hk|exact H].
  - rewrite conv_tok_nonlit by exact El. cbn [bind]. apply utail_complete. left. exact El.
Qed.

End Complete.

(* the name of an object field is decoded into a string target: the result is a string *)
Section StringResult.
Variable pf : bytes -> N -> option N.
Variable o : copts.
Variable R : registry.
Variable rec : rec_t.
Hypothesis Hstr : forall s0 ts v rest, rec TString (GStr s0) ts = Ok (v, rest) -> exists s, v = GStr s.

Lemma ustep_string_result s0 ts v rest :
  ustep pf o R rec TString (GStr s0) ts = Ok (v, rest) -> exists s, v = GStr s.
Proof.
  destruct ts as [|tk0 ts]; [discriminate|].
  rewrite ustep_cons. intros H. apply bind_ok in H. destruct H as (tk & _ & H). revert H.
  unfold utail. cbn [ptr_base underlying negb]. rewrite andb_true_r.
  destruct (kind tk =? KTypeName) eqn:E7; [apply Hstr|].
  destruct (kind tk =? KNil); [intros [= <- _]; eexists; reflexivity|].
  destruct (is_end_kind (kind tk)); [discriminate|].
  unfold ptr_or_dispatch, dispatch. rewrite E7.
  destruct (kind tk =? KNaN); [discriminate|].
  destruct (kind tk =? KBytes); [unfold bytes_case; destruct (val tk); discriminate|].
  destruct (kind tk =? KArray); [discriminate|].
  destruct (kind tk =? KObject); [discriminate|].
  destruct (kind tk =? KMap); [discriminate|].
  destruct (kind tk =? KTuple); [discriminate|].
  unfold scalar_case, set_scalar. cbn [underlying].
  destruct (val tk); try discriminate; (destruct ((kind tk =? KRef) || (kind tk =? KLiteral)); [discriminate|]);
    try discriminate.
  destruct (kind tk =? KString); [|discriminate]. intros [= <- _]. eexists; reflexivity.
Qed.
End StringResult.

Lemma unm_string_result pf o R : forall f s0 ts v rest,
  unm pf f o R TString (GStr s0) ts = Ok (v, rest) -> exists s, v = GStr s.
Proof.
  induction f as [|f IH]; intros s0 ts v rest; [rewrite unm_O; discriminate|].
  rewrite unm_S. apply ustep_string_result. exact IH.
Qed.

Theorem conforms_complete pf o R : forall f t cur ts v rest,
  unm pf f o R t cur ts = Ok (v, rest) -> Conforms pf o R t cur ts v rest.
Proof.
  induction f as [|f IH]; intros t cur ts v rest; [rewrite unm_O; discriminate|].
  rewrite unm_S. apply ustep_complete; [exact IH|apply unm_string_result].
Qed.

(* ====================================================================================== *)
(* Part 2.  Soundness: every derivation of [Conforms] is a successful run of [unm]         *)
(* ====================================================================================== *)

Scheme Conforms_mind := Minimality for Conforms Sort Prop
  with ConformsArr_mind := Minimality for ConformsArr Sort Prop
  with ConformsSeq_mind := Minimality for ConformsSeq Sort Prop
  with ConformsFields_mind := Minimality for ConformsFields Sort Prop
  with ConformsEntries_mind := Minimality for ConformsEntries Sort Prop
  with ConformsOuts_mind := Minimality for ConformsOuts Sort Prop
  with ConformsNewStruct_mind := Minimality for ConformsNewStruct Sort Prop
  with ConformsGenEntries_mind := Minimality for ConformsGenEntries Sort Prop.

Combined Scheme Conforms_mutind from Conforms_mind, ConformsArr_mind, ConformsSeq_mind, ConformsFields_mind,
  ConformsEntries_mind, ConformsOuts_mind, ConformsNewStruct_mind, ConformsGenEntries_mind.

Ltac big f Hf := destruct f as [|f]; [exfalso; lia|].
Ltac side Hu :=
  first [ reflexivity
        | (let e := fresh "e" in intros e; rewrite Hu; let E := fresh "E" in intros E; discriminate E)
        | (rewrite Hu; let E := fresh "E" in intros E; discriminate E)
        | (let E := fresh "E" in intros E; cbn [kind] in E; discriminate E) ].
Ltac disp := cbv beta iota zeta delta [dispatch nan_case bytes_case array_case object_case map_case tuple_case
  typename_case kind val N.eqb Pos.eqb KNaN KBytes KArray KObject KMap KTuple KTypeName].


Section Sound.
Variable pf : bytes -> N -> option N.
Variable o : copts.
Variable R : registry.

Notation U := (fun f => unm pf f o R).

(* "for every large enough fuel": the form in which the fuels of several premises are aligned *)
Definition SP (t : ty) (cur : gval) (ts : list token) (v : gval) (rest : list token) : Prop :=
  exists f0, forall f, (f0 <= f)%nat -> unm pf f o R t cur ts = Ok (v, rest).
Definition SArr (e : ty) (items : list gval) (idx : nat) (ts : list token) (items' : list gval) (rest : list token) : Prop :=
  exists f0, forall f, (f0 <= f)%nat -> forall g, (length ts < g)%nat ->
    arr_loop (U f) g e items idx ts = Ok (items', rest).
Definition SSeq (endk : N) (e : ty) (ts : list token) (items : list gval) (rest : list token) : Prop :=
  exists f0, forall f, (f0 <= f)%nat -> forall g, (length ts < g)%nat ->
    (endk = KArrayEnd -> forall acc, slice_loop (U f) g e acc ts = Ok (acc ++ items, rest)) /\
    (endk = KTupleEnd -> e = TAny -> forall tys vals,
       tuple_loop (U f) g [] tys vals ts = Ok ([], vals ++ map dyn_val items, tys ++ map dyn_ty items, rest)).
Definition SFields (fs : list (bytes * bool * ty)) (depr : list bytes) (vals : list gval) (ts : list token)
  (vals' : list gval) (rest : list token) : Prop :=
  exists f0, forall f, (f0 <= f)%nat -> forall g, (length ts < g)%nat ->
    struct_loop o (U f) g fs depr vals ts = Ok (vals', rest).
Definition SEntries (kt vt : ty) (isnil : bool) (m : list (gval * gval)) (ts : list token) (v : gval) (rest : list token) : Prop :=
  exists f0, forall f, (f0 <= f)%nat -> forall g, (length ts < g)%nat ->
    map_loop (U f) g kt vt isnil m ts = Ok (v, rest).
Definition SOuts (outs : list ty) (ts : list token) (items : list gval) (rest : list token) : Prop :=
  length items = length outs /\
  exists f0, forall f, (f0 <= f)%nat -> forall g, (length ts < g)%nat -> forall tys vals,
    tuple_loop (U f) g outs tys vals ts = Ok ([], vals ++ items, tys ++ outs, rest).
Definition SNew (fs : list (bytes * bool * ty)) (vals : list gval) (ts : list token) (v : gval) (rest : list token) : Prop :=
  exists f0, forall f, (f0 <= f)%nat -> forall g, (length ts < g)%nat ->
    newstruct_loop (U f) g fs vals ts = Ok (v, rest).
Definition SGen (m : list (gval * gval)) (ts : list token) (v : gval) (rest : list token) : Prop :=
  exists f0, forall f, (f0 <= f)%nat -> forall g, (length ts < g)%nat ->
    genmap_loop (U f) g m ts = Ok (v, rest).

(* ---- one step of [unm] on a head token ---- *)
Lemma unm_head f t cur tk rest : (kind tk =? KLiteral) = false ->
  unm pf (S f) o R t cur (tk :: rest) = utail o R (unm pf f o R) t cur tk rest.
Proof. intros H. rewrite unm_S, ustep_cons, conv_tok_nonlit by exact H. reflexivity. Qed.

Lemma unm_dispatch f t cur tk rest :
  (kind tk =? KLiteral) = false -> underlying t <> TTime -> (forall e, underlying t <> TPtr e) ->
  (kind tk = KTypeName -> concrete_target t = false) ->
  (kind tk =? KNil) = false -> is_end_kind (kind tk) = false ->
  unm pf (S f) o R t cur (tk :: rest) = dispatch o R (unm pf f o R) t (underlying t) cur tk rest.
Proof. intros H1 H2 H3 H4 H5 H6. rewrite unm_head by exact H1. apply utail_dispatch; assumption. Qed.

Lemma unm_ok_not_end f t cur tk rest x :
  unm pf f o R t cur (tk :: rest) = Ok x -> is_end_kind (kind tk) = false.
Proof.
  destruct f as [|f]; [rewrite unm_O; discriminate|]. intros H.
  destruct (is_end_kind (kind tk)) eqn:He; [|reflexivity]. exfalso.
  assert (Ht : underlying t = TTime \/ underlying t <> TTime).
  { destruct (underlying t); try (right; intros E; discriminate E). left; reflexivity. }
  destruct Ht as [Ht|Ht].
  - rewrite (end_token_time pf o R f t cur tk rest Ht He) in H. discriminate.
  - rewrite (end_token_rejected pf o R f t cur tk rest Ht He) in H. discriminate.
Qed.

Lemma unm_ok_literal f t cur tk rest x :
  unm pf f o R t cur (tk :: rest) = Ok x -> (kind tk =? KLiteral) = true -> exists s, tk = T KLiteral (VStr s).
Proof.
  destruct f as [|f]; [rewrite unm_O; discriminate|]. rewrite unm_S, ustep_cons. intros H Hl.
  apply N.eqb_eq in Hl. destruct tk as [k y]. cbn [kind] in Hl. subst k.
  destruct y; try discriminate. eexists; reflexivity.
Qed.

Lemma utail_ptr rec t e cur tk rest :
  underlying t = TPtr e -> (kind tk =? KNil) = false -> is_end_kind (kind tk) = false ->
  (kind tk = KTypeName -> concrete_target t = false) ->
  utail o R rec t cur tk rest = bind (rec e (zero e) (tk :: rest)) (fun r => Ok (GPtr (Some (fst r)), snd r)).
Proof.
  intros Hu Hn He Htn. unfold utail. rewrite concrete_target_negb.
  assert (Hc : ((kind tk =? KTypeName) && concrete_target t) = false).
  { destruct (kind tk =? KTypeName) eqn:E; [|reflexivity]. apply N.eqb_eq in E. rewrite (Htn E). reflexivity. }
  rewrite Hc, Hu, Hn, He. reflexivity.
Qed.

(* ---- rules for every target ---- *)
Lemma s_nil t cur x rest : underlying t <> TTime -> SP t cur (T KNil x :: rest) cur rest.
Proof.
  intros Ht. exists 1%nat. intros f Hf. big f Hf. rewrite unm_head by reflexivity.
  unfold utail. cbn [kind]. change (KNil =? KTypeName) with false. cbn [andb].
  destruct (underlying t); try reflexivity. congruence.
Qed.

Lemma s_typename_skip t cur x ts v rest :
  concrete_target t = true -> SP t cur ts v rest -> SP t cur (T KTypeName x :: ts) v rest.
Proof.
  intros Hc (f0 & H). exists (S f0). intros f Hf. big f Hf. rewrite unm_head by reflexivity.
  unfold utail. rewrite concrete_target_negb, Hc. cbn [kind]. change (KTypeName =? KTypeName) with true.
  cbn [andb]. apply H. lia.
Qed.

Lemma s_literal t cur s tk ts v rest :
  (forall e, underlying t <> TPtr e) -> convert_literal pf t s = Ok tk ->
  SP t cur (tk :: ts) v rest -> SP t cur (T KLiteral (VStr s) :: ts) v rest.
Proof.
  intros Hp Hc (f0 & H). exists (S f0). intros f Hf. big f Hf.
  destruct (convert_literal_cases pf _ _ _ Hc) as [(e & He & _)|[_ Hk]]; [exfalso; eapply Hp; exact He|].
  rewrite unm_S, ustep_cons, conv_tok_lit, Hc. cbn [bind].
  rewrite <- (H (S f)) by lia. rewrite unm_head by exact Hk. reflexivity.
Qed.

Lemma s_ptr t e cur tk ts v rest :
  underlying t = TPtr e -> kind tk <> KNil -> (kind tk = KTypeName -> concrete_target t = false) ->
  SP e (zero e) (tk :: ts) v rest -> SP t cur (tk :: ts) (GPtr (Some v)) rest.
Proof.
  intros Hu Hn Htn (f0 & H). exists (S f0). intros f Hf. big f Hf.
  assert (Hr : unm pf f o R e (zero e) (tk :: ts) = Ok (v, rest)) by (apply H; lia).
  pose proof (unm_ok_not_end _ _ _ _ _ _ Hr) as He.
  assert (Hc : conv_tok pf t tk = Ok tk).
  { destruct (kind tk =? KLiteral) eqn:Hl; [|apply conv_tok_nonlit; exact Hl].
    destruct (unm_ok_literal _ _ _ _ _ _ Hr Hl) as (s & ->). rewrite conv_tok_lit.
    unfold convert_literal. rewrite Hu. reflexivity. }
  rewrite unm_S, ustep_cons, Hc. cbn [bind].
  rewrite (utail_ptr _ t e) by (try assumption; apply N.eqb_neq; exact Hn).
  rewrite Hr. reflexivity.
Qed.

(* ---- scalars ---- *)
Ltac scalar_sound Hu Hp :=
  exists 1%nat; intros f Hf; big f Hf;
  destruct (plain_kind_route _ Hp) as (E1 & E2 & E3 & E4 & E5 & E6 & E7 & E8 & E9 & E10 & E11);
  rewrite unm_dispatch;
    [|exact E11|rewrite Hu; discriminate|intros ?; rewrite Hu; discriminate
     |cbn [kind]; intros E; rewrite E in E9; discriminate E9|exact E1|exact E2];
  unfold dispatch, scalar_case; cbn [kind val]; rewrite E3, E4, E5, E6, E7, E8, E9, E10, E11; cbn [orb];
  rewrite Hu; unfold set_scalar; cbn [kind val]; rewrite Hu; rewrite ?width_eqb_refl; reflexivity.

Lemma s_bool t cur k b rest : underlying t = TBool -> plain_kind k = true ->
  SP t cur (T k (VBool b) :: rest) (GBool b) rest.
Proof. intros Hu Hp. scalar_sound Hu Hp. Qed.
Lemma s_int t w cur k z rest : underlying t = TInt w -> plain_kind k = true ->
  SP t cur (T k (VI w z) :: rest) (GInt z) rest.
Proof. intros Hu Hp. scalar_sound Hu Hp. Qed.
Lemma s_uint t w cur k n rest : underlying t = TUint w -> plain_kind k = true ->
  SP t cur (T k (VU w n) :: rest) (GUint n) rest.
Proof. intros Hu Hp. scalar_sound Hu Hp. Qed.
Lemma s_uintptr t cur k n rest : underlying t = TUintptr -> plain_kind k = true ->
  SP t cur (T k (VPtr n) :: rest) (GUint n) rest.
Proof. intros Hu Hp. scalar_sound Hu Hp. Qed.
Lemma s_f32 t cur k b rest : underlying t = TF32 -> plain_kind k = true ->
  SP t cur (T k (VF32 b) :: rest) (GF32 b) rest.
Proof. intros Hu Hp. scalar_sound Hu Hp. Qed.
Lemma s_f64 t cur k b rest : underlying t = TF64 -> plain_kind k = true ->
  SP t cur (T k (VF64 b) :: rest) (GF64 b) rest.
Proof. intros Hu Hp. scalar_sound Hu Hp. Qed.
Lemma s_string t cur s rest : underlying t = TString ->
  SP t cur (T KString (VStr s) :: rest) (GStr s) rest.
Proof. intros Hu. assert (Hp : plain_kind KString = true) by reflexivity. scalar_sound Hu Hp. Qed.

(* a leaf rule decided by the dispatch alone *)
Ltac leaf_sound Hu :=
  exists 1%nat; intros f Hf; big f Hf;
  rewrite unm_dispatch by side Hu; rewrite Hu; reflexivity.

Lemma s_nan32 t cur x rest : underlying t = TF32 -> SP t cur (T KNaN x :: rest) (GF32 f32_nan_bits) rest.
Proof. intros Hu. leaf_sound Hu. Qed.
Lemma s_nan64 t cur x rest : underlying t = TF64 -> SP t cur (T KNaN x :: rest) (GF64 f64_nan_bits) rest.
Proof. intros Hu. leaf_sound Hu. Qed.
Lemma s_bytes t cur s rest : underlying t = TBytes ->
  SP t cur (T KBytes (VBytes s) :: rest) (GBytes false s) rest.
Proof. intros Hu. leaf_sound Hu. Qed.
Lemma s_bytes_array t n cur s rest : underlying t = TByteArray n -> (length s <= n)%nat ->
  SP t cur (T KBytes (VBytes s) :: rest) (GBytes false (s ++ skipn (length s) (bytes_of_gval cur))) rest.
Proof.
  intros Hu Hle. exists 1%nat; intros f Hf; big f Hf.
  rewrite unm_dispatch by side Hu. rewrite Hu. disp.
  rewrite (proj2 (Nat.ltb_ge _ _) Hle), firstn_all2 by exact Hle. reflexivity.
Qed.

Lemma s_time t cur s rest : underlying t = TTime -> valid_time_enc s = true ->
  SP t cur (T KString (VStr s) :: rest) (GTime s) rest.
Proof.
  intros Hu Hv. exists 1%nat. intros f Hf. big f Hf. rewrite unm_head by reflexivity.
  unfold utail. cbn [kind]. change (KString =? KTypeName) with false. cbn [andb]. rewrite Hu.
  unfold time_case. cbn [kind val]. change (KString =? KString) with true. cbv beta iota. rewrite Hv. reflexivity.
Qed.

(* ---- the loops ---- *)
Ltac loop_fuel g Hg := destruct g as [|g]; [exfalso; cbn [length] in Hg; lia|].
Ltac shorter H := let L := fresh "L" in pose proof (unm_consumes _ _ _ _ _ _ _ _ _ H) as L; cbn [length] in L.

Lemma s_CA_end e items idx x rest : SArr e items idx (T KArrayEnd x :: rest) items rest.
Proof. exists 0%nat. intros f _ g Hg. loop_fuel g Hg. reflexivity. Qed.

Lemma s_CA_item e items idx tk ts v ts1 items' rest :
  kind tk <> KArrayEnd -> (idx < length items)%nat ->
  SP e (nth idx items (zero e)) (tk :: ts) v ts1 ->
  SArr e (set_nth idx v items) (S idx) ts1 items' rest ->
  SArr e items idx (tk :: ts) items' rest.
Proof.
  intros Hk Hi (f1 & H1) (f2 & H2). exists (Nat.max f1 f2). intros f Hf g Hg. loop_fuel g Hg.
  assert (Hv : unm pf f o R e (nth idx items (zero e)) (tk :: ts) = Ok (v, ts1)) by (apply H1; lia).
  shorter Hv. cbn [arr_loop]. apply N.eqb_neq in Hk. rewrite Hk. apply Nat.leb_gt in Hi. rewrite Hi, Hv.
  cbn [bind fst snd]. apply H2; [lia|cbn [length] in Hg; lia].
Qed.

Lemma s_CS_end endk e x rest : SSeq endk e (T endk x :: rest) [] rest.
Proof.
  exists 0%nat. intros f _ g Hg. loop_fuel g Hg. split.
  - intros -> acc. cbn [slice_loop kind]. change (KArrayEnd =? KArrayEnd) with true. cbv beta iota.
    rewrite app_nil_r. reflexivity.
  - intros -> _ tys vals. cbn [tuple_loop kind map]. change (KTupleEnd =? KTupleEnd) with true. cbv beta iota.
    rewrite !app_nil_r. reflexivity.
Qed.

Lemma s_CS_item endk e tk ts v ts1 items rest :
  kind tk <> endk -> SP e (zero e) (tk :: ts) v ts1 -> SSeq endk e ts1 items rest ->
  SSeq endk e (tk :: ts) (v :: items) rest.
Proof.
  intros Hk (f1 & H1) (f2 & H2). exists (Nat.max f1 f2). intros f Hf g Hg. loop_fuel g Hg.
  assert (Hv : unm pf f o R e (zero e) (tk :: ts) = Ok (v, ts1)) by (apply H1; lia).
  shorter Hv. apply N.eqb_neq in Hk.
  destruct (H2 f ltac:(lia) g ltac:(cbn [length] in Hg; lia)) as [Ha Hb]. split.
  - intros -> acc. cbn [slice_loop]. rewrite Hk, Hv. cbn [bind fst snd].
    rewrite (Ha eq_refl). rewrite <- app_assoc. reflexivity.
  - intros -> -> tys vals. cbn [zero] in Hv. cbn [tuple_loop]. rewrite Hk, Hv. cbn [bind fst snd].
    rewrite (Hb eq_refl eq_refl). cbn [map]. rewrite <- !app_assoc. reflexivity.
Qed.

Lemma s_CF_end fs depr vals x rest : SFields fs depr vals (T KObjectEnd x :: rest) vals rest.
Proof. exists 0%nat. intros f _ g Hg. loop_fuel g Hg. reflexivity. Qed.

Lemma s_CF_field fs depr vals tk ts name ts1 i ft v ts2 vals' rest :
  kind tk <> KObjectEnd ->
  SP TString (GStr []) (tk :: ts) (GStr name) ts1 ->
  find_field name fs 0 = Some (i, ft) ->
  SP ft (nth i vals (zero ft)) ts1 v ts2 ->
  SFields fs depr (set_nth i v vals) ts2 vals' rest ->
  SFields fs depr vals (tk :: ts) vals' rest.
Proof.
  intros Hk (f1 & H1) Hf (f2 & H2) (f3 & H3). exists (Nat.max f1 (Nat.max f2 f3)). intros f Hle g Hg. loop_fuel g Hg.
  assert (Hn : unm pf f o R TString (GStr []) (tk :: ts) = Ok (GStr name, ts1)) by (apply H1; lia).
  assert (Hv : unm pf f o R ft (nth i vals (zero ft)) ts1 = Ok (v, ts2)) by (apply H2; lia).
  shorter Hn. shorter Hv. apply N.eqb_neq in Hk.
  cbn [struct_loop]. rewrite Hk, Hn. cbn [bind fst snd]. rewrite Hf, Hv. cbn [bind fst snd].
  apply H3; [lia|cbn [length] in Hg; lia].
Qed.

Lemma s_CF_skip fs depr vals tk ts name ts1 ts2 vals' rest :
  kind tk <> KObjectEnd ->
  SP TString (GStr []) (tk :: ts) (GStr name) ts1 ->
  find_field name fs 0 = None ->
  (strict o = true -> existsb (bytes_eqb name) depr = true) ->
  skip_value 0 ts1 = Ok ts2 ->
  SFields fs depr vals ts2 vals' rest ->
  SFields fs depr vals (tk :: ts) vals' rest.
Proof.
  intros Hk (f1 & H1) Hf Hs Hsk (f3 & H3). exists (Nat.max f1 f3). intros f Hle g Hg. loop_fuel g Hg.
  assert (Hn : unm pf f o R TString (GStr []) (tk :: ts) = Ok (GStr name, ts1)) by (apply H1; lia).
  shorter Hn. pose proof (ssuffix_length _ _ (skip_value_suffix _ _ _ Hsk)) as L2. apply N.eqb_neq in Hk.
  cbn [struct_loop]. rewrite Hk, Hn. cbn [bind fst snd]. rewrite Hf.
  assert (Hst : (strict o && negb (existsb (bytes_eqb name) depr)) = false).
  { destruct (strict o); [|reflexivity]. rewrite (Hs eq_refl). reflexivity. }
  rewrite Hst, Hsk. cbn [bind]. apply H3; [lia|cbn [length] in Hg; lia].
Qed.

Lemma s_CM_end kt vt isnil m x rest : SEntries kt vt isnil m (T KMapEnd x :: rest) (GMap isnil m) rest.
Proof. exists 0%nat. intros f _ g Hg. loop_fuel g Hg. reflexivity. Qed.

Lemma s_CM_entry kt vt isnil m tk ts k ts1 x ts2 res rest :
  kind tk <> KMapEnd ->
  SP kt (zero kt) (tk :: ts) k ts1 ->
  comparable_val (iface_key kt k) = true ->
  SP vt (zero vt) ts1 x ts2 ->
  SEntries kt vt false (map_set (iface_key kt k) x m) ts2 res rest ->
  SEntries kt vt isnil m (tk :: ts) res rest.
Proof.
  intros Hk (f1 & H1) Hc (f2 & H2) (f3 & H3). exists (Nat.max f1 (Nat.max f2 f3)). intros f Hle g Hg. loop_fuel g Hg.
  assert (Hn : unm pf f o R kt (zero kt) (tk :: ts) = Ok (k, ts1)) by (apply H1; lia).
  assert (Hv : unm pf f o R vt (zero vt) ts1 = Ok (x, ts2)) by (apply H2; lia).
  shorter Hn. shorter Hv. apply N.eqb_neq in Hk.
  cbn [map_loop]. rewrite Hk, Hn. cbn [bind fst snd]. rewrite Hc. cbn [negb]. rewrite Hv. cbn [bind fst snd].
  apply H3; [lia|cbn [length] in Hg; lia].
Qed.

Lemma s_CO_end x rest : SOuts [] (T KTupleEnd x :: rest) [] rest.
Proof.
  split; [reflexivity|]. exists 0%nat. intros f _ g Hg tys vals. loop_fuel g Hg.
  cbn [tuple_loop kind]. change (KTupleEnd =? KTupleEnd) with true. cbv beta iota. rewrite !app_nil_r. reflexivity.
Qed.

Lemma s_CO_item ot outs tk ts v ts1 vals rest :
  kind tk <> KTupleEnd -> SP ot (zero ot) (tk :: ts) v ts1 -> SOuts outs ts1 vals rest ->
  SOuts (ot :: outs) (tk :: ts) (v :: vals) rest.
Proof.
  intros Hk (f1 & H1) (Hlen & f2 & H2). split; [cbn [length]; lia|].
  exists (Nat.max f1 f2). intros f Hf g Hg tys acc. loop_fuel g Hg.
  assert (Hv : unm pf f o R ot (zero ot) (tk :: ts) = Ok (v, ts1)) by (apply H1; lia).
  shorter Hv. apply N.eqb_neq in Hk.
  cbn [tuple_loop]. rewrite Hk, Hv. cbn [bind fst snd].
  rewrite H2 by (try lia; cbn [length] in Hg; lia). rewrite <- !app_assoc. reflexivity.
Qed.

Lemma s_CN_end fs vals x rest :
  SNew fs vals (T KObjectEnd x :: rest) (GAny (Some (TStruct fs, GStruct vals))) rest.
Proof. exists 0%nat. intros f _ g Hg. loop_fuel g Hg. reflexivity. Qed.

Lemma s_CN_field fs vals tk ts name ts1 vt v ts2 res rest :
  kind tk <> KObjectEnd ->
  SP TString (GStr []) (tk :: ts) (GStr name) ts1 ->
  is_exported_ident name = true ->
  existsb (fun fd => bytes_eqb (fname fd) name) fs = false ->
  SP TAny (GAny None) ts1 (GAny (Some (vt, v))) ts2 ->
  SNew (fs ++ [(name, true, vt)]) (vals ++ [v]) ts2 res rest ->
  SNew fs vals (tk :: ts) res rest.
Proof.
  intros Hk (f1 & H1) Hx Hd (f2 & H2) (f3 & H3). exists (Nat.max f1 (Nat.max f2 f3)). intros f Hle g Hg. loop_fuel g Hg.
  assert (Hn : unm pf f o R TString (GStr []) (tk :: ts) = Ok (GStr name, ts1)) by (apply H1; lia).
  assert (Hv : unm pf f o R TAny (GAny None) ts1 = Ok (GAny (Some (vt, v)), ts2)) by (apply H2; lia).
  shorter Hn. shorter Hv. apply N.eqb_neq in Hk.
  cbn [newstruct_loop]. rewrite Hk, Hn. cbn [bind fst snd]. rewrite Hx, Hd. cbn [negb]. rewrite Hv. cbn [bind fst snd].
  apply H3; [lia|cbn [length] in Hg; lia].
Qed.

Lemma s_CG_end m x rest :
  SGen m (T KMapEnd x :: rest) (GAny (Some (TMap TAny TAny, GMap false m))) rest.
Proof. exists 0%nat. intros f _ g Hg. loop_fuel g Hg. reflexivity. Qed.

Lemma s_CG_entry m tk ts k ts1 kt kv x ts2 res rest :
  kind tk <> KMapEnd ->
  SP TAny (GAny None) (tk :: ts) k ts1 ->
  to_comparable k = GAny (Some (kt, kv)) ->
  comparable_ty kt = true -> nan_key kv = false ->
  SP TAny (GAny None) ts1 x ts2 ->
  SGen (map_set (to_comparable k) x m) ts2 res rest ->
  SGen m (tk :: ts) res rest.
Proof.
  intros Hk (f1 & H1) Hkey Hc Hnan (f2 & H2) (f3 & H3). exists (Nat.max f1 (Nat.max f2 f3)). intros f Hle g Hg. loop_fuel g Hg.
  assert (Hn : unm pf f o R TAny (GAny None) (tk :: ts) = Ok (k, ts1)) by (apply H1; lia).
  assert (Hv : unm pf f o R TAny (GAny None) ts1 = Ok (x, ts2)) by (apply H2; lia).
  shorter Hn. shorter Hv. apply N.eqb_neq in Hk.
  cbn [genmap_loop]. rewrite Hk, Hn. cbn [bind fst snd]. rewrite Hkey in *. rewrite Hc. cbn [negb].
  fold (nan_key kv). rewrite Hnan, Hv. cbn [bind fst snd].
  apply H3; [lia|cbn [length] in Hg; lia].
Qed.

(* ---- composite targets ---- *)
Lemma s_array t n e cur x ts items rest :
  underlying t = TArray n e -> SArr e (items_of_gval cur) 0 ts items rest ->
  SP t cur (T KArray x :: ts) (GList false items) rest.
Proof.
  intros Hu (f0 & H). exists (S f0). intros f Hf. big f Hf.
  rewrite unm_dispatch by side Hu. rewrite Hu. disp.
  rewrite (H f ltac:(lia) (S (length ts)) ltac:(lia)). reflexivity.
Qed.

Lemma s_array_bytes t n cur x ts items rest :
  underlying t = TByteArray n -> SArr (TUint W8) (items_of_gval cur) 0 ts items rest ->
  SP t cur (T KArray x :: ts) (GBytes false (to_bytes items)) rest.
Proof.
  intros Hu (f0 & H). exists (S f0). intros f Hf. big f Hf.
  rewrite unm_dispatch by side Hu. rewrite Hu. disp.
  rewrite (H f ltac:(lia) (S (length ts)) ltac:(lia)). reflexivity.
Qed.

Lemma s_slice t e cur x ts items rest :
  underlying t = TSlice e -> SSeq KArrayEnd e ts items rest ->
  SP t cur (T KArray x :: ts)
     (GList (is_nil_container cur && is_empty (items_of_gval cur ++ items)) (items_of_gval cur ++ items)) rest.
Proof.
  intros Hu (f0 & H). exists (S f0). intros f Hf. big f Hf.
  rewrite unm_dispatch by side Hu. rewrite Hu. disp.
  destruct (H f ltac:(lia) (S (length ts)) ltac:(lia)) as [Ha _]. rewrite (Ha eq_refl). reflexivity.
Qed.

Lemma s_slice_bytes t cur x ts items rest :
  underlying t = TBytes -> SSeq KArrayEnd (TUint W8) ts items rest ->
  SP t cur (T KArray x :: ts)
     (GBytes (is_nil_container cur && is_empty (items_of_gval cur ++ items)) (to_bytes (items_of_gval cur ++ items))) rest.
Proof.
  intros Hu (f0 & H). exists (S f0). intros f Hf. big f Hf.
  rewrite unm_dispatch by side Hu. rewrite Hu. disp.
  destruct (H f ltac:(lia) (S (length ts)) ltac:(lia)) as [Ha _]. rewrite (Ha eq_refl). reflexivity.
Qed.

Lemma s_struct t fs cur x ts vals rest :
  underlying t = TStruct fs -> SFields fs (depr_of t) (struct_vals fs cur) ts vals rest ->
  SP t cur (T KObject x :: ts) (GStruct vals) rest.
Proof.
  intros Hu (f0 & H). exists (S f0). intros f Hf. big f Hf.
  rewrite unm_dispatch by side Hu. rewrite Hu. disp.
  fold (struct_vals fs cur). rewrite (H f ltac:(lia) (S (length ts)) ltac:(lia)). reflexivity.
Qed.

Lemma s_map t kt vt cur x ts v rest :
  underlying t = TMap kt vt -> SEntries kt vt (map_isnil cur) (map_entries cur) ts v rest ->
  SP t cur (T KMap x :: ts) v rest.
Proof.
  intros Hu (f0 & H). exists (S f0). intros f Hf. big f Hf.
  rewrite unm_dispatch by side Hu. rewrite Hu. disp.
  specialize (H f ltac:(lia) (S (length ts)) ltac:(lia)). destruct cur; exact H.
Qed.

Lemma s_func t outs cur x ts vals rest :
  underlying t = TFunc outs -> (length outs <= 50)%nat -> SOuts outs ts vals rest ->
  SP t cur (T KTuple x :: ts) (GFunc (Some vals)) rest.
Proof.
  intros Hu H50 (Hlen & f0 & H). exists (S f0). intros f Hf. big f Hf.
  rewrite unm_dispatch by side Hu. rewrite Hu. disp.
  rewrite (H f ltac:(lia) (S (length ts)) ltac:(lia) [] []). cbn [bind app]. rewrite Hlen.
  replace (Nat.ltb 50 (length outs)) with false by (symmetry; apply Nat.ltb_ge; exact H50).
  rewrite Nat.eqb_refl. reflexivity.
Qed.

(* ---- interface targets ---- *)
Ltac any_side Hu :=
  first [ reflexivity
        | (let e := fresh "e" in intros e; rewrite Hu; let E := fresh "E" in intros E; discriminate E)
        | (rewrite Hu; let E := fresh "E" in intros E; discriminate E)
        | (intros _; apply any_not_concrete; exact Hu) ].

Lemma s_any_scalar t cur tk d rest :
  underlying t = TAny -> plain_kind (kind tk) = true -> any_of_token tk = Some d ->
  SP t cur (tk :: rest) (GAny (Some d)) rest.
Proof.
  intros Hu Hp Hd. exists 1%nat. intros f Hf. big f Hf.
  destruct (plain_kind_route _ Hp) as (E1 & E2 & E3 & E4 & E5 & E6 & E7 & E8 & E9 & E10 & E11).
  rewrite unm_dispatch;
    [|exact E11|rewrite Hu; intros E; discriminate E|intros e; rewrite Hu; intros E; discriminate E
     |intros _; apply any_not_concrete; exact Hu|exact E1|exact E2].
  unfold dispatch, scalar_case. rewrite E3, E4, E5, E6, E7, E8, E9, E10, E11. cbn [orb]. rewrite Hu, Hd.
  destruct tk as [k y]. cbn [val]. destruct y; try reflexivity. discriminate Hd.
Qed.

Lemma s_any_nan t cur x rest : underlying t = TAny ->
  SP t cur (T KNaN x :: rest) (GAny (Some (TF64, GF64 f64_nan_bits))) rest.
Proof. intros Hu. exists 1%nat; intros f Hf; big f Hf. rewrite unm_dispatch by any_side Hu. rewrite Hu. reflexivity. Qed.

Lemma s_any_bytes t cur s rest : underlying t = TAny ->
  SP t cur (T KBytes (VBytes s) :: rest) (GAny (Some (TBytes, GBytes false s))) rest.
Proof. intros Hu. exists 1%nat; intros f Hf; big f Hf. rewrite unm_dispatch by any_side Hu. rewrite Hu. reflexivity. Qed.

Lemma s_any_array t cur x ts items rest :
  underlying t = TAny -> SSeq KArrayEnd TAny ts items rest ->
  SP t cur (T KArray x :: ts) (GAny (Some (TSlice TAny, GList (is_empty items) items))) rest.
Proof.
  intros Hu (f0 & H). exists (S f0). intros f Hf. big f Hf.
  rewrite unm_dispatch by any_side Hu. rewrite Hu. disp.
  destruct (H f ltac:(lia) (S (length ts)) ltac:(lia)) as [Ha _]. rewrite (Ha eq_refl). reflexivity.
Qed.

Lemma s_any_object t cur x ts v rest :
  underlying t = TAny -> SNew [] [] ts v rest -> SP t cur (T KObject x :: ts) v rest.
Proof.
  intros Hu (f0 & H). exists (S f0). intros f Hf. big f Hf.
  rewrite unm_dispatch by any_side Hu. rewrite Hu. disp. apply H; lia.
Qed.

Lemma s_any_map t cur x ts v rest :
  underlying t = TAny -> SGen [] ts v rest -> SP t cur (T KMap x :: ts) v rest.
Proof.
  intros Hu (f0 & H). exists (S f0). intros f Hf. big f Hf.
  rewrite unm_dispatch by any_side Hu. rewrite Hu. disp. apply H; lia.
Qed.

Lemma s_any_tuple t cur x ts items rest :
  underlying t = TAny -> SSeq KTupleEnd TAny ts items rest -> (length items <= 50)%nat ->
  SP t cur (T KTuple x :: ts) (GAny (Some (TFunc (map dyn_ty items), GFunc (Some (map dyn_val items))))) rest.
Proof.
  intros Hu (f0 & H) H50. exists (S f0). intros f Hf. big f Hf.
  rewrite unm_dispatch by any_side Hu. rewrite Hu. disp.
  destruct (H f ltac:(lia) (S (length ts)) ltac:(lia)) as [_ Hb]. rewrite (Hb eq_refl eq_refl). cbn [bind app].
  rewrite map_length. replace (Nat.ltb 50 (length items)) with false by (symmetry; apply Nat.ltb_ge; exact H50).
  reflexivity.
Qed.

Lemma s_any_typename_registered t cur name rt ts v rest :
  underlying t = TAny -> reg_lookup R name = Some rt -> SP rt (zero rt) ts v rest ->
  SP t cur (T KTypeName (VStr name) :: ts) (GAny (Some (rt, v))) rest.
Proof.
  intros Hu Hrt (f0 & H). exists (S f0). intros f Hf. big f Hf.
  rewrite unm_dispatch by any_side Hu. rewrite Hu. disp. rewrite Hrt, H by lia. reflexivity.
Qed.

Lemma s_any_typename_unknown t cur x ts v rest :
  underlying t = TAny -> (forall name, x = VStr name -> reg_lookup R name = None) -> SP t cur ts v rest ->
  SP t cur (T KTypeName x :: ts) v rest.
Proof.
  intros Hu Hx (f0 & H). exists (S f0). intros f Hf. big f Hf.
  rewrite unm_dispatch by any_side Hu. rewrite Hu. disp.
  destruct x as [| | | | | | |s|]; try (apply H; lia). rewrite (Hx s eq_refl). apply H; lia.
Qed.

(* ---- assembling: mutual induction on the derivation ---- *)
Lemma sound_all :
  (forall t cur ts v rest, Conforms pf o R t cur ts v rest -> SP t cur ts v rest) /\
  (forall e items idx ts items' rest, ConformsArr pf o R e items idx ts items' rest -> SArr e items idx ts items' rest) /\
  (forall endk e ts items rest, ConformsSeq pf o R endk e ts items rest -> SSeq endk e ts items rest) /\
  (forall fs depr vals ts vals' rest, ConformsFields pf o R fs depr vals ts vals' rest -> SFields fs depr vals ts vals' rest) /\
  (forall kt vt isnil m ts v rest, ConformsEntries pf o R kt vt isnil m ts v rest -> SEntries kt vt isnil m ts v rest) /\
  (forall outs ts items rest, ConformsOuts pf o R outs ts items rest -> SOuts outs ts items rest) /\
  (forall fs vals ts v rest, ConformsNewStruct pf o R fs vals ts v rest -> SNew fs vals ts v rest) /\
  (forall m ts v rest, ConformsGenEntries pf o R m ts v rest -> SGen m ts v rest).
Proof.
  apply Conforms_mutind; intros.
  - eapply s_nil; eassumption.
  - eapply s_typename_skip; eassumption.
  - eapply s_literal; eassumption.
  - eapply s_ptr; eassumption.
  - eapply s_bool; eassumption.
  - eapply s_int; eassumption.
  - eapply s_uint; eassumption.
  - eapply s_uintptr; eassumption.
  - eapply s_f32; eassumption.
  - eapply s_f64; eassumption.
  - eapply s_nan32; eassumption.
  - eapply s_nan64; eassumption.
  - eapply s_string; eassumption.
  - eapply s_time; eassumption.
  - eapply s_bytes; eassumption.
  - eapply s_bytes_array; eassumption.
  - eapply s_array; eassumption.
  - eapply s_array_bytes; eassumption.
  - eapply s_slice; eassumption.
  - eapply s_slice_bytes; eassumption.
  - eapply s_struct; eassumption.
  - eapply s_map; eassumption.
  - eapply s_func; eassumption.
  - eapply s_any_scalar; eassumption.
  - eapply s_any_nan; eassumption.
  - eapply s_any_bytes; eassumption.
  - eapply s_any_array; eassumption.
  - eapply s_any_object; eassumption.
  - eapply s_any_map; eassumption.
  - eapply s_any_tuple; eassumption.
  - eapply s_any_typename_registered; eassumption.
  - eapply s_any_typename_unknown; eassumption.
  - apply s_CA_end.
  - eapply s_CA_item; eassumption.
  - apply s_CS_end.
  - eapply s_CS_item; eassumption.
  - apply s_CF_end.
  - eapply s_CF_field; eassumption.
  - eapply s_CF_skip; eassumption.
  - apply s_CM_end.
  - eapply s_CM_entry; eassumption.
  - apply s_CO_end.
  - eapply s_CO_item; eassumption.
  - apply s_CN_end.
  - eapply s_CN_field; eassumption.
  - apply s_CG_end.
  - eapply s_CG_entry; eassumption.
Qed.

End Sound.

Theorem conforms_sound pf o R t cur ts v rest :
  Conforms pf o R t cur ts v rest -> exists f, unm pf f o R t cur ts = Ok (v, rest).
Proof.
  intros H. destruct (proj1 (sound_all pf o R) _ _ _ _ _ H) as (f0 & Hf).
  exists f0. apply Hf. apply Nat.le_refl.
Qed.

(* ====================================================================================== *)
(* Part 3.  The equivalence and its corollaries                                            *)
(* ====================================================================================== *)

(* C05: unmarshalling succeeds EXACTLY WHEN the stream conforms, with the value and the rest
   the relation prescribes *)
Theorem unm_ok_iff_conforms pf o R t cur ts v rest :
  (exists f, unm pf f o R t cur ts = Ok (v, rest)) <-> Conforms pf o R t cur ts v rest.
Proof.
  split; [intros (f & H); exact (conforms_complete pf o R f t cur ts v rest H)|apply conforms_sound].
Qed.

Definition fuel_bound (R : registry) (t : ty) (ts : list token) : nat :=
  (length ts * S (reg_depth R) + ty_depth t + 1)%nat.

(* ... and the fuel plays no role: the explicit bound of [unm_total_bound] decides conformance *)
Theorem conforms_iff_bound pf o R t cur ts v rest :
  Conforms pf o R t cur ts v rest <-> unm pf (fuel_bound R t ts) o R t cur ts = Ok (v, rest).
Proof.
  split; [|apply conforms_complete]. intros H. destruct (conforms_sound _ _ _ _ _ _ _ _ H) as (f & Hf).
  pose proof (unm_total_bound pf o R t cur ts) as Hb. fold (fuel_bound R t ts) in Hb.
  destruct (Nat.le_gt_cases f (fuel_bound R t ts)) as [Hle|Hgt].
  - eapply unm_fuel_mono; [exact Hf|discriminate|exact Hle].
  - rewrite <- Hf. symmetry. eapply unm_fuel_mono; [reflexivity|exact Hb|lia].
Qed.

(* the relation is functional: the reference interpretation of a conforming stream is unique *)
Corollary conforms_functional pf o R t cur ts v rest v' rest' :
  Conforms pf o R t cur ts v rest -> Conforms pf o R t cur ts v' rest' -> v = v' /\ rest = rest'.
Proof.
  intros H1 H2. apply conforms_iff_bound in H1. apply conforms_iff_bound in H2.
  rewrite H1 in H2. injection H2 as <- <-. split; reflexivity.
Qed.

(* whatever the fuel, [unm] either runs out of it or returns what the relation prescribes *)
Corollary conforms_fuel_independent pf o R t cur ts v rest f :
  Conforms pf o R t cur ts v rest ->
  unm pf f o R t cur ts = OutOfFuel \/ unm pf f o R t cur ts = Ok (v, rest).
Proof.
  intros H. destruct (conforms_sound _ _ _ _ _ _ _ _ H) as (f1 & H1).
  destruct (unm pf f o R t cur ts) as [a|e|] eqn:Hf; [right|exfalso|left; reflexivity].
  - assert (Ha : unm pf (Nat.max f f1) o R t cur ts = Ok a)
      by (eapply unm_fuel_mono; [exact Hf|discriminate|lia]).
    assert (Hb : unm pf (Nat.max f f1) o R t cur ts = Ok (v, rest))
      by (eapply unm_fuel_mono; [exact H1|discriminate|lia]).
    congruence.
  - assert (Ha : unm pf (Nat.max f f1) o R t cur ts = Err e)
      by (eapply unm_fuel_mono; [exact Hf|discriminate|lia]).
    assert (Hb : unm pf (Nat.max f f1) o R t cur ts = Ok (v, rest))
      by (eapply unm_fuel_mono; [exact H1|discriminate|lia]).
    congruence.
Qed.

(* the rejection side: an error (of some class) exactly when no value and rest conform *)
Theorem unm_err_iff_not_conforms pf o R t cur ts :
  (exists f e, unm pf f o R t cur ts = Err e) <-> ~ (exists v rest, Conforms pf o R t cur ts v rest).
Proof.
  split.
  - intros (f & e & He) (v & rest & H).
    destruct (conforms_fuel_independent pf o R t cur ts v rest f H) as [H'|H']; congruence.
  - intros Hn. exists (fuel_bound R t ts).
    pose proof (unm_total_bound pf o R t cur ts) as Hb. fold (fuel_bound R t ts) in Hb.
    destruct (unm pf (fuel_bound R t ts) o R t cur ts) as [[v rest]|e|] eqn:Hf.
    + exfalso. apply Hn. exists v, rest. eapply conforms_complete. exact Hf.
    + exists e. reflexivity.
    + congruence.
Qed.

(* the consumed tokens are a non-empty prefix *)
Corollary conforms_consumes pf o R t cur ts v rest :
  Conforms pf o R t cur ts v rest -> exists used, ts = used ++ rest /\ used <> [].
Proof. intros H. destruct (conforms_sound _ _ _ _ _ _ _ _ H) as (f & Hf). eapply unm_suffix. exact Hf. Qed.

(* "scalar kinds match the target kind exactly": for a well-shaped scalar token and a scalar target,
   conformance is the equality of the token's dynamic type with the target's underlying type *)
Theorem scalar_conforms_iff pf o R t cur tk rest v rest' :
  is_scalar_ty (underlying t) = true -> scalar_tok tk = true ->
  (Conforms pf o R t cur (tk :: rest) v rest' <->
   tok_matches t tk = true /\ any_of_token tk = Some (underlying t, v) /\ rest' = rest).
Proof.
  intros Ht Htk. split.
  - intros H. apply conforms_iff_bound in H. unfold fuel_bound in H.
    replace (length (tk :: rest) * S (reg_depth R) + ty_depth t + 1)%nat
      with (S (length (tk :: rest) * S (reg_depth R) + ty_depth t)) in H by lia.
    destruct (tok_matches t tk) eqn:Hm.
    + destruct (scalar_match pf o R (length (tk :: rest) * S (reg_depth R) + ty_depth t) t cur tk rest Ht Htk Hm)
        as (v0 & Ha & Hu).
      rewrite Hu in H. injection H as <- <-. repeat split. exact Ha.
    + rewrite (scalar_mismatch pf o R _ t cur tk rest Ht Htk Hm) in H. discriminate H.
  - intros (Hm & Ha & ->).
    destruct (scalar_match pf o R 0 t cur tk rest Ht Htk Hm) as (v0 & Ha' & Hu).
    rewrite Ha in Ha'. injection Ha' as <-. eapply conforms_complete. exact Hu.
Qed.

(* the kind a well-formed token carrying a given scalar must have *)
Definition kind_of_val (v : tval) : option N :=
  match v with
  | VBool _ => Some KBool | VI w _ => Some (kind_of_int w) | VU w _ => Some (kind_of_uint w)
  | VPtr _ => Some KPointer | VF32 _ => Some KFloat32 | VF64 _ => Some KFloat64
  | _ => None
  end.

(* on well-formed tokens the side condition [plain_kind k] of the scalar rules says: k is the kind of
   the value, which is the target's own kind *)
Lemma wf_scalar_kind tk k : wf_token tk = true -> kind_of_val (val tk) = Some k ->
  kind tk = k /\ plain_kind k = true.
Proof.
  unfold wf_token. destruct tk as [k0 x]. cbn [kind val]. intros H Hk.
  apply andb_true_iff in H. destruct H as [Hs _].
  destruct x as [|b|w z|w n|n|b|b|s|s]; try discriminate Hk; cbn [kind_of_val] in Hk; injection Hk as <-;
    cbn [kind_shape] in Hs; try destruct w; apply N.eqb_eq in Hs; subst k0; split; reflexivity.
Qed.

(* ====================================================================================== *)
(* Part 4.  The rejection side: the kind mismatch is reported with both kinds, and the      *)
(*          error class of an item / a field value propagates unchanged                     *)
(* ====================================================================================== *)

Section Mismatch.
Variable pf : bytes -> N -> option N.
Variable o : copts.
Variable R : registry.

(* a well-shaped scalar token against ANY target that is not a pointer, an interface or time.Time
   (scalar or composite) whose type differs: TypeMismatch {token kind, reflect kind of the target} *)
Theorem mismatch_reported f t cur tk rest :
  scalar_tok tk = true -> tok_matches t tk = false ->
  underlying t <> TTime -> underlying t <> TAny -> (forall e, underlying t <> TPtr e) ->
  unm pf (S f) o R t cur (tk :: rest) = Err (EMismatch (kind tk) (rk_of t)).
Proof.
  intros Htk Hm Htime Hany Hptr.
  destruct (scalar_tok_kind tk Htk) as [Hk Hv].
  destruct (scalar_kind_route _ Hk) as (H1 & H2 & H3 & H4 & H5 & H6 & H7 & H8 & H9 & H10 & H11).
  rewrite unm_dispatch;
    [|exact H1|exact Htime|exact Hptr|intros E; rewrite E in H10; discriminate H10|exact H2|exact H3].
  unfold dispatch, scalar_case. rewrite H4, H5, H6, H7, H8, H9, H10, H11, H1. cbn [orb].
  assert (Hs : set_scalar t tk = Err (EMismatch (kind tk) (rk_of t))) by (rewrite set_scalar_matches, Hm; reflexivity).
  destruct (val tk); [congruence| | | | | | | |];
    (destruct (underlying t); [| | | | | | | | | | | | | |exfalso; apply Hany; reflexivity| | |]; rewrite Hs; reflexivity).
Qed.

(* time.Time reports the kind of the bridge token it expects (String, 24), not its own reflect kind *)
Theorem mismatch_reported_time f t cur tk rest :
  underlying t = TTime -> (kind tk =? KString) = false -> (kind tk =? KLiteral) = false ->
  (kind tk =? KTypeName) = false ->
  unm pf (S f) o R t cur (tk :: rest) = Err (EMismatch (kind tk) 24).
Proof.
  intros Hu Hs Hl Htn. rewrite unm_head by exact Hl. unfold utail. rewrite Htn, Hu. cbn [andb].
  unfold time_case. rewrite Hs. reflexivity.
Qed.

(* a structural token (NaN, Bytes, Array, Object, Map, Tuple) against a target of another shape *)
Definition open_accepts (k : N) (ut : ty) : bool :=
  match ut with
  | TAny => true
  | TF32 | TF64 => k =? KNaN
  | TBytes | TByteArray _ => (k =? KBytes) || (k =? KArray)
  | TArray _ _ | TSlice _ => k =? KArray
  | TStruct _ => k =? KObject
  | TMap _ _ => k =? KMap
  | TFunc _ => k =? KTuple
  | _ => false
  end.

Theorem mismatch_reported_structural f t cur k x rest :
  In k [KNaN; KBytes; KArray; KObject; KMap; KTuple] -> open_accepts k (underlying t) = false ->
  underlying t <> TTime -> (forall e, underlying t <> TPtr e) ->
  unm pf (S f) o R t cur (T k x :: rest) = Err (EMismatch k (rk_of t)).
Proof.
  intros Hin Hacc Htime Hptr. cbn [In] in Hin.
  destruct Hin as [<-|[<-|[<-|[<-|[<-|[<-|[]]]]]]];
    (rewrite unm_dispatch; [|reflexivity|exact Htime|exact Hptr|intros E; discriminate E|reflexivity|reflexivity]);
    disp; destruct (underlying t); try discriminate Hacc; try reflexivity;
    try (exfalso; apply Htime; reflexivity); try (exfalso; eapply Hptr; reflexivity).
Qed.

(* errors do not depend on the fuel either *)
Lemma unm_err_mono f f' t cur ts e :
  unm pf f o R t cur ts = Err e -> (f <= f')%nat -> unm pf f' o R t cur ts = Err e.
Proof. intros H Hle. eapply unm_fuel_mono; [exact H|discriminate|exact Hle]. Qed.

Lemma conforms_sound_ge t cur ts v rest : Conforms pf o R t cur ts v rest -> SP pf o R t cur ts v rest.
Proof. apply (proj1 (sound_all pf o R)). Qed.

(* ---- inside an array: after any number of conforming items, the error of the next one is the
        error of the whole ---- *)
Inductive ArrPrefix (e : ty) : list gval -> nat -> list token -> list gval -> nat -> list token -> Prop :=
| AP_here items idx ts : ArrPrefix e items idx ts items idx ts
| AP_item items idx tk ts v ts1 items' idx' ts' :
    kind tk <> KArrayEnd -> (idx < length items)%nat ->
    Conforms pf o R e (nth idx items (zero e)) (tk :: ts) v ts1 ->
    ArrPrefix e (set_nth idx v items) (S idx) ts1 items' idx' ts' ->
    ArrPrefix e items idx (tk :: ts) items' idx' ts'.

Lemma arr_loop_error e items idx ts items' idx' tk ts' err :
  ArrPrefix e items idx ts items' idx' (tk :: ts') ->
  kind tk <> KArrayEnd -> (idx' < length items')%nat ->
  (exists f, unm pf f o R e (nth idx' items' (zero e)) (tk :: ts') = Err err) ->
  exists f0, forall f, (f0 <= f)%nat -> forall g, (length ts < g)%nat ->
    arr_loop (unm pf f o R) g e items idx ts = Err err.
Proof.
  intros Hp Hk. remember (tk :: ts') as tl eqn:Etl.
  induction Hp as [items idx ts|items idx tk0 ts v ts1 items' idx' tl Hk0 Hi0 Hc Hp IH]; intros Hi (f1 & He).
  - subst ts. exists f1. intros f Hf g Hg. destruct g as [|g]; [exfalso; lia|].
    cbn [arr_loop]. apply N.eqb_neq in Hk. rewrite Hk. apply Nat.leb_gt in Hi. rewrite Hi.
    rewrite (unm_err_mono _ _ _ _ _ _ He Hf). reflexivity.
  - destruct (IH Etl Hi (ex_intro _ f1 He)) as (f2 & H2). destruct (conforms_sound_ge _ _ _ _ _ Hc) as (f3 & H3).
    exists (Nat.max f2 f3). intros f Hf g Hg. destruct g as [|g]; [exfalso; lia|].
    assert (Hv : unm pf f o R e (nth idx items (zero e)) (tk0 :: ts) = Ok (v, ts1)) by (apply H3; lia).
    pose proof (unm_consumes _ _ _ _ _ _ _ _ _ Hv) as L. cbn [length] in L, Hg.
    cbn [arr_loop]. apply N.eqb_neq in Hk0. rewrite Hk0. apply Nat.leb_gt in Hi0. rewrite Hi0, Hv.
    cbn [bind fst snd]. apply H2; lia.
Qed.

Theorem array_error_propagates t n e cur x ts items' idx' tk ts' err :
  underlying t = TArray n e ->
  ArrPrefix e (items_of_gval cur) 0 ts items' idx' (tk :: ts') ->
  kind tk <> KArrayEnd -> (idx' < length items')%nat ->
  (exists f, unm pf f o R e (nth idx' items' (zero e)) (tk :: ts') = Err err) ->
  exists f, unm pf f o R t cur (T KArray x :: ts) = Err err.
Proof.
  intros Hu Hp Hk Hi He. destruct (arr_loop_error _ _ _ _ _ _ _ _ _ Hp Hk Hi He) as (f0 & H).
  exists (S f0). rewrite unm_dispatch;
    [|reflexivity|rewrite Hu; intros E; discriminate E|intros e0; rewrite Hu; intros E; discriminate E
     |intros E; discriminate E|reflexivity|reflexivity].
  rewrite Hu. disp. rewrite H by lia. reflexivity.
Qed.

(* ---- inside an object: after any number of conforming (name, value) pairs, matched or skipped,
        the error of the next field's value is the error of the whole ---- *)
Inductive FieldsPrefix (fs : list (bytes * bool * ty)) (depr : list bytes) :
  list gval -> list token -> list gval -> list token -> Prop :=
| FP_here vals ts : FieldsPrefix fs depr vals ts vals ts
| FP_field vals tk ts name ts1 i ft v ts2 vals' ts' :
    kind tk <> KObjectEnd ->
    Conforms pf o R TString (GStr []) (tk :: ts) (GStr name) ts1 ->
    find_field name fs 0 = Some (i, ft) ->
    Conforms pf o R ft (nth i vals (zero ft)) ts1 v ts2 ->
    FieldsPrefix fs depr (set_nth i v vals) ts2 vals' ts' ->
    FieldsPrefix fs depr vals (tk :: ts) vals' ts'
| FP_skip vals tk ts name ts1 ts2 vals' ts' :
    kind tk <> KObjectEnd ->
    Conforms pf o R TString (GStr []) (tk :: ts) (GStr name) ts1 ->
    find_field name fs 0 = None ->
    (strict o = true -> existsb (bytes_eqb name) depr = true) ->
    skip_value 0 ts1 = Ok ts2 ->
    FieldsPrefix fs depr vals ts2 vals' ts' ->
    FieldsPrefix fs depr vals (tk :: ts) vals' ts'.

Lemma struct_loop_error fs depr vals ts vals' tk ts' name ts1 i ft err :
  FieldsPrefix fs depr vals ts vals' (tk :: ts') ->
  kind tk <> KObjectEnd ->
  Conforms pf o R TString (GStr []) (tk :: ts') (GStr name) ts1 ->
  find_field name fs 0 = Some (i, ft) ->
  (exists f, unm pf f o R ft (nth i vals' (zero ft)) ts1 = Err err) ->
  exists f0, forall f, (f0 <= f)%nat -> forall g, (length ts < g)%nat ->
    struct_loop o (unm pf f o R) g fs depr vals ts = Err err.
Proof.
  intros Hp Hk. remember (tk :: ts') as tl eqn:Etl.
  induction Hp as [vals ts
                  |vals tk0 ts name0 ts10 i0 ft0 v ts2 vals' tl Hk0 Hn0 Hf0 Hv0 Hp IH
                  |vals tk0 ts name0 ts10 ts2 vals' tl Hk0 Hn0 Hf0 Hs0 Hsk Hp IH]; intros Hn Hf (f1 & He).
  - subst ts. destruct (conforms_sound_ge _ _ _ _ _ Hn) as (f2 & H2).
    exists (Nat.max f1 f2). intros f Hle g Hg. destruct g as [|g]; [exfalso; lia|].
    cbn [struct_loop]. apply N.eqb_neq in Hk. rewrite Hk, (H2 f) by lia. cbn [bind fst snd]. rewrite Hf.
    rewrite (unm_err_mono _ f _ _ _ _ He) by lia. reflexivity.
  - destruct (IH Etl Hn Hf (ex_intro _ f1 He)) as (f2 & H2).
    destruct (conforms_sound_ge _ _ _ _ _ Hn0) as (f3 & H3). destruct (conforms_sound_ge _ _ _ _ _ Hv0) as (f4 & H4).
    exists (Nat.max f2 (Nat.max f3 f4)). intros f Hle g Hg. destruct g as [|g]; [exfalso; lia|].
    assert (Ha : unm pf f o R TString (GStr []) (tk0 :: ts) = Ok (GStr name0, ts10)) by (apply H3; lia).
    assert (Hb : unm pf f o R ft0 (nth i0 vals (zero ft0)) ts10 = Ok (v, ts2)) by (apply H4; lia).
    pose proof (unm_consumes _ _ _ _ _ _ _ _ _ Ha) as La. pose proof (unm_consumes _ _ _ _ _ _ _ _ _ Hb) as Lb.
    cbn [length] in La, Hg.
    cbn [struct_loop]. apply N.eqb_neq in Hk0. rewrite Hk0, Ha. cbn [bind fst snd]. rewrite Hf0, Hb.
    cbn [bind fst snd]. apply H2; lia.
  - destruct (IH Etl Hn Hf (ex_intro _ f1 He)) as (f2 & H2). destruct (conforms_sound_ge _ _ _ _ _ Hn0) as (f3 & H3).
    exists (Nat.max f2 f3). intros f Hle g Hg. destruct g as [|g]; [exfalso; lia|].
    assert (Ha : unm pf f o R TString (GStr []) (tk0 :: ts) = Ok (GStr name0, ts10)) by (apply H3; lia).
    pose proof (unm_consumes _ _ _ _ _ _ _ _ _ Ha) as La.
    pose proof (ssuffix_length _ _ (skip_value_suffix _ _ _ Hsk)) as Lb. cbn [length] in La, Hg.
    cbn [struct_loop]. apply N.eqb_neq in Hk0. rewrite Hk0, Ha. cbn [bind fst snd]. rewrite Hf0.
    assert (Hst : (strict o && negb (existsb (bytes_eqb name0) depr)) = false).
    { destruct (strict o); [|reflexivity]. rewrite (Hs0 eq_refl). reflexivity. }
    rewrite Hst, Hsk. cbn [bind]. apply H2; lia.
Qed.

Theorem field_error_propagates t fs cur x ts vals' tk ts' name ts1 i ft err :
  underlying t = TStruct fs ->
  FieldsPrefix fs (depr_of t) (struct_vals fs cur) ts vals' (tk :: ts') ->
  kind tk <> KObjectEnd ->
  Conforms pf o R TString (GStr []) (tk :: ts') (GStr name) ts1 ->
  find_field name fs 0 = Some (i, ft) ->
  (exists f, unm pf f o R ft (nth i vals' (zero ft)) ts1 = Err err) ->
  exists f, unm pf f o R t cur (T KObject x :: ts) = Err err.
Proof.
  intros Hu Hp Hk Hn Hf He. destruct (struct_loop_error _ _ _ _ _ _ _ _ _ _ _ _ Hp Hk Hn Hf He) as (f0 & H).
  exists (S f0). rewrite unm_dispatch;
    [|reflexivity|rewrite Hu; intros E; discriminate E|intros e0; rewrite Hu; intros E; discriminate E
     |intros E; discriminate E|reflexivity|reflexivity].
  rewrite Hu. disp. fold (struct_vals fs cur). rewrite H by lia. reflexivity.
Qed.

(* the two together: a scalar of the wrong kind in the middle of an array of scalars *)
Corollary array_item_mismatch_reported t n e cur x ts items' idx' tk ts' :
  underlying t = TArray n e ->
  ArrPrefix e (items_of_gval cur) 0 ts items' idx' (tk :: ts') ->
  (idx' < length items')%nat ->
  scalar_tok tk = true -> tok_matches e tk = false ->
  underlying e <> TTime -> underlying e <> TAny -> (forall e', underlying e <> TPtr e') ->
  exists f, unm pf f o R t cur (T KArray x :: ts) = Err (EMismatch (kind tk) (rk_of e)).
Proof.
  intros Hu Hp Hi Htk Hm H1 H2 H3. eapply array_error_propagates; try eassumption.
  - destruct (scalar_tok_kind tk Htk) as [Hk _]. intros E. rewrite E in Hk. discriminate Hk.
  - exists 1%nat. apply mismatch_reported; assumption.
Qed.

End Mismatch.

(* ====================================================================================== *)
(* Part 5.  Examples                                                                       *)
(* ====================================================================================== *)

Definition cpf0 : bytes -> N -> option N := fun _ _ => None.
Definition strict_opts : copts := Opts false true false.

(* type S struct { A int; p bool; P *string }, holding {1, true, nil} *)
Definition ExS : ty := TStruct [([65], true, TInt WNat); ([112], false, TBool); ([80], true, TPtr TString)].
Definition ex_s_cur : gval := GStruct [GInt 1; GBool true; GPtr None].
(* { "Zz": [1], "P": "hi", "A": 7 } true *)
Definition ex_s_stream : list token :=
  [T KObject VNone;
   T KString (VStr [90; 122]); T KArray VNone; T KInt (VI WNat 1); T KArrayEnd VNone;
   T KString (VStr [80]); T KString (VStr [104; 105]);
   T KString (VStr [65]); T KInt (VI WNat 7);
   T KObjectEnd VNone;
   T KBool (VBool true)].
Definition ex_s_result : gval := GStruct [GInt 7; GBool true; GPtr (Some (GStr [104; 105]))].

Ltac not_kind := let E := fresh "E" in intros E; cbn [kind] in E; discriminate E.

(* a derivation, rule by rule: the unknown field "Zz" is skipped by structure, the pointer field is
   allocated, the unexported field keeps its value *)
Example conforms_struct_ex :
  Conforms cpf0 default_opts [] ExS ex_s_cur ex_s_stream ex_s_result [T KBool (VBool true)].
Proof.
  eapply C_struct; [reflexivity|]. cbn [struct_vals ex_s_cur depr_of ExS].
  eapply CF_skip; [not_kind|apply C_string; reflexivity|reflexivity|intros E; discriminate E|reflexivity|].
  eapply CF_field; [not_kind|apply C_string; reflexivity|reflexivity| |].
  { eapply C_ptr; [reflexivity|not_kind|not_kind|]. apply C_string. reflexivity. }
  eapply CF_field; [not_kind|apply C_string; reflexivity|reflexivity| |].
  { apply C_int; reflexivity. }
  apply CF_end.
Qed.

Example unm_struct_ex :
  unm cpf0 5 default_opts [] ExS ex_s_cur ex_s_stream = Ok (ex_s_result, [T KBool (VBool true)]).
Proof. vm_compute. reflexivity. Qed.

(* in strict mode the same stream does not conform: "Zz" is not declared deprecated ... *)
Example strict_struct_ex :
  unm cpf0 5 strict_opts [] ExS ex_s_cur ex_s_stream = Err EUnknownField /\
  ~ (exists v rest, Conforms cpf0 strict_opts [] ExS ex_s_cur ex_s_stream v rest).
Proof.
  split; [vm_compute; reflexivity|]. apply unm_err_iff_not_conforms. exists 5%nat, EUnknownField. vm_compute. reflexivity.
Qed.

(* ... unless the type declares it so *)
Example strict_deprecated_ex :
  exists v, Conforms cpf0 strict_opts [] (TNamed [83] false [[90; 122]] ExS) ex_s_cur ex_s_stream v [T KBool (VBool true)].
Proof. eexists. eapply (conforms_complete _ _ _ 5). vm_compute. reflexivity. Qed.

(* an array target with fewer items than its length: the last element is untouched *)
Definition ex_arr_stream : list token := [T KArray VNone; T KInt (VI WNat 1); T KInt (VI WNat 2); T KArrayEnd VNone].

Example conforms_array_fewer_ex :
  Conforms cpf0 default_opts [] (TArray 3 (TInt WNat)) (GList false [GInt 9; GInt 9; GInt 9]) ex_arr_stream
           (GList false [GInt 1; GInt 2; GInt 9]) [].
Proof.
  eapply C_array; [reflexivity|]. cbn [items_of_gval].
  eapply CA_item; [not_kind|cbn; lia|apply C_int; reflexivity|].
  eapply CA_item; [not_kind|cbn; lia|apply C_int; reflexivity|].
  apply CA_end.
Qed.

Example unm_array_fewer_ex :
  unm cpf0 3 default_opts [] (TArray 3 (TInt WNat)) (GList false [GInt 9; GInt 9; GInt 9]) ex_arr_stream
  = Ok (GList false [GInt 1; GInt 2; GInt 9], []).
Proof. vm_compute. reflexivity. Qed.

(* an array longer than the target does not conform: TooManyElement *)
Example array_longer_ex :
  unm cpf0 3 default_opts [] (TArray 1 (TInt WNat)) (GList false [GInt 9]) ex_arr_stream = Err ETooMany /\
  ~ (exists v rest, Conforms cpf0 default_opts [] (TArray 1 (TInt WNat)) (GList false [GInt 9]) ex_arr_stream v rest).
Proof.
  split; [vm_compute; reflexivity|]. apply unm_err_iff_not_conforms. exists 3%nat, ETooMany. vm_compute. reflexivity.
Qed.

(* the mismatch inside an array, with both kinds: an int32 as second item of a [3]int16 *)
Example array_item_mismatch_ex :
  unm cpf0 3 default_opts [] (TArray 3 (TInt W16)) (GList false [GInt 0; GInt 0; GInt 0])
      [T KArray VNone; T KInt16 (VI W16 1); T KInt32 (VI W32 2); T KArrayEnd VNone]
  = Err (EMismatch KInt32 4).
Proof. vm_compute. reflexivity. Qed.

Example scalar_conforms_iff_ex : forall v rest',
  Conforms cpf0 default_opts [] (TInt W16) (GInt 0) [T KInt16 (VI W16 5)] v rest' <-> v = GInt 5 /\ rest' = [].
Proof.
  intros v rest'. rewrite scalar_conforms_iff by reflexivity. cbn. split.
  - intros (_ & [= <-] & ->). split; reflexivity.
  - intros (-> & ->). repeat split.
Qed.

(* ---- edges: where the model is more liberal (or stricter) than a literal reading of the sentence ---- *)

(* (1) the scalar rules look at the dynamic type of the token's VALUE, not at its kind: an ill-shaped
   token (kind Int carrying a bool) is accepted by a bool target.  On well-formed tokens the kind is
   determined by the value (wf_scalar_kind), so "kinds match exactly" holds there. *)
Example ill_shaped_scalar_edge :
  unm cpf0 1 default_opts [] TBool (GBool false) [T KInt (VBool true)] = Ok (GBool true, []) /\
  unm cpf0 1 default_opts [] (TInt W8) (GInt 0) [T KBool (VI W8 3)] = Ok (GInt 3, []).
Proof. split; vm_compute; reflexivity. Qed.

(* (2) "arrays are not longer than the target array", for both wire forms of a byte array: a Bytes token
   longer than a [n]byte target is TooManyElement and does not conform, exactly as the Array form
   (before the repair of the Go code it was accepted and silently cut at n); a shorter one leaves the
   tail of the array *)
Example bytes_longer_than_array_edge :
  unm cpf0 1 default_opts [] (TByteArray 2) (GBytes false [9; 9]) [T KBytes (VBytes [1; 2; 3])] = Err ETooMany /\
  ~ (exists v rest, Conforms cpf0 default_opts [] (TByteArray 2) (GBytes false [9; 9]) [T KBytes (VBytes [1; 2; 3])] v rest) /\
  unm cpf0 3 default_opts [] (TByteArray 2) (GBytes false [9; 9])
      [T KArray VNone; T KUint8 (VU W8 1); T KUint8 (VU W8 2); T KUint8 (VU W8 3); T KArrayEnd VNone] = Err ETooMany /\
  unm cpf0 1 default_opts [] (TByteArray 3) (GBytes false [9; 9; 9]) [T KBytes (VBytes [1])] = Ok (GBytes false [1; 9; 9], []) /\
  Conforms cpf0 default_opts [] (TByteArray 3) (GBytes false [9; 9; 9]) [T KBytes (VBytes [1])] (GBytes false [1; 9; 9]) [].
Proof.
  split; [vm_compute; reflexivity|]. split.
  { apply unm_err_iff_not_conforms. exists 1%nat, ETooMany. vm_compute. reflexivity. }
  split; [vm_compute; reflexivity|]. split; [vm_compute; reflexivity|].
  apply (C_bytes_array _ _ _ _ 3); [reflexivity|cbn; lia].
Qed.

(* (3) a field NAME is itself unmarshalled into a string target: Nil stands for the empty name (an
   unknown field, skipped; refused in strict mode), a Literal or a TypeName-prefixed String is a name *)
Definition ExA : ty := TStruct [([65], true, TInt WNat)].
Example field_name_forms_edge :
  unm cpf0 3 default_opts [] ExA (GStruct [GInt 1])
      [T KObject VNone; T KNil VNone; T KInt (VI WNat 5); T KObjectEnd VNone] = Ok (GStruct [GInt 1], []) /\
  unm cpf0 3 strict_opts [] ExA (GStruct [GInt 1])
      [T KObject VNone; T KNil VNone; T KInt (VI WNat 5); T KObjectEnd VNone] = Err EUnknownField /\
  unm cpf0 3 default_opts [] ExA (GStruct [GInt 1])
      [T KObject VNone; T KLiteral (VStr [65]); T KInt (VI WNat 5); T KObjectEnd VNone] = Ok (GStruct [GInt 5], []) /\
  unm cpf0 4 default_opts [] ExA (GStruct [GInt 1])
      [T KObject VNone; T KTypeName (VStr [90]); T KString (VStr [65]); T KInt (VI WNat 5); T KObjectEnd VNone]
    = Ok (GStruct [GInt 5], []).
Proof. repeat split; vm_compute; reflexivity. Qed.

(* (4) a slice target is appended to, not replaced *)
Example slice_appends_edge :
  unm cpf0 3 default_opts [] (TSlice (TInt WNat)) (GList false [GInt 1])
      [T KArray VNone; T KInt (VI WNat 2); T KArrayEnd VNone] = Ok (GList false [GInt 1; GInt 2], []).
Proof. vm_compute. reflexivity. Qed.

(* (5) "Nil leaves the target untouched" has two exceptions: time.Time refuses Nil (reporting the
   String kind it expects, 24, although its own reflect kind is Struct, 25), and the value of a map
   entry is decoded into a fresh zero value, so Nil resets an existing entry *)
Example nil_not_untouched_edge :
  unm cpf0 1 default_opts [] TTime (zero TTime) [T KNil VNone] = Err (EMismatch KNil 24) /\
  rk_of TTime = 25 /\
  unm cpf0 3 default_opts [] (TMap TString (TInt WNat)) (GMap false [(GStr [65], GInt 7)])
      [T KMap VNone; T KString (VStr [65]); T KNil VNone; T KMapEnd VNone] = Ok (GMap false [(GStr [65], GInt 0)], []).
Proof. repeat split; vm_compute; reflexivity. Qed.

(* (6) a non-nil pointer target gets a FRESH pointee: the fields an object does not mention are reset *)
Example pointer_fresh_pointee_edge :
  unm cpf0 3 default_opts [] (TPtr ExA) (GPtr (Some (GStruct [GInt 4]))) [T KObject VNone; T KObjectEnd VNone]
  = Ok (GPtr (Some (GStruct [GInt 0])), []).
Proof. vm_compute. reflexivity. Qed.

(* ====================================================================================== *)

Definition ConformP_main_theorems :=
  (conforms_sound, conforms_complete, unm_ok_iff_conforms, conforms_iff_bound, conforms_functional,
   conforms_fuel_independent, unm_err_iff_not_conforms, conforms_consumes, scalar_conforms_iff, wf_scalar_kind,
   mismatch_reported, mismatch_reported_time, mismatch_reported_structural,
   array_error_propagates, field_error_propagates, array_item_mismatch_reported,
   conforms_struct_ex, unm_struct_ex, strict_struct_ex, strict_deprecated_ex,
   conforms_array_fewer_ex, unm_array_fewer_ex, array_longer_ex, array_item_mismatch_ex, scalar_conforms_iff_ex,
   ill_shaped_scalar_edge, bytes_longer_than_array_edge, field_name_forms_edge, slice_appends_edge,
   nil_not_untouched_edge, pointer_fresh_pointee_edge).
Print Assumptions ConformP_main_theorems.
