(* Proofs/JsonDecodeP.v — C20: unmarshalling the token stream that mirrors a JSON document
   computes exactly the reference decoding semantics of Spec/JsonDecode.v (jdec), result and
   error class alike, for every target made of bool / integer / float / string / slice / struct /
   pointer positions.

   Method: partial correctness + totality.  [agrees j] says that at EVERY fuel the unmarshaller
   either runs out of fuel or returns what jdec prescribes ([le_res], from UnmarshalP.v); it is
   proved by induction on the document with no fuel arithmetic at all.  The explicit fuel bound
   [unm_total_bound] and fuel monotonicity [unm_fuel_mono] then give the stated equation. *)
From Coq Require Import Lia ZifyBool ZifyNat ZifyN Arith List.
From SbModel Require Import Spec.JsonDecode Proofs.UnmarshalP.
Import ListNotations.
Local Open Scope N_scope.

(* ====================================================================================== *)
(* Part 1.  A document's mirror is one balanced value                                      *)
(* ====================================================================================== *)

Lemma skip_open_arr d ts : skip_value d (T KArray VNone :: ts) = skip_value (S d) ts.
Proof. reflexivity. Qed.
Lemma skip_open_obj d ts : skip_value d (T KObject VNone :: ts) = skip_value (S d) ts.
Proof. reflexivity. Qed.
Lemma skip_end_arr d ts :
  skip_value (S d) (T KArrayEnd VNone :: ts) = match d with O => Ok ts | S _ => skip_value d ts end.
Proof. destruct d; reflexivity. Qed.
Lemma skip_end_obj d ts :
  skip_value (S d) (T KObjectEnd VNone :: ts) = match d with O => Ok ts | S _ => skip_value d ts end.
Proof. destruct d; reflexivity. Qed.
Lemma skip_key d s ts : skip_value (S d) (T KString (VStr s) :: ts) = skip_value (S d) ts.
Proof. reflexivity. Qed.

(* the generalisation over the depth: inside d > 0 open containers the document is passed over *)
Lemma skip_value_mirror_gen : forall j d rest,
  skip_value d (mirror j ++ rest) = match d with O => Ok rest | S _ => skip_value d rest end.
Proof.
  induction j as [|x|s|s|items IH|members IH] using json_ind2; intros d rest.
  - reflexivity.
  - reflexivity.
  - reflexivity.
  - reflexivity.
  - cbn [mirror app]. rewrite skip_open_arr, <- app_assoc.
    assert (Hl : forall tl, skip_value (S d) (flat_map mirror items ++ tl) = skip_value (S d) tl).
    { induction IH as [|x items Hx _ IHl]; intros tl; cbn [flat_map app]; [reflexivity|].
      rewrite <- app_assoc, Hx. apply IHl. }
    rewrite Hl. cbn [app]. apply skip_end_arr.
  - cbn [mirror app]. rewrite skip_open_obj, <- app_assoc.
    assert (Hl : forall tl,
      skip_value (S d) (flat_map (fun m => T KString (VStr (fst m)) :: mirror (snd m)) members ++ tl)
      = skip_value (S d) tl).
    { induction IH as [|m members Hm _ IHl]; intros tl; cbn [flat_map app]; [reflexivity|].
      rewrite skip_key, <- app_assoc, Hm. apply IHl. }
    rewrite Hl. cbn [app]. apply skip_end_obj.
Qed.

(* item 1 *)
Lemma skip_value_mirror : forall j rest, skip_value 0 (mirror j ++ rest) = Ok rest.
Proof. intros j rest. apply (skip_value_mirror_gen j 0%nat rest). Qed.

Lemma skip_value_mirror_inner : forall j d rest,
  skip_value (S d) (mirror j ++ rest) = skip_value (S d) rest.
Proof. intros j d rest. apply (skip_value_mirror_gen j (S d) rest). Qed.

(* ====================================================================================== *)
(* Part 2.  One unfolding of [jdec]: the item and member loops as top-level fixpoints      *)
(* ====================================================================================== *)

Section JItems.
Variable dec : ty -> gval -> json -> res gval.
Variable e : ty.
Fixpoint jitems (l : list json) (acc : list gval) : res (list gval) :=
  match l with
  | [] => Ok acc
  | x :: r => bind (dec e (zero e) x) (fun v => jitems r (acc ++ [v]))
  end.
End JItems.

Section JMembers.
Variable dec : ty -> gval -> json -> res gval.
Variable o : copts.
Variable fs : list (bytes * bool * ty).
Variable depr : list bytes.
Fixpoint jmembers (l : list (bytes * json)) (vals : list gval) : res (list gval) :=
  match l with
  | [] => Ok vals
  | m :: r =>
      match find_field (fst m) fs 0 with
      | Some (i, ft) => bind (dec ft (nth i vals (zero ft)) (snd m)) (fun v => jmembers r (set_nth i v vals))
      | None => if strict o && negb (existsb (bytes_eqb (fst m)) depr) then Err EUnknownField else jmembers r vals
      end
  end.
End JMembers.

(* the content of a non-pointer position b holding cur0 after a non-null document *)
Definition jbase (pf : bytes -> N -> option N) (dec : ty -> gval -> json -> res gval) (o : copts)
    (b : ty) (cur0 : gval) (j : json) : res gval :=
  match j with
  | JArr items =>
      match underlying b with
      | TSlice e =>
          bind (jitems dec e items (items_of_gval cur0))
               (fun acc => Ok (GList (is_nil_container cur0 && match acc with [] => true | _ => false end) acc))
      | _ => Err (EMismatch KArray (rk_of b))
      end
  | JObj members =>
      match underlying b with
      | TStruct fs =>
          let vals0 := match cur0 with GStruct vs => vs | _ => map (fun fd => zero (snd fd)) fs end in
          bind (jmembers dec o fs (depr_of b) members vals0) (fun vals => Ok (GStruct vals))
      | _ => Err (EMismatch KObject (rk_of b))
      end
  | _ => jscalar pf b j
  end.

Lemma jdec_eq0 pf o t cur j : j <> JNull ->
  jdec pf o t cur j =
  let '(n, b) := ptr_strip t in
  bind (jbase pf (jdec pf o) o b (match n with O => cur | S _ => zero b end) j) (fun v => Ok (wrap_ptr n v)).
Proof. destruct j; [congruence|..]; intros _; reflexivity. Qed.

Lemma jdec_eq pf o t cur j n b : ptr_strip t = (n, b) -> j <> JNull ->
  jdec pf o t cur j =
  bind (jbase pf (jdec pf o) o b (match n with O => cur | S _ => zero b end) j) (fun v => Ok (wrap_ptr n v)).
Proof. intros Hps Hj. rewrite jdec_eq0 by exact Hj. rewrite Hps. reflexivity. Qed.

Lemma jdec_null pf o t cur : jdec pf o t cur JNull = Ok cur.
Proof. reflexivity. Qed.

(* ====================================================================================== *)
(* Part 3.  Pointer levels and targets                                                     *)
(* ====================================================================================== *)

Lemma underlying_not_named t : forall n r d u, underlying t <> TNamed n r d u.
Proof. induction t; intros n' r' d' u'; cbn [underlying]; try discriminate. apply IHt. Qed.

Lemma jtarget_underlying t : jtarget t = true -> jtarget (underlying t) = true.
Proof. induction t; cbn [jtarget underlying]; auto. Qed.

Lemma ptr_strip_O t : forall b, ptr_strip t = (O, b) -> b = t /\ forall e, underlying t <> TPtr e.
Proof.
  induction t; intros b; cbn [ptr_strip underlying]; try (intros [= <-]; split; [reflexivity|discriminate]).
  - destruct (ptr_strip t) as [n' b']. discriminate.
  - destruct (ptr_strip t) as [[|n'] b'] eqn:Hps.
    + intros [= <-]. split; [reflexivity|]. exact (proj2 (IHt b' eq_refl)).
    + discriminate.
Qed.

Lemma ptr_strip_S t : forall n b, ptr_strip t = (S n, b) ->
  exists e, underlying t = TPtr e /\ ptr_strip e = (n, b).
Proof.
  induction t; intros n' b; cbn [ptr_strip underlying]; try discriminate.
  - destruct (ptr_strip t) as [n0 b0] eqn:Hps. intros [= <- <-]. exists t. split; [reflexivity|exact Hps].
  - destruct (ptr_strip t) as [[|n0] b0] eqn:Hps; [discriminate|].
    intros [= <- <-]. apply IHt. reflexivity.
Qed.

Lemma jtarget_pointee t e : jtarget t = true -> underlying t = TPtr e -> jtarget e = true.
Proof. intros Ht Hut. apply jtarget_underlying in Ht. rewrite Hut in Ht. exact Ht. Qed.

Lemma jtarget_not_time t : jtarget t = true -> underlying t <> TTime.
Proof. intros Ht Hut. apply jtarget_underlying in Ht. rewrite Hut in Ht. discriminate. Qed.

Lemma bind_ok_id {A} (r : res A) : bind r (fun v => Ok v) = r.
Proof. destruct r; reflexivity. Qed.

(* ====================================================================================== *)
(* Part 4.  The unmarshaller's step on the tokens a mirror is made of                      *)
(* ====================================================================================== *)

Definition lift {A} (r : res A) (rest : list token) : res (A * list token) :=
  match r with Ok v => Ok (v, rest) | Err e => Err e | OutOfFuel => OutOfFuel end.

Lemma bind_lift_le {A B} (r1 : res (A * list token)) (r2 : res A) (rest' : list token)
    (k1 : A * list token -> res (B * list token)) (k2 : A -> res B) (rest : list token) :
  le_res r1 (lift r2 rest') ->
  (forall v, le_res (k1 (v, rest')) (lift (k2 v) rest)) ->
  le_res (bind r1 k1) (lift (bind r2 k2) rest).
Proof.
  intros [-> | ->] Hk; [left; reflexivity|].
  destruct r2 as [v|e|]; cbn [lift bind]; [apply Hk|right; reflexivity|left; reflexivity].
Qed.

(* the heads of the mirror of a non-null document *)
Inductive jhead : token -> Prop :=
| jh_bool x : jhead (T KBool (VBool x))
| jh_num s : jhead (T KLiteral (VStr s))
| jh_str s : jhead (T KString (VStr s))
| jh_arr : jhead (T KArray VNone)
| jh_obj : jhead (T KObject VNone).

(* a scalar token that reaches the scalar case of the dispatch *)
Definition plain_scalar (tk : token) : Prop :=
  (kind tk =? KTypeName) = false /\ (kind tk =? KNil) = false /\ is_end_kind (kind tk) = false /\
  (kind tk =? KNaN) = false /\ (kind tk =? KBytes) = false /\ (kind tk =? KArray) = false /\
  (kind tk =? KObject) = false /\ (kind tk =? KMap) = false /\ (kind tk =? KTuple) = false /\
  (kind tk =? KRef) = false /\ (kind tk =? KLiteral) = false /\ val tk <> VNone.

Ltac plain_tac := repeat split; try reflexivity; discriminate.

Section Step.
Variable pf : bytes -> N -> option N.
Variable o : copts.
Variable R : registry.
Variable rec : rec_t.

(* what ustep does with the converted head token *)
Definition ucont (t : ty) (cur : gval) (rest : list token) (tk : token) : res (gval * list token) :=
  if (kind tk =? KTypeName) && negb (match ptr_base t with TAny => true | _ => false end) then rec t cur rest
  else
  match underlying t with
  | TTime => time_case tk rest
  | ut =>
    if kind tk =? KNil then Ok (cur, rest)
    else if is_end_kind (kind tk) then Err EUnexpEndTok
    else ptr_or_dispatch o R rec t ut cur tk rest
  end.

Lemma ustep_cons t cur tk0 rest :
  ustep pf o R rec t cur (tk0 :: rest) = bind (conv_tok pf t tk0) (ucont t cur rest).
Proof. reflexivity. Qed.

Lemma ptr_step t e cur tk0 rest :
  jhead tk0 -> underlying t = TPtr e ->
  ustep pf o R rec t cur (tk0 :: rest) =
  bind (rec e (zero e) (tk0 :: rest)) (fun r => Ok (GPtr (Some (fst r)), snd r)).
Proof.
  intros Hh Hut. rewrite ustep_cons. unfold ucont, conv_tok, convert_literal, ptr_or_dispatch.
  rewrite Hut. destruct Hh; reflexivity.
Qed.

Lemma ucont_plain t cur rest tk :
  plain_scalar tk -> jtarget t = true -> (forall e, underlying t <> TPtr e) ->
  ucont t cur rest tk = bind (set_scalar t tk) (fun v => Ok (v, rest)).
Proof.
  intros (H1 & H2 & H3 & H4 & H5 & H6 & H7 & H8 & H9 & H10 & H11 & H12) Hj Hp.
  unfold ucont, ptr_or_dispatch, dispatch, scalar_case.
  rewrite H1, H2, H3, H4, H5, H6, H7, H8, H9, H10, H11. cbn [andb orb].
  pose proof (jtarget_underlying t Hj) as Hu.
  destruct (underlying t) eqn:Hut; cbn [jtarget] in Hu; try discriminate Hu;
    try (destruct (val tk); [congruence|reflexivity..]).
  exfalso. exact (Hp _ eq_refl).
Qed.

Lemma ucont_array t cur rest :
  jtarget t = true -> (forall e, underlying t <> TPtr e) ->
  ucont t cur rest (T KArray VNone) = array_case rec t (underlying t) cur KArray rest.
Proof.
  intros Hj Hp. unfold ucont, ptr_or_dispatch.
  pose proof (jtarget_not_time t Hj) as Hnt.
  destruct (underlying t) eqn:Hut; try reflexivity.
  - exfalso. exact (Hp _ eq_refl).
  - exfalso. apply Hnt. reflexivity.
Qed.

Lemma ucont_object t cur rest :
  jtarget t = true -> (forall e, underlying t <> TPtr e) ->
  ucont t cur rest (T KObject VNone) = object_case o rec t (underlying t) cur KObject rest.
Proof.
  intros Hj Hp. unfold ucont, ptr_or_dispatch.
  pose proof (jtarget_not_time t Hj) as Hnt.
  destruct (underlying t) eqn:Hut; try reflexivity.
  - exfalso. exact (Hp _ eq_refl).
  - exfalso. apply Hnt. reflexivity.
Qed.

Lemma slice_loop_step g et acc tk ts :
  (kind tk =? KArrayEnd) = false ->
  slice_loop rec (S g) et acc (tk :: ts) =
  bind (rec et (zero et) (tk :: ts)) (fun r => slice_loop rec g et (acc ++ [fst r]) (snd r)).
Proof. intros H. cbn [slice_loop]. rewrite H. reflexivity. Qed.

Lemma slice_loop_end g et acc ts :
  slice_loop rec (S g) et acc (T KArrayEnd VNone :: ts) = Ok (acc, ts).
Proof. reflexivity. Qed.

Lemma struct_loop_key g fs depr vals name ts :
  struct_loop o rec (S g) fs depr vals (T KString (VStr name) :: ts) =
  bind (rec TString (GStr []) (T KString (VStr name) :: ts)) (fun nr =>
    let name := match fst nr with GStr s => s | _ => [] end in
    match find_field name fs 0 with
    | Some (i, ft) =>
        bind (rec ft (nth i vals (zero ft)) (snd nr)) (fun r =>
        struct_loop o rec g fs depr (set_nth i (fst r) vals) (snd r))
    | None =>
        if strict o && negb (existsb (bytes_eqb name) depr) then Err EUnknownField
        else bind (skip_value 0 (snd nr)) (fun rest' => struct_loop o rec g fs depr vals rest')
    end).
Proof. reflexivity. Qed.

Lemma struct_loop_end g fs depr vals ts :
  struct_loop o rec (S g) fs depr vals (T KObjectEnd VNone :: ts) = Ok (vals, ts).
Proof. reflexivity. Qed.

End Step.

Lemma convert_literal_plain pf t s tk :
  convert_literal pf t s = Ok tk -> (forall e, underlying t <> TPtr e) -> plain_scalar tk.
Proof.
  unfold convert_literal. destruct (underlying t) eqn:Hut; intros Hc Hp; try discriminate Hc.
  - destruct (parse_bool s); [|discriminate Hc]. injection Hc as <-. plain_tac.
  - destruct (parse_int (int_bits w) s); [|discriminate Hc]. injection Hc as <-. destruct w; plain_tac.
  - destruct (parse_uint (int_bits w) s); [|discriminate Hc]. injection Hc as <-. destruct w; plain_tac.
  - destruct (parse_uint 64 s); [|discriminate Hc]. injection Hc as <-. plain_tac.
  - destruct (pf s 32); [|discriminate Hc]. injection Hc as <-. plain_tac.
  - destruct (pf s 64); [|discriminate Hc]. injection Hc as <-. plain_tac.
  - injection Hc as <-. plain_tac.
  - exfalso. exact (Hp _ eq_refl).
Qed.

Lemma mirror_app_head x TL : exists tk ts,
  mirror x ++ TL = tk :: ts /\ (kind tk =? KArrayEnd) = false.
Proof. destruct x; cbn [mirror app]; eexists; eexists; split; reflexivity. Qed.

(* ====================================================================================== *)
(* Part 5.  Partial correctness: at every fuel, out of fuel or the reference result        *)
(* ====================================================================================== *)

Section Main.
Variable pf : bytes -> N -> option N.
Variable o : copts.
Variable R : registry.

Definition agrees (j : json) : Prop :=
  forall f t cur rest, jtarget t = true ->
    le_res (unm pf f o R t cur (mirror j ++ rest)) (lift (jdec pf o t cur j) rest).

(* the key of a member *)
Lemma unm_key f name ts :
  le_res (unm pf f o R TString (GStr []) (T KString (VStr name) :: ts)) (Ok (GStr name, ts)).
Proof.
  destruct f as [|f]; [left; apply unm_O|]. right. rewrite unm_S.
  generalize (unm pf f o R). intros rec. reflexivity.
Qed.

(* through the pointer levels of the target down to the position the document fills *)
Lemma ptr_levels tk0 tl rest (B : ty -> gval -> res gval) :
  jhead tk0 ->
  (forall f b cur, jtarget b = true -> (forall e, underlying b <> TPtr e) ->
     le_res (unm pf f o R b cur (tk0 :: tl)) (lift (B b cur) rest)) ->
  forall n f t b cur, jtarget t = true -> ptr_strip t = (n, b) ->
    le_res (unm pf f o R t cur (tk0 :: tl))
           (lift (bind (B b (match n with O => cur | S _ => zero b end)) (fun v => Ok (wrap_ptr n v))) rest).
Proof.
  intros Hh Hbase. induction n as [|n IHn]; intros f t b cur Ht Hps.
  - destruct (ptr_strip_O t b Hps) as [-> Hp]. cbn [wrap_ptr]. rewrite bind_ok_id.
    apply Hbase; assumption.
  - destruct (ptr_strip_S t n b Hps) as (e & Hut & Hpe).
    destruct f as [|f]; [left; apply unm_O|]. rewrite unm_S.
    rewrite (ptr_step pf o R (unm pf f o R) t e cur tk0 tl Hh Hut).
    pose proof (IHn f e b (zero e) (jtarget_pointee t e Ht Hut) Hpe) as IHe.
    assert (Hz : match n with O => zero e | S _ => zero b end = zero b).
    { destruct n as [|n']; [|reflexivity]. destruct (ptr_strip_O e b Hpe) as [-> _]. reflexivity. }
    rewrite Hz in IHe. destruct IHe as [-> | ->]; [left; reflexivity|].
    destruct (B b (zero b)) as [v|er|]; cbn [bind lift fst snd wrap_ptr];
      [right; reflexivity|right; reflexivity|left; reflexivity].
Qed.

(* ---- scalars ---- *)
Lemma scalar_base f b cur tk0 rest (spec : res gval) :
  jtarget b = true -> (forall e, underlying b <> TPtr e) ->
  (forall tk, conv_tok pf b tk0 = Ok tk -> plain_scalar tk) ->
  spec = bind (conv_tok pf b tk0) (set_scalar b) ->
  le_res (unm pf f o R b cur (tk0 :: rest)) (lift spec rest).
Proof.
  intros Hj Hp Hpl ->. destruct f as [|f]; [left; apply unm_O|]. right.
  rewrite unm_S, ustep_cons.
  destruct (conv_tok pf b tk0) as [tk|er|] eqn:Hc; cbn [bind lift]; [|reflexivity|reflexivity].
  rewrite ucont_plain; [|apply Hpl; reflexivity|exact Hj|exact Hp].
  destruct (set_scalar b tk); reflexivity.
Qed.

(* ---- arrays ---- *)
Lemma slice_loop_mirror f e rest items :
  Forall agrees items -> jtarget e = true ->
  forall g acc,
    le_res (slice_loop (unm pf f o R) g e acc (flat_map mirror items ++ T KArrayEnd VNone :: rest))
           (lift (jitems (jdec pf o) e items acc) rest).
Proof.
  intros Hitems He. induction Hitems as [|x items Hx _ IH]; intros g acc;
    (destruct g as [|g]; [left; reflexivity|]).
  - cbn [flat_map app jitems lift]. rewrite slice_loop_end. right. reflexivity.
  - cbn [flat_map jitems]. rewrite <- app_assoc.
    destruct (mirror_app_head x (flat_map mirror items ++ T KArrayEnd VNone :: rest)) as (tk & ts & Heq & Hk).
    rewrite Heq, slice_loop_step by exact Hk. rewrite <- Heq.
    apply bind_lift_le with (rest' := flat_map mirror items ++ T KArrayEnd VNone :: rest).
    + apply Hx. exact He.
    + intros v. cbn [fst snd]. apply IH.
Qed.

Lemma array_base f b cur items rest :
  Forall agrees items -> jtarget b = true -> (forall e, underlying b <> TPtr e) ->
  le_res (unm pf f o R b cur (T KArray VNone :: flat_map mirror items ++ T KArrayEnd VNone :: rest))
         (lift (jbase pf (jdec pf o) o b cur (JArr items)) rest).
Proof.
  intros Hitems Hj Hp. destruct f as [|f]; [left; apply unm_O|].
  rewrite unm_S, ustep_cons.
  change (conv_tok pf b (T KArray VNone)) with (@Ok token (T KArray VNone)). cbn [bind].
  rewrite ucont_array by assumption. unfold array_case, jbase.
  pose proof (jtarget_underlying b Hj) as Hu.
  destruct (underlying b) eqn:Hut; cbn [jtarget] in Hu; try discriminate Hu; try (right; reflexivity).
  - apply bind_lift_le with (rest' := rest).
    + apply slice_loop_mirror; assumption.
    + intros v. cbn [fst snd lift]. right. reflexivity.
Qed.

(* ---- objects ---- *)
Lemma find_field_jtarget name fs i0 i ft :
  forallb (fun fd => jtarget (snd fd)) fs = true -> find_field name fs i0 = Some (i, ft) -> jtarget ft = true.
Proof.
  intros Hfs Hff. apply find_field_In in Hff. apply in_map_iff in Hff. destruct Hff as (fd & <- & Hin).
  rewrite forallb_forall in Hfs. exact (Hfs fd Hin).
Qed.

Lemma struct_loop_mirror f fs depr rest members :
  Forall (fun m => agrees (snd m)) members ->
  forallb (fun fd => jtarget (snd fd)) fs = true ->
  forall g vals,
    le_res (struct_loop o (unm pf f o R) g fs depr vals
              (flat_map (fun m => T KString (VStr (fst m)) :: mirror (snd m)) members ++ T KObjectEnd VNone :: rest))
           (lift (jmembers (jdec pf o) o fs depr members vals) rest).
Proof.
  intros Hmem Hfs. induction Hmem as [|m members Hm _ IH]; intros g vals;
    (destruct g as [|g]; [left; reflexivity|]).
  - cbn [flat_map app jmembers lift]. rewrite struct_loop_end. right. reflexivity.
  - cbn [flat_map app jmembers]. rewrite <- app_assoc. rewrite struct_loop_key.
    destruct (unm_key f (fst m)
                (mirror (snd m) ++
                 flat_map (fun m0 => T KString (VStr (fst m0)) :: mirror (snd m0)) members ++
                 T KObjectEnd VNone :: rest)) as [-> | ->]; [left; reflexivity|].
    cbn [bind fst snd].
    destruct (find_field (fst m) fs 0) as [[i ft]|] eqn:Hff.
    + apply bind_lift_le with
        (rest' := flat_map (fun m0 => T KString (VStr (fst m0)) :: mirror (snd m0)) members ++
                  T KObjectEnd VNone :: rest).
      * apply Hm. eapply find_field_jtarget; eassumption.
      * intros v. cbn [fst snd]. apply IH.
    + destruct (strict o && negb (existsb (bytes_eqb (fst m)) depr)); [right; reflexivity|].
      rewrite skip_value_mirror. cbn [bind]. apply IH.
Qed.

Lemma object_base f b cur members rest :
  Forall (fun m => agrees (snd m)) members -> jtarget b = true -> (forall e, underlying b <> TPtr e) ->
  le_res (unm pf f o R b cur
            (T KObject VNone ::
             flat_map (fun m => T KString (VStr (fst m)) :: mirror (snd m)) members ++ T KObjectEnd VNone :: rest))
         (lift (jbase pf (jdec pf o) o b cur (JObj members)) rest).
Proof.
  intros Hmem Hj Hp. destruct f as [|f]; [left; apply unm_O|].
  rewrite unm_S, ustep_cons.
  change (conv_tok pf b (T KObject VNone)) with (@Ok token (T KObject VNone)). cbn [bind].
  rewrite ucont_object by assumption. unfold object_case, jbase.
  pose proof (jtarget_underlying b Hj) as Hu.
  destruct (underlying b) eqn:Hut; cbn [jtarget] in Hu; try discriminate Hu; try (right; reflexivity).
  - cbv zeta. apply bind_lift_le with (rest' := rest).
    + apply struct_loop_mirror; assumption.
    + intros v. cbn [fst snd lift]. right. reflexivity.
Qed.

Theorem agrees_all : forall j, agrees j.
Proof.
  induction j as [|x|s|s|items IH|members IH] using json_ind2; intros f t cur rest Ht.
  - cbn [mirror app]. rewrite jdec_null. destruct f as [|f]; [left; apply unm_O|]. right.
    rewrite nil_leaves_untouched by (apply jtarget_not_time; exact Ht). reflexivity.
  - destruct (ptr_strip t) as [n b] eqn:Hps. rewrite (jdec_eq pf o t cur _ n b Hps) by discriminate.
    cbn [mirror app].
    apply (ptr_levels (T KBool (VBool x)) rest rest (fun b c => jbase pf (jdec pf o) o b c (JBool x)));
      [constructor| |exact Ht|exact Hps].
    intros f' b' cur' Hj Hp. apply scalar_base; [exact Hj|exact Hp| |reflexivity].
    intros tk [= <-]. plain_tac.
  - destruct (ptr_strip t) as [n b] eqn:Hps. rewrite (jdec_eq pf o t cur _ n b Hps) by discriminate.
    cbn [mirror app].
    apply (ptr_levels (T KLiteral (VStr s)) rest rest (fun b c => jbase pf (jdec pf o) o b c (JNum s)));
      [constructor| |exact Ht|exact Hps].
    intros f' b' cur' Hj Hp. apply scalar_base; [exact Hj|exact Hp| |reflexivity].
    intros tk Hc. eapply convert_literal_plain; [exact Hc|exact Hp].
  - destruct (ptr_strip t) as [n b] eqn:Hps. rewrite (jdec_eq pf o t cur _ n b Hps) by discriminate.
    cbn [mirror app].
    apply (ptr_levels (T KString (VStr s)) rest rest (fun b c => jbase pf (jdec pf o) o b c (JStr s)));
      [constructor| |exact Ht|exact Hps].
    intros f' b' cur' Hj Hp. apply scalar_base; [exact Hj|exact Hp| |reflexivity].
    intros tk [= <-]. plain_tac.
  - destruct (ptr_strip t) as [n b] eqn:Hps. rewrite (jdec_eq pf o t cur _ n b Hps) by discriminate.
    cbn [mirror app]. rewrite <- app_assoc. cbn [app].
    apply (ptr_levels (T KArray VNone) (flat_map mirror items ++ T KArrayEnd VNone :: rest) rest
             (fun b c => jbase pf (jdec pf o) o b c (JArr items)));
      [constructor| |exact Ht|exact Hps].
    intros f' b' cur' Hj Hp. apply array_base; assumption.
  - destruct (ptr_strip t) as [n b] eqn:Hps. rewrite (jdec_eq pf o t cur _ n b Hps) by discriminate.
    cbn [mirror app]. rewrite <- app_assoc. cbn [app].
    apply (ptr_levels (T KObject VNone)
             (flat_map (fun m => T KString (VStr (fst m)) :: mirror (snd m)) members ++ T KObjectEnd VNone :: rest) rest
             (fun b c => jbase pf (jdec pf o) o b c (JObj members)));
      [constructor| |exact Ht|exact Hps].
    intros f' b' cur' Hj Hp. apply object_base; assumption.
Qed.

End Main.

(* ====================================================================================== *)
(* Part 6.  The reference semantics has no fuel                                            *)
(* ====================================================================================== *)

Lemma convert_literal_noof pf t s : convert_literal pf t s <> OutOfFuel.
Proof.
  unfold convert_literal. destruct (underlying t); try discriminate;
    match goal with |- match ?x with _ => _ end <> _ => destruct x; discriminate end.
Qed.

(* item 4 *)
Lemma jdec_never_out_of_fuel : forall pf o t cur j, jdec pf o t cur j <> OutOfFuel.
Proof.
  intros pf o t cur j. revert t cur.
  induction j as [|x|s|s|items IH|members IH] using json_ind2; intros t cur.
  - discriminate.
  - rewrite jdec_eq0 by discriminate. destruct (ptr_strip t) as [n b].
    apply bind_noof; [|discriminate]. apply set_scalar_noof.
  - rewrite jdec_eq0 by discriminate. destruct (ptr_strip t) as [n b].
    apply bind_noof; [|discriminate]. cbn [jbase jscalar].
    apply bind_noof; [apply convert_literal_noof|]. intros tk _. apply set_scalar_noof.
  - rewrite jdec_eq0 by discriminate. destruct (ptr_strip t) as [n b].
    apply bind_noof; [|discriminate]. apply set_scalar_noof.
  - rewrite jdec_eq0 by discriminate. destruct (ptr_strip t) as [n b].
    apply bind_noof; [|discriminate]. cbn [jbase].
    destruct (underlying b); try discriminate. apply bind_noof; [|discriminate].
    generalize (items_of_gval match n with O => cur | S _ => zero b end).
    induction IH as [|x items Hx _ IHl]; intros acc; cbn [jitems]; [discriminate|].
    apply bind_noof; [apply Hx|]. intros v _. apply IHl.
  - rewrite jdec_eq0 by discriminate. destruct (ptr_strip t) as [n b].
    apply bind_noof; [|discriminate]. cbn [jbase].
    destruct (underlying b); try discriminate. cbv zeta. apply bind_noof; [|discriminate].
    generalize (match match n with O => cur | S _ => zero b end with
                | GStruct vs => vs | _ => map (fun fd => zero (snd fd)) fs end).
    induction IH as [|m members Hm _ IHl]; intros vals; cbn [jmembers]; [discriminate|].
    destruct (find_field (fst m) fs 0) as [[i ft]|].
    + apply bind_noof; [apply Hm|]. intros v _. apply IHl.
    + destruct (strict o && negb (existsb (bytes_eqb (fst m)) (depr_of b))); [discriminate|apply IHl].
Qed.

(* ====================================================================================== *)
(* Part 7.  The main theorem                                                               *)
(* ====================================================================================== *)

(* the equation at every fuel from the explicit bound of unm_total_bound on *)
Lemma unm_mirror_jdec_bound : forall pf o R t cur j rest f,
  jtarget t = true ->
  (length (mirror j ++ rest) * S (reg_depth R) + ty_depth t + 1 <= f)%nat ->
  unm pf f o R t cur (mirror j ++ rest) =
  match jdec pf o t cur j with Ok v => Ok (v, rest) | Err e => Err e | OutOfFuel => OutOfFuel end.
Proof.
  intros pf o R t cur j rest f Ht Hf.
  pose proof (unm_total_bound pf o R t cur (mirror j ++ rest)) as Hne.
  destruct (agrees_all pf o R j (length (mirror j ++ rest) * S (reg_depth R) + ty_depth t + 1)%nat
              t cur rest Ht) as [H|H]; [contradiction|].
  change (match jdec pf o t cur j with Ok v => Ok (v, rest) | Err e => Err e | OutOfFuel => OutOfFuel end)
    with (lift (jdec pf o t cur j) rest).
  eapply unm_fuel_mono; [exact H| |exact Hf]. rewrite <- H. exact Hne.
Qed.

(* item 2 *)
Theorem unm_mirror_jdec : forall pf o R t cur j rest,
  jtarget t = true ->
  exists f0, forall f, (f0 <= f)%nat ->
    unm pf f o R t cur (mirror j ++ rest) =
    match jdec pf o t cur j with Ok v => Ok (v, rest) | Err e => Err e | OutOfFuel => OutOfFuel end.
Proof.
  intros pf o R t cur j rest Ht.
  exists (length (mirror j ++ rest) * S (reg_depth R) + ty_depth t + 1)%nat. intros f Hf.
  apply unm_mirror_jdec_bound; assumption.
Qed.

(* item 3 *)
Corollary unm_mirror_jdec_doc : forall pf o R t j,
  jtarget t = true ->
  exists f0, forall f, (f0 <= f)%nat ->
    unm pf f o R t (zero t) (mirror j) =
    match jdec pf o t (zero t) j with Ok v => Ok (v, []) | Err e => Err e | OutOfFuel => OutOfFuel end.
Proof.
  intros pf o R t j Ht.
  destruct (unm_mirror_jdec pf o R t (zero t) j [] Ht) as (f0 & Hf0).
  exists f0. intros f Hf. specialize (Hf0 f Hf). rewrite app_nil_r in Hf0. exact Hf0.
Qed.

(* success and failure halves, for use without a match in the conclusion *)
Corollary unm_mirror_jdec_ok : forall pf o R t cur j rest v,
  jtarget t = true -> jdec pf o t cur j = Ok v ->
  exists f0, forall f, (f0 <= f)%nat -> unm pf f o R t cur (mirror j ++ rest) = Ok (v, rest).
Proof.
  intros pf o R t cur j rest v Ht Hd.
  destruct (unm_mirror_jdec pf o R t cur j rest Ht) as (f0 & Hf0).
  exists f0. intros f Hf. rewrite (Hf0 f Hf), Hd. reflexivity.
Qed.

Corollary unm_mirror_jdec_err : forall pf o R t cur j rest e,
  jtarget t = true -> jdec pf o t cur j = Err e ->
  exists f0, forall f, (f0 <= f)%nat -> unm pf f o R t cur (mirror j ++ rest) = Err e.
Proof.
  intros pf o R t cur j rest e Ht Hd.
  destruct (unm_mirror_jdec pf o R t cur j rest Ht) as (f0 & Hf0).
  exists f0. intros f Hf. rewrite (Hf0 f Hf), Hd. reflexivity.
Qed.

(* ====================================================================================== *)
(* Part 8.  Examples                                                                       *)
(* ====================================================================================== *)

Definition ex_pf : bytes -> N -> option N := fun _ _ => None.

(* struct { A int8; B []*int16; C string } *)
Definition ex_ty : ty :=
  TStruct [([65], true, TInt W8); ([66], true, TSlice (TPtr (TInt W16))); ([67], true, TString)].

(* {"A": 5, "X": [1, [2, "x"]], "B": [7, null, -3], "C": "hi", "A": 12, "C": null} *)
Definition ex_doc : json :=
  JObj [([65], JNum [53]);
        ([88], JArr [JNum [49]; JArr [JNum [50]; JStr [120]]]);
        ([66], JArr [JNum [55]; JNull; JNum [45; 51]]);
        ([67], JStr [104; 105]);
        ([65], JNum [49; 50]);
        ([67], JNull)].

Definition ex_val : gval :=
  GStruct [GInt 12;
           GList false [GPtr (Some (GInt 7)); GPtr None; GPtr (Some (GInt (-3)))];
           GStr [104; 105]].

Example ex_jtarget : jtarget ex_ty = true.
Proof. reflexivity. Qed.

Example ex_unm_ok : unm ex_pf 200 default_opts [] ex_ty (zero ex_ty) (mirror ex_doc) = Ok (ex_val, []).
Proof. vm_compute. reflexivity. Qed.

Example ex_jdec_ok : jdec ex_pf default_opts ex_ty (zero ex_ty) ex_doc = Ok ex_val.
Proof. vm_compute. reflexivity. Qed.

(* the unknown member is rejected under the strict option, by both *)
Example ex_unm_strict :
  unm ex_pf 200 (Opts false true false) [] ex_ty (zero ex_ty) (mirror ex_doc) = Err EUnknownField.
Proof. vm_compute. reflexivity. Qed.

Example ex_jdec_strict :
  jdec ex_pf (Opts false true false) ex_ty (zero ex_ty) ex_doc = Err EUnknownField.
Proof. vm_compute. reflexivity. Qed.

(* {"A": 300}: 300 does not fit an int8 *)
Definition ex_doc_bad : json := JObj [([65], JNum [51; 48; 48])].

Example ex_unm_bad : unm ex_pf 200 default_opts [] ex_ty (zero ex_ty) (mirror ex_doc_bad) = Err EParse.
Proof. vm_compute. reflexivity. Qed.

Example ex_jdec_bad : jdec ex_pf default_opts ex_ty (zero ex_ty) ex_doc_bad = Err EParse.
Proof. vm_compute. reflexivity. Qed.

Print Assumptions skip_value_mirror.
Print Assumptions unm_mirror_jdec.
Print Assumptions unm_mirror_jdec_doc.
Print Assumptions jdec_never_out_of_fuel.
