(* Proofs/PipelineP.v — C13: every one of the 16 identity-preserving stage kinds of the fuzz
   harness (Spec/Pipeline.v) leaves the stream of a well-formed, reference-free value
   unchanged; hence so does every pipeline of them, and the hash of the output is the
   Merkle hash of the value. *)
From Coq Require Import List NArith ZArith Bool Arith Lia ZifyBool ZifyNat ZifyN.
From SbModel Require Import Base.Bytes Base.Tokens Base.Values Model.Codec Model.Hash Model.Tree
  Model.Sinks Model.Procs Model.Types Spec.DecodeGrammar Spec.TreeSpec Spec.StreamSpec Spec.Pipeline.
From SbModel Require Import Proofs.CodecP Proofs.HashP Proofs.TreeP Proofs.SinksP Proofs.StreamsP.
Import ListNotations.

(* ================================================================== *)
(* definitional stages                                                *)
(* ================================================================== *)
Lemma stage_tokens H R pf ts : run_stage H R pf StTokens ts = Ok ts.
Proof. reflexivity. Qed.

Lemma stage_sink_marshal H R pf ts : run_stage H R pf StSinkMarshal ts = Ok ts.
Proof. reflexivity. Qed.

Lemma stage_embedded H R pf ts : run_stage H R pf StEmbedded ts = Ok ts.
Proof. reflexivity. Qed.

(* ================================================================== *)
(* stages through the schema-less decoder: the C11 hypothesis         *)
(* ================================================================== *)
Lemma stage_any H R pf ts : any_roundtrip R pf ts = Ok ts -> run_stage H R pf StAny ts = Ok ts.
Proof. intros Hany. exact Hany. Qed.

Lemma stage_tee3 H R pf pick ts : any_roundtrip R pf ts = Ok ts -> run_stage H R pf (StTee3 pick) ts = Ok ts.
Proof. intros Hany. exact Hany. Qed.

Lemma stage_tuple_wrap H R pf ts : any_roundtrip R pf ts = Ok ts -> run_stage H R pf StTupleWrap ts = Ok ts.
Proof. intros Hany. cbn [run_stage]. rewrite Hany. cbn [bind]. exact Hany. Qed.

(* ================================================================== *)
(* the wire codec                                                     *)
(* ================================================================== *)
Lemma codec_roundtrip_ok ts : Forall (wf_enc default_maxlen) ts -> codec_roundtrip ts = Ok ts.
Proof. intros Henc. unfold codec_roundtrip. rewrite (decode_encode default_maxlen ts Henc). reflexivity. Qed.

Lemma stage_codec H R pf ts : Forall (wf_enc default_maxlen) ts -> run_stage H R pf StCodec ts = Ok ts.
Proof. intros Henc. cbn [run_stage]. apply codec_roundtrip_ok. exact Henc. Qed.

Lemma stage_tee_codec H R pf ts : Forall (wf_enc default_maxlen) ts -> run_stage H R pf StTeeCodec ts = Ok ts.
Proof. intros Henc. cbn [run_stage]. apply codec_roundtrip_ok. exact Henc. Qed.

(* ================================================================== *)
(* IterStream / Tee without side sinks: run, with the fuel of run_tokens *)
(* ================================================================== *)
Definition it_proc (ts : list token) : proc := PIterStream (PTokens ts PNil) PNil.
Definition tee_proc (ts : list token) : proc := PTee (PTokens ts PNil) [] PNil.

Lemma next_nil g lg : next (S g) PNil lg = POk None PNil lg.
Proof. reflexivity. Qed.

Lemma it_next_cons g t r lg :
  next (S (S g)) (it_proc (t :: r)) lg = POk (Some t) (it_proc r) lg.
Proof.
  unfold it_proc. rewrite next_S by discriminate. rewrite pstep_iter.
  rewrite nextG_S by discriminate. rewrite pstep_tokens_cons. cbn [app]. rewrite app_nil_r. reflexivity.
Qed.

Lemma it_next_nil g lg : next (S (S (S g))) (it_proc []) lg = POk None PNil lg.
Proof.
  unfold it_proc. rewrite next_S by discriminate. rewrite pstep_iter.
  rewrite nextG_S by discriminate. rewrite pstep_tokens_nil. cbn [app nextG].
  rewrite next_nil, app_nil_r. reflexivity.
Qed.

Lemma run_S f p :
  run (S f) p = match next (S f) p [] with
                | PErr e lg => ([], e, lg)
                | POk None _ lg => ([], ENone, lg)
                | POk (Some t) p' lg => let '(ts, e, lg') := run f p' in (t :: ts, e, lg ++ lg')
                end.
Proof. reflexivity. Qed.

Lemma run_it ts : forall fuel, length ts + 3 <= fuel -> run fuel (it_proc ts) = (ts, ENone, []).
Proof.
  induction ts as [|t r IH]; intros fuel Hf.
  - destruct fuel as [|[|[|g]]]; cbn [length] in Hf; try lia.
    rewrite run_S, it_next_nil. reflexivity.
  - destruct fuel as [|[|g]]; cbn [length] in Hf; try lia.
    rewrite run_S, it_next_cons. rewrite IH by lia. reflexivity.
Qed.

Lemma tee_next_cons g t r lg :
  next (S (S g)) (tee_proc (t :: r)) lg = POk (Some t) (tee_proc r) lg.
Proof.
  unfold tee_proc. rewrite next_S by discriminate. rewrite pstep_tee.
  rewrite nextG_S by discriminate. rewrite pstep_tokens_cons. cbn [app length tee_pass].
  rewrite app_nil_r. reflexivity.
Qed.

Lemma tee_next_nil g lg : next (S (S (S g))) (tee_proc []) lg = POk None PNil lg.
Proof.
  unfold tee_proc. rewrite next_S by discriminate. rewrite pstep_tee.
  rewrite nextG_S by discriminate. rewrite pstep_tokens_nil. cbn [app nextG length tee_pass].
  rewrite next_nil, app_nil_r. reflexivity.
Qed.

Lemma run_tee ts : forall fuel, length ts + 3 <= fuel -> run fuel (tee_proc ts) = (ts, ENone, []).
Proof.
  induction ts as [|t r IH]; intros fuel Hf.
  - destruct fuel as [|[|[|g]]]; cbn [length] in Hf; try lia.
    rewrite run_S, tee_next_nil. reflexivity.
  - destruct fuel as [|[|g]]; cbn [length] in Hf; try lia.
    rewrite run_S, tee_next_cons. rewrite IH by lia. reflexivity.
Qed.

Lemma stage_iter_stream H R pf ts : run_stage H R pf StIterStream ts = Ok ts.
Proof.
  cbn [run_stage]. unfold run_tokens. change (PIterStream (PTokens ts PNil) PNil) with (it_proc ts).
  rewrite run_it by lia. reflexivity.
Qed.

Lemma stage_tee H R pf ts : run_stage H R pf StTee ts = Ok ts.
Proof.
  cbn [run_stage]. unfold run_tokens. change (PTee (PTokens ts PNil) [] PNil) with (tee_proc ts).
  rewrite run_tee by lia. reflexivity.
Qed.

(* ================================================================== *)
(* Copy to CollectTokens / CollectValueTokens                         *)
(* ================================================================== *)
Definition log_tokens (lg : list delivery) : list token :=
  flat_map (fun d : delivery => match snd d with Some t => [t] | None => [] end) lg.

Lemma log_tokens_calls id ts :
  log_tokens (map (fun c => (id, c)) (map Some ts ++ [None])) = ts.
Proof.
  unfold log_tokens. induction ts as [|t r IH]; [reflexivity|].
  cbn [map app flat_map snd]. rewrite IH. reflexivity.
Qed.

Lemma log_tokens_some id ts : log_tokens (map (fun t => (id, Some t)) ts) = ts.
Proof.
  unfold log_tokens. induction ts as [|t r IH]; [reflexivity|].
  cbn [map app flat_map snd]. rewrite IH. reflexivity.
Qed.

Lemma stage_collect H R pf ts : run_stage H R pf StCollect ts = Ok ts.
Proof.
  cbn [run_stage]. destruct (rec_run 0 ts ToEnd []) as [rest E]. rewrite E.
  cbn [app expected]. f_equal. apply (log_tokens_calls 0 ts).
Qed.

Lemma stage_collect_value H R pf v : wf_value v = true ->
  run_stage H R pf StCollectValue (flatten v) = Ok (flatten v).
Proof.
  intros Hwf. cbn [run_stage]. unfold calls_of. rewrite (collect_value 0 v [None] Hwf).
  f_equal. apply (log_tokens_some 0).
Qed.

(* ================================================================== *)
(* TreeFromStream, then Iter / IterFunc                               *)
(* ================================================================== *)
Lemma stage_tree H R pf v : wf_value v = true -> run_stage H R pf StTree (flatten v) = Ok (flatten v).
Proof.
  intros Hwf. cbn [run_stage]. rewrite (build_tree_of v Hwf). cbn [of_sum bind].
  unfold plain_tree. rewrite iter_tree_of. reflexivity.
Qed.

Lemma stage_tree_func H R pf v : wf_value v = true -> run_stage H R pf StTreeFunc (flatten v) = Ok (flatten v).
Proof.
  intros Hwf. cbn [run_stage]. rewrite (build_tree_of v Hwf). cbn [of_sum bind].
  unfold plain_tree. rewrite iter_func_none. reflexivity.
Qed.

(* ================================================================== *)
(* FindByHash with the stream's own hash                              *)
(* ================================================================== *)
Lemma mhash_nonempty H v : (forall x, H x <> []) -> ref_free v = true -> mhash H v <> [].
Proof. intros HHne Hrf. rewrite (mhash_preimage H v Hrf). apply HHne. Qed.

Lemma find_root H v : wf_value v = true -> mhash H v <> [] ->
  find_by_hash H (flatten v) (mhash H v) = inl (flatten v).
Proof.
  intros Hwf Hne. rewrite (find_by_hash_eq H v _ Hwf).
  pose proof (iter_full_tree H v 0) as Hit.
  destruct (full_tree_shape H 0 v) as (tok & p & subs & E). rewrite E in *.
  rewrite find_node_eq.
  assert (Hh : hit (Some (mhash H v)) (mhash H v) = true) by (apply hit_some; auto).
  rewrite Hh, Hit. reflexivity.
Qed.

Lemma stage_find_root H R pf v : wf_value v = true -> ref_free v = true -> (forall x, H x <> []) ->
  run_stage H R pf StFindRoot (flatten v) = Ok (flatten v).
Proof.
  intros Hwf Hrf HHne. cbn [run_stage]. rewrite (sink_hash_is_merkle H v Hwf). cbn [of_sum bind].
  rewrite (find_root H v Hwf (mhash_nonempty H v HHne Hrf)). reflexivity.
Qed.

(* ================================================================== *)
(* FillHash, replace the selected nodes by references, Deref          *)
(* ================================================================== *)
(* every sub-value of v with the stream index of its first token (v itself has index i), pre-order *)
Fixpoint subs_at (i : nat) (v : value) : list (nat * value) :=
  (i, v) :: match v with
            | Leaf _ => []
            | Comp _ _ items =>
                (fix go (j : nat) (l : list value) : list (nat * value) :=
                   match l with
                   | [] => []
                   | x :: r => subs_at j x ++ go (j + vlen x)%nat r
                   end) (S i) items
            | Named _ v' => subs_at (S i) v'
            end.

Fixpoint subs_items (j : nat) (l : list value) : list (nat * value) :=
  match l with
  | [] => []
  | x :: r => subs_at j x ++ subs_items (j + vlen x) r
  end.

Lemma subs_at_comp i ko kc items :
  subs_at i (Comp ko kc items) = (i, Comp ko kc items) :: subs_items (S i) items.
Proof.
  reflexivity.
Qed.

Fixpoint sel_items (sel : list nat) (j : nat) (l : list value) : list (nat * value) :=
  match l with
  | [] => []
  | x :: r => selected sel j x ++ sel_items sel (j + vlen x) r
  end.

Lemma selected_comp sel i ko kc items :
  selected sel i (Comp ko kc items) =
    if in_natb i sel then [(i, Comp ko kc items)] else sel_items sel (S i) items.
Proof.
  cbn [selected]. unfold in_natb. destruct (existsb (Nat.eqb i) sel); [reflexivity|].
  generalize (S i) as j.
  induction items as [|x r IH]; intros j; cbn [sel_items]; [reflexivity|]. rewrite IH. reflexivity.
Qed.

Lemma in_natb_In i l : in_natb i l = true <-> In i l.
Proof.
  unfold in_natb. rewrite existsb_exists. split.
  - intros (x & Hx & E). apply Nat.eqb_eq in E. subst x. exact Hx.
  - intros Hi. exists i. split; [exact Hi | apply Nat.eqb_refl].
Qed.

(* the selected sub-values are sub-values with a selected index *)
Lemma selected_subs sel v : forall i j s, In (j, s) (selected sel i v) ->
  In (j, s) (subs_at i v) /\ in_natb j sel = true.
Proof.
  induction v as [t|ko kc items IH|n v IH] using value_ind2; intros i j s.
  - cbn [selected subs_at]. change (existsb (Nat.eqb i) sel) with (in_natb i sel).
    destruct (in_natb i sel) eqn:Ei; [|intros []].
    intros [E|[]]. inversion E; subst. split; [left; reflexivity | exact Ei].
  - rewrite selected_comp, subs_at_comp. destruct (in_natb i sel) eqn:Ei.
    + intros [E|[]]. inversion E; subst. split; [left; reflexivity | exact Ei].
    + intros Hin. cut (In (j, s) (subs_items (S i) items) /\ in_natb j sel = true).
      { intros [H1 H2]. split; [right; exact H1 | exact H2]. }
      revert Hin. generalize (S i) as j0.
      induction IH as [|x r Hx _ IHr]; intros j0; cbn [sel_items subs_items]; [intros []|].
      intros Hin. apply in_app_or in Hin. destruct Hin as [Hin|Hin].
      * destruct (Hx _ _ _ Hin) as [H1 H2]. split; [apply in_or_app; left; exact H1 | exact H2].
      * destruct (IHr _ Hin) as [H1 H2]. split; [apply in_or_app; right; exact H1 | exact H2].
  - cbn [selected subs_at]. change (existsb (Nat.eqb i) sel) with (in_natb i sel).
    destruct (in_natb i sel) eqn:Ei.
    + intros [E|[]]. inversion E; subst. split; [left; reflexivity | exact Ei].
    + intros Hin. destruct (IH _ _ _ Hin) as [H1 H2]. split; [right; exact H1 | exact H2].
Qed.

Lemma subs_at_subvalue v : forall i j s, In (j, s) (subs_at i v) -> subvalue s v.
Proof.
  induction v as [t|ko kc items IH|n v IH] using value_ind2; intros i j s.
  - cbn [subs_at]. intros [E|[]]. inversion E; subst. constructor.
  - rewrite subs_at_comp. intros [E|Hin]; [inversion E; subst; constructor|].
    cut (exists x, In x items /\ subvalue s x).
    { intros (x & Hx & Hs). apply (sv_item s ko kc items x); assumption. }
    revert Hin. generalize (S i) as j0.
    induction IH as [|x r Hx _ IHr]; intros j0; cbn [subs_items]; [intros []|].
    intros Hin. apply in_app_or in Hin. destruct Hin as [Hin|Hin].
    + exists x. split; [left; reflexivity | exact (Hx _ _ _ Hin)].
    + destruct (IHr _ Hin) as (y & Hy & Hs). exists y. split; [right; exact Hy | exact Hs].
  - cbn [subs_at]. intros [E|Hin]; [inversion E; subst; constructor|].
    apply sv_named. exact (IH _ _ _ Hin).
Qed.

Lemma all_nodes_eq t : all_nodes t = t :: flat_map all_nodes (t_subs t).
Proof. destruct t; reflexivity. Qed.

Lemma all_nodes_head t : In t (all_nodes t).
Proof. rewrite all_nodes_eq. left. reflexivity. Qed.

Section Nodes.
Variable H : bytes -> bytes.

(* every sub-value has its node in the filled tree *)
Lemma subs_nodes v : forall i j s, In (j, s) (subs_at i v) ->
  In (full_tree H j s) (all_nodes (full_tree H i v)).
Proof.
  induction v as [t|ko kc items IH|n v IH] using value_ind2; intros i j s.
  - cbn [subs_at]. intros [E|[]]. inversion E; subst. apply all_nodes_head.
  - rewrite subs_at_comp. intros [E|Hin]; [inversion E; subst; apply all_nodes_head|].
    rewrite full_tree_comp, all_nodes_eq. cbn [t_subs]. right.
    revert Hin. generalize (S i) as j0.
    induction IH as [|x r Hx _ IHr]; intros j0; cbn [subs_items full_subs flat_map]; [intros []|].
    intros Hin. apply in_app_or in Hin. apply in_or_app. destruct Hin as [Hin|Hin].
    + left. exact (Hx _ _ _ Hin).
    + right. exact (IHr _ Hin).
  - cbn [subs_at]. intros [E|Hin]; [inversion E; subst; apply all_nodes_head|].
    cbn [full_tree]. rewrite all_nodes_eq. cbn [t_subs flat_map]. right.
    apply in_or_app. left. exact (IH _ _ _ Hin).
Qed.

(* and every node of the filled tree is the node of a sub-value, or an end marker *)
Lemma nodes_char v : forall i n, In n (all_nodes (full_tree H i v)) ->
  (exists j s, In (j, s) (subs_at i v) /\ n = full_tree H j s) \/ In (t_idx n) (end_indices i v).
Proof.
  induction v as [t|ko kc items IH|nm v IH] using value_ind2; intros i n.
  - cbn [full_tree all_nodes flat_map]. intros [E|[]]. left. exists i, (Leaf t).
    split; [left; reflexivity | symmetry; exact E].
  - rewrite all_nodes_eq. intros [E|Hin].
    { left. exists i, (Comp ko kc items). split; [rewrite subs_at_comp; left; reflexivity | symmetry; exact E]. }
    rewrite full_tree_comp in Hin. cbn [t_subs] in Hin. rewrite subs_at_comp, end_indices_comp.
    cut ((exists j s, In (j, s) (subs_items (S i) items) /\ n = full_tree H j s) \/
         In (t_idx n) (end_items (S i) items)).
    { intros [(j & s & Hjs & En)|He]; [left; exists j, s; split; [right; exact Hjs | exact En] | right; exact He]. }
    revert Hin. generalize (S i) as j0.
    induction IH as [|x r Hx _ IHr]; intros j0; cbn [subs_items full_subs flat_map end_items all_nodes].
    + intros [E|[]]. right. subst n. left. reflexivity.
    + intros Hin. apply in_app_or in Hin. destruct Hin as [Hin|Hin].
      * destruct (Hx _ _ Hin) as [(j & s & Hjs & En)|He].
        -- left. exists j, s. split; [apply in_or_app; left; exact Hjs | exact En].
        -- right. apply in_or_app. left. exact He.
      * destruct (IHr _ Hin) as [(j & s & Hjs & En)|He].
        -- left. exists j, s. split; [apply in_or_app; right; exact Hjs | exact En].
        -- right. apply in_or_app. right. exact He.
  - rewrite all_nodes_eq. intros [E|Hin].
    { left. exists i, (Named nm v). split; [left; reflexivity | symmetry; exact E]. }
    cbn [full_tree t_subs flat_map] in Hin. rewrite app_nil_r in Hin.
    cbn [subs_at end_indices].
    destruct (IH _ _ Hin) as [(j & s & Hjs & En)|He]; [|right; exact He].
    left. exists j, s. split; [right; exact Hjs | exact En].
Qed.

(* H does not collide between a selected (outermost) sub-value and any sub-value that has a
   selected index: FindByHash-style lookup among the selected nodes may return ANY of them
   that carries the wanted hash *)
Definition no_collision (sel : list nat) (v : value) : Prop :=
  forall j1 s1 j2 s2, In (j1, s1) (subs_at 0 v) -> In j1 sel -> In (j2, s2) (selected sel 0 v) ->
    mhash H s1 = mhash H s2 -> flatten s1 = flatten s2.

Lemma resolver_selected sel v :
  (forall j, In j sel -> ~ In j (end_indices 0 v)) -> no_collision sel v ->
  forall j s, In (j, s) (selected sel 0 v) ->
    resolver_of (all_nodes (full_tree H 0 v)) sel (mhash H s) = RStream (flatten s).
Proof.
  intros Hend Hnc j s Hsel. unfold resolver_of.
  destruct (selected_subs sel v 0 j s Hsel) as [Hsub Hj].
  destruct (find _ _) as [n|] eqn:Ef.
  - apply find_some in Ef. destruct Ef as [Hn Hp]. apply andb_true_iff in Hp. destruct Hp as [Hi Hh].
    apply in_natb_In in Hi.
    destruct (nodes_char v 0 n Hn) as [(j' & s' & Hjs' & En)|He]; [|exfalso; exact (Hend _ Hi He)].
    subst n. rewrite t_idx_full in Hi. rewrite t_hash_full in Hh. cbn [bytes_eq_opt] in Hh.
    apply bytes_eqb_eq in Hh. rewrite iter_full_tree.
    rewrite (Hnc j' s' j s Hjs' Hi Hsel Hh). reflexivity.
  - exfalso. pose proof (find_none _ _ Ef (full_tree H j s) (subs_nodes v 0 j s Hsub)) as Hf.
    cbv beta in Hf. rewrite t_idx_full, t_hash_full, Hj in Hf. cbn [bytes_eq_opt andb] in Hf.
    assert (Hb : bytes_eqb (mhash H s) (mhash H s) = true) by (apply bytes_eqb_eq; reflexivity).
    rewrite Hb in Hf. discriminate Hf.
Qed.

Lemma stage_subst_deref R pf sel v : wf_value v = true -> ref_free v = true ->
  (forall j, In j sel -> ~ In j (end_indices 0 v)) -> no_collision sel v ->
  run_stage H R pf (StSubstDeref sel) (flatten v) = Ok (flatten v).
Proof.
  intros Hwf Hrf Hend Hnc. cbn [run_stage]. rewrite (build_tree_of v Hwf). cbn [of_sum bind].
  rewrite (fill_hash_full H v Hwf 0). cbn [of_sum bind].
  change (Pipeline.ref_fn sel) with (TreeP.ref_fn sel).
  rewrite (iter_func_subst H sel 0 v Hend).
  rewrite (deref_restores_partial H _ sel 0 v Hwf Hrf (resolver_selected sel v Hend Hnc)).
  reflexivity.
Qed.

(* sufficient for no_collision: H is collision-free on the sub-values of v ... *)
Lemma no_collision_subvalues sel v :
  (forall s1 s2, subvalue s1 v -> subvalue s2 v -> mhash H s1 = mhash H s2 -> flatten s1 = flatten s2) ->
  no_collision sel v.
Proof.
  intros Hc j1 s1 j2 s2 H1 _ H2 Hm. apply Hc; [| |exact Hm].
  - exact (subs_at_subvalue v 0 j1 s1 H1).
  - exact (subs_at_subvalue v 0 j2 s2 (proj1 (selected_subs sel v 0 j2 s2 H2))).
Qed.

Lemma subvalue_ref_free s v : subvalue s v -> ref_free v = true -> ref_free s = true.
Proof.
  induction 1 as [v | s ko kc items x Hin _ IH | s n v _ IH]; intros Hrf.
  - assumption.
  - apply IH. cbn [ref_free] in Hrf. rewrite forallb_forall in Hrf. apply Hrf. assumption.
  - apply IH. exact Hrf.
Qed.

(* ... in particular an injective H with digests of one positive length *)
Lemma no_collision_inj L sel v : inj H -> fixed_len H L -> 0 < L ->
  wf_value v = true -> ref_free v = true -> no_collision sel v.
Proof.
  intros Hinj HL Hpos Hwf Hrf. apply no_collision_subvalues. intros s1 s2 Hs1 Hs2 Hm.
  apply (mhash_injective H L s1 s2 Hinj HL Hpos);
    eauto using subvalue_wf, subvalue_ref_free.
Qed.

End Nodes.

(* ================================================================== *)
(* every stage, every pipeline                                        *)
(* ================================================================== *)
(* side conditions of the stages that go through references *)
Definition stage_side (H : bytes -> bytes) (v : value) (s : stage) : Prop :=
  match s with
  | StSubstDeref sel => (forall j, In j sel -> ~ In j (end_indices 0 v)) /\ no_collision H sel v
  | _ => True
  end.

Theorem stage_identity H R pf v s :
  wf_value v = true -> ref_free v = true ->
  Forall (wf_enc default_maxlen) (flatten v) ->
  (forall x, H x <> []) ->
  any_roundtrip R pf (flatten v) = Ok (flatten v) ->
  stage_side H v s ->
  run_stage H R pf s (flatten v) = Ok (flatten v).
Proof.
  intros Hwf Hrf Henc HHne Hany Hside. destruct s as [| | | | |sel| | | |pick| | | | | |].
  - apply stage_any; exact Hany.
  - apply stage_codec; exact Henc.
  - apply stage_tokens.
  - apply stage_tree; exact Hwf.
  - apply stage_tree_func; exact Hwf.
  - destruct Hside as [Hend Hnc]. apply stage_subst_deref; assumption.
  - apply stage_iter_stream.
  - apply stage_embedded.
  - apply stage_find_root; assumption.
  - apply stage_tee3; exact Hany.
  - apply stage_tee.
  - apply stage_tee_codec; exact Henc.
  - apply stage_collect.
  - apply stage_collect_value; exact Hwf.
  - apply stage_sink_marshal.
  - apply stage_tuple_wrap; exact Hany.
Qed.

Theorem pipeline_identity H R pf v p :
  wf_value v = true -> ref_free v = true ->
  Forall (wf_enc default_maxlen) (flatten v) ->
  (forall x, H x <> []) ->
  any_roundtrip R pf (flatten v) = Ok (flatten v) ->
  Forall (stage_side H v) p ->
  run_pipeline H R pf p (flatten v) = Ok (flatten v).
Proof.
  intros Hwf Hrf Henc HHne Hany Hside. induction Hside as [|s r Hs _ IH]; [reflexivity|].
  cbn [run_pipeline]. rewrite (stage_identity H R pf v s Hwf Hrf Henc HHne Hany Hs). cbn [bind]. exact IH.
Qed.

Corollary pipeline_hash H R pf v p :
  wf_value v = true -> ref_free v = true ->
  Forall (wf_enc default_maxlen) (flatten v) ->
  (forall x, H x <> []) ->
  any_roundtrip R pf (flatten v) = Ok (flatten v) ->
  Forall (stage_side H v) p ->
  exists out, run_pipeline H R pf p (flatten v) = Ok out /\ hash_result H out = inl (mhash H v).
Proof.
  intros Hwf Hrf Henc HHne Hany Hside. exists (flatten v).
  split; [apply pipeline_identity; assumption | apply sink_hash_is_merkle; exact Hwf].
Qed.

(* the side condition in the form "H is injective with digests of one positive length" *)
Corollary pipeline_identity_inj H R pf v p L :
  wf_value v = true -> ref_free v = true ->
  Forall (wf_enc default_maxlen) (flatten v) ->
  inj H -> fixed_len H L -> 0 < L ->
  any_roundtrip R pf (flatten v) = Ok (flatten v) ->
  (forall sel, In (StSubstDeref sel) p -> forall j, In j sel -> ~ In j (end_indices 0 v)) ->
  run_pipeline H R pf p (flatten v) = Ok (flatten v).
Proof.
  intros Hwf Hrf Henc Hinj HL Hpos Hany Hend.
  apply pipeline_identity; try assumption.
  - intros x E. pose proof (HL x) as Hx. rewrite E in Hx. cbn [length] in Hx. lia.
  - apply Forall_forall. intros s Hs. destruct s; try exact I.
    split; [exact (Hend _ Hs) | apply (no_collision_inj H L); assumption].
Qed.

(* ================================================================== *)
(* the hypotheses are satisfiable; the pipeline computes               *)
(* ================================================================== *)
Module Examples.
  Local Open Scope N_scope.

  (* a toy hash: (length mod 256, byte sum mod 256, 7) *)
  Definition toy3 (bs : bytes) : bytes :=
    [N.of_nat (length bs) mod 256; fold_right N.add 0 bs mod 256; 7].

  Lemma toy3_wf x : wf_bytes (toy3 x).
  Proof.
    unfold toy3. constructor; [apply BytesP.mod256_lt|]. constructor; [apply BytesP.mod256_lt|].
    constructor; [reflexivity | constructor].
  Qed.

  Lemma toy3_ne x : toy3 x <> [].
  Proof. discriminate. Qed.

  (* indices: 0 name, 1 array, 2 int, 3 string, 4 map, 5 map end, 6 name, 7 bool, 8 array end *)
  Definition ex_v : value :=
    Named [1; 2]
      (Comp KArray KArrayEnd
         [Leaf (T KInt (VI WNat 5)); Leaf (T KString (VStr [104; 105]));
          Comp KMap KMapEnd []; Named [7] (Leaf (T KBool (VBool true)))]).

  Definition no_pf (_ : bytes) (_ : N) : option N := None.

  Definition ex_p : list stage :=
    [StCodec; StTree; StSubstDeref [3; 4]%nat; StIterStream; StFindRoot; StTee; StCollectValue;
     StTeeCodec; StCollect; StTreeFunc; StSubstDeref [1]%nat].

  Example ex_pipeline_computes :
    run_pipeline toy3 [] no_pf ex_p (flatten ex_v) = Ok (flatten ex_v).
  Proof. vm_compute. reflexivity. Qed.

  Example ex_enc : Forall (wf_enc default_maxlen) (flatten ex_v).
  Proof.
    repeat (constructor; [split; [reflexivity | try exact I; split; vm_compute; congruence]|]).
    constructor.
  Qed.

  Example ex_no_collision : no_collision toy3 [3; 4]%nat ex_v /\ no_collision toy3 [1]%nat ex_v.
  Proof.
    split; intros j1 s1 j2 s2 H1 Hj H2 Hm; vm_compute in H2.
    - destruct H2 as [E|[E|[]]]; inversion E; subst; clear E; vm_compute in H1;
        repeat (destruct H1 as [E|H1];
                [inversion E; subst; clear E;
                 try reflexivity; try (vm_compute in Hm; discriminate Hm);
                 cbn [In] in Hj; lia |]);
        destruct H1.
    - destruct H2 as [E|[]]; inversion E; subst; clear E; vm_compute in H1;
        repeat (destruct H1 as [E|H1];
                [inversion E; subst; clear E;
                 try reflexivity; try (vm_compute in Hm; discriminate Hm);
                 cbn [In] in Hj; lia |]);
        destruct H1.
  Qed.

  Example ex_side : Forall (stage_side toy3 ex_v) ex_p.
  Proof.
    destruct ex_no_collision as [Hc1 Hc2].
    unfold ex_p.
    repeat match goal with |- Forall _ _ => constructor end; try exact I.
    - split; [|exact Hc1]. intros j Hj Hin. vm_compute in Hin. cbn [In] in Hj. lia.
    - split; [|exact Hc2]. intros j Hj Hin. vm_compute in Hin. cbn [In] in Hj. lia.
  Qed.

  (* pipeline_identity instantiated, under the C11 hypothesis for this stream *)
  Example ex_pipeline_identity R pf :
    any_roundtrip R pf (flatten ex_v) = Ok (flatten ex_v) ->
    run_pipeline toy3 R pf (StAny :: StTupleWrap :: StTee3 1 :: ex_p) (flatten ex_v) = Ok (flatten ex_v).
  Proof.
    intros Hany. apply pipeline_identity; try reflexivity; try exact Hany.
    - exact ex_enc.
    - exact toy3_ne.
    - constructor; [exact I|]. constructor; [exact I|]. constructor; [exact I|]. exact ex_side.
  Qed.

  (* a stream on which the C11 hypothesis holds by computation (no type names: with an empty
     registry the schema-less decoder drops unknown type names, so it does NOT hold for ex_v):
     a closed instance of pipeline_identity through all 16 stage kinds.
     indices: 0 array, 1 int, 2 string, 3 map, 4 map end, 5 bool, 6 array end *)
  Definition ex_w : value :=
    Comp KArray KArrayEnd
      [Leaf (T KInt (VI WNat 5)); Leaf (T KString (VStr [104; 105]));
       Comp KMap KMapEnd []; Leaf (T KBool (VBool true))].

  Definition ex_q : list stage :=
    [StAny; StCodec; StTokens; StTree; StTreeFunc; StSubstDeref [2; 3]%nat; StIterStream; StEmbedded;
     StFindRoot; StTee3 1; StTee; StTeeCodec; StCollect; StCollectValue; StSinkMarshal; StTupleWrap].

  Example ex_any : any_roundtrip [] no_pf (flatten ex_w) = Ok (flatten ex_w).
  Proof. vm_compute. reflexivity. Qed.

  Example ex_any_names_dropped : any_roundtrip [] no_pf (flatten ex_v) <> Ok (flatten ex_v).
  Proof. vm_compute. discriminate. Qed.

  Example ex_w_no_collision : no_collision toy3 [2; 3]%nat ex_w.
  Proof.
    intros j1 s1 j2 s2 H1 Hj H2 Hm; vm_compute in H2.
    destruct H2 as [E|[E|[]]]; inversion E; subst; clear E; vm_compute in H1;
      repeat (destruct H1 as [E|H1];
              [inversion E; subst; clear E;
               try reflexivity; try (vm_compute in Hm; discriminate Hm);
               cbn [In] in Hj; lia |]);
      destruct H1.
  Qed.

  Example ex_closed_instance :
    run_pipeline toy3 [] no_pf ex_q (flatten ex_w) = Ok (flatten ex_w) /\
    exists out, run_pipeline toy3 [] no_pf ex_q (flatten ex_w) = Ok out /\
                hash_result toy3 out = inl (mhash toy3 ex_w).
  Proof.
    assert (Henc : Forall (wf_enc default_maxlen) (flatten ex_w)).
    { repeat (constructor; [split; [reflexivity | try exact I; split; vm_compute; congruence]|]).
      constructor. }
    assert (Hside : Forall (stage_side toy3 ex_w) ex_q).
    { unfold ex_q. repeat match goal with |- Forall _ _ => constructor end; try exact I.
      split; [|exact ex_w_no_collision]. intros j Hj Hin. vm_compute in Hin. cbn [In] in Hj. lia. }
    split; [apply pipeline_identity | apply pipeline_hash];
      try reflexivity; try exact Henc; try exact toy3_ne; try exact ex_any; exact Hside.
  Qed.

  (* Why no_collision ranges over ALL sub-values with a selected index and not only over the
     outermost selected ones (the list [selected]): the resolver looks a hash up among all nodes
     with a selected index, in pre-order, and a selected node nested inside another selected node
     is still looked at.  Here v = [[x], y] with x <> y but toy3-hash x = toy3-hash y, and
     sel = {1: [x], 2: x, 4: y}: the outermost selected sub-values [x] and y have different
     hashes, yet Deref resolves the reference to y to the node of x. *)
  Definition cx_x : value := Leaf (T KString (VStr [97; 98])).
  Definition cx_y : value := Leaf (T KString (VStr [98; 97])).
  Definition cx_v : value := Comp KArray KArrayEnd [Comp KArray KArrayEnd [cx_x]; cx_y].
  Definition cx_sel : list nat := [1; 2; 4]%nat.

  Theorem stage_subst_deref_outermost_refuted :
    exists H sel v,
      wf_value v = true /\ ref_free v = true /\ Forall (wf_enc default_maxlen) (flatten v) /\
      (forall x, wf_bytes (H x)) /\ (forall x, H x <> []) /\
      (forall j, In j sel -> ~ In j (end_indices 0 v)) /\
      (forall j1 s1 j2 s2, In (j1, s1) (selected sel 0 v) -> In (j2, s2) (selected sel 0 v) ->
         mhash H s1 = mhash H s2 -> flatten s1 = flatten s2) /\
      run_stage H [] no_pf (StSubstDeref sel) (flatten v) <> Ok (flatten v).
  Proof.
    exists toy3, cx_sel, cx_v.
    split; [reflexivity|]. split; [reflexivity|]. split.
    { repeat (constructor; [split; [reflexivity | try exact I; split; vm_compute; congruence]|]).
      constructor. }
    split; [exact toy3_wf|]. split; [exact toy3_ne|]. split.
    { intros j Hj Hin. vm_compute in Hin. unfold cx_sel in Hj. cbn [In] in Hj. lia. }
    split.
    - intros j1 s1 j2 s2 H1 H2 Hm. vm_compute in H1, H2.
      destruct H1 as [E1|[E1|[]]]; inversion E1; subst; clear E1;
        destruct H2 as [E2|[E2|[]]]; inversion E2; subst; clear E2;
        try reflexivity; vm_compute in Hm; discriminate Hm.
    - vm_compute. discriminate.
  Qed.
End Examples.

Print Assumptions stage_identity.
Print Assumptions pipeline_identity.
Print Assumptions pipeline_hash.
Print Assumptions pipeline_identity_inj.
Print Assumptions stage_subst_deref.
Print Assumptions Examples.ex_pipeline_computes.
Print Assumptions Examples.ex_pipeline_identity.
Print Assumptions Examples.ex_closed_instance.
Print Assumptions Examples.stage_subst_deref_outermost_refuted.
