(* Proofs/JsonP.v — the JSON token source (Model/Json.v):
   - DecodeJson's token map turns the tokens of a document into the mirroring sb stream;
   - a complete document (and a sequence of them) is balanced, so decode_json succeeds on it;
   - a truncated container document is an error (EEnd), never a shorter successful stream;
   - the mirror of a document with byte-valued strings is a well-formed token stream;
   - literal conversion to an integer target agrees with the target's range. *)
From SbModel Require Import Model.Json.
From Coq Require Import Lia ZifyBool ZifyNat ZifyN.
Local Open Scope N_scope.

(* ------------------------------------------------------------------------------------ *)
(* 1. json_map on the tokens of a document                                               *)
(* ------------------------------------------------------------------------------------ *)

Lemma json_map_tok_err t e : json_map_tok t = inr e -> e = EOther.
Proof.
  destruct t as [c|b|t|s|]; cbn [json_map_tok]; try discriminate.
  destruct (c =? 91) eqn:E1; [discriminate|].
  destruct (c =? 93) eqn:E2; [discriminate|].
  destruct (c =? 123) eqn:E3; [discriminate|].
  destruct (c =? 125) eqn:E4; [discriminate|].
  intros H. injection H as <-. reflexivity.
Qed.

Lemma json_map_cons_ok t tk r :
  json_map_tok t = inl tk -> json_map (t :: r) = (tk :: fst (json_map r), snd (json_map r)).
Proof.
  intros H. cbn [json_map]. rewrite H. destruct (json_map r) as [o e]. reflexivity.
Qed.

Lemma json_map_app a b oa :
  json_map a = (oa, ENone) ->
  json_map (a ++ b) = (oa ++ fst (json_map b), snd (json_map b)).
Proof.
  revert oa. induction a as [|t a IH]; intros oa H.
  - cbn [json_map] in H. injection H as <-. cbn [app]. destruct (json_map b) as [o e]. reflexivity.
  - cbn [json_map app] in *. destruct (json_map_tok t) as [tk|e] eqn:Et.
    + destruct (json_map a) as [oa' e'] eqn:Ea. injection H as <- ->.
      rewrite (IH oa' eq_refl). reflexivity.
    + apply json_map_tok_err in Et. subst e. discriminate H.
Qed.

Lemma json_map_flat_map {A} (f : A -> list jtok) (g : A -> list token) l :
  Forall (fun x => json_map (f x) = (g x, ENone)) l ->
  json_map (flat_map f l) = (flat_map g l, ENone).
Proof.
  induction 1 as [|x l Hx Hl IH]; [reflexivity|].
  cbn [flat_map]. rewrite (json_map_app _ _ _ Hx), IH. reflexivity.
Qed.

Theorem json_map_mirror j : json_map (json_tokens j) = (mirror j, ENone).
Proof.
  induction j as [|b|t|s|l IH|l IH] using json_ind2; try reflexivity.
  - cbn [json_tokens mirror].
    rewrite (json_map_cons_ok _ (T KArray VNone)) by reflexivity.
    rewrite (json_map_app _ [JDelim 93] _ (json_map_flat_map _ _ _ IH)). reflexivity.
  - cbn [json_tokens mirror].
    rewrite (json_map_cons_ok _ (T KObject VNone)) by reflexivity.
    assert (Hl : Forall (fun m => json_map (JTStr (fst m) :: json_tokens (snd m))
                                  = (T KString (VStr (fst m)) :: mirror (snd m), ENone)) l).
    { eapply Forall_impl; [|exact IH]. intros m Hm.
      rewrite (json_map_cons_ok _ (T KString (VStr (fst m)))) by reflexivity.
      rewrite Hm. reflexivity. }
    rewrite (json_map_app _ [JDelim 125] _
               (json_map_flat_map _ (fun m => T KString (VStr (fst m)) :: mirror (snd m)) _ Hl)).
    reflexivity.
Qed.

(* ------------------------------------------------------------------------------------ *)
(* 2. a complete document is balanced                                                    *)
(* ------------------------------------------------------------------------------------ *)

Lemma jdepth_app a b : forall d, jdepth d (a ++ b) = jdepth (jdepth d a) b.
Proof.
  induction a as [|t a IH]; intros d; [reflexivity|].
  destruct t as [c|x|x|x|]; cbn [app jdepth]; apply IH.
Qed.

Lemma jdepth_arr_open d r : jdepth d (JDelim 91 :: r) = jdepth (d + 1)%Z r.
Proof. reflexivity. Qed.
Lemma jdepth_obj_open d r : jdepth d (JDelim 123 :: r) = jdepth (d + 1)%Z r.
Proof. reflexivity. Qed.
Lemma jdepth_arr_close d : jdepth d [JDelim 93] = (d - 1)%Z.
Proof. reflexivity. Qed.
Lemma jdepth_obj_close d : jdepth d [JDelim 125] = (d - 1)%Z.
Proof. reflexivity. Qed.

Lemma jdepth_flat_map {A} (f : A -> list jtok) l :
  Forall (fun x => forall d, jdepth d (f x) = d) l ->
  forall d, jdepth d (flat_map f l) = d.
Proof.
  induction 1 as [|x l Hx Hl IH]; intros d; [reflexivity|].
  cbn [flat_map]. rewrite jdepth_app, Hx. apply IH.
Qed.

Theorem jdepth_tokens j d : jdepth d (json_tokens j) = d.
Proof.
  revert d. induction j as [|b|t|s|l IH|l IH] using json_ind2; intros d; try reflexivity.
  - cbn [json_tokens]. rewrite jdepth_arr_open, jdepth_app, (jdepth_flat_map _ _ IH), jdepth_arr_close.
    lia.
  - cbn [json_tokens]. rewrite jdepth_obj_open, jdepth_app.
    rewrite (jdepth_flat_map (fun m => JTStr (fst m) :: json_tokens (snd m)) l).
    + rewrite jdepth_obj_close. lia.
    + eapply Forall_impl; [|exact IH]. intros m Hm d'. cbn [jdepth]. apply Hm.
Qed.

Corollary decode_json_mirror j : decode_json (json_tokens j) = (mirror j, ENone).
Proof.
  unfold decode_json. rewrite json_map_mirror, jdepth_tokens. reflexivity.
Qed.

(* ------------------------------------------------------------------------------------ *)
(* 3. several top-level documents                                                        *)
(* ------------------------------------------------------------------------------------ *)

Theorem json_map_app_docs js :
  json_map (flat_map json_tokens js) = (flat_map mirror js, ENone).
Proof.
  apply json_map_flat_map. apply Forall_forall. intros j _. apply json_map_mirror.
Qed.

Theorem decode_json_app js :
  decode_json (flat_map json_tokens js) = (flat_map mirror js, ENone).
Proof.
  unfold decode_json. rewrite json_map_app_docs.
  rewrite (jdepth_flat_map json_tokens js).
  - reflexivity.
  - apply Forall_forall. intros j _ d. apply jdepth_tokens.
Qed.

(* ------------------------------------------------------------------------------------ *)
(* 4. truncation                                                                         *)
(* ------------------------------------------------------------------------------------ *)

Definition open_depth (ts : list jtok) : Z := jdepth 0 ts.

Lemma json_map_all_ok ts :
  (forall t, In t ts -> exists tk, json_map_tok t = inl tk) -> snd (json_map ts) = ENone.
Proof.
  induction ts as [|t ts IH]; intros H; [reflexivity|].
  destruct (H t (or_introl eq_refl)) as [tk Ht].
  rewrite (json_map_cons_ok _ _ _ Ht). cbn [snd].
  apply IH. intros t' Hin. apply H. right. exact Hin.
Qed.

Lemma json_map_ok_all ts o :
  json_map ts = (o, ENone) -> forall t, In t ts -> exists tk, json_map_tok t = inl tk.
Proof.
  revert o. induction ts as [|t0 ts IH]; intros o H t Hin; [destruct Hin|].
  cbn [json_map] in H. destruct (json_map_tok t0) as [tk|e] eqn:Et.
  - destruct Hin as [<-|Hin]; [eauto|].
    destruct (json_map ts) as [o' e'] eqn:Ets. injection H as _ ->.
    exact (IH o' eq_refl t Hin).
  - apply json_map_tok_err in Et. subst e. discriminate H.
Qed.

Lemma json_tokens_ok j t : In t (json_tokens j) -> exists tk, json_map_tok t = inl tk.
Proof. exact (json_map_ok_all _ _ (json_map_mirror j) t). Qed.

Theorem decode_json_truncated ts :
  (0 < jdepth 0 ts)%Z ->
  (forall t, In t ts -> exists tk, json_map_tok t = inl tk) ->
  snd (decode_json ts) = EEnd.
Proof.
  intros Hpos Hok. apply json_map_all_ok in Hok. unfold decode_json.
  destruct (json_map ts) as [out e]. cbn [snd] in Hok. subst e.
  apply Z.ltb_lt in Hpos. rewrite Hpos. reflexivity.
Qed.

(* the output of a truncated run is still the mapped prefix (it is the error that tells the
   consumer the document was cut) *)
Lemma decode_json_fst ts : fst (decode_json ts) = fst (json_map ts).
Proof.
  unfold decode_json. destruct (json_map ts) as [out e].
  destruct e; try reflexivity. destruct (0 <? jdepth 0 ts)%Z; reflexivity.
Qed.

Definition is_container (j : json) : Prop :=
  match j with JArr _ | JObj _ => True | _ => False end.

Lemma app_tail_prefix {A} (a : list A) x p s :
  a ++ [x] = p ++ s -> s <> [] -> exists s', a = p ++ s' /\ s = s' ++ [x].
Proof.
  intros H Hs. destruct (exists_last Hs) as [s' [y Hy]]. subst s.
  rewrite app_assoc in H. apply app_inj_tail in H. destruct H as [Ha Hx]. subst a y.
  exists s'. split; reflexivity.
Qed.

(* every prefix of a concatenation of balanced blocks whose proper prefixes never go below
   the starting depth stays at or above the starting depth *)
Lemma flat_map_prefix_depth {A} (f : A -> list jtok) l :
  Forall (fun x => (forall d, jdepth d (f x) = d) /\
                   (forall d p s, f x = p ++ s -> s <> [] -> (d <= jdepth d p)%Z)) l ->
  forall d p s, flat_map f l = p ++ s -> (d <= jdepth d p)%Z.
Proof.
  induction 1 as [|x l [Hb Hq] Hl IH]; intros d p s H.
  - cbn [flat_map] in H. symmetry in H. apply app_eq_nil in H. destruct H as [Hp _]. subst p.
    cbn [jdepth]. lia.
  - cbn [flat_map] in H. apply app_eq_app in H. destruct H as [u [[H1 H2]|[H1 H2]]].
    + destruct u as [|t u].
      * rewrite app_nil_r in H1. rewrite <- H1, Hb. lia.
      * apply (Hq d p (t :: u) H1). discriminate.
    + subst p. rewrite jdepth_app, Hb. exact (IH d u s H2).
Qed.

Theorem prefix_depth_pos j :
  forall d p s, json_tokens j = p ++ s -> s <> [] ->
    (d <= jdepth d p)%Z /\ (is_container j -> p <> [] -> (d < jdepth d p)%Z).
Proof.
  assert (Hscalar : forall (x : jtok) d p s, [x] = p ++ s -> s <> [] ->
            (d <= jdepth d p)%Z /\ (False -> p <> [] -> (d < jdepth d p)%Z)).
  { intros x d p s H Hs. destruct p as [|t p].
    - split; [cbn [jdepth]; lia | intros []].
    - cbn [app] in H. injection H as _ H. symmetry in H. apply app_eq_nil in H.
      destruct H as [_ H]. contradiction. }
  induction j as [|b|t|s0|l IH|l IH] using json_ind2; intros d p s H Hs;
    try (exact (Hscalar _ d p s H Hs)).
  - destruct p as [|t p]; [split; [cbn [jdepth]; lia | intros _ Hp; now elim Hp]|].
    cbn [json_tokens app] in H. injection H as <- H.
    apply app_tail_prefix in H; [|exact Hs]. destruct H as [s' [H _]].
    rewrite jdepth_arr_open.
    assert (Hd : (d + 1 <= jdepth (d + 1) p)%Z).
    { apply (flat_map_prefix_depth json_tokens l) with (s := s'); [|exact H].
      eapply Forall_impl; [|exact IH]. intros x Hx. split.
      - intros d'. apply jdepth_tokens.
      - intros d' p' s1 H1 Hs1. apply (Hx d' p' s1 H1 Hs1). }
    split; intros; lia.
  - destruct p as [|t p]; [split; [cbn [jdepth]; lia | intros _ Hp; now elim Hp]|].
    cbn [json_tokens app] in H. injection H as <- H.
    apply app_tail_prefix in H; [|exact Hs]. destruct H as [s' [H _]].
    rewrite jdepth_obj_open.
    assert (Hd : (d + 1 <= jdepth (d + 1) p)%Z).
    { apply (flat_map_prefix_depth (fun m => JTStr (fst m) :: json_tokens (snd m)) l) with (s := s');
        [|exact H].
      eapply Forall_impl; [|exact IH]. intros m Hm. split.
      - intros d'. cbn [jdepth]. apply jdepth_tokens.
      - intros d' p' s1 H1 Hs1. destruct p' as [|t' p']; [cbn [jdepth]; lia|].
        cbn [app] in H1. injection H1 as <- H1. cbn [jdepth].
        apply (Hm d' p' s1 H1 Hs1). }
    split; intros; lia.
Qed.

Lemma firstn_proper_prefix {A} (l : list A) k :
  (0 < k < length l)%nat ->
  l = firstn k l ++ skipn k l /\ skipn k l <> [] /\ firstn k l <> [].
Proof.
  intros Hk. split; [symmetry; apply firstn_skipn|]. split.
  - intros E. apply (f_equal (@length A)) in E. rewrite skipn_length in E. cbn [length] in E. lia.
  - intros E. apply (f_equal (@length A)) in E. rewrite firstn_length in E. cbn [length] in E. lia.
Qed.

Theorem truncated_depth_pos j k :
  is_container j -> (0 < k < length (json_tokens j))%nat ->
  (0 < open_depth (firstn k (json_tokens j)))%Z.
Proof.
  intros Hc Hk. destruct (firstn_proper_prefix _ k Hk) as [H [Hs Hp]].
  unfold open_depth. exact (proj2 (prefix_depth_pos j 0%Z _ _ H Hs) Hc Hp).
Qed.

(* a truncated document is an error, never a shorter successful stream *)
Theorem decode_json_truncated_doc j k :
  is_container j -> (0 < k < length (json_tokens j))%nat ->
  snd (decode_json (firstn k (json_tokens j))) = EEnd.
Proof.
  intros Hc Hk. apply decode_json_truncated.
  - exact (truncated_depth_pos j k Hc Hk).
  - intros t Hin. apply (json_tokens_ok j).
    rewrite <- (firstn_skipn k (json_tokens j)). apply in_or_app. left. exact Hin.
Qed.

(* any proper prefix (also of a scalar document, where it is empty) never closes more than
   it opened *)
Corollary prefix_depth_nonneg j k :
  (k < length (json_tokens j))%nat -> (0 <= open_depth (firstn k (json_tokens j)))%Z.
Proof.
  intros Hk. unfold open_depth.
  apply (proj1 (prefix_depth_pos j 0%Z (firstn k (json_tokens j)) (skipn k (json_tokens j))
                  (eq_sym (firstn_skipn k _))
                  ltac:(intros E; apply (f_equal (@length jtok)) in E;
                        rewrite skipn_length in E; cbn [length] in E; lia))).
Qed.

(* ------------------------------------------------------------------------------------ *)
(* 5. the mirror of a document is a well-formed token stream                             *)
(* ------------------------------------------------------------------------------------ *)

Fixpoint wf_jsonb (j : json) : bool :=
  match j with
  | JNull | JBool _ => true
  | JNum t => wf_bytesb t
  | JStr s => wf_bytesb s
  | JArr l => forallb wf_jsonb l
  | JObj l => forallb (fun m => wf_bytesb (fst m) && wf_jsonb (snd m)) l
  end.
(* every number text, string and key of the document is a byte string (each element < 256) *)
Definition wf_json (j : json) : Prop := wf_jsonb j = true.

Lemma wf_bytesb_iff s : wf_bytesb s = true <-> wf_bytes s.
Proof.
  unfold wf_bytesb, wf_bytes. rewrite forallb_forall, Forall_forall.
  split; intros H x Hx; specialize (H x Hx); unfold wf_byteb, wf_byte in *; lia.
Qed.

Lemma wf_json_num t : wf_json (JNum t) <-> wf_bytes t.
Proof. apply wf_bytesb_iff. Qed.
Lemma wf_json_str s : wf_json (JStr s) <-> wf_bytes s.
Proof. apply wf_bytesb_iff. Qed.
Lemma wf_json_arr l : wf_json (JArr l) <-> Forall wf_json l.
Proof. unfold wf_json. cbn [wf_jsonb]. rewrite forallb_forall, Forall_forall. reflexivity. Qed.
Lemma wf_json_obj l : wf_json (JObj l) <-> Forall (fun m => wf_bytes (fst m) /\ wf_json (snd m)) l.
Proof.
  unfold wf_json. cbn [wf_jsonb]. rewrite forallb_forall, Forall_forall.
  split; intros H m Hm; specialize (H m Hm).
  - apply andb_true_iff in H. destruct H as [H1 H2]. split; [apply wf_bytesb_iff|]; assumption.
  - destruct H as [H1 H2]. apply wf_bytesb_iff in H1. rewrite H1, H2. reflexivity.
Qed.

Lemma wf_token_literal t : wf_token (T KLiteral (VStr t)) = wf_bytesb t.
Proof. reflexivity. Qed.
Lemma wf_token_string s : wf_token (T KString (VStr s)) = wf_bytesb s.
Proof. reflexivity. Qed.

Theorem mirror_tokens_wf j : wf_json j -> Forall (fun t => wf_token t = true) (mirror j).
Proof.
  induction j as [|b|t|s|l IH|l IH] using json_ind2; intros Hwf.
  - repeat constructor.
  - repeat constructor.
  - cbn [mirror]. constructor; [|constructor]. rewrite wf_token_literal. exact Hwf.
  - cbn [mirror]. constructor; [|constructor]. rewrite wf_token_string. exact Hwf.
  - cbn [mirror]. apply wf_json_arr in Hwf.
    constructor; [reflexivity|]. apply Forall_app. split; [|repeat constructor].
    apply Forall_flat_map. rewrite Forall_forall in *. intros x Hx. exact (IH x Hx (Hwf x Hx)).
  - cbn [mirror]. apply wf_json_obj in Hwf.
    constructor; [reflexivity|]. apply Forall_app. split; [|repeat constructor].
    apply Forall_flat_map. rewrite Forall_forall in *. intros m Hm.
    destruct (Hwf m Hm) as [Hk Hv]. constructor.
    + rewrite wf_token_string. apply wf_bytesb_iff. exact Hk.
    + exact (IH m Hm Hv).
Qed.

(* ------------------------------------------------------------------------------------ *)
(* 6. literal conversion agrees with the integer target's range                          *)
(* ------------------------------------------------------------------------------------ *)

Lemma parse_int_spec b s z :
  parse_int b s = Some z ->
  (- Z.of_N (2 ^ (b - 1)) <= z < Z.of_N (2 ^ (b - 1)))%Z.
Proof.
  unfold parse_int.
  destruct (match s with
            | 45 :: r => (true, r) | 43 :: r => (false, r) | _ => (false, s)
            end) as [neg body].
  destruct (parse_digits body) as [n|]; [|discriminate].
  destruct neg.
  - destruct (n <=? 2 ^ (b - 1)) eqn:E; [|discriminate]. intros H. injection H as <-. lia.
  - destruct (n <? 2 ^ (b - 1)) eqn:E; [|discriminate]. intros H. injection H as <-. lia.
Qed.

(* a literal accepted at a narrower width is accepted, with the same value, at a wider one *)
Lemma parse_int_mono b b' s z :
  parse_int b s = Some z -> b <= b' -> parse_int b' s = Some z.
Proof.
  unfold parse_int.
  destruct (match s with
            | 45 :: r => (true, r) | 43 :: r => (false, r) | _ => (false, s)
            end) as [neg body].
  destruct (parse_digits body) as [n|]; [|discriminate].
  intros H Hb.
  assert (Hp : 2 ^ (b - 1) <= 2 ^ (b' - 1)) by (apply N.pow_le_mono_r; lia).
  destruct neg.
  - destruct (n <=? 2 ^ (b - 1)) eqn:E; [|discriminate].
    destruct (n <=? 2 ^ (b' - 1)) eqn:E'; [exact H|lia].
  - destruct (n <? 2 ^ (b - 1)) eqn:E; [|discriminate].
    destruct (n <? 2 ^ (b' - 1)) eqn:E'; [exact H|lia].
Qed.

(* a literal accepted at some width whose value fits a narrower width is accepted there *)
Lemma parse_int_narrow b b' s z :
  parse_int b' s = Some z ->
  (- Z.of_N (2 ^ (b - 1)) <= z < Z.of_N (2 ^ (b - 1)))%Z ->
  parse_int b s = Some z.
Proof.
  unfold parse_int.
  destruct (match s with
            | 45 :: r => (true, r) | 43 :: r => (false, r) | _ => (false, s)
            end) as [neg body].
  destruct (parse_digits body) as [n|]; [|discriminate].
  destruct neg.
  - destruct (n <=? 2 ^ (b' - 1)) eqn:E'; [|discriminate]. intros H Hr. injection H as <-.
    destruct (n <=? 2 ^ (b - 1)) eqn:E; [reflexivity|lia].
  - destruct (n <? 2 ^ (b' - 1)) eqn:E'; [|discriminate]. intros H Hr. injection H as <-.
    destruct (n <? 2 ^ (b - 1)) eqn:E; [reflexivity|lia].
Qed.

(* the same, with the range written over Z *)
Lemma pow_half_Z b : 0 < b -> Z.of_N (2 ^ (b - 1)) = (2 ^ (Z.of_N b - 1))%Z.
Proof. intros Hb. rewrite N2Z.inj_pow, N2Z.inj_sub by lia. reflexivity. Qed.

Lemma parse_int_narrow_Z b b' s z :
  0 < b -> parse_int b' s = Some z ->
  (- 2 ^ (Z.of_N b - 1) <= z < 2 ^ (Z.of_N b - 1))%Z ->
  parse_int b s = Some z.
Proof.
  intros Hb H Hr. apply (parse_int_narrow b b' s z H). rewrite pow_half_Z by exact Hb. exact Hr.
Qed.

Lemma parse_int_spec_Z b s z :
  0 < b -> parse_int b s = Some z -> (- 2 ^ (Z.of_N b - 1) <= z < 2 ^ (Z.of_N b - 1))%Z.
Proof. intros Hb H. rewrite <- pow_half_Z by exact Hb. exact (parse_int_spec b s z H). Qed.

Lemma parse_uint_spec b s n : parse_uint b s = Some n -> n < 2 ^ b.
Proof.
  unfold parse_uint. destruct (parse_digits s) as [m|]; [|discriminate].
  destruct (m <? 2 ^ b) eqn:E; [|discriminate]. intros H. injection H as <-. lia.
Qed.

Lemma parse_uint_mono b b' s n : parse_uint b s = Some n -> b <= b' -> parse_uint b' s = Some n.
Proof.
  unfold parse_uint. destruct (parse_digits s) as [m|]; [|discriminate].
  intros H Hb. assert (Hp : 2 ^ b <= 2 ^ b') by (apply N.pow_le_mono_r; lia).
  destruct (m <? 2 ^ b) eqn:E; [|discriminate].
  destruct (m <? 2 ^ b') eqn:E'; [exact H|lia].
Qed.

Lemma parse_uint_narrow b b' s n : parse_uint b' s = Some n -> n < 2 ^ b -> parse_uint b s = Some n.
Proof.
  unfold parse_uint. destruct (parse_digits s) as [m|]; [|discriminate].
  destruct (m <? 2 ^ b') eqn:E'; [|discriminate]. intros H Hr. injection H as <-.
  destruct (m <? 2 ^ b) eqn:E; [reflexivity|lia].
Qed.

Lemma in_irange_bits w z :
  in_irange w z = true <-> (- Z.of_N (2 ^ (int_bits w - 1)) <= z < Z.of_N (2 ^ (int_bits w - 1)))%Z.
Proof.
  unfold in_irange.
  assert (H : (2 ^ (8 * Z.of_nat (wbytes w) - 1))%Z = Z.of_N (2 ^ (int_bits w - 1)))
    by (destruct w; vm_compute; reflexivity).
  rewrite H. generalize (Z.of_N (2 ^ (int_bits w - 1))). intros h. lia.
Qed.

Lemma in_urange_bits w n : in_urange w n = true <-> n < 2 ^ int_bits w.
Proof.
  unfold in_urange.
  assert (H : 2 ^ (8 * N.of_nat (wbytes w)) = 2 ^ int_bits w) by (destruct w; reflexivity).
  rewrite H. generalize (2 ^ int_bits w). intros h. lia.
Qed.

Lemma int_bits_le_64 w : int_bits w <= 64.
Proof. destruct w; vm_compute; discriminate. Qed.

Section Literal.
Variable pf : bytes -> N -> option N.

Lemma convert_literal_int w s :
  convert_literal pf (TInt w) s =
  match parse_int (int_bits w) s with
  | Some z => Ok (T (kind_of_int w) (VI w z)) | None => Err EParse
  end.
Proof. reflexivity. Qed.

Lemma convert_literal_uint w s :
  convert_literal pf (TUint w) s =
  match parse_uint (int_bits w) s with
  | Some n => Ok (T (kind_of_uint w) (VU w n)) | None => Err EParse
  end.
Proof. reflexivity. Qed.

Theorem literal_int_in_range w s z :
  convert_literal pf (TInt w) s = Ok (T (kind_of_int w) (VI w z)) -> in_irange w z = true.
Proof.
  rewrite convert_literal_int. destruct (parse_int (int_bits w) s) as [z'|] eqn:E; [|discriminate].
  intros H. injection H as <-. apply in_irange_bits. exact (parse_int_spec _ _ _ E).
Qed.

Theorem literal_uint_in_range w s n :
  convert_literal pf (TUint w) s = Ok (T (kind_of_uint w) (VU w n)) -> in_urange w n = true.
Proof.
  rewrite convert_literal_uint. destruct (parse_uint (int_bits w) s) as [n'|] eqn:E; [|discriminate].
  intros H. injection H as <-. apply in_urange_bits. exact (parse_uint_spec _ _ _ E).
Qed.

(* the produced token is well-formed *)
Corollary literal_int_wf w s tk :
  convert_literal pf (TInt w) s = Ok tk -> wf_token tk = true.
Proof.
  rewrite convert_literal_int. destruct (parse_int (int_bits w) s) as [z|] eqn:E; [|discriminate].
  intros H. injection H as <-. unfold wf_token. cbn [kind val wf_val].
  apply parse_int_spec, in_irange_bits in E. rewrite E. destruct w; reflexivity.
Qed.

Corollary literal_uint_wf w s tk :
  convert_literal pf (TUint w) s = Ok tk -> wf_token tk = true.
Proof.
  rewrite convert_literal_uint. destruct (parse_uint (int_bits w) s) as [n|] eqn:E; [|discriminate].
  intros H. injection H as <-. unfold wf_token. cbn [kind val wf_val].
  apply parse_uint_spec, in_urange_bits in E. rewrite E. destruct w; reflexivity.
Qed.

Theorem literal_int_parse_fail w s :
  parse_int (int_bits w) s = None -> convert_literal pf (TInt w) s = Err EParse.
Proof. intros H. rewrite convert_literal_int, H. reflexivity. Qed.

(* exactly the standard library's behaviour: the text is a 64-bit integer; the conversion
   succeeds with that value iff the value is in the target's range *)
Theorem literal_int_iff_range w s z :
  parse_int 64 s = Some z ->
  convert_literal pf (TInt w) s =
  if in_irange w z then Ok (T (kind_of_int w) (VI w z)) else Err EParse.
Proof.
  intros H. rewrite convert_literal_int.
  destruct (in_irange w z) eqn:R.
  - apply in_irange_bits in R. rewrite (parse_int_narrow _ _ _ _ H R). reflexivity.
  - destruct (parse_int (int_bits w) s) as [z'|] eqn:E; [|reflexivity].
    pose proof (parse_int_mono _ 64 _ _ E (int_bits_le_64 w)) as H'.
    rewrite H in H'. injection H' as <-.
    apply parse_int_spec, in_irange_bits in E. rewrite E in R. discriminate R.
Qed.

Theorem literal_int_out_of_range w s z :
  parse_int 64 s = Some z -> in_irange w z = false ->
  convert_literal pf (TInt w) s = Err EParse.
Proof. intros H R. rewrite (literal_int_iff_range w s z H), R. reflexivity. Qed.

Theorem literal_uint_iff_range w s n :
  parse_uint 64 s = Some n ->
  convert_literal pf (TUint w) s =
  if in_urange w n then Ok (T (kind_of_uint w) (VU w n)) else Err EParse.
Proof.
  intros H. rewrite convert_literal_uint.
  destruct (in_urange w n) eqn:R.
  - apply in_urange_bits in R. rewrite (parse_uint_narrow _ _ _ _ H R). reflexivity.
  - destruct (parse_uint (int_bits w) s) as [n'|] eqn:E; [|reflexivity].
    pose proof (parse_uint_mono _ 64 _ _ E (int_bits_le_64 w)) as H'.
    rewrite H in H'. injection H' as <-.
    apply parse_uint_spec, in_urange_bits in E. rewrite E in R. discriminate R.
Qed.

Theorem literal_uint_out_of_range w s n :
  parse_uint 64 s = Some n -> in_urange w n = false ->
  convert_literal pf (TUint w) s = Err EParse.
Proof. intros H R. rewrite (literal_uint_iff_range w s n H), R. reflexivity. Qed.

(* text that is not even a 64-bit integer is rejected at every width *)
Theorem literal_int_not_int64 w s :
  parse_int 64 s = None -> convert_literal pf (TInt w) s = Err EParse.
Proof.
  intros H. rewrite convert_literal_int.
  destruct (parse_int (int_bits w) s) as [z|] eqn:E; [|reflexivity].
  rewrite (parse_int_mono _ 64 _ _ E (int_bits_le_64 w)) in H. discriminate H.
Qed.

End Literal.

Definition no_pf : bytes -> N -> option N := fun _ _ => None.

Example literal_int8_128 : convert_literal no_pf (TInt W8) [49;50;56] (* "128" *) = Err EParse.
Proof. vm_compute. reflexivity. Qed.
Example literal_int8_127 :
  convert_literal no_pf (TInt W8) [49;50;55] (* "127" *) = Ok (T KInt8 (VI W8 127)).
Proof. vm_compute. reflexivity. Qed.
Example literal_int8_m128 :
  convert_literal no_pf (TInt W8) [45;49;50;56] (* "-128" *) = Ok (T KInt8 (VI W8 (-128))).
Proof. vm_compute. reflexivity. Qed.
Example literal_int8_m129 : convert_literal no_pf (TInt W8) [45;49;50;57] (* "-129" *) = Err EParse.
Proof. vm_compute. reflexivity. Qed.
Example literal_uint8_256 : convert_literal no_pf (TUint W8) [50;53;54] (* "256" *) = Err EParse.
Proof. vm_compute. reflexivity. Qed.
Example literal_uint8_255 :
  convert_literal no_pf (TUint W8) [50;53;53] (* "255" *) = Ok (T KUint8 (VU W8 255)).
Proof. vm_compute. reflexivity. Qed.
(* the hypotheses of literal_int_out_of_range are satisfiable: "128" is an int64, not an int8 *)
Example literal_int_out_of_range_ex :
  parse_int 64 [49;50;56] = Some 128%Z /\ in_irange W8 128 = false.
Proof. vm_compute. split; reflexivity. Qed.
(* and those of the range theorems *)
Example literal_int_in_range_ex : in_irange W8 127 = true.
Proof. exact (literal_int_in_range no_pf W8 [49;50;55] 127 literal_int8_127). Qed.
Example parse_int_mono_ex : parse_int 64 [45;49;50;56] = Some (-128)%Z.
Proof. apply (parse_int_mono 8); [vm_compute; reflexivity | discriminate]. Qed.

(* ------------------------------------------------------------------------------------ *)
(* 7. examples                                                                           *)
(* ------------------------------------------------------------------------------------ *)

(* {"a":[1,true,null,"x"],"b":{}} *)
Definition ex_doc : json :=
  JObj [([97], JArr [JNum [49]; JBool true; JNull; JStr [120]]); ([98], JObj [])].

Example ex_doc_tokens :
  json_tokens ex_doc =
  [JDelim 123; JTStr [97]; JDelim 91; JTNum [49]; JTBool true; JTNull; JTStr [120]; JDelim 93;
   JTStr [98]; JDelim 123; JDelim 125; JDelim 125].
Proof. vm_compute. reflexivity. Qed.

Example ex_doc_decode :
  decode_json (json_tokens ex_doc) =
  ([T KObject VNone; T KString (VStr [97]); T KArray VNone; T KLiteral (VStr [49]);
    T KBool (VBool true); T KNil VNone; T KString (VStr [120]); T KArrayEnd VNone;
    T KString (VStr [98]); T KObject VNone; T KObjectEnd VNone; T KObjectEnd VNone], ENone).
Proof. rewrite decode_json_mirror. vm_compute. reflexivity. Qed.

Example ex_doc_decode_vm : decode_json (json_tokens ex_doc) = (mirror ex_doc, ENone).
Proof. vm_compute. reflexivity. Qed.

Example ex_doc_wf : Forall (fun t => wf_token t = true) (mirror ex_doc).
Proof. apply mirror_tokens_wf. vm_compute. reflexivity. Qed.

(* the first 4 tokens  { "a" [ 1  : two containers are open *)
Example ex_doc_truncated_depth : open_depth (firstn 4 (json_tokens ex_doc)) = 2%Z.
Proof. vm_compute. reflexivity. Qed.

Example ex_doc_truncated : snd (decode_json (firstn 4 (json_tokens ex_doc))) = EEnd.
Proof. apply decode_json_truncated_doc; [exact I | vm_compute; split; lia]. Qed.

Example ex_doc_truncated_vm :
  decode_json (firstn 4 (json_tokens ex_doc)) =
  ([T KObject VNone; T KString (VStr [97]); T KArray VNone; T KLiteral (VStr [49])], EEnd).
Proof. vm_compute. reflexivity. Qed.

(* every proper non-empty prefix of the example is an error *)
Example ex_doc_all_prefixes :
  forallb (fun k => match snd (decode_json (firstn k (json_tokens ex_doc))) with EEnd => true | _ => false end)
          (seq 1 11) = true.
Proof. vm_compute. reflexivity. Qed.

(* two top-level documents in one input *)
Example ex_two_docs :
  decode_json (flat_map json_tokens [ex_doc; JNum [55]]) = (mirror ex_doc ++ [T KLiteral (VStr [55])], ENone).
Proof. rewrite decode_json_app. cbn [flat_map]. rewrite app_nil_r. reflexivity. Qed.

(* a scalar document has no non-empty proper prefix, and the empty input is not an error of
   decode_json (the caller sees no token at all): the container hypothesis is needed *)
Example scalar_prefix_not_positive : open_depth (firstn 0 (json_tokens JNull)) = 0%Z.
Proof. reflexivity. Qed.

Print Assumptions json_map_mirror.
Print Assumptions jdepth_tokens.
Print Assumptions decode_json_mirror.
Print Assumptions decode_json_app.
Print Assumptions decode_json_truncated.
Print Assumptions prefix_depth_pos.
Print Assumptions truncated_depth_pos.
Print Assumptions decode_json_truncated_doc.
Print Assumptions mirror_tokens_wf.
Print Assumptions literal_int_in_range.
Print Assumptions literal_uint_in_range.
Print Assumptions literal_int_iff_range.
Print Assumptions literal_int_out_of_range.
Print Assumptions literal_uint_iff_range.
Print Assumptions literal_uint_out_of_range.
Print Assumptions literal_int_not_int64.
Print Assumptions parse_int_mono.
Print Assumptions parse_int_narrow.
Print Assumptions parse_int_narrow_Z.
