(* Proofs/BytesP.v — little-endian images, two's complement, uvarint, length prefix. *)
From Coq Require Import List NArith ZArith Bool Lia ZifyBool ZifyNat ZifyN.
From SbModel Require Import Base.Bytes Base.Tokens Spec.WireGrammar.
Import ListNotations.
Local Open Scope N_scope.

(* ------------------------------------------------------------------ *)
(* small arithmetic helpers                                            *)
(* ------------------------------------------------------------------ *)

Lemma pow8_succ (w : nat) : 2 ^ (8 * N.of_nat (S w)) = 256 * 2 ^ (8 * N.of_nat w).
Proof.
  replace (8 * N.of_nat (S w)) with (8 + 8 * N.of_nat w) by lia.
  rewrite N.pow_add_r. reflexivity.
Qed.

Lemma pow8_pos (w : nat) : 0 < 2 ^ (8 * N.of_nat w).
Proof. apply N.neq_0_lt_0. apply N.pow_nonzero. discriminate. Qed.

Lemma pow128_succ (k : nat) : 128 ^ N.of_nat (S k) = 128 * 128 ^ N.of_nat k.
Proof.
  replace (N.of_nat (S k)) with (N.succ (N.of_nat k)) by lia.
  apply N.pow_succ_r'.
Qed.

Lemma pow128_pos (k : nat) : 0 < 128 ^ N.of_nat k.
Proof. apply N.neq_0_lt_0. apply N.pow_nonzero. discriminate. Qed.

Lemma div128_lt n P : n < 128 * P -> n / 128 < P.
Proof. intros H. apply N.div_lt_upper_bound; [discriminate | exact H]. Qed.

Lemma mod128_lt n : n mod 128 < 128.
Proof. apply N.mod_lt. discriminate. Qed.

Lemma mod256_lt n : n mod 256 < 256.
Proof. apply N.mod_lt. discriminate. Qed.

Lemma divmod128 n : n = 128 * (n / 128) + n mod 128.
Proof. apply N.div_mod. discriminate. Qed.

Lemma divmod256 n : n = 256 * (n / 256) + n mod 256.
Proof. apply N.div_mod. discriminate. Qed.

(* ------------------------------------------------------------------ *)
(* little-endian images                                                *)
(* ------------------------------------------------------------------ *)

Lemma le_bytes_length w n : length (le_bytes w n) = w.
Proof.
  revert n. induction w as [|w IH]; intros n; cbn [le_bytes length].
  - reflexivity.
  - rewrite IH. reflexivity.
Qed.

Lemma le_bytes_lenN w n : lenN (le_bytes w n) = N.of_nat w.
Proof. unfold lenN. rewrite le_bytes_length. reflexivity. Qed.

Lemma le_bytes_wf w n : wf_bytes (le_bytes w n).
Proof.
  revert n. induction w as [|w IH]; intros n; cbn [le_bytes].
  - constructor.
  - constructor; [apply mod256_lt | apply IH].
Qed.

Lemma le_val_le_bytes w n : le_val (le_bytes w n) = n mod 2 ^ (8 * N.of_nat w).
Proof.
  revert n. induction w as [|w IH]; intros n; cbn [le_bytes le_val].
  - change (8 * N.of_nat 0) with 0. rewrite N.pow_0_r, N.mod_1_r. reflexivity.
  - rewrite IH, pow8_succ.
    rewrite N.mod_mul_r.
    + reflexivity.
    + discriminate.
    + apply N.pow_nonzero. discriminate.
Qed.

Lemma le_bytes_le_val bs : wf_bytes bs -> le_bytes (length bs) (le_val bs) = bs.
Proof.
  intros Hwf. induction Hwf as [|b r Hb Hr IH]; cbn [length le_bytes le_val].
  - reflexivity.
  - unfold wf_byte in Hb.
    assert (Hm : (b + 256 * le_val r) mod 256 = b).
    { replace (b + 256 * le_val r) with (b + le_val r * 256) by lia.
      rewrite N.mod_add by discriminate. apply N.mod_small. exact Hb. }
    assert (Hd : (b + 256 * le_val r) / 256 = le_val r).
    { replace (b + 256 * le_val r) with (b + le_val r * 256) by lia.
      rewrite N.div_add by discriminate.
      rewrite (N.div_small b 256) by exact Hb. apply N.add_0_l. }
    rewrite Hm, Hd, IH. reflexivity.
Qed.

Lemma le_val_bound bs : wf_bytes bs -> le_val bs < 2 ^ (8 * N.of_nat (length bs)).
Proof.
  intros Hwf. induction Hwf as [|b r Hb Hr IH]; cbn [length le_val].
  - change (8 * N.of_nat 0) with 0. rewrite N.pow_0_r. lia.
  - rewrite pow8_succ. unfold wf_byte in Hb.
    remember (2 ^ (8 * N.of_nat (length r))) as P. lia.
Qed.

Lemma le_bytes_image w n : le_image w n (le_bytes w n).
Proof.
  split; [apply le_bytes_length|].
  revert n. induction w as [|w IH]; intros n i Hi.
  - lia.
  - cbn [le_bytes]. destruct i as [|i]; cbn [nth].
    + unfold le_digit. change (N.of_nat 0) with 0. rewrite N.pow_0_r, N.div_1_r. reflexivity.
    + rewrite IH by lia. unfold le_digit.
      replace (N.of_nat (S i)) with (N.succ (N.of_nat i)) by lia.
      rewrite N.pow_succ_r', N.div_div.
      * reflexivity.
      * discriminate.
      * apply N.pow_nonzero. discriminate.
Qed.

Lemma le_image_unique w n a b : le_image w n a -> le_image w n b -> a = b.
Proof.
  intros [Hla Ha] [Hlb Hb].
  apply (nth_ext a b 0 0).
  - congruence.
  - intros i Hi. rewrite Ha, Hb by lia. reflexivity.
Qed.

Lemma le_val_app a b : le_val (a ++ b) = le_val a + 2 ^ (8 * N.of_nat (length a)) * le_val b.
Proof.
  induction a as [|x a IH]; cbn [app le_val length].
  - change (8 * N.of_nat 0) with 0. rewrite N.pow_0_r. lia.
  - rewrite IH, pow8_succ. remember (2 ^ (8 * N.of_nat (length a))) as P. lia.
Qed.

(* ------------------------------------------------------------------ *)
(* two's complement                                                    *)
(* ------------------------------------------------------------------ *)

Lemma zpow8_split (w : nat) : (0 < w)%nat ->
  (2 ^ (8 * Z.of_nat w) = 2 * 2 ^ (8 * Z.of_nat w - 1))%Z.
Proof.
  intros Hw.
  replace (8 * Z.of_nat w)%Z with (Z.succ (8 * Z.of_nat w - 1))%Z at 1 by lia.
  apply Z.pow_succ_r. lia.
Qed.

Lemma zpow8_half (w : nat) : (0 < w)%nat ->
  (2 ^ (8 * Z.of_nat w) / 2 = 2 ^ (8 * Z.of_nat w - 1))%Z.
Proof.
  intros Hw. rewrite (zpow8_split w Hw).
  rewrite Z.mul_comm. apply Z.div_mul. discriminate.
Qed.

Lemma zpow_half_pos (w : nat) : (0 < w)%nat -> (0 < 2 ^ (8 * Z.of_nat w - 1))%Z.
Proof. intros Hw. apply Z.pow_pos_nonneg; lia. Qed.

Lemma npow8_to_Z (w : nat) : Z.of_N (2 ^ (8 * N.of_nat w)) = (2 ^ (8 * Z.of_nat w))%Z.
Proof.
  rewrite N2Z.inj_pow. f_equal. lia.
Qed.

Lemma untwos_twos w z : (0 < w)%nat ->
  (- 2 ^ (8 * Z.of_nat w - 1) <= z < 2 ^ (8 * Z.of_nat w - 1))%Z ->
  untwos w (twos w z) = z.
Proof.
  intros Hw Hz. unfold untwos, twos.
  pose proof (zpow8_split w Hw) as Hm.
  pose proof (zpow8_half w Hw) as Hh.
  pose proof (zpow_half_pos w Hw) as Hp.
  remember (2 ^ (8 * Z.of_nat w))%Z as m.
  remember (2 ^ (8 * Z.of_nat w - 1))%Z as h.
  assert (Hmpos : (0 < m)%Z) by lia.
  pose proof (Z.mod_pos_bound z m Hmpos) as Hb.
  rewrite Z2N.id by lia.
  rewrite Z.mod_mod by lia.
  rewrite Hh.
  destruct (Z.ltb z 0) eqn:Hneg.
  - assert (Hzm : (z mod m = z + m)%Z).
    { symmetry. apply (Z.mod_unique_pos z m (-1) (z + m)); lia. }
    rewrite Hzm.
    destruct (Z.ltb (z + m) h) eqn:Hlt; lia.
  - rewrite Z.mod_small by lia.
    destruct (Z.ltb z h) eqn:Hlt; lia.
Qed.

Lemma twos_untwos w n : (0 < w)%nat -> n < 2 ^ (8 * N.of_nat w) ->
  twos w (untwos w n) = n.
Proof.
  intros Hw Hn. unfold untwos, twos.
  pose proof (zpow8_split w Hw) as Hm.
  pose proof (zpow8_half w Hw) as Hh.
  pose proof (zpow_half_pos w Hw) as Hp.
  assert (Hn' : (Z.of_N n < 2 ^ (8 * Z.of_nat w))%Z).
  { rewrite <- npow8_to_Z. lia. }
  remember (2 ^ (8 * Z.of_nat w))%Z as m.
  remember (2 ^ (8 * Z.of_nat w - 1))%Z as h.
  rewrite (Z.mod_small (Z.of_N n) m) by lia.
  rewrite Hh.
  destruct (Z.ltb (Z.of_N n) h) eqn:Hlt.
  - rewrite Z.mod_small by lia. apply N2Z.id.
  - assert (Hzm : ((Z.of_N n - m) mod m = Z.of_N n)%Z).
    { symmetry. apply (Z.mod_unique_pos (Z.of_N n - m) m (-1) (Z.of_N n)); lia. }
    rewrite Hzm. apply N2Z.id.
Qed.

Lemma twos_bound w z : (0 < w)%nat -> twos w z < 2 ^ (8 * N.of_nat w).
Proof.
  intros Hw. unfold twos.
  pose proof (zpow8_split w Hw) as Hm.
  pose proof (zpow_half_pos w Hw) as Hp.
  pose proof (npow8_to_Z w) as HZ.
  remember (2 ^ (8 * Z.of_nat w))%Z as m.
  assert (Hmpos : (0 < m)%Z) by lia.
  pose proof (Z.mod_pos_bound z m Hmpos) as Hb.
  remember (2 ^ (8 * N.of_nat w)) as M.
  lia.
Qed.

(* ------------------------------------------------------------------ *)
(* unsigned varint                                                     *)
(* ------------------------------------------------------------------ *)

Lemma put_uvarint_f_spec fuel n : n < 128 ^ N.of_nat (S fuel) ->
  uvarint_of n (put_uvarint_f fuel n).
Proof.
  revert n. induction fuel as [|f IH]; intros n Hn; cbn [put_uvarint_f].
  - change (128 ^ N.of_nat 1) with 128 in Hn.
    rewrite N.mod_small by exact Hn. apply uv_last. exact Hn.
  - destruct (n <? 128) eqn:E.
    + apply uv_last. lia.
    + rewrite N.add_comm. apply uv_more; [lia|].
      apply IH. rewrite pow128_succ in Hn. apply div128_lt. exact Hn.
Qed.

Lemma put_uvarint_spec n : n < 2 ^ 64 -> uvarint_of n (put_uvarint n).
Proof.
  intros Hn. unfold put_uvarint. apply put_uvarint_f_spec.
  eapply N.lt_trans; [exact Hn|]. vm_compute. reflexivity.
Qed.

Lemma uvarint_of_unique n a b : uvarint_of n a -> uvarint_of n b -> a = b.
Proof.
  intros Ha. revert b. induction Ha as [n Hn | n bs Hn Hbs IH]; intros b Hb.
  - inversion Hb as [n' Hn' | n' bs' Hn' Hbs']; subst.
    + reflexivity.
    + lia.
  - inversion Hb as [n' Hn' | n' bs' Hn' Hbs']; subst.
    + lia.
    + f_equal. apply IH. exact Hbs'.
Qed.

Lemma put_uvarint_f_wf fuel n : wf_bytes (put_uvarint_f fuel n).
Proof.
  revert n. induction fuel as [|f IH]; intros n; cbn [put_uvarint_f].
  - constructor; [|constructor]. unfold wf_byte. pose proof (mod128_lt n). lia.
  - destruct (n <? 128) eqn:E.
    + constructor; [|constructor]. unfold wf_byte. lia.
    + constructor; [|apply IH]. unfold wf_byte. pose proof (mod128_lt n). lia.
Qed.

Lemma put_uvarint_wf n : wf_bytes (put_uvarint n).
Proof. apply put_uvarint_f_wf. Qed.

Lemma put_uvarint_f_len fuel n k : (1 <= k)%nat -> n < 128 ^ N.of_nat k ->
  (1 <= length (put_uvarint_f fuel n) <= k)%nat.
Proof.
  revert n k. induction fuel as [|f IH]; intros n k Hk Hn; cbn [put_uvarint_f].
  - cbn [length]. lia.
  - destruct (n <? 128) eqn:E.
    + cbn [length]. lia.
    + cbn [length]. destruct k as [|k]; [lia|].
      destruct k as [|k].
      * change (128 ^ N.of_nat 1) with 128 in Hn. lia.
      * rewrite pow128_succ in Hn. apply div128_lt in Hn.
        specialize (IH (n / 128) (S k)). lia.
Qed.

Lemma pow2_56 : 2 ^ 56 = 128 ^ N.of_nat 8.
Proof. vm_compute. reflexivity. Qed.

Lemma put_uvarint_len n : n < 2 ^ 56 -> (1 <= length (put_uvarint n) <= 8)%nat.
Proof.
  intros Hn. unfold put_uvarint. apply put_uvarint_f_len; [lia|].
  rewrite <- pow2_56. exact Hn.
Qed.

(* reading back what put wrote: k bounds the number of 7-bit groups *)
Lemma read_put_uvarint_f fp : forall n fr i x s k,
  (1 <= k)%nat -> n < 128 ^ N.of_nat k -> (k <= S fp)%nat -> (k <= fr)%nat -> (i + k <= 9)%nat ->
  read_uvarint_f fr i x s (put_uvarint_f fp n) = UvOk ((x + n * 2 ^ s) mod 2 ^ 64).
Proof.
  induction fp as [|f IH]; intros n fr i x s k Hk Hn Hkp Hkr Hik.
  - assert (k = 1%nat) by lia. subst k.
    change (128 ^ N.of_nat 1) with 128 in Hn.
    cbn [put_uvarint_f]. rewrite N.mod_small by exact Hn.
    destruct fr as [|fr]; [lia|]. cbn [read_uvarint_f].
    assert (E : (n <? 128) = true) by lia. rewrite E.
    assert (E9 : Nat.eqb i 9 = false) by (apply Nat.eqb_neq; lia).
    rewrite E9. cbn [andb]. reflexivity.
  - cbn [put_uvarint_f]. destruct (n <? 128) eqn:E.
    + destruct fr as [|fr]; [lia|]. cbn [read_uvarint_f]. rewrite E.
      assert (E9 : Nat.eqb i 9 = false) by (apply Nat.eqb_neq; lia).
      rewrite E9. cbn [andb]. reflexivity.
    + destruct fr as [|fr]; [lia|]. cbn [read_uvarint_f].
      pose proof (mod128_lt n) as Hm.
      assert (E' : (n mod 128 + 128 <? 128) = false) by lia. rewrite E'.
      destruct k as [|k]; [lia|].
      destruct k as [|k].
      { change (128 ^ N.of_nat 1) with 128 in Hn. lia. }
      rewrite pow128_succ in Hn. apply div128_lt in Hn.
      rewrite (IH (n / 128) fr (S i) _ (s + 7) (S k)) by lia.
      f_equal. f_equal.
      rewrite N.add_sub, N.pow_add_r. change (2 ^ 7) with 128.
      pose proof (divmod128 n) as Hdm.
      remember (n / 128) as q. remember (n mod 128) as r. remember (2 ^ s) as P.
      rewrite Hdm. ring.
Qed.

Lemma read_put_uvarint n : n < 2 ^ 56 -> read_uvarint (put_uvarint n) = UvOk n.
Proof.
  intros Hn. unfold read_uvarint, put_uvarint.
  assert (Hn8 : n < 128 ^ N.of_nat 8) by (rewrite <- pow2_56; exact Hn).
  rewrite (read_put_uvarint_f 10 n 10 0 0 0 8) by (exact Hn8 || lia).
  rewrite N.pow_0_r, N.mul_1_r, N.add_0_l.
  rewrite N.mod_small; [reflexivity|].
  eapply N.lt_trans; [exact Hn|]. vm_compute. reflexivity.
Qed.

(* ------------------------------------------------------------------ *)
(* length prefix                                                       *)
(* ------------------------------------------------------------------ *)

Lemma prefix_of_unique n a b : prefix_of n a -> prefix_of n b -> a = b.
Proof.
  intros Ha Hb.
  inversion Ha as [n1 Hn1 | n1 u1 Hn1 Hu1]; subst;
  inversion Hb as [n2 Hn2 | n2 u2 Hn2 Hu2]; subst.
  - reflexivity.
  - lia.
  - lia.
  - rewrite (uvarint_of_unique n u1 u2 Hu1 Hu2). reflexivity.
Qed.

(* ---- satisfiability examples ---- *)
Example ex_le_roundtrip : le_val (le_bytes 4 305419896) = 305419896 /\ le_bytes 4 305419896 = [120; 86; 52; 18].
Proof. vm_compute. split; reflexivity. Qed.
Example ex_twos : twos 2 (-2) = 65534 /\ untwos 2 65534 = (-2)%Z.
Proof. vm_compute. split; reflexivity. Qed.
Example ex_uvarint : put_uvarint 300 = [172; 2] /\ read_uvarint [172; 2] = UvOk 300.
Proof. vm_compute. split; reflexivity. Qed.
Example ex_uvarint_of : uvarint_of 300 [172; 2].
Proof. apply (put_uvarint_spec 300). vm_compute. reflexivity. Qed.
Example ex_prefix_of : prefix_of 300 [253; 172; 2].
Proof. apply (pf_long 300 [172; 2]); [vm_compute; discriminate | apply ex_uvarint_of]. Qed.

Print Assumptions le_bytes_length.
Print Assumptions le_bytes_wf.
Print Assumptions le_val_le_bytes.
Print Assumptions le_bytes_le_val.
Print Assumptions le_val_bound.
Print Assumptions le_bytes_image.
Print Assumptions le_image_unique.
Print Assumptions untwos_twos.
Print Assumptions twos_untwos.
Print Assumptions twos_bound.
Print Assumptions put_uvarint_spec.
Print Assumptions uvarint_of_unique.
Print Assumptions put_uvarint_wf.
Print Assumptions put_uvarint_len.
Print Assumptions read_put_uvarint.
Print Assumptions prefix_of_unique.
