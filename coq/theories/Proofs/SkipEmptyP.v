(* Proofs/SkipEmptyP.v — C16, the skip-empty clause: "with empty-field skipping enabled the
   marshaller omits exactly the zero-valued fields and empty slices, and the shortened stream
   still round-trips to an equivalent value."

   Part 1: the struct stream is Object, the kept fields (an explicit [filter]) in declaration
           order, ObjectEnd  (skip_empty_fields_exact, and the skip_empty = false corollary).
   Part 2: the round trip for every marshalling option set [mo] on the universe simple_ty,
           with the returned value [normal_o (skip_empty mo) t v]: like [normal], but every
           omitted field (at every nesting depth) holds the zero value of its type.
   Part 3: the equivalence [deq] (deep equality identifying +0.0/-0.0, any two NaNs, nil/empty
           slices, byte slices and maps) and normal_se_equiv : deq (normal_se t v) (normal t v).
   Part 4: examples. *)
From Coq Require Import Lia ZifyBool ZifyNat ZifyN Arith.
From SbModel Require Import Spec.Conform Proofs.UnmarshalP.
Local Open Scope N_scope.

Definition se_opts : copts := Opts true false false.

(* ====================================================================================== *)
(* Part 1.  Exactly the empty fields are omitted                                           *)
(* ====================================================================================== *)

Notation field := (bytes * bool * ty)%type (only parsing).

(* the marshaller's test: reflect.Value.IsZero, or a slice kind of length 0 *)
Definition empty_field (ft : ty) (x : gval) : bool :=
  is_zero ft x || (is_slice_kind ft && Nat.eqb (glen x) 0).

(* a (declared field, value) pair is emitted iff the field is exported and, when skipping is on,
   its value is not empty *)
Definition kept (o : copts) (p : field * gval) : bool :=
  fexported (fst p) && negb (skip_empty o && empty_field (ftype (fst p)) (snd p)).

Definition kept_fields (o : copts) (fs : list field) (vals : list gval) : list (field * gval) :=
  filter (kept o) (combine fs vals).

(* name token, then the field's own stream under the same options; the first error wins *)
Fixpoint fields_stream (o : copts) (l : list (field * gval)) : res (list token) :=
  match l with
  | [] => Ok []
  | p :: r =>
      bind (marshal o (ftype (fst p)) (snd p)) (fun a =>
      bind (fields_stream o r) (fun b => Ok (T KString (VStr (fname (fst p))) :: a ++ b)))
  end.

Lemma mfields_kept o : forall vals fs, mfields o vals fs = fields_stream o (kept_fields o fs vals).
Proof.
  induction vals as [|x vals IH]; intros [|fd fs]; try reflexivity.
  change (mfields o (x :: vals) (fd :: fs)) with
    (if skip_empty o && empty_field (snd fd) x then mfields o vals fs
     else if negb (fexported fd) then mfields o vals fs
     else bind (marshal o (snd fd) x) (fun a =>
          bind (mfields o vals fs) (fun b => Ok (T KString (VStr (fname fd)) :: a ++ b)))).
  assert (E : kept_fields o (fd :: fs) (x :: vals) =
              if kept o (fd, x) then (fd, x) :: kept_fields o fs vals else kept_fields o fs vals) by reflexivity.
  rewrite E. unfold kept. cbn [fst snd]. unfold ftype.
  destruct (skip_empty o && empty_field (snd fd) x) eqn:Esk; cbn [negb].
  - rewrite andb_false_r. apply IH.
  - rewrite andb_true_r. destruct (fexported fd); cbn [negb]; [|apply IH].
    cbn [fields_stream fst snd]. unfold ftype. rewrite <- IH. reflexivity.
Qed.

(* the stream of a struct under any options *)
Theorem fields_exact_gen o t fs vals :
  underlying t = TStruct fs ->
  marshal o t (GStruct vals) =
  bind (fields_stream o (kept_fields o fs vals))
       (fun body => Ok (reg_prefix t ++ T KObject VNone :: body ++ [T KObjectEnd VNone])).
Proof.
  intros Hut. rewrite marshal_struct. unfold fields_of. rewrite Hut, mfields_kept.
  destruct (fields_stream o (kept_fields o fs vals)); reflexivity.
Qed.

(* with skipping on: exactly the exported fields that are neither IsZero nor an empty slice *)
Theorem skip_empty_fields_exact t fs vals :
  underlying t = TStruct fs ->
  marshal se_opts t (GStruct vals) =
  bind (fields_stream se_opts
          (filter (fun p => fexported (fst p) && negb (empty_field (ftype (fst p)) (snd p))) (combine fs vals)))
       (fun body => Ok (reg_prefix t ++ T KObject VNone :: body ++ [T KObjectEnd VNone])).
Proof. exact (fields_exact_gen se_opts t fs vals). Qed.

(* the same for any option set with skip_empty = true *)
Theorem skip_empty_fields_exact_opts o t fs vals :
  skip_empty o = true -> underlying t = TStruct fs ->
  marshal o t (GStruct vals) =
  bind (fields_stream o
          (filter (fun p => fexported (fst p) && negb (empty_field (ftype (fst p)) (snd p))) (combine fs vals)))
       (fun body => Ok (reg_prefix t ++ T KObject VNone :: body ++ [T KObjectEnd VNone])).
Proof.
  intros Hse Hut. rewrite (fields_exact_gen o t fs vals Hut). unfold kept_fields, kept. rewrite Hse. reflexivity.
Qed.

(* with skipping off every exported field is emitted *)
Corollary noskip_all_exported_fields o t fs vals :
  skip_empty o = false -> underlying t = TStruct fs ->
  marshal o t (GStruct vals) =
  bind (fields_stream o (filter (fun p => fexported (fst p)) (combine fs vals)))
       (fun body => Ok (reg_prefix t ++ T KObject VNone :: body ++ [T KObjectEnd VNone])).
Proof.
  intros Hse Hut. rewrite (fields_exact_gen o t fs vals Hut). unfold kept_fields.
  rewrite (filter_ext (kept o) (fun p => fexported (fst p))); [reflexivity|].
  intros p. unfold kept. rewrite Hse. cbn [andb negb]. apply andb_true_r.
Qed.

(* membership: what "exactly" means field by field *)
Lemma kept_fields_spec fs vals fd x :
  In (fd, x) (kept_fields se_opts fs vals) <->
  In (fd, x) (combine fs vals) /\ fexported fd = true /\
  is_zero (ftype fd) x = false /\ (is_slice_kind (ftype fd) && Nat.eqb (glen x) 0) = false.
Proof.
  unfold kept_fields. rewrite filter_In. unfold kept, empty_field. cbn [fst snd skip_empty se_opts andb].
  rewrite andb_true_iff, negb_true_iff, orb_false_iff. tauto.
Qed.

(* the successful case spelled out: one stream per kept field *)
Definition field_tokens (pa : (field * gval) * list token) : list token :=
  T KString (VStr (fname (fst (fst pa)))) :: snd pa.

Lemma fields_stream_ok o : forall l body,
  fields_stream o l = Ok body <->
  exists streams, Forall2 (fun p a => marshal o (ftype (fst p)) (snd p) = Ok a) l streams /\
                  body = concat (map field_tokens (combine l streams)).
Proof.
  induction l as [|p l IH]; intros body; cbn [fields_stream].
  - split.
    + intros H. injection H as <-. exists []. split; [constructor|reflexivity].
    + intros (streams & HF & ->). inversion HF. reflexivity.
  - split.
    + intros H. apply bind_ok in H. destruct H as (a & Ha & H). apply bind_ok in H. destruct H as (b & Hb & H).
      injection H as <-. apply IH in Hb. destruct Hb as (streams & HF & ->).
      exists (a :: streams). split; [constructor; assumption|]. reflexivity.
    + intros (streams & HF & ->). inversion HF as [|p' a l' streams' Ha HF' E1 E2]. subst.
      rewrite Ha. cbn [bind].
      assert (Hb : fields_stream o l = Ok (concat (map field_tokens (combine l streams')))).
      { apply IH. exists streams'. split; [exact HF'|reflexivity]. }
      rewrite Hb. reflexivity.
Qed.

Theorem skip_empty_fields_exact_ok t fs vals ts :
  underlying t = TStruct fs ->
  (marshal se_opts t (GStruct vals) = Ok ts <->
   exists streams,
     Forall2 (fun p a => marshal se_opts (ftype (fst p)) (snd p) = Ok a) (kept_fields se_opts fs vals) streams /\
     ts = reg_prefix t ++ T KObject VNone ::
          concat (map field_tokens (combine (kept_fields se_opts fs vals) streams)) ++ [T KObjectEnd VNone]).
Proof.
  intros Hut. rewrite (fields_exact_gen se_opts t fs vals Hut). split.
  - intros H. apply bind_ok in H. destruct H as (body & Hb & H). injection H as <-.
    apply fields_stream_ok in Hb. destruct Hb as (streams & HF & ->). exists streams. split; [exact HF|reflexivity].
  - intros (streams & HF & ->).
    assert (Hb : fields_stream se_opts (kept_fields se_opts fs vals)
                 = Ok (concat (map field_tokens (combine (kept_fields se_opts fs vals) streams)))).
    { apply fields_stream_ok. exists streams. split; [exact HF|reflexivity]. }
    rewrite Hb. reflexivity.
Qed.

(* ====================================================================================== *)
(* Part 2.  The round trip under any marshalling options                                   *)
(* ====================================================================================== *)

(* what a zero T holds after unmarshalling the stream of v written with skip_empty = se: as
   [normal], except that a field the marshaller omitted holds the zero value of its type.  The
   option applies at every depth (fields of structs inside slices, arrays, pointers, structs). *)
Fixpoint normal_o (se : bool) (t : ty) (v : gval) {struct v} : gval :=
  match v with
  | GF32 b => if f32_is_nan b then GF32 f32_nan_bits else v
  | GF64 b => if f64_is_nan b then GF64 f64_nan_bits else v
  | GBytes isnil s => GBytes false s
  | GList isnil items =>
      match underlying t with
      | TArray _ e => GList false (map (normal_o se e) items)
      | TSlice e => GList (match items with [] => true | _ => false end) (map (normal_o se e) items)
      | _ => v
      end
  | GStruct vals =>
      match underlying t with
      | TStruct fs =>
          GStruct ((fix go (l : list gval) (f : list (bytes * bool * ty)) : list gval :=
                      match l, f with
                      | x :: r, fd :: fr =>
                          (if fexported fd && negb (se && empty_field (snd fd) x)
                           then normal_o se (snd fd) x else zero (snd fd)) :: go r fr
                      | _, _ => []
                      end) vals fs)
      | _ => v
      end
  | GPtr (Some x) => match underlying t with TPtr e => GPtr (Some (normal_o se e x)) | _ => v end
  | _ => v
  end.

Definition normal_se : ty -> gval -> gval := normal_o true.

Definition nfields_o (se : bool) : list gval -> list field -> list gval :=
  fix go (l : list gval) (f : list field) : list gval :=
    match l, f with
    | x :: r, fd :: fr =>
        (if fexported fd && negb (se && empty_field (snd fd) x)
         then normal_o se (snd fd) x else zero (snd fd)) :: go r fr
    | _, _ => []
    end.

Lemma normal_o_list se t n items :
  normal_o se t (GList n items) =
  match underlying t with
  | TArray _ e => GList false (map (normal_o se e) items)
  | TSlice e => GList (match items with [] => true | _ => false end) (map (normal_o se e) items)
  | _ => GList n items
  end.
Proof. reflexivity. Qed.

Lemma normal_o_struct se t vals :
  normal_o se t (GStruct vals) =
  match underlying t with TStruct fs => GStruct (nfields_o se vals fs) | _ => GStruct vals end.
Proof. reflexivity. Qed.

(* ---- the loops on element streams written with options mo ---- *)
Section LoopsO.
Variable mo : copts.
Variable o : copts.
Variable rec : rec_t.

Definition elem_ok_o (x : gval) : Prop :=
  forall ft a rest', wf_ty ft = true -> simple_ty ft = true ->
    has_type ft x = true -> no_ptr_to_nil x = true -> marshal mo ft x = Ok a ->
    rec ft (zero ft) (a ++ rest') = Ok (normal_o (skip_empty mo) ft x, rest').

Lemma melems_cons_inv_o e x l body : melems mo e (x :: l) = Ok body ->
  exists a b, marshal mo e x = Ok a /\ melems mo e l = Ok b /\ body = a ++ b.
Proof.
  change (melems mo e (x :: l)) with
    (bind (marshal mo e x) (fun a => bind (melems mo e l) (fun b => Ok (a ++ b)))).
  intros H. apply bind_ok in H. destruct H as (a & Ha & H). apply bind_ok in H. destruct H as (b & Hb & H).
  injection H as <-. exists a, b. repeat split; assumption.
Qed.

Lemma slice_loop_rt_o e : wf_ty e = true -> simple_ty e = true ->
  forall l, Forall elem_ok_o l -> all_typed e l = true -> forallb no_ptr_to_nil l = true ->
  forall body, melems mo e l = Ok body ->
  forall g acc rest, (length l < g)%nat ->
  slice_loop rec g e acc (body ++ T KArrayEnd VNone :: rest) = Ok (acc ++ map (normal_o (skip_empty mo) e) l, rest).
Proof.
  intros Hwf Hs. induction 1 as [|x l Hx _ IH]; intros Hty Hnp body Hm g acc rest Hg.
  - injection Hm as <-. destruct g as [|g]; [clear - Hg; cbn in Hg; lia|]. cbn [app slice_loop map kind].
    rewrite app_nil_r. reflexivity.
  - apply melems_cons_inv_o in Hm. destruct Hm as (a & b & Ha & Hb & ->).
    change (all_typed e (x :: l)) with (has_type e x && all_typed e l) in Hty.
    apply andb_true_iff in Hty. destruct Hty as [Htx Htl].
    cbn [forallb] in Hnp. apply andb_true_iff in Hnp. destruct Hnp as [Hnx Hnl].
    destruct (marshal_head _ _ _ _ Htx Hs Ha) as (tk & r & -> & Hh & _).
    destruct g as [|g]; [clear - Hg; cbn [length] in Hg; lia|]. rewrite <- app_assoc. cbn [app slice_loop].
    rewrite (head_not_arrend tk Hh).
    change (tk :: r ++ b ++ T KArrayEnd VNone :: rest) with ((tk :: r) ++ b ++ T KArrayEnd VNone :: rest).
    rewrite (Hx e (tk :: r) _ Hwf Hs Htx Hnx Ha). cbn [bind fst snd].
    rewrite (IH Htl Hnl b Hb g) by (clear - Hg; cbn [length] in Hg; lia).
    rewrite <- app_assoc. reflexivity.
Qed.

Lemma arr_loop_rt_o e : wf_ty e = true -> simple_ty e = true ->
  forall l, Forall elem_ok_o l -> all_typed e l = true -> forallb no_ptr_to_nil l = true ->
  forall body, melems mo e l = Ok body ->
  forall g done rest, (length l < g)%nat ->
  arr_loop rec g e (done ++ repeat (zero e) (length l)) (length done) (body ++ T KArrayEnd VNone :: rest)
  = Ok (done ++ map (normal_o (skip_empty mo) e) l, rest).
Proof.
  intros Hwf Hs. induction 1 as [|x l Hx _ IH]; intros Hty Hnp body Hm g done rest Hg.
  - injection Hm as <-. destruct g as [|g]; [clear - Hg; cbn in Hg; lia|]. cbn [app arr_loop map kind length repeat].
    reflexivity.
  - apply melems_cons_inv_o in Hm. destruct Hm as (a & b & Ha & Hb & ->).
    change (all_typed e (x :: l)) with (has_type e x && all_typed e l) in Hty.
    apply andb_true_iff in Hty. destruct Hty as [Htx Htl].
    cbn [forallb] in Hnp. apply andb_true_iff in Hnp. destruct Hnp as [Hnx Hnl].
    destruct (marshal_head _ _ _ _ Htx Hs Ha) as (tk & r & -> & Hh & _).
    destruct g as [|g]; [clear - Hg; cbn [length] in Hg; lia|]. rewrite <- app_assoc. cbn [app arr_loop length repeat].
    rewrite (head_not_arrend tk Hh).
    assert (Hlen : Nat.leb (length (done ++ zero e :: repeat (zero e) (length l))) (length done) = false).
    { apply Nat.leb_gt. rewrite app_length. cbn [length]. clear. lia. }
    rewrite Hlen, nth_app_here.
    change (tk :: r ++ b ++ T KArrayEnd VNone :: rest) with ((tk :: r) ++ b ++ T KArrayEnd VNone :: rest).
    rewrite (Hx e (tk :: r) _ Hwf Hs Htx Hnx Ha). cbn [bind fst snd].
    rewrite set_nth_app.
    specialize (IH Htl Hnl b Hb g (done ++ [normal_o (skip_empty mo) e x]) rest ltac:(clear - Hg; cbn [length] in Hg; lia)).
    rewrite <- !app_assoc in IH. cbn [app] in IH.
    replace (length (done ++ [normal_o (skip_empty mo) e x])) with (S (length done)) in IH
      by (rewrite app_length; cbn [length]; clear; lia).
    exact IH.
Qed.

Hypothesis Hname : forall s cur rest', rec TString cur (T KString (VStr s) :: rest') = Ok (GStr s, rest').

Lemma mfields_cons_inv_o x l fd fs body : mfields mo (x :: l) (fd :: fs) = Ok body ->
  if fexported fd && negb (skip_empty mo && empty_field (snd fd) x)
  then exists a b, marshal mo (snd fd) x = Ok a /\ mfields mo l fs = Ok b /\
                   body = T KString (VStr (fname fd)) :: a ++ b
  else mfields mo l fs = Ok body.
Proof.
  change (mfields mo (x :: l) (fd :: fs)) with
    (if skip_empty mo && empty_field (snd fd) x then mfields mo l fs
     else if negb (fexported fd) then mfields mo l fs
     else bind (marshal mo (snd fd) x) (fun a =>
          bind (mfields mo l fs) (fun b => Ok (T KString (VStr (fname fd)) :: a ++ b)))).
  destruct (skip_empty mo && empty_field (snd fd) x); cbn [negb].
  - rewrite andb_false_r. tauto.
  - rewrite andb_true_r. destruct (fexported fd); cbn [negb]; [|tauto].
    intros H. apply bind_ok in H. destruct H as (a & Ha & H). apply bind_ok in H. destruct H as (b & Hb & H).
    injection H as <-. exists a, b. repeat split; assumption.
Qed.

(* the object loop on a stream that carries only the kept fields: an omitted field keeps the
   zero content the target started with *)
Lemma struct_loop_rt_o : forall l, Forall elem_ok_o l ->
  forall fsall pre fs donev body, fsall = pre ++ fs -> names_nodup fsall = true ->
  forallb (fun f => wf_bytesb (fname f) && wf_ty (snd f)) fs = true ->
  forallb (fun f => simple_ty (snd f)) fs = true ->
  fields_typed l fs = true -> forallb no_ptr_to_nil l = true ->
  mfields mo l fs = Ok body -> length donev = length pre ->
  forall g depr rest, (length body < g)%nat ->
  struct_loop o rec g fsall depr (donev ++ map (fun fd => zero (snd fd)) fs) (body ++ T KObjectEnd VNone :: rest)
  = Ok (donev ++ nfields_o (skip_empty mo) l fs, rest).
Proof.
  induction 1 as [|x l Hx _ IH]; intros fsall pre fs donev body Hall Hnd Hwf Hs Hty Hnp Hm Hlen g depr rest Hg.
  - destruct fs as [|fd fs]; [|discriminate Hty]. injection Hm as <-.
    destruct g as [|g]; [clear - Hg; cbn in Hg; lia|]. reflexivity.
  - destruct fs as [|fd fs]; [discriminate Hty|].
    change (fields_typed (x :: l) (fd :: fs)) with (has_type (snd fd) x && fields_typed l fs) in Hty.
    apply andb_true_iff in Hty. destruct Hty as [Htx Htl].
    cbn [forallb] in Hnp, Hwf, Hs.
    apply andb_true_iff in Hnp. destruct Hnp as [Hnx Hnl].
    apply andb_true_iff in Hwf. destruct Hwf as [Hwx Hwl]. apply andb_true_iff in Hwx. destruct Hwx as [_ Hwx].
    apply andb_true_iff in Hs. destruct Hs as [Hsx Hsl].
    apply mfields_cons_inv_o in Hm.
    assert (Hnext : forall y body' g', mfields mo l fs = Ok body' -> (length body' < g')%nat ->
              struct_loop o rec g' fsall depr ((donev ++ [y]) ++ map (fun fd => zero (snd fd)) fs)
                (body' ++ T KObjectEnd VNone :: rest) = Ok ((donev ++ [y]) ++ nfields_o (skip_empty mo) l fs, rest)).
    { intros y body' g' Hb Hg'. apply (IH fsall (pre ++ [fd]) fs (donev ++ [y]) body'); try assumption.
      - rewrite <- app_assoc. exact Hall.
      - rewrite !app_length. cbn [length]. clear - Hlen. lia. }
    change (nfields_o (skip_empty mo) (x :: l) (fd :: fs)) with
      ((if fexported fd && negb (skip_empty mo && empty_field (snd fd) x)
        then normal_o (skip_empty mo) (snd fd) x else zero (snd fd)) :: nfields_o (skip_empty mo) l fs).
    cbn [map].
    destruct (fexported fd && negb (skip_empty mo && empty_field (snd fd) x)) eqn:Hk.
    + apply andb_true_iff in Hk. destruct Hk as [Hex _].
      destruct Hm as (a & b & Ha & Hb & ->).
      destruct g as [|g]; [clear - Hg; cbn [length] in Hg; lia|]. cbn [app struct_loop kind].
      change (KString =? KObjectEnd) with false. cbn beta iota.
      rewrite Hname. cbn [bind fst snd].
      subst fsall. rewrite (find_field_at pre fd fs 0 Hnd Hex). cbn [Nat.add].
      rewrite <- Hlen, nth_app_here. rewrite <- app_assoc.
      rewrite (Hx (snd fd) a _ Hwx Hsx Htx Hnx Ha). cbn [bind fst snd].
      rewrite set_nth_app.
      specialize (Hnext (normal_o (skip_empty mo) (snd fd) x) b g Hb
                    ltac:(clear - Hg; cbn [length] in Hg; rewrite app_length in Hg; lia)).
      rewrite <- !app_assoc in Hnext. cbn [app] in Hnext. exact Hnext.
    + specialize (Hnext (zero (snd fd)) body g Hm ltac:(clear - Hg; cbn [length] in Hg; lia)).
      rewrite <- !app_assoc in Hnext. cbn [app] in Hnext. exact Hnext.
Qed.

End LoopsO.

Section RoundTripO.
Variable pf : bytes -> N -> option N.
Variable mo : copts.      (* the writer's options *)
Variable o : copts.       (* the reader's options *)
Variable R : registry.

Definition rt_ok_o (v : gval) : Prop :=
  forall t ts, wf_ty t = true -> simple_ty t = true ->
    has_type t v = true -> no_ptr_to_nil v = true -> marshal mo t v = Ok ts ->
    forall pre f rest, forallb is_tn pre = true ->
    (length pre + 2 * vsize v < f + length (leadl ts))%nat ->
    unm pf f o R t (zero t) (pre ++ strip ts ++ rest) = Ok (normal_o (skip_empty mo) t v, rest).

Lemma rt_elem_ok_o f l : Forall rt_ok_o l -> (2 * lsize l < f)%nat -> Forall (elem_ok_o mo (unm pf f o R)) l.
Proof.
  induction 1 as [|x l Hx _ IH]; intros Hf; constructor.
  - intros ft a rest' Hwf Hs Ht Hn Hm.
    rewrite <- (leadl_strip a), <- app_assoc. apply Hx; try assumption; [apply leadl_tn|].
    rewrite lsize_cons in Hf. clear - Hf. lia.
  - apply IH. rewrite lsize_cons in Hf. clear - Hf. lia.
Qed.

Lemma melems_length_o e : forall l body, all_typed e l = true -> simple_ty e = true ->
  melems mo e l = Ok body -> (length l <= length body)%nat.
Proof.
  induction l as [|x l IH]; intros body Hty Hs Hm; [cbn; lia|].
  apply melems_cons_inv_o in Hm. destruct Hm as (a & b & Ha & Hb & ->).
  change (all_typed e (x :: l)) with (has_type e x && all_typed e l) in Hty.
  apply andb_true_iff in Hty. destruct Hty as [Htx Htl].
  destruct (marshal_head _ _ _ _ Htx Hs Ha) as (tk & r & -> & _ & _).
  specialize (IH b Htl Hs Hb). rewrite app_length. cbn [length]. clear - IH. lia.
Qed.

Ltac leaf_case Hs Hp Hf step :=
  eapply (rt_nonptr pf o R); [reflexivity|reflexivity|exact Hp|exact Hs| |exact Hf|];
  [clear; cbn [vsize]; lia|]; intros f1 _; cbn [app]; step.

Theorem roundtrip_all_o : forall v, rt_ok_o v.
Proof.
  induction v as [b|z|n|b|b|s|n s|n l IH|n es|l IH| |x IH|d|r|e] using gval_ind2;
    intros t ts Hwf Hs Hty Hnp Hm pre f rest Hp Hf;
    pose proof (simple_underlying t Hs) as Hsu; pose proof (wf_underlying t Hwf) as Hwu.
  - (* bool *)
    cbn [has_type] in Hty. destruct (underlying t) eqn:Hut; try discriminate.
    cbn [marshal bind] in Hm. injection Hm as <-.
    leaf_case Hs Hp Hf ltac:(apply unm_bool; exact Hut).
  - (* int *)
    cbn [has_type marshal] in Hty, Hm. destruct (underlying t) eqn:Hut; try discriminate.
    cbn [bind] in Hm. injection Hm as <-.
    destruct w; leaf_case Hs Hp Hf ltac:(apply (unm_int pf o R _ _ _ _ _ _ Hut)).
  - (* uint / uintptr *)
    cbn [has_type marshal] in Hty, Hm. destruct (underlying t) eqn:Hut; try discriminate;
    cbn [bind] in Hm; injection Hm as <-.
    + destruct w; leaf_case Hs Hp Hf ltac:(apply (unm_uint pf o R _ _ _ _ _ _ Hut)).
    + leaf_case Hs Hp Hf ltac:(apply unm_uintptr; exact Hut).
  - (* float32 *)
    cbn [has_type] in Hty. destruct (underlying t) eqn:Hut; try discriminate.
    cbn [marshal normal_o] in Hm |- *. destruct (f32_is_nan b); cbn [bind] in Hm; injection Hm as <-.
    + leaf_case Hs Hp Hf ltac:(apply unm_nan32; exact Hut).
    + leaf_case Hs Hp Hf ltac:(apply unm_f32; exact Hut).
  - (* float64 *)
    cbn [has_type] in Hty. destruct (underlying t) eqn:Hut; try discriminate.
    cbn [marshal normal_o] in Hm |- *. destruct (f64_is_nan b); cbn [bind] in Hm; injection Hm as <-.
    + leaf_case Hs Hp Hf ltac:(apply unm_nan64; exact Hut).
    + leaf_case Hs Hp Hf ltac:(apply unm_f64; exact Hut).
  - (* string *)
    cbn [has_type] in Hty. destruct (underlying t) eqn:Hut; try discriminate.
    cbn [marshal bind] in Hm. injection Hm as <-.
    leaf_case Hs Hp Hf ltac:(apply unm_string; exact Hut).
  - (* bytes / byte array *)
    cbn [has_type] in Hty. destruct (underlying t) eqn:Hut; try discriminate;
    cbn [marshal bind] in Hm; injection Hm as <-.
    + leaf_case Hs Hp Hf ltac:(apply unm_bytes; exact Hut).
    + leaf_case Hs Hp Hf ltac:(idtac).
      apply andb_true_iff in Hty. destruct Hty as [Hty _]. apply andb_true_iff in Hty. destruct Hty as [_ Hlen].
      apply Nat.eqb_eq in Hlen.
      rewrite (unm_bytearray pf o R _ _ _ _ _ _ Hut) by (rewrite Hlen; apply Nat.le_refl). cbn [normal_o].
      rewrite zero_underlying, Hut. cbn [zero bytes_of_gval].
      rewrite <- Hlen, firstn_all.
      assert (Hsk : forall k, skipn k (rep k 0) = []) by (induction k; [reflexivity|assumption]).
      rewrite Hsk, app_nil_r. reflexivity.
  - (* list: array or slice *)
    rewrite has_type_list in Hty. rewrite marshal_list in Hm. rewrite normal_o_list.
    apply bind_ok in Hm. destruct Hm as (ts0 & Hm & Hts). injection Hts as <-.
    apply bind_ok in Hm. destruct Hm as (body & Hm & Hts). injection Hts as <-.
    cbn [forallb no_ptr_to_nil] in Hnp. rewrite vsize_list in Hf.
    eapply (rt_nonptr pf o R); [reflexivity|reflexivity|exact Hp|exact Hs| |exact Hf|]; [clear; lia|].
    intros f' Hf'.
    pose proof (rt_elem_ok_o f' l IH ltac:(clear - Hf'; lia)) as Hel.
    unfold elem_ty in Hm.
    destruct (underlying t) eqn:Hut; try discriminate.
    + (* array *)
      cbn [wf_ty simple_ty] in Hwu, Hsu.
      apply andb_true_iff in Hty. destruct Hty as [Hty Hall]. apply andb_true_iff in Hty. destruct Hty as [_ Hlen].
      apply Nat.eqb_eq in Hlen.
      cbn [app]. rewrite (unm_array_step pf o R _ _ _ _ _ _ Hut).
      rewrite zero_underlying, Hut. cbn [zero items_of_gval]. rewrite <- Hlen.
      rewrite <- app_assoc. cbn [app].
      pose proof (arr_loop_rt_o mo (unm pf f' o R) _ Hwu Hsu l Hel Hall Hnp body Hm
                    (S (length (body ++ T KArrayEnd VNone :: rest))) [] rest) as Hloop.
      cbn [app length] in Hloop. rewrite Hloop; [reflexivity|].
      pose proof (melems_length_o _ _ _ Hall Hsu Hm) as Hl. rewrite app_length. clear - Hl. lia.
    + (* slice *)
      cbn [wf_ty simple_ty] in Hwu, Hsu.
      apply andb_true_iff in Hty. destruct Hty as [_ Hall].
      cbn [app]. rewrite (unm_slice_step pf o R _ _ _ _ _ Hut).
      rewrite zero_underlying, Hut. cbn [zero items_of_gval is_nil_container].
      rewrite <- app_assoc. cbn [app].
      rewrite (slice_loop_rt_o mo (unm pf f' o R) _ Hwu Hsu l Hel Hall Hnp body Hm).
      * cbn [bind fst snd app andb]. destruct l; reflexivity.
      * pose proof (melems_length_o _ _ _ Hall Hsu Hm) as Hl. rewrite app_length. clear - Hl. lia.
  - (* map: excluded *)
    cbn [has_type] in Hty. destruct (underlying t); discriminate.
  - (* struct *)
    rewrite has_type_struct in Hty. rewrite marshal_struct in Hm. rewrite normal_o_struct.
    apply bind_ok in Hm. destruct Hm as (ts0 & Hm & Hts). injection Hts as <-.
    apply bind_ok in Hm. destruct Hm as (body & Hm & Hts). injection Hts as <-.
    cbn [no_ptr_to_nil] in Hnp. rewrite vsize_struct in Hf.
    eapply (rt_nonptr pf o R); [reflexivity|reflexivity|exact Hp|exact Hs| |exact Hf|]; [clear; lia|].
    intros f' Hf'.
    pose proof (rt_elem_ok_o f' l IH ltac:(clear - Hf'; lia)) as Hel.
    unfold fields_of in Hm.
    destruct (underlying t) eqn:Hut; try discriminate.
    rewrite wf_ty_struct in Hwu. apply andb_true_iff in Hwu. destruct Hwu as [Hwfs Hnd].
    cbn [simple_ty] in Hsu.
    cbn [app]. rewrite (unm_struct_step pf o R _ _ _ _ _ Hut).
    rewrite zero_underlying, Hut. cbn [zero]. rewrite <- app_assoc. cbn [app].
    assert (Hnm : forall s cur rest', unm pf f' o R TString cur (T KString (VStr s) :: rest') = Ok (GStr s, rest')).
    { destruct f' as [|f'']; [clear - Hf'; lia|]. intros. apply unm_name. }
    pose proof (struct_loop_rt_o mo o (unm pf f' o R) Hnm l Hel fs [] fs [] body eq_refl Hnd Hwfs Hsu Hty Hnp Hm eq_refl
                  (S (length (body ++ T KObjectEnd VNone :: rest))) (depr_of t) rest) as Hloop.
    cbn [app] in Hloop. rewrite Hloop; [reflexivity|].
    rewrite app_length. clear. lia.
  - (* nil pointer *)
    cbn [has_type] in Hty. destruct (underlying t) eqn:Hut; try discriminate.
    cbn [marshal bind] in Hm. injection Hm as <-. cbn [normal_o].
    leaf_case Hs Hp Hf ltac:(idtac).
    rewrite nil_leaves_untouched by (rewrite Hut; discriminate).
    rewrite zero_underlying, Hut. reflexivity.
  - (* non-nil pointer *)
    cbn [has_type] in Hty. destruct (underlying t) eqn:Hut; try discriminate.
    rewrite marshal_ptr in Hm. unfold pointee_ty in Hm. rewrite Hut in Hm.
    apply bind_ok in Hm. destruct Hm as (tsx & Hm & Hts). injection Hts as <-.
    cbn [normal_o]. rewrite Hut. cbn [wf_ty simple_ty] in Hwu, Hsu.
    assert (Hnx : no_ptr_to_nil x = true /\ x <> GPtr None).
    { cbn [no_ptr_to_nil] in Hnp. destruct x as [| | | | | | | | | |[y|]| | |]; try (split; [exact Hnp|discriminate]).
      discriminate Hnp. }
    destruct Hnx as [Hnx Hxn].
    destruct (strip_head _ _ _ _ Hty Hsu Hm) as (Hlead & tk & r & E & Hh & Htn & Hnil).
    rewrite strip_prefix. rewrite leadl_prefix in Hf. pose proof (reg_prefix_len t) as Hpl.
    cbn [vsize] in Hf.
    apply unm_skip_tns; [exact Hs|exact Hp|clear - Hf Hlead Hpl; lia|].
    destruct (f - length pre)%nat as [|f1] eqn:Ef; [clear - Hf Hlead Hpl Ef; lia|].
    rewrite E. cbn [app].
    rewrite (unm_ptr_step pf o R f1 t _ _ tk _ Hut Hh Htn) by (intros Hk; apply Hxn, Hnil; assumption).
    change (tk :: r ++ rest) with ([] ++ (tk :: r) ++ rest). rewrite <- E.
    rewrite (IH _ _ Hwu Hsu Hty Hnx Hm [] f1 rest eq_refl) by (cbn [length]; clear - Hf Hlead Hpl Ef; lia).
    reflexivity.
  - cbn [has_type] in Hty. destruct (underlying t); discriminate.
  - cbn [has_type] in Hty. destruct (underlying t); discriminate.
  - (* time *)
    cbn [has_type] in Hty. destruct (underlying t) eqn:Hut; try discriminate.
    apply andb_true_iff in Hty. destruct Hty as [_ Hv].
    cbn [marshal bind] in Hm. injection Hm as <-. cbn [normal_o].
    leaf_case Hs Hp Hf ltac:(apply unm_time; assumption).
Qed.

End RoundTripO.

(* the round trip for any writer options mo and any reader options o *)
Theorem roundtrip_opts_fuel pf mo o R t v ts rest f :
  wf_ty t = true -> simple_ty t = true ->
  has_type t v = true -> no_ptr_to_nil v = true ->
  marshal mo t v = Ok ts -> (2 * vsize v < f)%nat ->
  unm pf f o R t (zero t) (ts ++ rest) = Ok (normal_o (skip_empty mo) t v, rest).
Proof.
  intros Hwf Hs Ht Hn Hm Hf. rewrite <- (leadl_strip ts), <- app_assoc.
  apply (roundtrip_all_o pf mo o R v t ts); try assumption; [apply leadl_tn|lia].
Qed.

(* ====================================================================================== *)
(* Part 3.  The equivalence: deep equality up to +0.0/-0.0, NaN, nil/empty                 *)
(* ====================================================================================== *)

(* floats: identical bit patterns, or both NaN, or Go's == (which equates +0.0 and -0.0) *)
Definition f32_deq (a b : N) : bool := (a =? b) || (f32_is_nan a && f32_is_nan b) || f32_eq a b.
Definition f64_deq (a b : N) : bool := (a =? b) || (f64_is_nan a && f64_is_nan b) || f64_eq a b.

Definition is_nil_list {A} (l : list A) : bool := match l with [] => true | _ => false end.

(* deq a b: a and b have the same shape and equal leaves, except that
     - two floats are related when they are ==, or both NaN (so +0.0 ~ -0.0);
     - the nil flag of a slice, byte slice or map is ignored when the container is empty
       (nil ~ empty); it must agree on non-empty containers;
   everything else (booleans, integers, strings, bytes, time images, dynamic types of
   interfaces, pointer nil-ness, lengths, order of entries) must agree exactly. *)
Fixpoint deq (a b : gval) {struct a} : bool :=
  match a, b with
  | GBool x, GBool y => Bool.eqb x y
  | GInt x, GInt y => (x =? y)%Z
  | GUint x, GUint y => x =? y
  | GF32 x, GF32 y => f32_deq x y
  | GF64 x, GF64 y => f64_deq x y
  | GStr x, GStr y => bytes_eqb x y
  | GBytes n x, GBytes m y => (Bool.eqb n m || is_nil_list x) && bytes_eqb x y
  | GTime x, GTime y => bytes_eqb x y
  | GList n l, GList m k =>
      (Bool.eqb n m || is_nil_list l) &&
      (fix go (p q : list gval) : bool :=
         match p, q with [], [] => true | x :: p', y :: q' => deq x y && go p' q' | _, _ => false end) l k
  | GMap n l, GMap m k =>
      (Bool.eqb n m || is_nil_list l) &&
      (fix go (p q : list (gval * gval)) : bool :=
         match p, q with
         | [], [] => true
         | (k1, v1) :: p', (k2, v2) :: q' => deq k1 k2 && deq v1 v2 && go p' q'
         | _, _ => false
         end) l k
  | GStruct l, GStruct k =>
      (fix go (p q : list gval) : bool :=
         match p, q with [], [] => true | x :: p', y :: q' => deq x y && go p' q' | _, _ => false end) l k
  | GPtr None, GPtr None => true
  | GPtr (Some x), GPtr (Some y) => deq x y
  | GAny None, GAny None => true
  | GAny (Some (t, x)), GAny (Some (t', y)) => ty_eqb t t' && deq x y
  | GFunc None, GFunc None => true
  | GFunc (Some l), GFunc (Some k) =>
      (fix go (p q : list gval) : bool :=
         match p, q with [], [] => true | x :: p', y :: q' => deq x y && go p' q' | _, _ => false end) l k
  | _, _ => false
  end.

Definition deq_list : list gval -> list gval -> bool :=
  fix go (p q : list gval) : bool :=
    match p, q with [], [] => true | x :: p', y :: q' => deq x y && go p' q' | _, _ => false end.

Definition deq_entries : list (gval * gval) -> list (gval * gval) -> bool :=
  fix go (p q : list (gval * gval)) : bool :=
    match p, q with
    | [], [] => true
    | (k1, v1) :: p', (k2, v2) :: q' => deq k1 k2 && deq v1 v2 && go p' q'
    | _, _ => false
    end.

Lemma deq_glist n m l k : deq (GList n l) (GList m k) = (Bool.eqb n m || is_nil_list l) && deq_list l k.
Proof. reflexivity. Qed.
Lemma deq_gmap n m l k : deq (GMap n l) (GMap m k) = (Bool.eqb n m || is_nil_list l) && deq_entries l k.
Proof. reflexivity. Qed.
Lemma deq_gstruct l k : deq (GStruct l) (GStruct k) = deq_list l k.
Proof. reflexivity. Qed.
Lemma deq_gfunc l k : deq (GFunc (Some l)) (GFunc (Some k)) = deq_list l k.
Proof. reflexivity. Qed.
Lemma deq_list_cons x y p q : deq_list (x :: p) (y :: q) = deq x y && deq_list p q.
Proof. reflexivity. Qed.

Lemma width_eqb_refl w : width_eqb w w = true.
Proof. destruct w; reflexivity. Qed.

Lemma ty_eqb_refl : forall t, ty_eqb t t = true.
Proof.
  induction t as [|w|w| | | | | |n|n e IHe|e IHe|k v IHk IHv|fs IHfs|e IHe| |outs IHouts|n r d u IHu|] using ty_ind2;
    cbn [ty_eqb]; try reflexivity.
  - apply width_eqb_refl.
  - apply width_eqb_refl.
  - apply Nat.eqb_refl.
  - rewrite Nat.eqb_refl, IHe. reflexivity.
  - exact IHe.
  - rewrite IHk, IHv. reflexivity.
  - induction IHfs as [|f fs Hf _ IH]; [reflexivity|].
    cbn [andb]. rewrite bytes_eqb_refl, eqb_reflx, Hf, IH. reflexivity.
  - exact IHe.
  - induction IHouts as [|x outs Hx _ IH]; [reflexivity|].
    cbn [andb]. rewrite Hx, IH. reflexivity.
  - rewrite bytes_eqb_refl, eqb_reflx, IHu. reflexivity.
Qed.

Lemma deq_list_refl l : Forall (fun x => deq x x = true) l -> deq_list l l = true.
Proof. induction 1 as [|x l Hx _ IH]; [reflexivity|]. rewrite deq_list_cons, Hx, IH. reflexivity. Qed.

Theorem deq_refl : forall v, deq v v = true.
Proof.
  induction v as [b|z|n|b|b|s|n s|n l IH|n es IH|l IH| |x IH| |t x IH| |l IH|e] using gval_ind3.
  - apply eqb_reflx.
  - apply Z.eqb_refl.
  - apply N.eqb_refl.
  - cbn [deq]. unfold f32_deq. rewrite N.eqb_refl. reflexivity.
  - cbn [deq]. unfold f64_deq. rewrite N.eqb_refl. reflexivity.
  - apply bytes_eqb_refl.
  - cbn [deq]. rewrite eqb_reflx, bytes_eqb_refl. reflexivity.
  - rewrite deq_glist, eqb_reflx, deq_list_refl by exact IH. reflexivity.
  - rewrite deq_gmap, eqb_reflx. cbn [orb andb].
    induction IH as [|[k x] es [Hk Hx] _ IHes]; [reflexivity|].
    cbn [fst snd] in Hk, Hx.
    change (deq_entries ((k, x) :: es) ((k, x) :: es)) with (deq k k && deq x x && deq_entries es es).
    rewrite Hk, Hx, IHes. reflexivity.
  - rewrite deq_gstruct. apply deq_list_refl, IH.
  - reflexivity.
  - exact IH.
  - reflexivity.
  - cbn [deq]. rewrite ty_eqb_refl, IH. reflexivity.
  - reflexivity.
  - rewrite deq_gfunc. apply deq_list_refl, IH.
  - apply bytes_eqb_refl.
Qed.

(* ---- an empty field's zero value is equivalent to what an emitted field would have come back as ---- *)
Definition all_zero (e : ty) : list gval -> bool :=
  fix all (l : list gval) : bool := match l with [] => true | x :: r => is_zero e x && all r end.
Definition fields_zero : list gval -> list field -> bool :=
  fix all (l : list gval) (f : list field) : bool :=
    match l, f with
    | x :: r, fd :: fr => is_zero (snd fd) x && all r fr
    | _, _ => true
    end.

Lemma is_zero_list t n items :
  is_zero t (GList n items) = match underlying t with TArray _ e => all_zero e items | _ => n end.
Proof. reflexivity. Qed.
Lemma is_zero_struct t vals :
  is_zero t (GStruct vals) = match underlying t with TStruct fs => fields_zero vals fs | _ => false end.
Proof. reflexivity. Qed.

Lemma forallb_zero_rep : forall s, forallb (N.eqb 0) s = true -> s = rep (length s) 0.
Proof.
  induction s as [|b s IH]; [reflexivity|]. cbn [forallb length rep]. intros H.
  apply andb_true_iff in H. destruct H as [Hb Hs]. apply N.eqb_eq in Hb. subst b. f_equal. apply IH, Hs.
Qed.

Lemma f32_zero_deq b : f32_is_nan b = false -> (f32_key b =? 0)%Z = true -> f32_deq 0 b = true.
Proof.
  intros Hn Hk. unfold f32_deq, f32_eq. rewrite Hn.
  replace (f32_is_nan 0) with false by (vm_compute; reflexivity).
  change (f32_key 0) with 0%Z. rewrite Z.eqb_sym, Hk. cbn [negb andb]. apply orb_true_r.
Qed.
Lemma f64_zero_deq b : f64_is_nan b = false -> (f64_key b =? 0)%Z = true -> f64_deq 0 b = true.
Proof.
  intros Hn Hk. unfold f64_deq, f64_eq. rewrite Hn.
  replace (f64_is_nan 0) with false by (vm_compute; reflexivity).
  change (f64_key 0) with 0%Z. rewrite Z.eqb_sym, Hk. cbn [negb andb]. apply orb_true_r.
Qed.

Lemma zero_deq_normal : forall v t,
  has_type t v = true -> is_zero t v = true -> deq (zero t) (normal t v) = true.
Proof.
  induction v as [b|z|n|b|b|s|n s|n l IH|n es|l IH| |x IH|d|r|e] using gval_ind2; intros t Hty Hz;
    rewrite zero_underlying.
  - cbn [has_type is_zero normal] in *. destruct (underlying t); try discriminate Hty.
    destruct b; [discriminate Hz|reflexivity].
  - cbn [has_type is_zero normal] in *. destruct (underlying t); try discriminate Hty.
    apply Z.eqb_eq in Hz. subst z. reflexivity.
  - cbn [has_type is_zero normal] in *. apply N.eqb_eq in Hz. subst n.
    destruct (underlying t); try discriminate Hty; reflexivity.
  - cbn [has_type is_zero normal] in *. destruct (underlying t); try discriminate Hty.
    apply andb_true_iff in Hz. destruct Hz as [Hn Hk]. apply negb_true_iff in Hn. rewrite Hn.
    cbn [zero deq]. apply f32_zero_deq; assumption.
  - cbn [has_type is_zero normal] in *. destruct (underlying t); try discriminate Hty.
    apply andb_true_iff in Hz. destruct Hz as [Hn Hk]. apply negb_true_iff in Hn. rewrite Hn.
    cbn [zero deq]. apply f64_zero_deq; assumption.
  - cbn [has_type is_zero normal] in *. destruct (underlying t); try discriminate Hty.
    destruct s; [reflexivity|discriminate Hz].
  - cbn [has_type is_zero normal] in *.
    destruct (underlying t) as [| | | | | | | |k| | | | | | | | |]; try discriminate Hty.
    + subst n. apply andb_true_iff in Hty. destruct Hty as [_ Hty]. cbn [negb orb] in Hty.
      destruct s; [reflexivity|discriminate Hty].
    + apply andb_true_iff in Hty. destruct Hty as [Hty _]. apply andb_true_iff in Hty. destruct Hty as [_ Hlen].
      apply Nat.eqb_eq in Hlen. subst k. rewrite (forallb_zero_rep s Hz) at 2.
      cbn [zero deq]. rewrite bytes_eqb_refl. reflexivity.
  - rewrite has_type_list in Hty. rewrite is_zero_list in Hz. rewrite normal_list.
    destruct (underlying t) as [| | | | | | | | |k e|e| | | | | | |]; try discriminate Hty.
    + apply andb_true_iff in Hty. destruct Hty as [Hty Hall]. apply andb_true_iff in Hty. destruct Hty as [_ Hlen].
      apply Nat.eqb_eq in Hlen. subst k. cbn [zero]. rewrite deq_glist. cbn [Bool.eqb orb andb].
      induction IH as [|x l Hx _ IHl]; [reflexivity|].
      change (all_typed e (x :: l)) with (has_type e x && all_typed e l) in Hall.
      change (all_zero e (x :: l)) with (is_zero e x && all_zero e l) in Hz.
      apply andb_true_iff in Hall. destruct Hall as [Htx Hall]. apply andb_true_iff in Hz. destruct Hz as [Hzx Hz].
      cbn [length repeat map]. rewrite deq_list_cons, (Hx e Htx Hzx), (IHl Hall Hz). reflexivity.
    + subst n. apply andb_true_iff in Hty. destruct Hty as [Hty _]. cbn [negb orb] in Hty.
      destruct l; [reflexivity|discriminate Hty].
  - cbn [has_type is_zero normal] in *. destruct (underlying t); try discriminate Hty. subst n.
    apply andb_true_iff in Hty. destruct Hty as [Hty _]. cbn [negb orb] in Hty.
    destruct es; [reflexivity|discriminate Hty].
  - rewrite has_type_struct in Hty. rewrite is_zero_struct in Hz. rewrite normal_struct.
    destruct (underlying t) as [| | | | | | | | | | | |fs| | | | |]; try discriminate Hty.
    cbn [zero]. rewrite deq_gstruct. revert fs Hty Hz.
    induction IH as [|x l Hx _ IHl]; intros [|fd fs] Hty Hz; try discriminate Hty; [reflexivity|].
    change (fields_typed (x :: l) (fd :: fs)) with (has_type (snd fd) x && fields_typed l fs) in Hty.
    change (fields_zero (x :: l) (fd :: fs)) with (is_zero (snd fd) x && fields_zero l fs) in Hz.
    apply andb_true_iff in Hty. destruct Hty as [Htx Hty]. apply andb_true_iff in Hz. destruct Hz as [Hzx Hz].
    change (nfields (x :: l) (fd :: fs)) with
      ((if fexported fd then normal (snd fd) x else zero (snd fd)) :: nfields l fs).
    cbn [map]. rewrite deq_list_cons, (IHl fs Hty Hz), andb_true_r.
    destruct (fexported fd); [apply Hx; assumption|apply deq_refl].
  - cbn [has_type is_zero normal] in *. destruct (underlying t); try discriminate Hty. reflexivity.
  - discriminate Hz.
  - cbn [has_type is_zero normal] in *. destruct d as [[t' x]|]; [discriminate Hz|].
    destruct (underlying t); try discriminate Hty. reflexivity.
  - cbn [has_type is_zero normal] in *. destruct r as [items|]; [discriminate Hz|].
    destruct (underlying t); try discriminate Hty. reflexivity.
  - cbn [has_type is_zero normal] in *. destruct (underlying t); try discriminate Hty.
    apply bytes_eqb_true in Hz. subst e. reflexivity.
Qed.

Lemma empty_slice_deq_normal v t :
  has_type t v = true -> is_slice_kind t = true -> glen v = 0%nat -> deq (zero t) (normal t v) = true.
Proof.
  intros Hty Hk Hl. rewrite zero_underlying. unfold is_slice_kind in Hk.
  destruct v as [b|z|n|b|b|s|n s|n l|n es|l|p|d|r|e]; cbn [glen] in Hl; try discriminate Hl.
  - cbn [has_type normal] in *. destruct (underlying t); try discriminate Hty; try discriminate Hk.
    destruct s; [reflexivity|discriminate Hl].
  - rewrite has_type_list in Hty. rewrite normal_list.
    destruct (underlying t); try discriminate Hty; try discriminate Hk.
    destruct l; [reflexivity|discriminate Hl].
Qed.

Lemma empty_field_deq_normal v t :
  has_type t v = true -> empty_field t v = true -> deq (zero t) (normal t v) = true.
Proof.
  intros Hty He. unfold empty_field in He. apply orb_true_iff in He. destruct He as [Hz|Hs].
  - apply zero_deq_normal; assumption.
  - apply andb_true_iff in Hs. destruct Hs as [Hk Hl]. apply Nat.eqb_eq in Hl.
    apply empty_slice_deq_normal; assumption.
Qed.

(* the value that comes back from the shortened stream is equivalent to the value that comes
   back from the full stream (for either setting of the option) *)
Theorem normal_o_equiv se : forall v t, has_type t v = true -> deq (normal_o se t v) (normal t v) = true.
Proof.
  induction v as [b|z|n|b|b|s|n s|n l IH|n es|l IH| |x IH|d|r|e] using gval_ind2; intros t Hty;
    try apply deq_refl.
  - rewrite has_type_list in Hty. rewrite normal_o_list, normal_list.
    destruct (underlying t) as [| | | | | | | | |k e|e| | | | | | |]; try discriminate Hty.
    + apply andb_true_iff in Hty. destruct Hty as [_ Hall]. rewrite deq_glist. cbn [Bool.eqb orb andb].
      induction IH as [|x l Hx _ IHl]; [reflexivity|].
      change (all_typed e (x :: l)) with (has_type e x && all_typed e l) in Hall.
      apply andb_true_iff in Hall. destruct Hall as [Htx Hall].
      cbn [map]. rewrite deq_list_cons, (Hx e Htx), (IHl Hall). reflexivity.
    + apply andb_true_iff in Hty. destruct Hty as [_ Hall]. rewrite deq_glist, eqb_reflx. cbn [orb andb].
      induction IH as [|x l Hx _ IHl]; [reflexivity|].
      change (all_typed e (x :: l)) with (has_type e x && all_typed e l) in Hall.
      apply andb_true_iff in Hall. destruct Hall as [Htx Hall].
      cbn [map]. rewrite deq_list_cons, (Hx e Htx), (IHl Hall). reflexivity.
  - rewrite has_type_struct in Hty. rewrite normal_o_struct, normal_struct.
    destruct (underlying t) as [| | | | | | | | | | | |fs| | | | |]; try discriminate Hty.
    rewrite deq_gstruct. revert fs Hty.
    induction IH as [|x l Hx _ IHl]; intros [|fd fs] Hty; try discriminate Hty; [reflexivity|].
    change (fields_typed (x :: l) (fd :: fs)) with (has_type (snd fd) x && fields_typed l fs) in Hty.
    apply andb_true_iff in Hty. destruct Hty as [Htx Hty].
    change (nfields (x :: l) (fd :: fs)) with
      ((if fexported fd then normal (snd fd) x else zero (snd fd)) :: nfields l fs).
    change (nfields_o se (x :: l) (fd :: fs)) with
      ((if fexported fd && negb (se && empty_field (snd fd) x)
        then normal_o se (snd fd) x else zero (snd fd)) :: nfields_o se l fs).
    rewrite deq_list_cons, (IHl fs Hty), andb_true_r.
    destruct (fexported fd); cbn [andb]; [|apply deq_refl].
    destruct (se && empty_field (snd fd) x) eqn:Esk; cbn [negb].
    + apply andb_true_iff in Esk. destruct Esk as [_ Hem]. apply empty_field_deq_normal; assumption.
    + apply Hx, Htx.
  - cbn [has_type] in Hty. cbn [normal_o normal].
    destruct (underlying t); try discriminate Hty. cbn [deq]. apply IH, Hty.
Qed.

Corollary normal_se_equiv t v : has_type t v = true -> deq (normal_se t v) (normal t v) = true.
Proof. apply normal_o_equiv. Qed.

(* with skipping off nothing changes: normal_o false is normal *)
Theorem normal_o_false : forall v t, normal_o false t v = normal t v.
Proof.
  induction v as [b|z|n|b|b|s|n s|n l IH|n es|l IH| |x IH|d|r|e] using gval_ind2; intros t; try reflexivity.
  - rewrite normal_o_list, normal_list.
    assert (E : forall e, map (normal_o false e) l = map (normal e) l).
    { intros e. induction IH as [|x l Hx _ IHl]; [reflexivity|]. cbn [map]. rewrite Hx, IHl. reflexivity. }
    destruct (underlying t); try reflexivity; rewrite E; reflexivity.
  - rewrite normal_o_struct, normal_struct. destruct (underlying t) as [| | | | | | | | | | | |fs| | | | |]; try reflexivity.
    f_equal. revert fs. induction IH as [|x l Hx _ IHl]; intros [|fd fs]; try reflexivity.
    change (nfields (x :: l) (fd :: fs)) with
      ((if fexported fd then normal (snd fd) x else zero (snd fd)) :: nfields l fs).
    change (nfields_o false (x :: l) (fd :: fs)) with
      ((if fexported fd && negb (false && empty_field (snd fd) x)
        then normal_o false (snd fd) x else zero (snd fd)) :: nfields_o false l fs).
    cbn [andb negb]. rewrite andb_true_r, Hx, IHl. reflexivity.
  - cbn [normal_o normal]. destruct (underlying t); try reflexivity. rewrite IH. reflexivity.
Qed.

(* ====================================================================================== *)
(* The C16 skip-empty round trip                                                           *)
(* ====================================================================================== *)

Theorem skip_empty_roundtrip_fuel pf o R t v ts rest f :
  wf_ty t = true -> simple_ty t = true ->
  has_type t v = true -> no_ptr_to_nil v = true ->
  marshal se_opts t v = Ok ts -> (2 * vsize v < f)%nat ->
  unm pf f o R t (zero t) (ts ++ rest) = Ok (normal_se t v, rest) /\
  deq (normal_se t v) (normal t v) = true.
Proof.
  intros Hwf Hs Ht Hn Hm Hf. split; [|apply normal_se_equiv, Ht].
  exact (roundtrip_opts_fuel pf se_opts o R t v ts rest f Hwf Hs Ht Hn Hm Hf).
Qed.

Theorem skip_empty_roundtrip pf o R t v ts rest :
  wf_ty t = true -> simple_ty t = true ->
  has_type t v = true -> no_ptr_to_nil v = true ->
  marshal se_opts t v = Ok ts ->
  exists f v', unm pf f o R t (zero t) (ts ++ rest) = Ok (v', rest) /\
               v' = normal_se t v /\ deq v' (normal t v) = true.
Proof.
  intros Hwf Hs Ht Hn Hm. exists (S (2 * vsize v)), (normal_se t v).
  destruct (skip_empty_roundtrip_fuel pf o R t v ts rest (S (2 * vsize v)) Hwf Hs Ht Hn Hm ltac:(lia)) as [H1 H2].
  repeat split; assumption.
Qed.

(* no fuel value gives any other answer *)
Corollary skip_empty_roundtrip_unique pf o R t v ts rest f r :
  wf_ty t = true -> simple_ty t = true ->
  has_type t v = true -> no_ptr_to_nil v = true ->
  marshal se_opts t v = Ok ts ->
  unm pf f o R t (zero t) (ts ++ rest) = r -> r <> OutOfFuel -> r = Ok (normal_se t v, rest).
Proof.
  intros Hwf Hs Ht Hn Hm Hr Hno.
  destruct (skip_empty_roundtrip_fuel pf o R t v ts rest (S (2 * vsize v)) Hwf Hs Ht Hn Hm ltac:(lia)) as [H1 _].
  destruct (Nat.le_ge_cases f (S (2 * vsize v))) as [Hle|Hle].
  - pose proof (unm_fuel_mono pf o R f t (zero t) (ts ++ rest) r Hr Hno _ Hle). congruence.
  - pose proof (unm_fuel_mono pf o R _ t (zero t) (ts ++ rest) _ H1 ltac:(discriminate) f Hle). congruence.
Qed.

(* the same with any writer options whose skip_empty is on *)
Theorem skip_empty_roundtrip_opts pf mo o R t v ts rest :
  skip_empty mo = true ->
  wf_ty t = true -> simple_ty t = true ->
  has_type t v = true -> no_ptr_to_nil v = true ->
  marshal mo t v = Ok ts ->
  exists f, unm pf f o R t (zero t) (ts ++ rest) = Ok (normal_se t v, rest).
Proof.
  intros Hse Hwf Hs Ht Hn Hm. exists (S (2 * vsize v)). unfold normal_se. rewrite <- Hse.
  apply (roundtrip_opts_fuel pf mo o R t v ts rest); try assumption. lia.
Qed.

(* ====================================================================================== *)
(* Part 4.  Examples                                                                       *)
(* ====================================================================================== *)

Definition negz64 : N := 9223372036854775808.   (* -0.0 as a float64: 0x8000000000000000 *)
Definition negz32 : N := 2147483648.            (* -0.0 as a float32: 0x80000000 *)

(* what deq identifies and what it does not *)
Example deq_cases :
  deq (GF64 0) (GF64 negz64) = true /\ deq (GF32 negz32) (GF32 0) = true /\
  deq (GF64 f64_nan_bits) (GF64 (f64_nan_bits + 1)) = true /\
  deq (GList true []) (GList false []) = true /\ deq (GBytes true []) (GBytes false []) = true /\
  deq (GMap false []) (GMap true []) = true /\
  deq (GF64 0) (GF64 1) = false /\ deq (GInt 0) (GInt 1) = false /\
  deq (GList false [GInt 1]) (GList false []) = false /\ deq (GList false []) (GList false [GInt 1]) = false /\
  deq (GPtr None) (GPtr (Some (GInt 0))) = false /\ deq (GStr []) (GStr [0]) = false /\
  deq (GStruct [GInt 0]) (GStruct [GInt 0; GInt 0]) = false.
Proof. repeat split; vm_compute; reflexivity. Qed.

(* type S struct { A int; B []bool; C float64; D struct{ X int32; Y []string }; E string } *)
Definition Ex5Inner : ty := TStruct [([88], true, TInt W32); ([89], true, TSlice TString)].
Definition Ex5fs : list field :=
  [([65], true, TInt WNat); ([66], true, TSlice TBool); ([67], true, TF64); ([68], true, Ex5Inner); ([69], true, TString)].
Definition Ex5 : ty := TStruct Ex5fs.
(* S{A: 0, B: []bool{}, C: -0.0, D: {0, nil}, E: "hi"} *)
Definition ex5_vals : list gval :=
  [GInt 0; GList false []; GF64 negz64; GStruct [GInt 0; GList true []]; GStr [104; 105]].
Definition ex5_v : gval := GStruct ex5_vals.

Example ex5_hyps :
  wf_ty Ex5 = true /\ simple_ty Ex5 = true /\ has_type Ex5 ex5_v = true /\ no_ptr_to_nil ex5_v = true.
Proof. repeat split; vm_compute; reflexivity. Qed.

(* only E is kept ... *)
Example ex5_kept : kept_fields se_opts Ex5fs ex5_vals = [(([69], true, TString), GStr [104; 105])].
Proof. vm_compute. reflexivity. Qed.

(* ... so the stream is Object "E" "hi" ObjectEnd *)
Example ex5_stream :
  marshal se_opts Ex5 ex5_v =
  Ok [T KObject VNone; T KString (VStr [69]); T KString (VStr [104; 105]); T KObjectEnd VNone].
Proof. vm_compute. reflexivity. Qed.

(* the same value without the option: all five fields *)
Example ex5_stream_noskip :
  marshal default_opts Ex5 ex5_v =
  Ok [T KObject VNone;
      T KString (VStr [65]); T KInt (VI WNat 0);
      T KString (VStr [66]); T KArray VNone; T KArrayEnd VNone;
      T KString (VStr [67]); T KFloat64 (VF64 negz64);
      T KString (VStr [68]); T KObject VNone;
        T KString (VStr [88]); T KInt32 (VI W32 0);
        T KString (VStr [89]); T KArray VNone; T KArrayEnd VNone; T KObjectEnd VNone;
      T KString (VStr [69]); T KString (VStr [104; 105]);
      T KObjectEnd VNone].
Proof. vm_compute. reflexivity. Qed.

(* what comes back: -0.0 has become +0.0, the empty non-nil slice is nil *)
Example ex5_normal_se :
  normal_se Ex5 ex5_v = GStruct [GInt 0; GList true []; GF64 0; GStruct [GInt 0; GList true []]; GStr [104; 105]].
Proof. vm_compute. reflexivity. Qed.

(* from the full stream -0.0 comes back as -0.0: the two results differ, and are equivalent *)
Example ex5_normal :
  normal Ex5 ex5_v = GStruct [GInt 0; GList true []; GF64 negz64; GStruct [GInt 0; GList true []]; GStr [104; 105]] /\
  normal_se Ex5 ex5_v <> normal Ex5 ex5_v /\
  deq (normal_se Ex5 ex5_v) (normal Ex5 ex5_v) = true.
Proof. split; [vm_compute; reflexivity|]. split; [vm_compute; discriminate|vm_compute; reflexivity]. Qed.

Example ex5_run :
  unm (fun _ _ => None) 20 (Opts false true false) [] Ex5 (zero Ex5)
      ([T KObject VNone; T KString (VStr [69]); T KString (VStr [104; 105]); T KObjectEnd VNone] ++ [T KBool (VBool true)])
  = Ok (GStruct [GInt 0; GList true []; GF64 0; GStruct [GInt 0; GList true []]; GStr [104; 105]], [T KBool (VBool true)]).
Proof. vm_compute. reflexivity. Qed.

Example ex5_thm pf o R rest :
  exists f v',
    unm pf f o R Ex5 (zero Ex5)
        ([T KObject VNone; T KString (VStr [69]); T KString (VStr [104; 105]); T KObjectEnd VNone] ++ rest) = Ok (v', rest) /\
    v' = GStruct [GInt 0; GList true []; GF64 0; GStruct [GInt 0; GList true []]; GStr [104; 105]] /\
    deq v' (normal Ex5 ex5_v) = true.
Proof.
  destruct ex5_hyps as (H1 & H2 & H3 & H4).
  destruct (skip_empty_roundtrip pf o R Ex5 ex5_v _ rest H1 H2 H3 H4 ex5_stream) as (f & v' & Hu & Hv & Hd).
  exists f, v'. rewrite <- ex5_normal_se, <- Hv. repeat split; assumption.
Qed.

(* a deeper value: the option applies inside slices, pointers, arrays and registered named structs.
   type I struct { A int8; B float64; c string }  (registered)
   type O struct { A int; B []bool; C float64; D I; E string; F []byte; G [2]float32; H []*I; J *I;
                   K [2]byte; L time.Time; M **bool } *)
Definition ExI : ty := TNamed [73] true [] (TStruct [([65], true, TInt W8); ([66], true, TF64); ([99], false, TString)]).
Definition ExOfs : list field :=
  [([65], true, TInt WNat); ([66], true, TSlice TBool); ([67], true, TF64); ([68], true, ExI);
   ([69], true, TString); ([70], true, TBytes); ([71], true, TArray 2 TF32); ([72], true, TSlice (TPtr ExI));
   ([74], true, TPtr ExI); ([75], true, TByteArray 2); ([76], true, TTime); ([77], true, TPtr (TPtr TBool))].
Definition ExO : ty := TStruct ExOfs.
Definition exO_vals : list gval :=
  [GInt 0; GList false []; GF64 negz64; GStruct [GInt 0; GF64 negz64; GStr []];
   GStr [104; 105]; GBytes false []; GList false [GF32 negz32; GF32 0];
   GList false [GPtr (Some (GStruct [GInt 0; GF64 negz64; GStr [1]])); GPtr None; GPtr (Some (GStruct [GInt 3; GF64 0; GStr []]))];
   GPtr (Some (GStruct [GInt 0; GF64 0; GStr []])); GBytes false [0; 0]; GTime zero_time; GPtr None].
Definition exO_v : gval := GStruct exO_vals.

Example exO_hyps :
  wf_ty ExO = true /\ simple_ty ExO = true /\ has_type ExO exO_v = true /\ no_ptr_to_nil exO_v = true.
Proof. repeat split; vm_compute; reflexivity. Qed.

(* kept: E, H (non-empty slice) and J (non-nil pointer); omitted: the zero int, the empty slice, -0.0, the
   all-zero nested struct, the empty []byte, the array of zeros (one of them -0.0), the zero byte array,
   the zero time, the nil pointer.  Inside H the first element's struct has only an unexported non-zero
   field, so it is emitted as an empty object; the third keeps its field A only *)
Definition exO_ts : list token :=
  [T KObject VNone;
   T KString (VStr [69]); T KString (VStr [104; 105]);
   T KString (VStr [72]); T KArray VNone;
     T KTypeName (VStr [73]); T KObject VNone; T KObjectEnd VNone;
     T KNil VNone;
     T KTypeName (VStr [73]); T KObject VNone; T KString (VStr [65]); T KInt8 (VI W8 3); T KObjectEnd VNone;
   T KArrayEnd VNone;
   T KString (VStr [74]); T KTypeName (VStr [73]); T KObject VNone; T KObjectEnd VNone;
   T KObjectEnd VNone].

Example exO_stream : marshal se_opts ExO exO_v = Ok exO_ts.
Proof. vm_compute. reflexivity. Qed.

Example exO_kept : map (fun p => fname (fst p)) (kept_fields se_opts ExOfs exO_vals) = [[69]; [72]; [74]].
Proof. vm_compute. reflexivity. Qed.

Example exO_normal_se :
  normal_se ExO exO_v =
  GStruct [GInt 0; GList true []; GF64 0; GStruct [GInt 0; GF64 0; GStr []];
           GStr [104; 105]; GBytes true []; GList false [GF32 0; GF32 0];
           GList false [GPtr (Some (GStruct [GInt 0; GF64 0; GStr []])); GPtr None; GPtr (Some (GStruct [GInt 3; GF64 0; GStr []]))];
           GPtr (Some (GStruct [GInt 0; GF64 0; GStr []])); GBytes false [0; 0]; GTime zero_time; GPtr None].
Proof. vm_compute. reflexivity. Qed.

Example exO_deq :
  normal_se ExO exO_v <> normal ExO exO_v /\ deq (normal_se ExO exO_v) (normal ExO exO_v) = true.
Proof. split; [vm_compute; discriminate|vm_compute; reflexivity]. Qed.

Example exO_run :
  unm (fun _ _ => None) 60 (Opts false true false) [] ExO (zero ExO) (exO_ts ++ [T KBool (VBool true)])
  = Ok (normal_se ExO exO_v, [T KBool (VBool true)]).
Proof. vm_compute. reflexivity. Qed.

Example exO_thm pf o R rest :
  exists f v', unm pf f o R ExO (zero ExO) (exO_ts ++ rest) = Ok (v', rest) /\
               v' = normal_se ExO exO_v /\ deq v' (normal ExO exO_v) = true.
Proof.
  destruct exO_hyps as (H1 & H2 & H3 & H4).
  exact (skip_empty_roundtrip pf o R ExO exO_v exO_ts rest H1 H2 H3 H4 exO_stream).
Qed.

(* the edge of the clause: the theorem is about a ZERO target.  An omitted field is left untouched,
   so a target that already holds data keeps it where the writer had a zero: here the writer's A = 0,
   C = -0.0 are not transported and the reader's A = 7, C = 1.0 survive *)
Example skip_empty_merge_edge :
  unm (fun _ _ => None) 20 default_opts [] Ex5
      (GStruct [GInt 7; GList true []; GF64 4607182418800017408; GStruct [GInt 0; GList true []]; GStr []])
      [T KObject VNone; T KString (VStr [69]); T KString (VStr [104; 105]); T KObjectEnd VNone]
  = Ok (GStruct [GInt 7; GList true []; GF64 4607182418800017408; GStruct [GInt 0; GList true []]; GStr [104; 105]], []).
Proof. vm_compute. reflexivity. Qed.

Definition SkipEmptyP_main_theorems :=
  (fields_exact_gen, skip_empty_fields_exact, skip_empty_fields_exact_opts, skip_empty_fields_exact_ok,
   noskip_all_exported_fields, kept_fields_spec, fields_stream_ok,
   roundtrip_all_o, roundtrip_opts_fuel,
   skip_empty_roundtrip_fuel, skip_empty_roundtrip, skip_empty_roundtrip_unique, skip_empty_roundtrip_opts,
   deq_refl, ty_eqb_refl, zero_deq_normal, empty_field_deq_normal, normal_o_equiv, normal_se_equiv, normal_o_false,
   deq_cases, ex5_hyps, ex5_kept, ex5_stream, ex5_stream_noskip, ex5_normal_se, ex5_normal, ex5_run, ex5_thm,
   exO_hyps, exO_stream, exO_kept, exO_normal_se, exO_deq, exO_run, exO_thm, skip_empty_merge_edge).
Print Assumptions SkipEmptyP_main_theorems.
