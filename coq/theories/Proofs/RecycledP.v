(* Proofs/RecycledP.v — recycled targets (Model/Unmarshal.v): what a slice target held before the call
   influences the result only as a prefix.  A slice cut back to length 0 (s[:0]) or one that still holds
   earlier elements receives exactly the elements a fresh nil slice receives: every appended element is
   unmarshalled from [zero e], so nothing of the old content (and nothing behind the slice's length, which
   the model does not even have) reaches the new elements.  The same for []byte read from an Array token;
   a Bytes token replaces the content instead. *)
From Coq Require Import Lia ZifyBool ZifyNat ZifyN Arith.
From SbModel Require Import Spec.Conform Proofs.UnmarshalP.
Local Open Scope N_scope.

(* ====================================================================================== *)
(* Part 1.  The element loop: the accumulator is only ever extended on the right           *)
(* ====================================================================================== *)

Lemma slice_loop_prefix : forall (rec : rec_t) g et old acc ts,
  slice_loop rec g et (old ++ acc) ts =
  match slice_loop rec g et acc ts with
  | Ok (vs, rest) => Ok (old ++ vs, rest)
  | Err e => Err e
  | OutOfFuel => OutOfFuel
  end.
Proof.
  intros rec g et old. induction g as [|g IH]; intros acc ts; cbn [slice_loop]; [reflexivity|].
  destruct ts as [|tk rest].
  - destruct (rec et (zero et) []) as [r|e|]; cbn [bind]; reflexivity.
  - destruct (kind tk =? KArrayEnd); [reflexivity|].
    destruct (rec et (zero et) (tk :: rest)) as [[v r]|e|]; cbn [bind fst snd]; [|reflexivity|reflexivity].
    rewrite <- app_assoc. apply IH.
Qed.

(* the loop started from [old] in terms of the loop started from nothing *)
Lemma slice_loop_from_nil (rec : rec_t) g et old ts :
  slice_loop rec g et old ts =
  match slice_loop rec g et [] ts with
  | Ok (vs, rest) => Ok (old ++ vs, rest)
  | Err e => Err e
  | OutOfFuel => OutOfFuel
  end.
Proof.
  pose proof (slice_loop_prefix rec g et old [] ts) as H. rewrite app_nil_r in H. exact H.
Qed.

(* ====================================================================================== *)
(* Part 2.  One step of [unm] on an Array token / a Bytes token                             *)
(* ====================================================================================== *)

(* with [kind tk = KArray] neither the literal conversion nor the type-name skip at the head of
   UnmarshalValue applies, whatever [ptr_base t] is *)
Lemma ustep_array_slice pf o R (rec : rec_t) t e cur tk rest :
  underlying t = TSlice e -> kind tk = KArray ->
  ustep pf o R rec t cur (tk :: rest) = array_case rec t (TSlice e) cur KArray rest.
Proof.
  intros Hu Hk. destruct tk as [k v]. cbn [kind] in Hk. subst k.
  unfold ustep, conv_tok. cbn [kind]. rewrite Hu. reflexivity.
Qed.

Lemma ustep_array_bytes pf o R (rec : rec_t) t cur tk rest :
  underlying t = TBytes -> kind tk = KArray ->
  ustep pf o R rec t cur (tk :: rest) = array_case rec t TBytes cur KArray rest.
Proof.
  intros Hu Hk. destruct tk as [k v]. cbn [kind] in Hk. subst k.
  unfold ustep, conv_tok. cbn [kind]. rewrite Hu. reflexivity.
Qed.

Lemma ustep_bytes_token pf o R (rec : rec_t) t cur tk rest :
  underlying t = TBytes -> kind tk = KBytes ->
  ustep pf o R rec t cur (tk :: rest) = bytes_case t TBytes cur tk rest.
Proof.
  intros Hu Hk. destruct tk as [k v]. cbn [kind] in Hk. subst k.
  unfold ustep, conv_tok. cbn [kind]. rewrite Hu. reflexivity.
Qed.

Definition is_nil_list {A} (l : list A) : bool := match l with [] => true | _ => false end.

Lemma is_nil_list_map {A B} (g : A -> B) (l : list A) : is_nil_list (map g l) = is_nil_list l.
Proof. destruct l; reflexivity. Qed.

Lemma to_bytes_uints (s : bytes) : to_bytes (map GUint s) = s.
Proof.
  unfold to_bytes. induction s as [|c s IH]; cbn [map]; [reflexivity|]. rewrite IH. reflexivity.
Qed.

Lemma to_bytes_app (a b : list gval) : to_bytes (a ++ b) = to_bytes a ++ to_bytes b.
Proof. unfold to_bytes. apply map_app. Qed.

(* ====================================================================================== *)
(* Part 3.  Slices                                                                         *)
(* ====================================================================================== *)

(* a slice target reading an Array token yields a list value, whatever it held *)
Lemma unm_slice_array_shape pf f o R t e cur tk rest v rest' :
  underlying t = TSlice e -> kind tk = KArray ->
  unm pf f o R t cur (tk :: rest) = Ok (v, rest') ->
  exists nb vs, v = GList nb vs.
Proof.
  intros Hu Hk. destruct f as [|f]; [rewrite unm_O; discriminate|].
  rewrite unm_S, (ustep_array_slice _ _ _ _ _ e) by assumption. unfold array_case.
  destruct (slice_loop (unm pf f o R) (S (length rest)) e (items_of_gval cur) rest) as [[vs r]|e'|];
    cbn [bind fst snd]; intros H; [|discriminate|discriminate].
  injection H as <- <-. eexists; eexists; reflexivity.
Qed.

Theorem unm_slice_appends : forall pf f o R t e nb old tk rest,
  underlying t = TSlice e -> kind tk = KArray ->
  unm pf f o R t (GList nb old) (tk :: rest) =
  match unm pf f o R t (GList true []) (tk :: rest) with
  | Ok (GList _ vs, rest') =>
      Ok (GList (nb && match old ++ vs with [] => true | _ => false end) (old ++ vs), rest')
  | Ok (v, rest') => Ok (v, rest')          (* unreachable: unm_slice_array_shape *)
  | Err e => Err e
  | OutOfFuel => OutOfFuel
  end.
Proof.
  intros pf f o R t e nb old tk rest Hu Hk.
  destruct f as [|f]; [rewrite !unm_O; reflexivity|].
  rewrite !unm_S, !(ustep_array_slice _ _ _ _ _ e) by assumption. unfold array_case.
  cbn [items_of_gval is_nil_container].
  rewrite (slice_loop_from_nil _ _ _ old).
  destruct (slice_loop (unm pf f o R) (S (length rest)) e [] rest) as [[vs r]|e'|];
    cbn [bind fst snd]; reflexivity.
Qed.

(* the same, read from a successful fresh run *)
Corollary unm_slice_appends_ok pf f o R t e nb old tk rest n vs rest' :
  underlying t = TSlice e -> kind tk = KArray ->
  unm pf f o R t (GList true []) (tk :: rest) = Ok (GList n vs, rest') ->
  unm pf f o R t (GList nb old) (tk :: rest) = Ok (GList (nb && is_nil_list (old ++ vs)) (old ++ vs), rest').
Proof.
  intros Hu Hk H. rewrite (unm_slice_appends pf f o R t e nb old tk rest Hu Hk), H. reflexivity.
Qed.

(* a failing fresh run fails in the same way on every recycled target, and conversely *)
Corollary unm_slice_appends_err pf f o R t e nb old tk rest err :
  underlying t = TSlice e -> kind tk = KArray ->
  unm pf f o R t (GList true []) (tk :: rest) = Err err ->
  unm pf f o R t (GList nb old) (tk :: rest) = Err err.
Proof.
  intros Hu Hk H. rewrite (unm_slice_appends pf f o R t e nb old tk rest Hu Hk), H. reflexivity.
Qed.

(* s[:0]: a non-nil slice of length 0 *)
Corollary unm_slice_recycled : forall pf f o R t e tk rest,
  underlying t = TSlice e -> kind tk = KArray ->
  unm pf f o R t (GList false []) (tk :: rest) =
  match unm pf f o R t (GList true []) (tk :: rest) with
  | Ok (GList _ vs, rest') => Ok (GList false vs, rest')
  | Ok (v, rest') => Ok (v, rest')          (* unreachable: unm_slice_array_shape *)
  | Err e => Err e
  | OutOfFuel => OutOfFuel
  end.
Proof.
  intros pf f o R t e tk rest Hu Hk.
  rewrite (unm_slice_appends pf f o R t e false [] tk rest Hu Hk).
  destruct (unm pf f o R t (GList true []) (tk :: rest)) as [[v r]|e'|]; [|reflexivity|reflexivity].
  destruct v; reflexivity.
Qed.

(* two recycled targets holding different old content receive the same new elements *)
Corollary unm_slice_old_irrelevant pf f o R t e nb1 old1 nb2 old2 tk rest n1 r1 rest1 :
  underlying t = TSlice e -> kind tk = KArray ->
  unm pf f o R t (GList nb1 old1) (tk :: rest) = Ok (GList n1 r1, rest1) ->
  exists vs, r1 = old1 ++ vs /\
    unm pf f o R t (GList nb2 old2) (tk :: rest) = Ok (GList (nb2 && is_nil_list (old2 ++ vs)) (old2 ++ vs), rest1).
Proof.
  intros Hu Hk H.
  rewrite (unm_slice_appends pf f o R t e nb1 old1 tk rest Hu Hk) in H.
  rewrite (unm_slice_appends pf f o R t e nb2 old2 tk rest Hu Hk).
  destruct (unm pf f o R t (GList true []) (tk :: rest)) as [[v r]|e'|] eqn:E; [|discriminate|discriminate].
  destruct (unm_slice_array_shape pf f o R t e _ tk rest v r Hu Hk E) as [n [vs ->]].
  injection H as _ <- <-. exists vs. split; reflexivity.
Qed.

(* ====================================================================================== *)
(* Part 4.  Byte slices                                                                    *)
(* ====================================================================================== *)

Lemma unm_bytes_array_shape pf f o R t cur tk rest v rest' :
  underlying t = TBytes -> kind tk = KArray ->
  unm pf f o R t cur (tk :: rest) = Ok (v, rest') ->
  exists nb s, v = GBytes nb s.
Proof.
  intros Hu Hk. destruct f as [|f]; [rewrite unm_O; discriminate|].
  rewrite unm_S, ustep_array_bytes by assumption. unfold array_case.
  destruct (slice_loop (unm pf f o R) (S (length rest)) (TUint W8) (items_of_gval cur) rest) as [[vs r]|e'|];
    cbn [bind fst snd]; intros H; [|discriminate|discriminate].
  injection H as <- <-. eexists; eexists; reflexivity.
Qed.

(* []byte read from an Array token (one Uint8 token per byte): appended to what the target holds *)
Theorem unm_bytes_appends : forall pf f o R t nb old tk rest,
  underlying t = TBytes -> kind tk = KArray ->
  unm pf f o R t (GBytes nb old) (tk :: rest) =
  match unm pf f o R t (GBytes true []) (tk :: rest) with
  | Ok (GBytes _ s, rest') =>
      Ok (GBytes (nb && match old ++ s with [] => true | _ => false end) (old ++ s), rest')
  | Ok (v, rest') => Ok (v, rest')          (* unreachable: unm_bytes_array_shape *)
  | Err e => Err e
  | OutOfFuel => OutOfFuel
  end.
Proof.
  intros pf f o R t nb old tk rest Hu Hk.
  destruct f as [|f]; [rewrite !unm_O; reflexivity|].
  rewrite !unm_S, !ustep_array_bytes by assumption. unfold array_case.
  cbn [items_of_gval is_nil_container map].
  rewrite (slice_loop_from_nil _ _ _ (map GUint old)).
  destruct (slice_loop (unm pf f o R) (S (length rest)) (TUint W8) [] rest) as [[vs r]|e'|];
    cbn [bind fst snd]; [|reflexivity|reflexivity].
  rewrite to_bytes_app, to_bytes_uints.
  replace (match map GUint old ++ vs with [] => true | _ :: _ => false end)
    with (match old ++ to_bytes vs with [] => true | _ :: _ => false end); [reflexivity|].
  destruct old as [|c old']; [|reflexivity]. cbn [map app]. unfold to_bytes. destruct vs; reflexivity.
Qed.

Corollary unm_bytes_recycled : forall pf f o R t tk rest,
  underlying t = TBytes -> kind tk = KArray ->
  unm pf f o R t (GBytes false []) (tk :: rest) =
  match unm pf f o R t (GBytes true []) (tk :: rest) with
  | Ok (GBytes _ s, rest') => Ok (GBytes false s, rest')
  | Ok (v, rest') => Ok (v, rest')
  | Err e => Err e
  | OutOfFuel => OutOfFuel
  end.
Proof.
  intros pf f o R t tk rest Hu Hk.
  rewrite (unm_bytes_appends pf f o R t false [] tk rest Hu Hk).
  destruct (unm pf f o R t (GBytes true []) (tk :: rest)) as [[v r]|e'|]; [|reflexivity|reflexivity].
  destruct v; reflexivity.
Qed.

(* a Bytes token REPLACES the content (reflect.Value.SetBytes): nothing of [cur] survives, for every [cur] *)
Theorem unm_bytes_token_replaces : forall pf f o R t cur tk s rest,
  kind tk = KBytes -> val tk = VBytes s -> underlying t = TBytes ->
  unm pf (S f) o R t cur (tk :: rest) = Ok (GBytes false s, rest).
Proof.
  intros pf f o R t cur tk s rest Hk Hv Hu.
  rewrite unm_S, ustep_bytes_token by assumption. unfold bytes_case. rewrite Hv. reflexivity.
Qed.

(* ====================================================================================== *)
(* Part 5.  Examples                                                                       *)
(* ====================================================================================== *)

(* type Item struct { Note string; N int } *)
Definition ExItem : ty := TStruct [([78; 111; 116; 101], true, TString); ([78], true, TInt WNat)].
(* type Items []Item: the premise of the theorems holds through the type definition *)
Definition ExItems : ty := TNamed [73; 116; 101; 109; 115] false [] (TSlice ExItem).
Definition ex_urgent : bytes := [117; 114; 103; 101; 110; 116].
Definition ex_old : list gval := [GStruct [GStr ex_urgent; GInt 7]].
(* [ {N: 1} {N: 2} ] followed by another value *)
Definition ex_stream : list token :=
  [T KArray VNone;
   T KObject VNone; T KString (VStr [78]); T KInt (VI WNat 1); T KObjectEnd VNone;
   T KObject VNone; T KString (VStr [78]); T KInt (VI WNat 2); T KObjectEnd VNone;
   T KArrayEnd VNone; T KBool (VBool true)].
Definition ex_pf : bytes -> N -> option N := fun _ _ => None.

Example ex_hyps : underlying ExItems = TSlice ExItem /\ kind (hd (T 0 VNone) ex_stream) = KArray.
Proof. split; reflexivity. Qed.

(* a fresh nil slice *)
Example ex_fresh :
  unm ex_pf 10 default_opts [] ExItems (GList true []) ex_stream
  = Ok (GList false [GStruct [GStr []; GInt 1]; GStruct [GStr []; GInt 2]], [T KBool (VBool true)]).
Proof. vm_compute. reflexivity. Qed.

(* a target still holding an element whose Note is "urgent": the new elements have Note "" *)
Example ex_holding :
  unm ex_pf 10 default_opts [] ExItems (GList false ex_old) ex_stream
  = Ok (GList false [GStruct [GStr ex_urgent; GInt 7]; GStruct [GStr []; GInt 1]; GStruct [GStr []; GInt 2]],
        [T KBool (VBool true)]).
Proof. vm_compute. reflexivity. Qed.

(* ... which is old ++ (the elements of the fresh run) *)
Example ex_holding_is_old_app_fresh :
  forall n vs rest', unm ex_pf 10 default_opts [] ExItems (GList true []) ex_stream = Ok (GList n vs, rest') ->
  unm ex_pf 10 default_opts [] ExItems (GList false ex_old) ex_stream = Ok (GList false (ex_old ++ vs), rest').
Proof.
  intros n vs rest' H. rewrite ex_fresh in H. injection H as <- <- <-. vm_compute. reflexivity.
Qed.

(* the same by the theorem, for every parse-float function, option set, registry and fuel that suffices *)
Example ex_holding_thm pf f o R n vs rest' :
  unm pf f o R ExItems (GList true []) ex_stream = Ok (GList n vs, rest') ->
  unm pf f o R ExItems (GList false ex_old) ex_stream = Ok (GList false (ex_old ++ vs), rest').
Proof.
  intros H. unfold ex_stream in *.
  apply (unm_slice_appends_ok pf f o R ExItems ExItem false ex_old _ _ n vs rest'); [reflexivity|reflexivity|exact H].
Qed.

(* s[:0] *)
Example ex_cut_back :
  unm ex_pf 10 default_opts [] ExItems (GList false []) ex_stream
  = Ok (GList false [GStruct [GStr []; GInt 1]; GStruct [GStr []; GInt 2]], [T KBool (VBool true)]).
Proof. vm_compute. reflexivity. Qed.

(* the nil flag: an empty array into a nil slice leaves it nil, into s[:0] leaves it empty non-nil *)
Example ex_empty_array :
  unm ex_pf 10 default_opts [] ExItems (GList true []) [T KArray VNone; T KArrayEnd VNone] = Ok (GList true [], []) /\
  unm ex_pf 10 default_opts [] ExItems (GList false []) [T KArray VNone; T KArrayEnd VNone] = Ok (GList false [], []).
Proof. split; vm_compute; reflexivity. Qed.

(* a failing stream fails in the same way on both *)
Example ex_fail :
  unm ex_pf 10 default_opts [] ExItems (GList true []) [T KArray VNone; T KBool (VBool true)]
  = unm ex_pf 10 default_opts [] ExItems (GList false ex_old) [T KArray VNone; T KBool (VBool true)].
Proof. vm_compute. reflexivity. Qed.

(* []byte: an Array token appends, a Bytes token replaces *)
Definition ex_bytes_stream : list token :=
  [T KArray VNone; T KUint8 (VU W8 1); T KUint8 (VU W8 2); T KArrayEnd VNone].

Example ex_bytes_append :
  unm ex_pf 10 default_opts [] TBytes (GBytes true []) ex_bytes_stream = Ok (GBytes false [1; 2], []) /\
  unm ex_pf 10 default_opts [] TBytes (GBytes false [9; 8]) ex_bytes_stream = Ok (GBytes false [9; 8; 1; 2], []) /\
  unm ex_pf 10 default_opts [] TBytes (GBytes false []) ex_bytes_stream = Ok (GBytes false [1; 2], []).
Proof. repeat split; vm_compute; reflexivity. Qed.

Example ex_bytes_replace :
  unm ex_pf 10 default_opts [] TBytes (GBytes false [9; 8]) [T KBytes (VBytes [1; 2])] = Ok (GBytes false [1; 2], []).
Proof. apply unm_bytes_token_replaces; reflexivity. Qed.

Print Assumptions slice_loop_prefix.
Print Assumptions unm_slice_array_shape.
Print Assumptions unm_slice_appends.
Print Assumptions unm_slice_appends_ok.
Print Assumptions unm_slice_appends_err.
Print Assumptions unm_slice_recycled.
Print Assumptions unm_slice_old_irrelevant.
Print Assumptions unm_bytes_array_shape.
Print Assumptions unm_bytes_appends.
Print Assumptions unm_bytes_recycled.
Print Assumptions unm_bytes_token_replaces.
Print Assumptions ex_holding_thm.
