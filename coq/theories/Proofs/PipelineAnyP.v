(* Proofs/PipelineAnyP.v — C13 without the C11 premise.

   The pipeline theorems of Proofs/PipelineP.v carry the premise
     any_roundtrip R pf (flatten v) = Ok (flatten v)
   (Spec/Pipeline.v: unmarshal into `any` with fuel 2000 + 4 * length ts, marshal again).  That
   premise is property C11; it is discharged here
   - for the schema-less domain [any_ok] of Proofs/AnyP.v, unconditionally;
   - for the domain with registered values [any_ok_reg] of Proofs/AnyRegP.v, under a side
     condition on the fuel constant of [any_roundtrip] (the statement without it is false of the
     model: any_roundtrip_of_any_ok_reg_refuted). *)
From Coq Require Import List NArith ZArith Bool Arith Lia ZifyBool ZifyNat ZifyN.
From SbModel Require Import Base.Bytes Base.Tokens Base.Values Model.Codec Model.Hash Model.Tree
  Model.Sinks Model.Procs Model.Types Spec.DecodeGrammar Spec.TreeSpec Spec.StreamSpec Spec.Pipeline.
From SbModel Require Import Spec.LexOrder Spec.Conform.
From SbModel Require Import Proofs.HashP Proofs.UnmarshalP Proofs.MarshalP Proofs.PipelineP Proofs.AnyP Proofs.RoundTripFullP
  Proofs.AnyRegP.
Import ListNotations.

(* [any_roundtrip] below is the stage of Spec/Pipeline.v, not the theorem of Proofs/AnyP.v *)

(* ====================================================================================== *)
(* Part 1.  The premise, for the schema-less domain                                         *)
(* ====================================================================================== *)

Theorem any_roundtrip_of_any_ok R pf v : any_ok R v -> Pipeline.any_roundtrip R pf (flatten v) = Ok (flatten v).
Proof.
  intros Hok. unfold Pipeline.any_roundtrip.
  pose proof (any_unm pf default_opts R v (2000 + 4 * length (flatten v)) [] Hok ltac:(lia)) as Hu.
  rewrite app_nil_r in Hu. rewrite Hu. cbn [bind fst]. apply (any_marshal R v Hok).
Qed.

(* ====================================================================================== *)
(* Part 2.  C13 over the schema-less domain                                                 *)
(* ====================================================================================== *)

Theorem stage_identity_any H R pf v s :
  wf_value v = true -> ref_free v = true ->
  Forall (wf_enc default_maxlen) (flatten v) ->
  (forall x, H x <> []) ->
  any_ok R v ->
  stage_side H v s ->
  run_stage H R pf s (flatten v) = Ok (flatten v).
Proof.
  intros Hwf Hrf Henc HHne Hok Hside.
  apply stage_identity; try assumption. apply any_roundtrip_of_any_ok, Hok.
Qed.

Theorem pipeline_identity_any H R pf v p :
  wf_value v = true -> ref_free v = true ->
  Forall (wf_enc default_maxlen) (flatten v) ->
  (forall x, H x <> []) ->
  any_ok R v ->
  Forall (stage_side H v) p ->
  run_pipeline H R pf p (flatten v) = Ok (flatten v).
Proof.
  intros Hwf Hrf Henc HHne Hok Hside.
  apply pipeline_identity; try assumption. apply any_roundtrip_of_any_ok, Hok.
Qed.

Corollary pipeline_hash_any H R pf v p :
  wf_value v = true -> ref_free v = true ->
  Forall (wf_enc default_maxlen) (flatten v) ->
  (forall x, H x <> []) ->
  any_ok R v ->
  Forall (stage_side H v) p ->
  exists out, run_pipeline H R pf p (flatten v) = Ok out /\ hash_result H out = inl (mhash H v).
Proof.
  intros Hwf Hrf Henc HHne Hok Hside.
  apply pipeline_hash; try assumption. apply any_roundtrip_of_any_ok, Hok.
Qed.

Corollary pipeline_identity_inj_any H R pf v p L :
  wf_value v = true -> ref_free v = true ->
  Forall (wf_enc default_maxlen) (flatten v) ->
  inj H -> fixed_len H L -> 0 < L ->
  any_ok R v ->
  (forall sel, In (StSubstDeref sel) p -> forall j, In j sel -> ~ In j (end_indices 0 v)) ->
  run_pipeline H R pf p (flatten v) = Ok (flatten v).
Proof.
  intros Hwf Hrf Henc Hinj HL Hpos Hok Hend.
  apply (pipeline_identity_inj H R pf v p L); try assumption. apply any_roundtrip_of_any_ok, Hok.
Qed.

(* ====================================================================================== *)
(* Part 3.  The premise, for the domain with registered values                              *)
(* ====================================================================================== *)

(* a result that every fuel from some bound on gives is the result of every fuel at which the
   model does not run out *)
Lemma unm_transfer pf o R t cur ts f0 y F :
  (forall f, f0 <= f -> unm pf f o R t cur ts = Ok y) ->
  unm pf F o R t cur ts <> OutOfFuel ->
  unm pf F o R t cur ts = Ok y.
Proof.
  intros Hst Hne.
  pose proof (unm_fuel_mono pf o R F t cur ts _ eq_refl Hne (Nat.max F f0) ltac:(lia)) as Hm.
  rewrite <- Hm. apply Hst. lia.
Qed.

(* the fuel constant of [any_roundtrip] is enough for this stream and this registry *)
Definition any_fuel_ok (R : registry) (pf : bytes -> N -> option N) (ts : list token) : Prop :=
  unm pf (2000 + 4 * length ts) default_opts R TAny (GAny None) ts <> OutOfFuel.

Theorem any_roundtrip_of_any_ok_reg_partial R pf v :
  any_ok_reg R v -> any_fuel_ok R pf (flatten v) -> Pipeline.any_roundtrip R pf (flatten v) = Ok (flatten v).
Proof.
  intros Hok Hne. unfold Pipeline.any_roundtrip.
  destruct (any_reg_roundtrip_stable pf default_opts R v [] Hok) as (g & _ & Hm & f0 & Hu).
  rewrite app_nil_r in Hu.
  rewrite (unm_transfer pf default_opts R TAny (GAny None) (flatten v) f0 (g, []) _ Hu Hne).
  cbn [bind fst]. exact Hm.
Qed.

(* the bound of UnmarshalP.unm_total_bound: every token may switch the untyped target to a
   registered type, whose chain of pointers and definitions is at most reg_depth R long *)
Lemma any_fuel_ok_bound R pf ts :
  length ts * S (reg_depth R) + 2 <= 2000 + 4 * length ts -> any_fuel_ok R pf ts.
Proof.
  intros Hb. unfold any_fuel_ok.
  rewrite (unm_fuel_enough pf default_opts R TAny (GAny None) ts (2000 + 4 * length ts))
    by (cbn [ty_depth]; lia).
  apply unm_total_bound.
Qed.

Lemma any_fuel_ok_depth3 R pf ts : reg_depth R <= 3 -> any_fuel_ok R pf ts.
Proof. intros Hd. apply any_fuel_ok_bound. nia. Qed.

Corollary any_roundtrip_of_any_ok_reg_bound R pf v :
  any_ok_reg R v ->
  length (flatten v) * S (reg_depth R) + 2 <= 2000 + 4 * length (flatten v) ->
  Pipeline.any_roundtrip R pf (flatten v) = Ok (flatten v).
Proof. intros Hok Hb. apply any_roundtrip_of_any_ok_reg_partial; [exact Hok|apply any_fuel_ok_bound, Hb]. Qed.

Corollary any_roundtrip_of_any_ok_reg_depth3 R pf v :
  any_ok_reg R v -> reg_depth R <= 3 -> Pipeline.any_roundtrip R pf (flatten v) = Ok (flatten v).
Proof. intros Hok Hd. apply any_roundtrip_of_any_ok_reg_partial; [exact Hok|apply any_fuel_ok_depth3, Hd]. Qed.

(* ---- C13 over the domain with registered values ---- *)
Theorem stage_identity_any_reg H R pf v s :
  wf_value v = true -> ref_free v = true ->
  Forall (wf_enc default_maxlen) (flatten v) ->
  (forall x, H x <> []) ->
  any_ok_reg R v -> any_fuel_ok R pf (flatten v) ->
  stage_side H v s ->
  run_stage H R pf s (flatten v) = Ok (flatten v).
Proof.
  intros Hwf Hrf Henc HHne Hok Hfuel Hside.
  apply stage_identity; try assumption. apply any_roundtrip_of_any_ok_reg_partial; assumption.
Qed.

Theorem pipeline_identity_any_reg H R pf v p :
  wf_value v = true -> ref_free v = true ->
  Forall (wf_enc default_maxlen) (flatten v) ->
  (forall x, H x <> []) ->
  any_ok_reg R v -> any_fuel_ok R pf (flatten v) ->
  Forall (stage_side H v) p ->
  run_pipeline H R pf p (flatten v) = Ok (flatten v).
Proof.
  intros Hwf Hrf Henc HHne Hok Hfuel Hside.
  apply pipeline_identity; try assumption. apply any_roundtrip_of_any_ok_reg_partial; assumption.
Qed.

Corollary pipeline_hash_any_reg H R pf v p :
  wf_value v = true -> ref_free v = true ->
  Forall (wf_enc default_maxlen) (flatten v) ->
  (forall x, H x <> []) ->
  any_ok_reg R v -> any_fuel_ok R pf (flatten v) ->
  Forall (stage_side H v) p ->
  exists out, run_pipeline H R pf p (flatten v) = Ok out /\ hash_result H out = inl (mhash H v).
Proof.
  intros Hwf Hrf Henc HHne Hok Hfuel Hside.
  apply pipeline_hash; try assumption. apply any_roundtrip_of_any_ok_reg_partial; assumption.
Qed.

(* ---- without the side condition the statement is false of the model: a registered defined
        type over a chain of 2100 pointers.  The stream of a value of it has two tokens, so
        [any_roundtrip] runs with fuel 2008, and following the chain needs more.  (This is about
        the fuel constant of Spec/Pipeline.v, a device of the model: the Go code has no fuel.) ---- *)
Fixpoint ptr_ty_n (n : nat) (t : ty) : ty := match n with O => t | S k => TPtr (ptr_ty_n k t) end.
Fixpoint ptr_val_n (n : nat) (x : gval) : gval := match n with O => x | S k => GPtr (Some (ptr_val_n k x)) end.

Definition DeepT : ty := TNamed [68%N] true [] (ptr_ty_n 2100 TBool).
Definition DeepR : registry := [([68%N], DeepT)].
Definition deep_x : gval := ptr_val_n 2100 (GBool true).
Definition deep_v : value := Named [68%N] (Leaf (T KBool (VBool true))).

Lemma ptr_n_facts : forall n,
  wf_ty (ptr_ty_n n TBool) = true /\ ty_ok (ptr_ty_n n TBool) = true /\
  anyb (ptr_ty_n n TBool) = false /\
  has_type (ptr_ty_n n TBool) (ptr_val_n n (GBool true)) = true /\
  nilish (ptr_val_n n (GBool true)) = false /\
  dom DeepR (ptr_ty_n n TBool) (ptr_val_n n (GBool true)) /\
  marshal default_opts (ptr_ty_n n TBool) (ptr_val_n n (GBool true)) = Ok [T KBool (VBool true)].
Proof.
  induction n as [|n (H1 & H2 & H3 & H4 & H5 & H6 & H7)].
  - repeat split; reflexivity.
  - cbn [ptr_ty_n ptr_val_n]. split; [exact H1|]. split; [exact H2|]. split; [exact H3|].
    split; [exact H4|]. split; [exact H5|]. split.
    + cbn [dom]. split; [exact H5|]. exact H6.
    + rewrite (marshal_unreg _ (TPtr _)) by reflexivity. exact H7.
Qed.

Theorem any_roundtrip_of_any_ok_reg_refuted :
  exists R pf v, any_ok_reg R v /\ Pipeline.any_roundtrip R pf (flatten v) <> Ok (flatten v).
Proof.
  exists DeepR, pf0, deep_v. split.
  - cbn [any_ok_reg deep_v flatten]. exists DeepT, deep_x.
    destruct (ptr_n_facts 2100) as (H1 & H2 & H3 & H4 & H5 & H6 & H7).
    split; [reflexivity|]. split; [reflexivity|].
    split; [unfold DeepT; cbn [wf_ty]; rewrite H1; reflexivity|].
    split; [unfold DeepT; cbn [ty_ok]; rewrite H2, H3; reflexivity|].
    split; [unfold DeepT, deep_x; exact H4|].
    split; [unfold DeepT, deep_x; exact H6|].
    unfold DeepT, deep_x. rewrite (marshal_eq _ (TNamed _ _ _ _)).
    rewrite (marshal_body_underlying _ (TNamed [68%N] true [] (ptr_ty_n 2100 TBool)) (ptr_ty_n 2100 TBool)) by reflexivity.
    rewrite <- (marshal_unreg _ (ptr_ty_n 2100 TBool)) by reflexivity. rewrite H7. reflexivity.
  - assert (E : Pipeline.any_roundtrip DeepR pf0 (flatten deep_v) = OutOfFuel) by (vm_compute; reflexivity).
    rewrite E. discriminate.
Qed.

(* ====================================================================================== *)
(* Part 4.  Examples                                                                        *)
(* ====================================================================================== *)
Module Examples.
  Import PipelineP.Examples.
  Local Open Scope N_scope.

  (* []any{1, "s", map[string]any{"a": 2.5}}
     indices: 0 array, 1 int, 2 string, 3 map, 4 key, 5 float, 6 map end, 7 array end *)
  Definition ex_a : value :=
    Comp KArray KArrayEnd
      [Leaf (T KInt (VI WNat 1)); Leaf (T KString (VStr [115]));
       Comp KMap KMapEnd [Leaf (T KString (VStr [97])); Leaf (T KFloat64 (VF64 4612811918334230528))]].

  Definition ex_prog : list stage := [StAny; StSubstDeref [3]%nat; StTupleWrap].

  Example ex_a_hyps :
    wf_value ex_a = true /\ ref_free ex_a = true /\ Forall (wf_enc default_maxlen) (flatten ex_a) /\
    (forall R, any_ok R ex_a) /\ Forall (stage_side toy3 ex_a) ex_prog.
  Proof.
    split; [reflexivity|]. split; [reflexivity|]. split.
    { repeat (constructor; [split; [reflexivity | try exact I; split; vm_compute; congruence]|]).
      constructor. }
    split; [intros R; vm_compute; reflexivity|].
    unfold ex_prog. repeat match goal with |- Forall _ _ => constructor end; try exact I.
    split.
    - intros j Hj Hin. vm_compute in Hin. cbn [In] in Hj. lia.
    - intros j1 s1 j2 s2 H1 Hj H2 Hm; vm_compute in H2.
      destruct H2 as [E|[]]; inversion E; subst; clear E; vm_compute in H1;
        repeat (destruct H1 as [E|H1];
                [inversion E; subst; clear E;
                 try reflexivity; try (vm_compute in Hm; discriminate Hm);
                 cbn [In] in Hj; lia |]);
        destruct H1.
  Qed.

  (* pipeline_identity_any instantiated: no C11 premise left, for every registry and every
     ParseFloat *)
  Example ex_pipeline_identity_any R pf :
    run_pipeline toy3 R pf ex_prog (flatten ex_a) = Ok (flatten ex_a) /\
    exists out, run_pipeline toy3 R pf ex_prog (flatten ex_a) = Ok out /\
                hash_result toy3 out = inl (mhash toy3 ex_a).
  Proof.
    destruct ex_a_hyps as (Hwf & Hrf & Henc & Hok & Hside).
    split; [apply pipeline_identity_any|apply pipeline_hash_any]; try assumption; try exact toy3_ne; apply Hok.
  Qed.

  (* and by computation, on one registry *)
  Example ex_pipeline_any_computes : run_pipeline toy3 [] no_pf ex_prog (flatten ex_a) = Ok (flatten ex_a).
  Proof. vm_compute. reflexivity. Qed.

  (* the domain with registered values: []any{R1{1, "s"}, 5, R1{2, R1{3, nil}}} of Proofs/AnyRegP.v;
     the side condition on the fuel holds (the registry has depth 3) *)
  Example ex_reg_pipeline pf :
    reg_depth RegR1 = 3%nat /\
    run_pipeline toy3 RegR1 pf [StAny; StCodec; StTee3 1; StTupleWrap; StFindRoot] (flatten ex_reg_v) = Ok (flatten ex_reg_v).
  Proof.
    split; [reflexivity|].
    apply pipeline_identity_any_reg; try reflexivity.
    - repeat (constructor; [split; [reflexivity | try exact I; split; vm_compute; congruence]|]).
      constructor.
    - exact toy3_ne.
    - exact ex_reg_ok.
    - apply any_fuel_ok_depth3. vm_compute. lia.
    - repeat constructor.
  Qed.
End Examples.

Definition PipelineAnyP_main_theorems :=
  (any_roundtrip_of_any_ok, stage_identity_any, pipeline_identity_any, pipeline_hash_any, pipeline_identity_inj_any,
   any_roundtrip_of_any_ok_reg_partial, any_roundtrip_of_any_ok_reg_bound, any_roundtrip_of_any_ok_reg_depth3,
   any_fuel_ok_bound, any_fuel_ok_depth3, any_roundtrip_of_any_ok_reg_refuted,
   stage_identity_any_reg, pipeline_identity_any_reg, pipeline_hash_any_reg,
   Examples.ex_pipeline_identity_any, Examples.ex_reg_pipeline).
Print Assumptions PipelineAnyP_main_theorems.
