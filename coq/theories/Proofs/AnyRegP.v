(* Proofs/AnyRegP.v — C11, the clause "type-name prefixes of registered types resurrect values of
   exactly those types".

   Part 1   a value of a registered defined type, marshalled and decoded into an untyped target,
            comes back as an interface value whose DYNAMIC TYPE IS THAT TYPE (not merely a value
            with the same stream):            any_registered_resurrects(_fuel / _stable)
            an unknown name resurrects nothing: any_unregistered_name_not_resurrected
   Part 2-6 the schema-less domain of Proofs/AnyP.v extended with [Named n w] nodes at any depth
            (array items, tuple items, object field values, map values, and the top):
            [any_ok_reg], the relation [resurrected] between a token tree and the decoded value,
            any_reg_roundtrip / any_reg_roundtrip_stable, any_ok_reg_of_any_ok (conservative)
   Part 7   examples by vm_compute *)
From Coq Require Import List NArith ZArith Bool Lia ZifyBool ZifyNat ZifyN Arith.
From SbModel Require Import Spec.LexOrder Spec.Conform.
From SbModel Require Import Proofs.CompareP Proofs.UnmarshalP Proofs.MarshalP Proofs.AnyP Proofs.RoundTripFullP.
Import ListNotations.
Local Open Scope N_scope.

(* ====================================================================================== *)
(* Part 1.  A registered value at the top of an untyped stream                              *)
(* ====================================================================================== *)

(* what [Named n w] must be: the registry knows the name, and the stream behind the prefix is the
   marshalled stream of a value of that type lying in the domain of the typed round trip
   (Proofs/RoundTripFullP.v) *)
Definition reg_typed (R : registry) (n : bytes) (body : list token) : Prop :=
  exists t x, reg_lookup R n = Some t /\ reg_name t = Some n /\ wf_ty t = true /\ ty_ok t = true /\
              has_type t x = true /\ dom R t x /\
              marshal default_opts t x = Ok (T KTypeName (VStr n) :: body).

Lemma reg_decode pf o R t n x body rest :
  reg_lookup R n = Some t -> reg_name t = Some n -> wf_ty t = true -> ty_ok t = true ->
  has_type t x = true -> dom R t x -> marshal default_opts t x = Ok (T KTypeName (VStr n) :: body) ->
  exists x', equiv t x x' /\ marshal default_opts t x' = Ok (T KTypeName (VStr n) :: body) /\
    forall f, (2 * fsz x + length body + 3 <= f)%nat ->
      unm pf f o R TAny (GAny None) (T KTypeName (VStr n) :: body ++ rest) = Ok (GAny (Some (t, x')), rest).
Proof.
  intros Hreg Hrn Hwf Hok Hty Hd Hm.
  destruct (roundtrip_full_partial_stable pf o R t x _ rest Hwf Hok Hty Hd Hm) as (x' & He & Hm' & Hu).
  exists x'. split; [exact He|]. split; [exact Hm'|]. intros f Hf.
  pose proof (reg_name_anyb t n Hrn Hok) as Ha.
  destruct f as [|f1]; [lia|]. destruct f1 as [|f2]; [lia|].
  rewrite (unm_any_tn pf o R (S f2) _ n t _ Hreg).
  assert (H2 : unm pf f2 o R t (zero t) (body ++ rest) = Ok (x', rest)).
  { rewrite <- (unm_typenameF pf o R f2 t (zero t) (T KTypeName (VStr n)) (body ++ rest) Ha eq_refl).
    apply (Hu (S f2)). cbn [length]. lia. }
  rewrite (unm_fuel_mono pf o R f2 _ _ _ _ H2 ltac:(discriminate) (S f2) ltac:(lia)). reflexivity.
Qed.

(* C11, the registered clause at the top of the stream, with an explicit fuel *)
Theorem any_registered_resurrects_fuel pf o R n depr u x ts rest f :
  let t := TNamed n true depr u in
  reg_lookup R n = Some t -> wf_ty t = true -> ty_ok t = true -> has_type t x = true -> dom R t x ->
  marshal default_opts t x = Ok ts -> (2 * fsz x + length ts + 2 <= f)%nat ->
  exists x', unm pf f o R TAny (GAny None) (ts ++ rest) = Ok (GAny (Some (t, x')), rest) /\
             equiv t x x' /\ marshal default_opts TAny (GAny (Some (t, x'))) = Ok ts.
Proof.
  intros t Hreg Hwf Hok Hty Hd Hm Hf.
  destruct (marshal_inv _ _ _ _ Hm) as (body & _ & Ets). cbn [t reg_prefix app] in Ets. subst ts.
  destruct (reg_decode pf o R t n x body rest Hreg eq_refl Hwf Hok Hty Hd Hm) as (x' & He & Hm' & Hu).
  exists x'. split; [|split; [exact He|rewrite marshal_any; exact Hm']].
  apply Hu. cbn [length] in Hf. lia.
Qed.

Theorem any_registered_resurrects pf o R n depr u x ts rest :
  let t := TNamed n true depr u in
  reg_lookup R n = Some t -> wf_ty t = true -> ty_ok t = true -> has_type t x = true -> dom R t x ->
  marshal default_opts t x = Ok ts ->
  exists f x', unm pf f o R TAny (GAny None) (ts ++ rest) = Ok (GAny (Some (t, x')), rest) /\
               equiv t x x' /\ marshal default_opts TAny (GAny (Some (t, x'))) = Ok ts.
Proof.
  intros t Hreg Hwf Hok Hty Hd Hm. exists (2 * fsz x + length ts + 2)%nat.
  apply (any_registered_resurrects_fuel pf o R n depr u x ts rest _ Hreg Hwf Hok Hty Hd Hm). lia.
Qed.

(* every sufficient fuel gives that same value *)
Corollary any_registered_resurrects_stable pf o R n depr u x ts rest :
  let t := TNamed n true depr u in
  reg_lookup R n = Some t -> wf_ty t = true -> ty_ok t = true -> has_type t x = true -> dom R t x ->
  marshal default_opts t x = Ok ts ->
  exists x', equiv t x x' /\ marshal default_opts TAny (GAny (Some (t, x'))) = Ok ts /\
             forall f, (2 * fsz x + length ts + 2 <= f)%nat ->
               unm pf f o R TAny (GAny None) (ts ++ rest) = Ok (GAny (Some (t, x')), rest).
Proof.
  intros t Hreg Hwf Hok Hty Hd Hm.
  destruct (marshal_inv _ _ _ _ Hm) as (body & _ & Ets). cbn [t reg_prefix app] in Ets. subst ts.
  destruct (reg_decode pf o R t n x body rest Hreg eq_refl Hwf Hok Hty Hd Hm) as (x' & He & Hm' & Hu).
  exists x'. split; [exact He|]. split; [rewrite marshal_any; exact Hm'|].
  intros f Hf. apply Hu. cbn [length] in Hf. lia.
Qed.

(* the stream of a registered value starts with its TypeName token: the decoder is told the type *)
Lemma registered_stream_head n depr u x ts :
  marshal default_opts (TNamed n true depr u) x = Ok ts -> exists body, ts = T KTypeName (VStr n) :: body.
Proof. intros Hm. destruct (marshal_inv _ _ _ _ Hm) as (b & _ & E). exists b. exact E. Qed.

(* the negative companion: when the registry does not know the name, the prefix resurrects nothing:
   whatever the decoder answers is what it answers on the stream without the prefix, so a result
   never has the dynamic type named by the prefix unless the rest of the stream says so itself;
   in particular the re-marshalled stream has lost the prefix *)
Theorem any_unregistered_name_not_resurrected pf o R n ts f :
  reg_lookup R n = None ->
  unm pf (S f) o R TAny (GAny None) (T KTypeName (VStr n) :: ts) = unm pf f o R TAny (GAny None) ts.
Proof. intros Hn. apply any_unregistered_name_dropped. exact Hn. Qed.

(* on a stream of the schema-less domain behind an unknown name: decoded as if the prefix were
   absent, and the prefix is lost when the result is marshalled again (no round trip) *)
Theorem any_unregistered_name_lost pf o R n v rest f :
  reg_lookup R n = None -> any_ok R v -> (length (flatten v) < f)%nat ->
  unm pf f o R TAny (GAny None) (flatten (Named n v) ++ rest) = Ok (dec v, rest) /\
  marshal default_opts TAny (dec v) = Ok (flatten v) /\
  flatten v <> flatten (Named n v).
Proof.
  intros Hn Hok Hf. destruct f as [|f]; [lia|]. split; [|split].
  - cbn [flatten app]. rewrite (any_unregistered_name_dropped pf o R f _ n _ Hn).
    apply (any_unm pf o R v f rest Hok). lia.
  - apply (any_marshal R v Hok).
  - cbn [flatten]. intros E. apply (f_equal (@length token)) in E. cbn [length] in E. lia.
Qed.

(* ====================================================================================== *)
(* Part 2.  The extended domain and the decoded value                                       *)
(* ====================================================================================== *)

Definition allP (ok : value -> Prop) : list value -> Prop :=
  fix all (l : list value) : Prop := match l with [] => True | x :: r => ok x /\ all r end.

(* object items, as [obj_ok] of Proofs/AnyP.v, over a Prop-valued item predicate *)
Definition obj_okP (ok : value -> Prop) : list bytes -> list value -> Prop :=
  fix obj (seen : list bytes) (l : list value) {struct l} : Prop :=
    match l with
    | [] => True
    | Leaf (T k (VStr n)) :: v :: r =>
        k = KString /\ is_exported_ident n = true /\ existsb (fun s => bytes_eqb s n) seen = false /\
        ok v /\ is_nil_leaf v = false /\ obj (seen ++ [n]) r
    | _ => False
    end.

(* map items, as [map_ok]: keys are scalar leaves, strictly ascending *)
Definition map_okP (ok : value -> Prop) : option token -> list value -> Prop :=
  fix mp (prev : option token) (l : list value) {struct l} : Prop :=
    match l with
    | [] => True
    | Leaf k :: v :: r => key_ok k = true /\ lt_prev prev k = true /\ ok v /\ mp (Some k) r
    | _ => False
    end.

(* The schema-less domain with registered values: [any_okb] of Proofs/AnyP.v, plus [Named n w]
   nodes wherever a value may stand (array items, tuple items, object field values, map values,
   the top) — not as map keys, not as object field names. *)
Fixpoint any_ok_reg (R : registry) (v : value) {struct v} : Prop :=
  match v with
  | Leaf t => leaf_ok t = true
  | Comp ko kc items =>
      if (ko =? KArray) && (kc =? KArrayEnd) then allP (any_ok_reg R) items
      else if (ko =? KTuple) && (kc =? KTupleEnd) then allP (any_ok_reg R) items /\ (length items <= 50)%nat
      else if (ko =? KObject) && (kc =? KObjectEnd) then obj_okP (any_ok_reg R) [] items
      else if (ko =? KMap) && (kc =? KMapEnd) then map_okP (any_ok_reg R) None items
      else False
  | Named n w => reg_typed R n (flatten w)
  end.

Lemma any_ok_reg_comp R ko kc items :
  any_ok_reg R (Comp ko kc items) =
  if (ko =? KArray) && (kc =? KArrayEnd) then allP (any_ok_reg R) items
  else if (ko =? KTuple) && (kc =? KTupleEnd) then allP (any_ok_reg R) items /\ (length items <= 50)%nat
  else if (ko =? KObject) && (kc =? KObjectEnd) then obj_okP (any_ok_reg R) [] items
  else if (ko =? KMap) && (kc =? KMapEnd) then map_okP (any_ok_reg R) None items
  else False.
Proof. reflexivity. Qed.

Definition nil_items (l : list gval) : bool := match l with [] => true | _ => false end.

(* The decoded value, as a relation between the token tree and the value the untyped target
   holds: the value [dec] of Proofs/AnyP.v builds, except that at every [Named n w] node stands
   an interface value whose dynamic type is THE TYPE THE REGISTRY GIVES FOR n, holding a value of
   that type whose stream is the node's stream.  (Object names and map keys are ordinary items of
   the tree: leaves.) *)
Inductive resurrected (R : registry) : value -> gval -> Prop :=
| RS_leaf t : resurrected R (Leaf t) (leaf_gval t)
| RS_array items gs : Forall2 (resurrected R) items gs ->
    resurrected R (Comp KArray KArrayEnd items) (GAny (Some (TSlice TAny, GList (nil_items gs) gs)))
| RS_tuple items gs : Forall2 (resurrected R) items gs ->
    resurrected R (Comp KTuple KTupleEnd items) (GAny (Some (TFunc (map dyn_ty gs), GFunc (Some (map dyn_val gs)))))
| RS_object items gs : Forall2 (resurrected R) items gs ->
    resurrected R (Comp KObject KObjectEnd items) (GAny (Some (TStruct (dfields gs), GStruct (dvals gs))))
| RS_map items gs : Forall2 (resurrected R) items gs ->
    resurrected R (Comp KMap KMapEnd items) (GAny (Some (TMap TAny TAny, GMap false (dentries gs))))
| RS_named n w t x' : reg_lookup R n = Some t -> reg_name t = Some n ->
    marshal default_opts t x' = Ok (flatten (Named n w)) ->
    resurrected R (Named n w) (GAny (Some (t, x'))).

(* ====================================================================================== *)
(* Part 3.  The element loops of the untyped target over the extended domain                *)
(* ====================================================================================== *)

(* the first token of an item is never an end marker *)
Definition okhd (x : value) : Prop := exists tk tl, flatten x = tk :: tl /\ is_end_kind (kind tk) = false.

Lemma is_nil_items_eq (l : list gval) : match l with [] => true | _ => false end = nil_items l.
Proof. reflexivity. Qed.

Section LoopsR.
Variable rec : rec_t.
Variable Q : value -> gval -> Prop.
Hypothesis HQleaf : forall k g, Q (Leaf k) g -> g = leaf_gval k.
Hypothesis HQsome : forall x g, Q x g -> is_nil_leaf x = false -> exists t y, g = GAny (Some (t, y)).

(* the recursive call decodes the items one after the other, each in front of the streams of the
   items after it and of [tail] *)
Inductive runs : list value -> list token -> list gval -> Prop :=
| runs_nil tail : runs [] tail []
| runs_cons x r tail g gs :
    okhd x -> Q x g ->
    rec TAny (GAny None) (flatten x ++ flat_map flatten r ++ tail) = Ok (g, flat_map flatten r ++ tail) ->
    runs r tail gs -> runs (x :: r) tail (g :: gs).

Lemma runs_Q items tail gs : runs items tail gs -> Forall2 Q items gs.
Proof. induction 1 as [tail|x r tail g gs Hhd HQ Hrec Hrun IH]; constructor; assumption. Qed.

Lemma slice_loop_R : forall items tail gs, runs items tail gs ->
  forall rest, tail = T KArrayEnd VNone :: rest ->
  forall g acc, (length items < g)%nat ->
  slice_loop rec g TAny acc (flat_map flatten items ++ tail) = Ok (acc ++ gs, rest).
Proof.
  induction 1 as [tail|x r tail g0 gs Hhd HQ Hrec Hrun IH]; intros rest Etail g acc Hg.
  - subst tail. destruct g as [|g]; [cbn [length] in Hg; lia|]. cbn [flat_map app slice_loop kind].
    rewrite app_nil_r. reflexivity.
  - destruct g as [|g]; [cbn [length] in Hg; lia|].
    cbn [flat_map]. rewrite <- app_assoc.
    destruct Hhd as (tk & tl & E & He).
    assert (Ets : flatten x ++ flat_map flatten r ++ tail = tk :: tl ++ flat_map flatten r ++ tail)
      by (rewrite E; reflexivity).
    rewrite (slice_loop_step rec g TAny acc _ tk _ Ets (proj1 (end_kind_false _ He))).
    change (zero TAny) with (GAny None). rewrite Hrec. cbn [bind fst snd].
    rewrite (IH rest Etail g (acc ++ [g0])) by (cbn [length] in Hg; lia).
    rewrite <- app_assoc. reflexivity.
Qed.

Lemma tuple_loop_R : forall items tail gs, runs items tail gs ->
  forall rest, tail = T KTupleEnd VNone :: rest ->
  forall g tys vals, (length items < g)%nat ->
  tuple_loop rec g [] tys vals (flat_map flatten items ++ tail)
  = Ok ([], vals ++ map dyn_val gs, tys ++ map dyn_ty gs, rest).
Proof.
  induction 1 as [tail|x r tail g0 gs Hhd HQ Hrec Hrun IH]; intros rest Etail g tys vals Hg.
  - subst tail. destruct g as [|g]; [cbn [length] in Hg; lia|]. cbn [flat_map app tuple_loop kind map].
    rewrite !app_nil_r. reflexivity.
  - destruct g as [|g]; [cbn [length] in Hg; lia|].
    cbn [flat_map]. rewrite <- app_assoc.
    destruct Hhd as (tk & tl & E & He).
    assert (Ets : flatten x ++ flat_map flatten r ++ tail = tk :: tl ++ flat_map flatten r ++ tail)
      by (rewrite E; reflexivity).
    rewrite (tuple_loop_step rec g tys vals _ tk _ Ets (proj2 (proj2 (proj2 (end_kind_false _ He))))).
    rewrite Hrec. cbn [bind fst snd].
    rewrite (IH rest Etail g _ _) by (cbn [length] in Hg; lia).
    cbn [map]. rewrite <- !app_assoc. reflexivity.
Qed.

Lemma map_okP_one ok prev a : map_okP ok prev [a] -> False.
Proof. destruct a; intros H; exact H. Qed.

Lemma obj_okP_one ok seen a : obj_okP ok seen [a] -> False.
Proof. destruct a as [[k [ | | | | | | |s|]]| |]; intros H; exact H. Qed.

Lemma map_okP_inv ok prev a b r : map_okP ok prev (a :: b :: r) ->
  exists k, a = Leaf k /\ key_ok k = true /\ lt_prev prev k = true /\ ok b /\ map_okP ok (Some k) r.
Proof.
  destruct a as [k| |]; try (intros H; contradiction H).
  intros (Hk & Hlt & Hb & Hr). exists k. repeat split; assumption.
Qed.

Lemma obj_okP_inv ok seen a b r : obj_okP ok seen (a :: b :: r) ->
  exists n, a = Leaf (T KString (VStr n)) /\ is_exported_ident n = true /\
            existsb (fun s => bytes_eqb s n) seen = false /\
            ok b /\ is_nil_leaf b = false /\ obj_okP ok (seen ++ [n]) r.
Proof.
  destruct a as [[k [ | | | | | | |n|]]| |]; try (intros H; contradiction H).
  intros (Hk & Hid & Hseen & Hb & Hnil & Hr). subst k. exists n. repeat split; assumption.
Qed.

Lemma genmap_loop_R ok : forall items prev, map_okP ok prev items ->
  forall tail gs, runs items tail gs ->
  forall rest, tail = T KMapEnd VNone :: rest ->
  forall g m, fresh_inv prev m -> (length (pairs items) < g)%nat ->
  genmap_loop rec g m (flat_map flatten items ++ tail)
  = Ok (GAny (Some (TMap TAny TAny, GMap false (m ++ dentries gs))), rest).
Proof.
  intros items. induction items as [|a|a b r IH] using list_ind2; intros prev Hok tail gs Hrun rest Etail g m Hinv Hg.
  - inversion Hrun; subst. destruct g as [|g]; [cbn [pairs length] in Hg; lia|].
    unfold dentries. cbn [flat_map app genmap_loop kind map pairs]. rewrite app_nil_r. reflexivity.
  - exfalso. exact (map_okP_one _ _ _ Hok).
  - apply map_okP_inv in Hok. destruct Hok as (k & -> & Hk & Hlt & Hb & Hr).
    inversion Hrun as [|x1 r1 tl1 gk gs1 Hhd1 HQ1 Hrec1 Hrun1]; subst.
    inversion Hrun1 as [|x2 r2 tl2 gb gs2 Hhd2 HQ2 Hrec2 Hrun2]; subst.
    apply HQleaf in HQ1. subst gk.
    destruct g as [|g]; [cbn [pairs length] in Hg; lia|].
    cbn [flat_map] in Hrec1 |- *. rewrite <- !app_assoc in Hrec1 |- *.
    assert (Hkl : leaf_ok k = true) by (apply key_ok_inv in Hk; apply Hk).
    pose proof (any_kind_not_end _ (leaf_ok_kind _ Hkl)) as He.
    change (flatten (Leaf k)) with [k] in Hrec1 |- *. cbn [app] in Hrec1 |- *.
    rewrite (genmap_loop_step rec g m _ k _ eq_refl (proj1 (proj2 (proj2 (end_kind_false _ He))))).
    rewrite <- ?app_assoc. rewrite Hrec1. cbn [bind fst snd]. change (to_cmp (leaf_gval k)) with (key_gval k).
    destruct (key_gval_form k Hk) as (kt & kv & Ek & Hc & Hn). rewrite Ek at 1. rewrite Hc. cbn [negb].
    rewrite Hn. rewrite Hrec2. cbn [bind fst snd].
    rewrite (map_set_fresh _ _ m (proj2 Hinv k Hk Hlt)).
    rewrite (IH (Some k) Hr _ _ Hrun2 rest eq_refl g _ (fresh_inv_step prev m k gb Hinv Hk Hlt))
      by (cbn [pairs length] in Hg; lia).
    unfold dentries. cbn [map pairs fst snd]. change (to_cmp (leaf_gval k)) with (key_gval k).
    rewrite <- app_assoc. reflexivity.
Qed.

Hypothesis Hname : forall s cur rest', rec TString cur (T KString (VStr s) :: rest') = Ok (GStr s, rest').

Lemma newstruct_loop_R ok : forall pre seen, obj_okP ok seen pre ->
  forall more gs, runs pre more gs ->
  forall g fs vals, map fname fs = seen ->
  newstruct_loop rec (length (pairs pre) + g) fs vals (flat_map flatten pre ++ more)
  = newstruct_loop rec g (fs ++ dfields gs) (vals ++ dvals gs) more.
Proof.
  intros pre. induction pre as [|a|a b r IH] using list_ind2; intros seen Hok more gs Hrun g fs vals Hfs.
  - inversion Hrun; subst. unfold dfields, dvals. cbn [pairs length Nat.add flat_map app map].
    rewrite !app_nil_r. reflexivity.
  - exfalso. exact (obj_okP_one _ _ _ Hok).
  - apply obj_okP_inv in Hok. destruct Hok as (n & -> & Hid & Hseen & Hb & Hnil & Hr).
    inversion Hrun as [|x1 r1 tl1 gk gs1 Hhd1 HQ1 Hrec1 Hrun1]; subst.
    inversion Hrun1 as [|x2 r2 tl2 gb gs2 Hhd2 HQ2 Hrec2 Hrun2]; subst.
    apply HQleaf in HQ1. subst gk.
    cbn [pairs length Nat.add flat_map]. change (flatten (Leaf (T KString (VStr n)))) with [T KString (VStr n)].
    cbn [app]. rewrite <- app_assoc.
    rewrite (newstruct_loop_step rec Hname); [|exact Hid|rewrite existsb_fname; exact Hseen].
    rewrite Hrec2. cbn [bind fst snd].
    destruct (HQsome b gb HQ2 Hnil) as (vt & y & E). rewrite E.
    rewrite (IH _ Hr _ _ Hrun2 g _ _) by (rewrite map_app; reflexivity).
    unfold dfields, dvals. cbn [map pairs fst snd dyn_ty dyn_val].
    change (gname (leaf_gval (T KString (VStr n)))) with n.
    rewrite <- !app_assoc. reflexivity.
Qed.

End LoopsR.

(* ====================================================================================== *)
(* Part 4.  Marshalling the decoded value again                                             *)
(* ====================================================================================== *)

(* what is known of the value [g] an item [x] decodes to *)
Definition Qn (R : registry) (x : value) (g : gval) : Prop :=
  resurrected R x g /\ marshal default_opts TAny g = Ok (flatten x) /\
  (is_nil_leaf x = false -> exists t y, g = GAny (Some (t, y))).

Lemma resurrected_leaf R k g : resurrected R (Leaf k) g -> g = leaf_gval k.
Proof. intros H. inversion H. reflexivity. Qed.

Lemma Qn_leaf R k g : Qn R (Leaf k) g -> g = leaf_gval k.
Proof. intros H. apply (resurrected_leaf R), H. Qed.

Lemma Qn_some R x g : Qn R x g -> is_nil_leaf x = false -> exists t y, g = GAny (Some (t, y)).
Proof. intros H. apply H. Qed.

Lemma Forall2_impl {A B} (P P' : A -> B -> Prop) : (forall a b, P a b -> P' a b) ->
  forall l1 l2, Forall2 P l1 l2 -> Forall2 P' l1 l2.
Proof. intros HP. induction 1; constructor; auto. Qed.

Lemma marshal_list_R R items gs : Forall2 (Qn R) items gs ->
  marshal_list default_opts TAny gs = Ok (flat_map flatten items).
Proof.
  induction 1 as [|x g l gs Hx _ IH]; [reflexivity|].
  cbn [flat_map]. rewrite marshal_list_cons, (proj1 (proj2 Hx)). cbn [bind]. rewrite IH. reflexivity.
Qed.

Lemma marshal_outs_R R items gs : Forall2 (Qn R) items gs ->
  marshal_outs default_opts (map dyn_val gs) (map dyn_ty gs) = Ok (flat_map flatten items).
Proof.
  induction 1 as [|x g l gs Hx _ IH]; [reflexivity|].
  cbn [map flat_map]. rewrite marshal_outs_cons, marshal_dyn, (proj1 (proj2 Hx)). cbn [bind]. rewrite IH. reflexivity.
Qed.

Lemma marshal_fields_R R ok : forall items seen, obj_okP ok seen items ->
  forall gs, Forall2 (Qn R) items gs ->
  marshal_fields default_opts (dvals gs) (dfields gs) = Ok (flat_map flatten items).
Proof.
  intros items. induction items as [|a|a b r IH] using list_ind2; intros seen Hok gs HF.
  - inversion HF; subst. reflexivity.
  - exfalso. exact (obj_okP_one _ _ _ Hok).
  - apply obj_okP_inv in Hok. destruct Hok as (n & -> & Hid & Hseen & Hb & Hnil & Hr).
    inversion HF as [|x1 gk l1 gs1 HQ1 HF1]; subst. inversion HF1 as [|x2 gb l2 gs2 HQ2 HF2]; subst.
    apply Qn_leaf in HQ1. subst gk.
    rewrite dfields_cons, dvals_cons, marshal_fields_cons.
    change (skip_empty default_opts) with false. cbn [andb fexported fname fst snd negb].
    change (gname (leaf_gval (T KString (VStr n)))) with n.
    rewrite marshal_dyn, (proj1 (proj2 HQ2)). cbn [bind]. rewrite (IH _ Hr _ HF2). reflexivity.
Qed.

Lemma marshal_entries_R R ok : forall items prev, map_okP ok prev items ->
  forall gs, Forall2 (Qn R) items gs ->
  marshal_entries default_opts TAny TAny (dentries gs) = Ok (ents items).
Proof.
  intros items. induction items as [|a|a b r IH] using list_ind2; intros prev Hok gs HF.
  - inversion HF; subst. reflexivity.
  - exfalso. exact (map_okP_one _ _ _ Hok).
  - apply map_okP_inv in Hok. destruct Hok as (k & -> & Hk & Hlt & Hb & Hr).
    inversion HF as [|x1 gk l1 gs1 HQ1 HF1]; subst. inversion HF1 as [|x2 gb l2 gs2 HQ2 HF2]; subst.
    apply Qn_leaf in HQ1. subst gk.
    rewrite dentries_cons. change (to_cmp (leaf_gval k)) with (key_gval k).
    rewrite marshal_entries_cons, (key_marshal _ k Hk). cbn [bind].
    change (bad_map_key [k]) with (kind k =? KNaN).
    destruct (key_ok_inv k Hk) as (_ & _ & Hnan). apply N.eqb_neq in Hnan. rewrite Hnan.
    rewrite (IH _ Hr _ HF2). cbn [bind]. rewrite (proj1 (proj2 HQ2)). reflexivity.
Qed.

Lemma ents_stream_P ok : forall items prev, map_okP ok prev items ->
  flat_map (fun e : list token * list token * list token => snd (fst e) ++ snd e) (ents items) = flat_map flatten items.
Proof.
  intros items. induction items as [|a|a b r IH] using list_ind2; intros prev Hok.
  - reflexivity.
  - exfalso. exact (map_okP_one _ _ _ Hok).
  - apply map_okP_inv in Hok. destruct Hok as (k & -> & Hk & Hlt & Hb & Hr).
    unfold ents. cbn [pairs map flat_map fst snd]. fold (ents r). rewrite (IH _ Hr).
    rewrite <- app_assoc. reflexivity.
Qed.

Lemma ents_chain_P ok : forall items prev, map_okP ok prev items ->
  match prev with Some p => key_ok p = true | None => True end ->
  chain (option_map (fun p => [p]) prev) (ents items).
Proof.
  intros items. induction items as [|a|a b r IH] using list_ind2; intros prev Hok Hp.
  - exact I.
  - exfalso. exact (map_okP_one _ _ _ Hok).
  - apply map_okP_inv in Hok. destruct Hok as (k & -> & Hk & Hlt & Hb & Hr).
    unfold ents. cbn [pairs map fst snd]. fold (ents r). cbn [chain fst flatten]. split.
    + destruct prev as [p|]; cbn [option_map]; [|exact I].
      rewrite (cmp_is_lex [p] [k] (key_ok_wfs p Hp) (key_ok_wfs k Hk)), (lt_prev_some p k Hlt). reflexivity.
    + apply (IH (Some k) Hr Hk).
Qed.

(* the four composite shapes, given what is known of the items *)
Lemma mar_array R items gs : Forall2 (Qn R) items gs ->
  marshal default_opts TAny (GAny (Some (TSlice TAny, GList (nil_items gs) gs))) = Ok (flatten (Comp KArray KArrayEnd items)).
Proof.
  intros HF. rewrite marshal_any, (marshal_unreg _ (TSlice TAny)) by reflexivity.
  cbn [marshal_body]. change (MarshalP.elem_ty (TSlice TAny)) with TAny.
  rewrite (marshal_list_R R items gs HF). reflexivity.
Qed.

Lemma mar_tuple R items gs : Forall2 (Qn R) items gs ->
  marshal default_opts TAny (GAny (Some (TFunc (map dyn_ty gs), GFunc (Some (map dyn_val gs)))))
  = Ok (flatten (Comp KTuple KTupleEnd items)).
Proof.
  intros HF. rewrite marshal_any, (marshal_unreg _ (TFunc _)) by reflexivity.
  cbn [marshal_body]. change (ignore_funcs default_opts) with false. cbn beta iota.
  change (func_outs (TFunc (map dyn_ty gs))) with (map dyn_ty gs).
  rewrite (marshal_outs_R R items gs HF). reflexivity.
Qed.

Lemma mar_object R ok items gs : obj_okP ok [] items -> Forall2 (Qn R) items gs ->
  marshal default_opts TAny (GAny (Some (TStruct (dfields gs), GStruct (dvals gs))))
  = Ok (flatten (Comp KObject KObjectEnd items)).
Proof.
  intros Hok HF. rewrite marshal_any, (marshal_unreg _ (TStruct _)) by reflexivity.
  cbn [marshal_body]. change (struct_fs (TStruct (dfields gs))) with (dfields gs).
  rewrite (marshal_fields_R R ok items [] Hok gs HF). reflexivity.
Qed.

Lemma mar_map R ok items gs : map_okP ok None items -> Forall2 (Qn R) items gs ->
  marshal default_opts TAny (GAny (Some (TMap TAny TAny, GMap false (dentries gs))))
  = Ok (flatten (Comp KMap KMapEnd items)).
Proof.
  intros Hok HF. rewrite marshal_any, (marshal_unreg _ (TMap TAny TAny)) by reflexivity.
  cbn [marshal_body]. change (map_kt (TMap TAny TAny)) with TAny. change (map_vt (TMap TAny TAny)) with TAny.
  rewrite (marshal_entries_R R ok items None Hok gs HF). cbn [bind]. unfold map_stream.
  rewrite (sort_chain _ _ (ents_chain_P ok items None Hok I)), (ents_stream_P ok items None Hok). reflexivity.
Qed.

(* ====================================================================================== *)
(* Part 5.  Decoding a value of the extended domain into an untyped target                  *)
(* ====================================================================================== *)

Lemma ident_wf n : is_exported_ident n = true -> wf_bytesb n = true.
Proof.
  assert (Hc : forall c, is_ident_char c = true -> wf_byteb c = true).
  { intros c H. unfold is_ident_char, is_upper in H. unfold wf_byteb. lia. }
  destruct n as [|c r]; [discriminate|]. cbn [is_exported_ident]. intros H.
  apply andb_true_iff in H. destruct H as [Hu Hr]. cbn [wf_bytesb forallb]. apply andb_true_iff. split.
  - unfold is_upper in Hu. unfold wf_byteb. lia.
  - apply forallb_forall. intros c' Hin. apply Hc. rewrite forallb_forall in Hr. apply Hr, Hin.
Qed.

Lemma name_leaf_ok n : is_exported_ident n = true -> leaf_ok (T KString (VStr n)) = true.
Proof.
  intros H. unfold leaf_ok, wf_cmp, wf_token. cbn [kind val wf_val not_nan_payload].
  rewrite (ident_wf n H). reflexivity.
Qed.

Lemma obj_okP_all R : forall items seen, obj_okP (any_ok_reg R) seen items -> allP (any_ok_reg R) items.
Proof.
  intros items. induction items as [|a|a b r IH] using list_ind2; intros seen Hok.
  - exact I.
  - exfalso. exact (obj_okP_one _ _ _ Hok).
  - apply obj_okP_inv in Hok. destruct Hok as (n & -> & Hid & Hseen & Hb & Hnil & Hr).
    split; [exact (name_leaf_ok n Hid)|]. split; [exact Hb|]. exact (IH _ Hr).
Qed.

Lemma map_okP_all R : forall items prev, map_okP (any_ok_reg R) prev items -> allP (any_ok_reg R) items.
Proof.
  intros items. induction items as [|a|a b r IH] using list_ind2; intros prev Hok.
  - exact I.
  - exfalso. exact (map_okP_one _ _ _ Hok).
  - apply map_okP_inv in Hok. destruct Hok as (k & -> & Hk & Hlt & Hb & Hr).
    split; [apply key_ok_inv in Hk; apply Hk|]. split; [exact Hb|]. exact (IH _ Hr).
Qed.

Lemma any_ok_reg_open R ko kc items : any_ok_reg R (Comp ko kc items) -> is_open_kind ko = true.
Proof.
  rewrite any_ok_reg_comp. unfold is_open_kind.
  destruct (ko =? KArray), (ko =? KTuple), (ko =? KObject), (ko =? KMap); intros H; try reflexivity.
  cbn [andb] in H. contradiction H.
Qed.

Lemma any_ok_reg_hd R v : any_ok_reg R v -> okhd v.
Proof.
  destruct v as [t|ko kc items|n w]; intros H.
  - exists t, []. split; [reflexivity|]. apply any_kind_not_end, leaf_ok_kind, H.
  - exists (T ko VNone), (flat_map flatten items ++ [T kc VNone]). split; [reflexivity|].
    cbn [kind]. apply is_open_not_end. eapply any_ok_reg_open, H.
  - exists (T KTypeName (VStr n)), (flatten w). split; reflexivity.
Qed.

Section DecodeR.
Variable pf : bytes -> N -> option N.
Variable o : copts.
Variable R : registry.

(* in front of every [rest] the value decodes to some [g] with the three properties of [Qn], the
   same [g] for every fuel from some bound on *)
Definition node_ok (v : value) : Prop :=
  any_ok_reg R v -> forall rest, exists g B, Qn R v g /\
    forall f, (B <= f)%nat -> unm pf f o R TAny (GAny None) (flatten v ++ rest) = Ok (g, rest).

Lemma items_pick : forall items, Forall node_ok items -> allP (any_ok_reg R) items ->
  forall tail, exists gs B, forall f, (B <= f)%nat -> runs (unm pf f o R) (Qn R) items tail gs.
Proof.
  induction 1 as [|x r Hx _ IH]; intros Hok tail.
  - exists [], O. intros f _. constructor.
  - destruct Hok as [Hox Hor]. destruct (IH Hor tail) as (gs & B1 & Hruns).
    destruct (Hx Hox (flat_map flatten r ++ tail)) as (g & B2 & HQ & Hu).
    exists (g :: gs), (Nat.max B1 B2). intros f Hf. constructor.
    + apply (any_ok_reg_hd R), Hox.
    + exact HQ.
    + apply Hu. lia.
    + apply Hruns. lia.
Qed.

Lemma Qn_parts items gs : Forall2 (Qn R) items gs -> Forall2 (resurrected R) items gs.
Proof. apply Forall2_impl. intros a b H. apply H. Qed.

Theorem any_reg_all : forall v, node_ok v.
Proof.
  induction v as [t|ko kc items IH|n w _] using value_ind2; intros Hok rest.
  - (* leaf *)
    exists (leaf_gval t), 1%nat. split.
    + split; [constructor|]. split; [apply leaf_marshal; exact Hok|].
      intros Hnil. change (any_okb (Leaf t) = true) in Hok.
      destruct (dec_some (Leaf t) Hok Hnil) as (ty0 & y & E). exists ty0, y. exact E.
    + intros f Hf. destruct f as [|f]; [lia|]. cbn [flatten app]. apply leaf_unm. exact Hok.
  - (* composite *)
    rewrite any_ok_reg_comp in Hok.
    pose proof (flat_len items) as Hlen. pose proof (pairs_len items) as Hpl.
    destruct ((ko =? KArray) && (kc =? KArrayEnd)) eqn:E1.
    { apply andb_true_iff in E1. destruct E1 as [E1 E2]. apply N.eqb_eq in E1, E2. subst ko kc.
      destruct (items_pick items IH Hok (T KArrayEnd VNone :: rest)) as (gs & B & Hruns).
      pose proof (runs_Q _ _ _ _ _ (Hruns B (le_n B))) as HF.
      exists (GAny (Some (TSlice TAny, GList (nil_items gs) gs))), (S B). split.
      - split; [constructor; apply Qn_parts, HF|]. split; [apply (mar_array R items gs HF)|].
        intros _. eexists; eexists; reflexivity.
      - intros f Hf. destruct f as [|f]; [lia|].
        cbn [flatten]. cbn [app]. rewrite <- app_assoc. cbn [app].
        rewrite unm_any_array.
        rewrite (slice_loop_R _ _ (Qn_leaf R) (Qn_some R) items _ gs (Hruns f ltac:(lia)) rest eq_refl)
          by (rewrite app_length; cbn [length]; lia).
        cbn [bind fst snd app]. reflexivity. }
    destruct ((ko =? KTuple) && (kc =? KTupleEnd)) eqn:E2.
    { apply andb_true_iff in E2. destruct E2 as [E2 E3]. apply N.eqb_eq in E2, E3. subst ko kc.
      destruct Hok as [Hok H50].
      destruct (items_pick items IH Hok (T KTupleEnd VNone :: rest)) as (gs & B & Hruns).
      pose proof (runs_Q _ _ _ _ _ (Hruns B (le_n B))) as HF.
      exists (GAny (Some (TFunc (map dyn_ty gs), GFunc (Some (map dyn_val gs))))), (S B). split.
      - split; [constructor; apply Qn_parts, HF|]. split; [apply (mar_tuple R items gs HF)|].
        intros _. eexists; eexists; reflexivity.
      - intros f Hf. destruct f as [|f]; [lia|].
        cbn [flatten]. cbn [app]. rewrite <- app_assoc. cbn [app].
        rewrite unm_any_tuple.
        rewrite (tuple_loop_R _ _ (Qn_leaf R) (Qn_some R) items _ gs (Hruns f ltac:(lia)) rest eq_refl)
          by (rewrite app_length; cbn [length]; lia).
        cbn [bind app]. rewrite map_length, <- (Forall2_len _ _ _ HF).
        assert (E : Nat.ltb 50 (length items) = false) by (apply Nat.ltb_ge; exact H50).
        rewrite E. reflexivity. }
    destruct ((ko =? KObject) && (kc =? KObjectEnd)) eqn:E3.
    { apply andb_true_iff in E3. destruct E3 as [E3 E4]. apply N.eqb_eq in E3, E4. subst ko kc.
      destruct (items_pick items IH (obj_okP_all R items [] Hok) (T KObjectEnd VNone :: rest)) as (gs & B & Hruns).
      pose proof (runs_Q _ _ _ _ _ (Hruns B (le_n B))) as HF.
      exists (GAny (Some (TStruct (dfields gs), GStruct (dvals gs)))), (S (S B)). split.
      - split; [constructor; apply Qn_parts, HF|]. split; [apply (mar_object R _ items gs Hok HF)|].
        intros _. eexists; eexists; reflexivity.
      - intros f Hf. destruct f as [|f]; [lia|].
        assert (Hname : forall s cur rest', unm pf f o R TString cur (T KString (VStr s) :: rest') = Ok (GStr s, rest'))
          by (intros; apply name_ok; lia).
        cbn [flatten]. cbn [app]. rewrite <- app_assoc. cbn [app].
        rewrite unm_any_object.
        remember (flat_map flatten items ++ T KObjectEnd VNone :: rest) as X eqn:EX.
        assert (HX : (length (pairs items) <= length X)%nat)
          by (subst X; rewrite app_length; cbn [length]; lia).
        replace (S (length X)) with (length (pairs items) + S (length X - length (pairs items)))%nat by lia.
        subst X.
        rewrite (newstruct_loop_R _ _ (Qn_leaf R) (Qn_some R) Hname _ items [] Hok _ gs (Hruns f ltac:(lia)) _ [] [] eq_refl).
        cbn [newstruct_loop kind app]. reflexivity. }
    destruct ((ko =? KMap) && (kc =? KMapEnd)) eqn:E4; [|contradiction Hok].
    { apply andb_true_iff in E4. destruct E4 as [E4 E5]. apply N.eqb_eq in E4, E5. subst ko kc.
      destruct (items_pick items IH (map_okP_all R items None Hok) (T KMapEnd VNone :: rest)) as (gs & B & Hruns).
      pose proof (runs_Q _ _ _ _ _ (Hruns B (le_n B))) as HF.
      exists (GAny (Some (TMap TAny TAny, GMap false (dentries gs)))), (S B). split.
      - split; [constructor; apply Qn_parts, HF|]. split; [apply (mar_map R _ items gs Hok HF)|].
        intros _. eexists; eexists; reflexivity.
      - intros f Hf. destruct f as [|f]; [lia|].
        cbn [flatten]. cbn [app]. rewrite <- app_assoc. cbn [app].
        rewrite unm_any_map.
        rewrite (genmap_loop_R _ _ (Qn_leaf R) (Qn_some R) _ items None Hok _ gs (Hruns f ltac:(lia)) rest eq_refl _ []).
        + cbn [app]. reflexivity.
        + split; [exact I|]. intros; constructor.
        + rewrite app_length. cbn [length]. lia. }
  - (* a registered value *)
    cbn [any_ok_reg] in Hok. destruct Hok as (t & x & Hreg & Hrn & Hwf & Hok & Hty & Hd & Hm).
    destruct (reg_decode pf o R t n x (flatten w) rest Hreg Hrn Hwf Hok Hty Hd Hm) as (x' & He & Hm' & Hu).
    exists (GAny (Some (t, x'))), (2 * fsz x + length (flatten w) + 3)%nat. split.
    + split; [constructor; assumption|]. split; [rewrite marshal_any; exact Hm'|].
      intros _. exists t, x'. reflexivity.
    + intros f Hf. cbn [flatten app]. apply Hu. exact Hf.
Qed.

End DecodeR.

(* ====================================================================================== *)
(* Part 6.  C11 with registered values at any depth                                         *)
(* ====================================================================================== *)

(* decoding, re-encoding, and the shape of the decoded value, for every sufficient fuel *)
Theorem any_reg_roundtrip_stable pf o R v rest : any_ok_reg R v ->
  exists g, resurrected R v g /\ marshal default_opts TAny g = Ok (flatten v) /\
            exists f0, forall f, (f0 <= f)%nat -> unm pf f o R TAny (GAny None) (flatten v ++ rest) = Ok (g, rest).
Proof.
  intros Hok. destruct (any_reg_all pf o R v Hok rest) as (g & B & (Hr & Hm & _) & Hu).
  exists g. split; [exact Hr|]. split; [exact Hm|]. exists B. exact Hu.
Qed.

Theorem any_reg_roundtrip_resurrected pf o R v rest : any_ok_reg R v ->
  exists f g, unm pf f o R TAny (GAny None) (flatten v ++ rest) = Ok (g, rest) /\
              marshal default_opts TAny g = Ok (flatten v) /\ resurrected R v g.
Proof.
  intros Hok. destruct (any_reg_roundtrip_stable pf o R v rest Hok) as (g & Hr & Hm & f0 & Hu).
  exists f0, g. split; [apply Hu; lia|]. split; assumption.
Qed.

(* the statement of C11 over the extended domain *)
Theorem any_reg_roundtrip pf o R v rest : any_ok_reg R v ->
  exists f g, unm pf f o R TAny (GAny None) (flatten v ++ rest) = Ok (g, rest) /\
              marshal default_opts TAny g = Ok (flatten v).
Proof.
  intros Hok. destruct (any_reg_roundtrip_resurrected pf o R v rest Hok) as (f & g & Hu & Hm & _).
  exists f, g. split; assumption.
Qed.

(* ---- reading [resurrected]: what stands at the positions of the decoded value ---- *)

(* a [Named n w] node: an interface value whose dynamic type is exactly the registered type *)
Theorem resurrected_named R n w g : resurrected R (Named n w) g ->
  exists t x', g = GAny (Some (t, x')) /\ reg_lookup R n = Some t /\ reg_name t = Some n /\
               marshal default_opts t x' = Ok (flatten (Named n w)).
Proof. intros H. inversion H as [| | | | |n0 w0 t x' Hreg Hrn Hm]; subst. exists t, x'. repeat split; assumption. Qed.

Theorem resurrected_array R kc items g : resurrected R (Comp KArray kc items) g ->
  exists gs, g = GAny (Some (TSlice TAny, GList (nil_items gs) gs)) /\ Forall2 (resurrected R) items gs.
Proof. intros H. inversion H; subst. eexists. split; [reflexivity|assumption]. Qed.

Theorem resurrected_tuple R kc items g : resurrected R (Comp KTuple kc items) g ->
  exists gs, g = GAny (Some (TFunc (map dyn_ty gs), GFunc (Some (map dyn_val gs)))) /\
             Forall2 (resurrected R) items gs.
Proof. intros H. inversion H; subst. eexists. split; [reflexivity|assumption]. Qed.

Theorem resurrected_object R kc items g : resurrected R (Comp KObject kc items) g ->
  exists gs, g = GAny (Some (TStruct (dfields gs), GStruct (dvals gs))) /\ Forall2 (resurrected R) items gs.
Proof. intros H. inversion H; subst. eexists. split; [reflexivity|assumption]. Qed.

Theorem resurrected_map R kc items g : resurrected R (Comp KMap kc items) g ->
  exists gs, g = GAny (Some (TMap TAny TAny, GMap false (dentries gs))) /\ Forall2 (resurrected R) items gs.
Proof. intros H. inversion H; subst. eexists. split; [reflexivity|assumption]. Qed.

Lemma Forall2_nth_error {A B} (P : A -> B -> Prop) : forall l1 l2, Forall2 P l1 l2 ->
  forall i a, nth_error l1 i = Some a -> exists b, nth_error l2 i = Some b /\ P a b.
Proof.
  induction 1 as [|x y l1 l2 Hxy _ IH]; intros i a Hi; [destruct i; discriminate Hi|].
  destruct i as [|i]; cbn [nth_error] in Hi |- *.
  - injection Hi as <-. exists y. split; [reflexivity|exact Hxy].
  - apply IH, Hi.
Qed.

(* item i of an array is a registered value: element i of the decoded []any holds that type;
   field i of an object: the dynamic struct type declares the field with that type; value of a
   map entry, result i of a tuple: likewise ([dfields], [dentries], [dyn_ty] of Proofs/AnyP.v
   read the dynamic type off the item's decoded value) *)
Corollary resurrected_array_item R kc items g i n w :
  resurrected R (Comp KArray kc items) g -> nth_error items i = Some (Named n w) ->
  exists gs t x', g = GAny (Some (TSlice TAny, GList (nil_items gs) gs)) /\
                  nth_error gs i = Some (GAny (Some (t, x'))) /\ reg_lookup R n = Some t /\
                  marshal default_opts t x' = Ok (flatten (Named n w)).
Proof.
  intros H Hi. destruct (resurrected_array R kc items g H) as (gs & -> & HF).
  destruct (Forall2_nth_error _ _ _ HF i _ Hi) as (b & Hb & Hr).
  destruct (resurrected_named R n w b Hr) as (t & x' & -> & Hreg & _ & Hm).
  exists gs, t, x'. repeat split; assumption.
Qed.

Corollary resurrected_tuple_item R kc items g i n w :
  resurrected R (Comp KTuple kc items) g -> nth_error items i = Some (Named n w) ->
  exists tys vals t x', g = GAny (Some (TFunc tys, GFunc (Some vals))) /\
                        nth_error tys i = Some t /\ nth_error vals i = Some x' /\ reg_lookup R n = Some t /\
                        marshal default_opts t x' = Ok (flatten (Named n w)).
Proof.
  intros H Hi. destruct (resurrected_tuple R kc items g H) as (gs & -> & HF).
  destruct (Forall2_nth_error _ _ _ HF i _ Hi) as (b & Hb & Hr).
  destruct (resurrected_named R n w b Hr) as (t & x' & -> & Hreg & _ & Hm).
  exists (map dyn_ty gs), (map dyn_val gs), t, x'. split; [reflexivity|].
  split; [rewrite nth_error_map, Hb; reflexivity|]. split; [rewrite nth_error_map, Hb; reflexivity|].
  split; assumption.
Qed.

Lemma Forall2_pairs {A B} (P : A -> B -> Prop) : forall l1 l2, Forall2 P l1 l2 ->
  Forall2 (fun a b => P (fst a) (fst b) /\ P (snd a) (snd b)) (pairs l1) (pairs l2).
Proof.
  intros l1. induction l1 as [|a|a b r IH] using list_ind2; intros l2 H.
  - inversion H; subst. constructor.
  - inversion H as [|x y l l' Hxy Hl]; subst. inversion Hl; subst. constructor.
  - inversion H as [|x y l l' Hxy Hl]; subst. inversion Hl as [|x2 y2 l2' l2'' Hxy2 Hl2]; subst.
    cbn [pairs]. constructor; [split; assumption|apply IH, Hl2].
Qed.

(* field i of an object holds a registered value: the dynamic struct type declares field i with
   exactly the registered type, and the struct value holds a value of it *)
Corollary resurrected_object_field R kc items g i nm n w :
  resurrected R (Comp KObject kc items) g -> nth_error (pairs items) i = Some (Leaf nm, Named n w) ->
  exists fs vals t x', g = GAny (Some (TStruct fs, GStruct vals)) /\
                       nth_error fs i = Some (gname (leaf_gval nm), true, t) /\ nth_error vals i = Some x' /\
                       reg_lookup R n = Some t /\ marshal default_opts t x' = Ok (flatten (Named n w)).
Proof.
  intros H Hi. destruct (resurrected_object R kc items g H) as (gs & -> & HF).
  destruct (Forall2_nth_error _ _ _ (Forall2_pairs _ _ _ HF) i _ Hi) as ([bk bv] & Hb & Hk & Hv).
  cbn [fst snd] in Hk, Hv. apply resurrected_leaf in Hk. subst bk.
  destruct (resurrected_named R n w bv Hv) as (t & x' & -> & Hreg & _ & Hm).
  exists (dfields gs), (dvals gs), t, x'. split; [reflexivity|].
  unfold dfields, dvals. rewrite !nth_error_map, Hb. repeat split; assumption.
Qed.

(* the value of entry i of a map is a registered value *)
Corollary resurrected_map_value R kc items g i k n w :
  resurrected R (Comp KMap kc items) g -> nth_error (pairs items) i = Some (Leaf k, Named n w) ->
  exists es t x', g = GAny (Some (TMap TAny TAny, GMap false es)) /\
                  nth_error es i = Some (key_gval k, GAny (Some (t, x'))) /\
                  reg_lookup R n = Some t /\ marshal default_opts t x' = Ok (flatten (Named n w)).
Proof.
  intros H Hi. destruct (resurrected_map R kc items g H) as (gs & -> & HF).
  destruct (Forall2_nth_error _ _ _ (Forall2_pairs _ _ _ HF) i _ Hi) as ([bk bv] & Hb & Hk & Hv).
  cbn [fst snd] in Hk, Hv. apply resurrected_leaf in Hk. subst bk.
  destruct (resurrected_named R n w bv Hv) as (t & x' & -> & Hreg & _ & Hm).
  exists (dentries gs), t, x'. split; [reflexivity|].
  unfold dentries. rewrite nth_error_map, Hb. repeat split; assumption.
Qed.

(* ---- the extended domain contains the domain of Proofs/AnyP.v ---- *)
Lemma allP_of_forallb R : forall items, Forall (fun x => any_okb x = true -> any_ok_reg R x) items ->
  forallb any_okb items = true -> allP (any_ok_reg R) items.
Proof.
  induction 1 as [|x l Hx _ IH]; intros Hok; [exact I|].
  cbn [forallb] in Hok. apply andb_true_iff in Hok. destruct Hok as [Hox Hol]. split; [apply Hx, Hox|apply IH, Hol].
Qed.

Lemma obj_okP_of_obj_ok R : forall items, Forall (fun x => any_okb x = true -> any_ok_reg R x) items ->
  forall seen, obj_ok any_okb seen items = true -> obj_okP (any_ok_reg R) seen items.
Proof.
  intros items. induction items as [|a|a b r IH] using list_ind2; intros HF seen Hok.
  - exact I.
  - rewrite obj_ok_one in Hok. discriminate Hok.
  - apply obj_ok_inv in Hok. destruct Hok as (n & -> & Hid & Hseen & Hb & Hnil & Hr).
    pose proof (Forall_inv (Forall_inv_tail HF)) as Hbok.
    pose proof (Forall_inv_tail (Forall_inv_tail HF)) as HFr.
    cbn [obj_okP]. repeat split; try assumption; [apply Hbok, Hb|apply (IH HFr _ Hr)].
Qed.

Lemma map_okP_of_map_ok R : forall items, Forall (fun x => any_okb x = true -> any_ok_reg R x) items ->
  forall prev, map_ok any_okb prev items = true -> map_okP (any_ok_reg R) prev items.
Proof.
  intros items. induction items as [|a|a b r IH] using list_ind2; intros HF prev Hok.
  - exact I.
  - rewrite map_ok_one in Hok. discriminate Hok.
  - apply map_ok_inv in Hok. destruct Hok as (k & -> & Hk & Hlt & Hb & Hr).
    pose proof (Forall_inv (Forall_inv_tail HF)) as Hbok.
    pose proof (Forall_inv_tail (Forall_inv_tail HF)) as HFr.
    cbn [map_okP]. repeat split; try assumption; [apply Hbok, Hb|apply (IH HFr _ Hr)].
Qed.

Theorem any_ok_reg_of_any_ok R v : any_ok R v -> any_ok_reg R v.
Proof.
  unfold any_ok. induction v as [t|ko kc items IH|n w _] using value_ind2; intros Hok.
  - exact Hok.
  - rewrite any_okb_comp in Hok. rewrite any_ok_reg_comp.
    destruct ((ko =? KArray) && (kc =? KArrayEnd)); [apply (allP_of_forallb R items IH Hok)|].
    destruct ((ko =? KTuple) && (kc =? KTupleEnd)).
    { apply andb_true_iff in Hok. destruct Hok as [Hok H50]. split; [apply (allP_of_forallb R items IH Hok)|].
      apply Nat.leb_le, H50. }
    destruct ((ko =? KObject) && (kc =? KObjectEnd)); [apply (obj_okP_of_obj_ok R items IH [] Hok)|].
    destruct ((ko =? KMap) && (kc =? KMapEnd)); [apply (map_okP_of_map_ok R items IH None Hok)|discriminate Hok].
  - discriminate Hok.
Qed.

(* ====================================================================================== *)
(* Part 7.  Examples                                                                        *)
(* ====================================================================================== *)

(* type R1 struct { X int; Y any }, registered *)
Definition R1 : ty := TNamed [82; 49] true [] (TStruct [([88], true, TInt WNat); ([89], true, TAny)]).
Definition RegR1 : registry := [([82; 49], R1)].
Definition r1 (a : Z) (y : gval) : gval := GAny (Some (R1, GStruct [GInt a; y])).

(* []any{R1{1, "s"}, 5, R1{2, R1{3, nil}}} *)
Definition ex_reg_g : gval :=
  GAny (Some (TSlice TAny,
              GList false [r1 1 (GAny (Some (TString, GStr [115])));
                           GAny (Some (TInt WNat, GInt 5));
                           r1 2 (r1 3 (GAny None))])).
Definition ex_reg_ts : list token :=
  Eval vm_compute in match marshal default_opts TAny ex_reg_g with Ok ts => ts | _ => [] end.

(* its stream as a token tree: three items, two of them [Named] nodes, the last one with a
   [Named] node inside its own (typed) stream *)
Definition lX : value := Leaf (T KString (VStr [88])).
Definition lY : value := Leaf (T KString (VStr [89])).
Definition lI (z : Z) : value := Leaf (T KInt (VI WNat z)).
Definition ex_reg_v : value :=
  Comp KArray KArrayEnd
    [Named [82; 49] (Comp KObject KObjectEnd [lX; lI 1; lY; Leaf (T KString (VStr [115]))]);
     lI 5;
     Named [82; 49] (Comp KObject KObjectEnd
                       [lX; lI 2; lY; Named [82; 49] (Comp KObject KObjectEnd [lX; lI 3; lY; Leaf (T KNil VNone)])])].

Example ex_reg_stream :
  marshal default_opts TAny ex_reg_g = Ok ex_reg_ts /\ flatten ex_reg_v = ex_reg_ts /\ length ex_reg_ts = 23%nat.
Proof. split; [|split]; vm_compute; reflexivity. Qed.

(* the hypotheses of any_registered_resurrects hold of the first item ... *)
Example any_registered_resurrects_ex_hyps :
  let x := GStruct [GInt 1; GAny (Some (TString, GStr [115]))] in
  reg_lookup RegR1 [82; 49] = Some R1 /\ wf_ty R1 = true /\ ty_ok R1 = true /\ has_type R1 x = true /\
  dom RegR1 R1 x /\
  marshal default_opts R1 x =
    Ok [T KTypeName (VStr [82; 49]); T KObject VNone; T KString (VStr [88]); T KInt (VI WNat 1);
        T KString (VStr [89]); T KString (VStr [115]); T KObjectEnd VNone].
Proof.
  cbv zeta. split; [reflexivity|]. split; [reflexivity|]. split; [reflexivity|]. split; [vm_compute; reflexivity|].
  split; [|vm_compute; reflexivity]. vm_compute. repeat first [split | intros _]; reflexivity.
Qed.

(* ... and its conclusion, computed: the untyped target holds a value of type R1 *)
Example any_registered_resurrects_ex_run :
  let x := GStruct [GInt 1; GAny (Some (TString, GStr [115]))] in
  forall ts, marshal default_opts R1 x = Ok ts ->
  unm pf0 30 (Opts false true false) RegR1 TAny (GAny None) (ts ++ [T KBool (VBool true)])
    = Ok (GAny (Some (R1, x)), [T KBool (VBool true)]) /\
  marshal default_opts TAny (GAny (Some (R1, x))) = Ok ts.
Proof.
  cbv zeta. intros ts Hm.
  destruct any_registered_resurrects_ex_hyps as (_ & _ & _ & _ & _ & Hm0). cbv zeta in Hm0.
  rewrite Hm0 in Hm. injection Hm as <-. split; vm_compute; reflexivity.
Qed.

(* the hypothesis of any_reg_roundtrip holds of the whole stream *)
Example ex_reg_ok : any_ok_reg RegR1 ex_reg_v.
Proof.
  cbn [any_ok_reg ex_reg_v allP]. change ((KArray =? KArray) && (KArrayEnd =? KArrayEnd)) with true. cbv iota.
  cbn [allP any_ok_reg lI]. split; [|split; [reflexivity|split; [|exact I]]].
  - exists R1, (GStruct [GInt 1; GAny (Some (TString, GStr [115]))]).
    split; [reflexivity|]. split; [reflexivity|]. split; [reflexivity|]. split; [reflexivity|].
    split; [vm_compute; reflexivity|]. split; [|vm_compute; reflexivity].
    vm_compute. repeat first [split | intros _]; reflexivity.
  - exists R1, (GStruct [GInt 2; r1 3 (GAny None)]).
    split; [reflexivity|]. split; [reflexivity|]. split; [reflexivity|]. split; [reflexivity|].
    split; [vm_compute; reflexivity|]. split; [|vm_compute; reflexivity].
    vm_compute. repeat first [split | intros _]; reflexivity.
Qed.

(* decoding it: values of type R1 at the three positions (item 0, item 2, and field Y of item 2),
   and the identical stream again *)
Example ex_reg_run :
  unm pf0 100 default_opts RegR1 TAny (GAny None) (ex_reg_ts ++ [T KBool (VBool true)])
    = Ok (ex_reg_g, [T KBool (VBool true)]) /\
  marshal default_opts TAny ex_reg_g = Ok ex_reg_ts /\
  resurrected RegR1 ex_reg_v ex_reg_g /\
  (exists x0 x2 x2y,
     ex_reg_g = GAny (Some (TSlice TAny, GList false [GAny (Some (R1, x0)); GAny (Some (TInt WNat, GInt 5)); GAny (Some (R1, x2))])) /\
     x2 = GStruct [GInt 2; GAny (Some (R1, x2y))]).
Proof.
  split; [vm_compute; reflexivity|]. split; [vm_compute; reflexivity|]. split.
  - apply (RS_array RegR1 _ [r1 1 (GAny (Some (TString, GStr [115]))); GAny (Some (TInt WNat, GInt 5)); r1 2 (r1 3 (GAny None))]).
    constructor; [|constructor; [|constructor; [|constructor]]].
    + apply RS_named; [reflexivity|reflexivity|vm_compute; reflexivity].
    + exact (RS_leaf RegR1 (T KInt (VI WNat 5))).
    + apply RS_named; [reflexivity|reflexivity|vm_compute; reflexivity].
  - eexists; eexists; eexists. split; reflexivity.
Qed.

(* the theorems applied to it *)
Example ex_reg_thm : forall pf o rest,
  exists f g, unm pf f o RegR1 TAny (GAny None) (ex_reg_ts ++ rest) = Ok (g, rest) /\
              marshal default_opts TAny g = Ok ex_reg_ts /\
              exists gs t0 x0 t2 x2, g = GAny (Some (TSlice TAny, GList false gs)) /\
                nth_error gs 0 = Some (GAny (Some (t0, x0))) /\ t0 = R1 /\
                nth_error gs 2 = Some (GAny (Some (t2, x2))) /\ t2 = R1.
Proof.
  intros pf o rest.
  destruct (any_reg_roundtrip_resurrected pf o RegR1 ex_reg_v rest ex_reg_ok) as (f & g & Hu & Hm & Hr).
  destruct ex_reg_stream as (_ & Efl & _). rewrite Efl in Hu, Hm.
  exists f, g. split; [exact Hu|]. split; [exact Hm|].
  destruct (resurrected_array_item RegR1 _ _ g 0 _ _ Hr eq_refl) as (gs & t0 & x0 & Eg & H0 & Hreg0 & _).
  destruct (resurrected_array_item RegR1 _ _ g 2 _ _ Hr eq_refl) as (gs' & t2 & x2 & Eg' & H2 & Hreg2 & _).
  rewrite Eg in Eg'. injection Eg' as _ <-.
  injection Hreg0 as <-. injection Hreg2 as <-.
  exists gs, R1, x0, R1, x2. split; [|repeat split; assumption].
  rewrite Eg. destruct gs; [discriminate H0|reflexivity].
Qed.

(* without the registration the same stream is not decoded at all: the names are dropped, and the
   innermost R1{3, nil} then reads as an object with a Nil field *)
Example ex_reg_unregistered :
  unm pf0 100 default_opts [] TAny (GAny None) ex_reg_ts = Err EEnd /\
  unm pf0 100 default_opts [] TAny (GAny None) [T KTypeName (VStr [82; 49]); T KInt (VI WNat 5)]
    = Ok (GAny (Some (TInt WNat, GInt 5)), []).
Proof. split; vm_compute; reflexivity. Qed.

(* outside the proved domain, on an example: a registered value as a map KEY also comes back at
   its type and marshals identically (type K int, registered) *)
Definition K1 : ty := TNamed [75] true [] (TInt WNat).
Example ex_reg_key :
  let g := GAny (Some (TMap TAny TAny, GMap false [(GAny (Some (K1, GInt 1)), GAny (Some (TString, GStr [97])));
                                                  (GAny (Some (K1, GInt 2)), GAny None)])) in
  let ts := [T KMap VNone; T KTypeName (VStr [75]); T KInt (VI WNat 1); T KString (VStr [97]);
             T KTypeName (VStr [75]); T KInt (VI WNat 2); T KNil VNone; T KMapEnd VNone] in
  marshal default_opts TAny g = Ok ts /\
  unm pf0 100 default_opts [([75], K1)] TAny (GAny None) ts = Ok (g, []).
Proof. split; vm_compute; reflexivity. Qed.

(* outside the proved domain, on an example: a registered defined type over a pointer to an
   interface (excluded by [ty_ok]) also comes back at its type when the target is untyped *)
Definition P1 : ty := TNamed [80] true [] (TPtr TAny).
Example ex_reg_ptr_any :
  let g := GAny (Some (P1, GPtr (Some (r1 7 (GAny None))))) in
  let ts := [T KTypeName (VStr [80]); T KTypeName (VStr [82; 49]); T KObject VNone; T KString (VStr [88]);
             T KInt (VI WNat 7); T KString (VStr [89]); T KNil VNone; T KObjectEnd VNone] in
  ty_ok P1 = false /\ marshal default_opts TAny g = Ok ts /\
  unm pf0 100 default_opts (([80], P1) :: RegR1) TAny (GAny None) ts = Ok (g, []).
Proof. cbv zeta. split; [reflexivity|]. split; vm_compute; reflexivity. Qed.

Definition AnyRegP_main_theorems :=
  (any_registered_resurrects, any_registered_resurrects_fuel, any_registered_resurrects_stable,
   any_unregistered_name_not_resurrected, any_unregistered_name_lost,
   any_reg_roundtrip, any_reg_roundtrip_resurrected, any_reg_roundtrip_stable,
   resurrected_named, resurrected_array, resurrected_tuple, resurrected_object, resurrected_map,
   resurrected_array_item, resurrected_tuple_item, resurrected_object_field, resurrected_map_value,
   any_ok_reg_of_any_ok).
Print Assumptions AnyRegP_main_theorems.
