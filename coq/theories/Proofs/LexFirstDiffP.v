(* Proofs/LexFirstDiffP.v — "lexicographically, token by token" said in full (C06): the
   order of two streams is decided by their FIRST differing position and by nothing after
   it.  Every pair of streams splits into a pairwise-same prefix and two rests; the rests
   are both empty (Eq), one is empty (the shorter stream sorts first), or their heads
   differ and the answer is the order of those two heads, whatever follows. *)
From Coq Require Import List NArith ZArith Bool.
From SbModel Require Import Base.Bytes Base.Tokens Base.Floats Model.Compare.
From SbModel Require Import Spec.LexOrder Proofs.CompareP.
Import ListNotations.
Local Open Scope N_scope.

(* a pairwise-same prefix does not take part in the decision *)
Theorem lex_same_prefix p q a b : Forall2 tok_same p q -> lex (p ++ a) (q ++ b) = lex a b.
Proof.
  intros H. induction H as [|x y p q Hxy _ IH]; cbn [app lex]; [reflexivity|].
  unfold tok_same in Hxy. rewrite Hxy. exact IH.
Qed.

(* the first differing pair decides; the tails are irrelevant *)
Theorem lex_first_difference p q x y a b :
  Forall2 tok_same p q -> tok_ord x y <> Eq -> lex (p ++ x :: a) (q ++ y :: b) = tok_ord x y.
Proof.
  intros H Hxy. rewrite (lex_same_prefix p q (x :: a) (y :: b) H). cbn [lex].
  destruct (tok_ord x y); [contradiction | reflexivity | reflexivity].
Qed.

(* the four ways two streams can relate, and the answer in each *)
Inductive lex_split (a b : list token) : comparison -> Prop :=
| LSboth p q : a = p -> b = q -> Forall2 tok_same p q -> lex_split a b Eq
| LSleft p q y b' : a = p -> b = q ++ y :: b' -> Forall2 tok_same p q -> lex_split a b Lt
| LSright p q x a' : a = p ++ x :: a' -> b = q -> Forall2 tok_same p q -> lex_split a b Gt
| LSdiff p q x y a' b' : a = p ++ x :: a' -> b = q ++ y :: b' -> Forall2 tok_same p q ->
    tok_ord x y <> Eq -> lex_split a b (tok_ord x y).

(* every pair of streams splits, and lex returns the split's answer *)
Theorem lex_decomposition a : forall b, lex_split a b (lex a b).
Proof.
  induction a as [|x a IH]; intros [|y b]; cbn [lex].
  - apply (LSboth [] [] [] []); constructor.
  - apply (LSleft [] (y :: b) [] [] y b); try reflexivity. constructor.
  - apply (LSright (x :: a) [] [] [] x a); try reflexivity. constructor.
  - destruct (tok_ord x y) eqn:Hxy.
    + destruct (IH b) as [p q Ha Hb Hpq | p q y' b' Ha Hb Hpq | p q x' a' Ha Hb Hpq
                         | p q x' y' a' b' Ha Hb Hpq Hd].
      * apply (LSboth _ _ (x :: p) (y :: q)); [now rewrite Ha | now rewrite Hb |].
        constructor; assumption.
      * apply (LSleft _ _ (x :: p) (y :: q) y' b'); [now rewrite Ha | now rewrite Hb |].
        constructor; assumption.
      * apply (LSright _ _ (x :: p) (y :: q) x' a'); [now rewrite Ha | now rewrite Hb |].
        constructor; assumption.
      * apply (LSdiff _ _ (x :: p) (y :: q) x' y' a' b'); [now rewrite Ha | now rewrite Hb | | exact Hd].
        constructor; assumption.
    + rewrite <- Hxy. apply (LSdiff _ _ [] [] x y a b); try reflexivity; [constructor|].
      rewrite Hxy. discriminate.
    + rewrite <- Hxy. apply (LSdiff _ _ [] [] x y a b); try reflexivity; [constructor|].
      rewrite Hxy. discriminate.
Qed.

(* the split determines the answer: a relation, read as a function *)
Theorem lex_split_sound a b c : lex_split a b c -> lex a b = c.
Proof.
  intros [p q Ha Hb H | p q y b' Ha Hb H | p q x a' Ha Hb H | p q x y a' b' Ha Hb H Hd]; subst.
  - apply lex_eq_iff. exact H.
  - rewrite <- (app_nil_r p). rewrite (lex_same_prefix p q [] (y :: b') H). reflexivity.
  - rewrite <- (app_nil_r q). rewrite (lex_same_prefix p q (x :: a') [] H). reflexivity.
  - apply lex_first_difference; assumption.
Qed.

(* what comes after the first difference never matters — for the implementation's mirror too *)
Theorem cmp_tokens_first_difference p q x y a b a2 b2 :
  Forall (fun t => wf_cmp t = true) (p ++ x :: a) -> Forall (fun t => wf_cmp t = true) (q ++ y :: b) ->
  Forall (fun t => wf_cmp t = true) (p ++ x :: a2) -> Forall (fun t => wf_cmp t = true) (q ++ y :: b2) ->
  Forall2 tok_same p q -> tok_ord x y <> Eq ->
  cmp_tokens (p ++ x :: a) (q ++ y :: b) = Some (tok_ord x y) /\
  cmp_tokens (p ++ x :: a2) (q ++ y :: b2) = cmp_tokens (p ++ x :: a) (q ++ y :: b).
Proof.
  intros W1 W2 W3 W4 H Hd.
  rewrite (cmp_is_lex _ _ W1 W2), (cmp_is_lex _ _ W3 W4).
  rewrite !lex_first_difference by assumption. split; reflexivity.
Qed.

(* non-vacuity: +0 and -0 in front, the decision is taken by the tokens behind them *)
Example first_difference_behind_signed_zero :
  let z0 := T KFloat64 (VF64 0) in let z1 := T KFloat64 (VF64 9223372036854775808) in
  let one := T KInt (VI WNat 1%Z) in let two := T KInt (VI WNat 2%Z) in
  Forall2 tok_same [z0] [z1] /\ tok_ord one two = Lt /\
  cmp_tokens ([z0] ++ one :: [two]) ([z1] ++ two :: []) = Some Lt.
Proof. repeat split. constructor; [reflexivity | constructor]. Qed.

Print Assumptions lex_decomposition.
Print Assumptions lex_split_sound.
Print Assumptions cmp_tokens_first_difference.
