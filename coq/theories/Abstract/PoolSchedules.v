(* Abstract/PoolSchedules.v — pr3.Pool as used by sb (pool.go, hash.go, tree_hash.go, decode.go): Get = CAS(refs[i],0,1)
   on a scheduler-chosen slot, up to 16 tries, then a private fallback element; use = write then read the scratch
   buffer; Put = refs[i] := 0.  An interleaving transition system over arbitrary schedules.  Theorems: the 5-part
   exclusivity invariant is preserved by every step; every recorded result is the one the thread would obtain alone. *)
From Coq Require Import List Arith Lia Bool.
Import ListNotations.

(* pr3.Pool protocol as used by sb: Get = CAS(refs[i],0,1) on a scheduler-chosen slot, up to 16 tries,
   then a private fallback element; use = write then read the scratch buffer; Put = refs[i] := 0 *)
Definition tid := nat.
Definition data := nat.

Inductive where_ := Slot (i : nat) | Priv.
Inductive tstate :=
| Idle (tries : nat) (todo : list data)          (* next op's payload is the head of todo *)
| Hold (w : where_) (d : data) (todo : list data)
| Written (w : where_) (d : data) (todo : list data)
| ReadDone (w : where_) (todo : list data)
| Finished.

Record sys := {
  refs : nat -> nat;            (* pool slots: 0 free / 1 taken *)
  buf : nat -> data;            (* shared scratch buffers, one per slot *)
  priv : tid -> data;           (* per-thread fallback element *)
  th : tid -> tstate;
  results : list (tid * data * data)   (* (thread, expected, obtained) *)
}.

Definition upd {A} (f : nat -> A) (k : nat) (v : A) : nat -> A := fun x => if Nat.eqb x k then v else f x.

(* one atomic step of thread t; [choice] is the slot index fastrand picked *)
Definition step (s : sys) (t : tid) (choice : nat) : sys :=
  match th s t with
  | Idle tries [] => {| refs := refs s; buf := buf s; priv := priv s; th := upd (th s) t Finished; results := results s |}
  | Idle tries (d :: todo) =>
      if Nat.leb 16 tries then
        {| refs := refs s; buf := buf s; priv := priv s; th := upd (th s) t (Hold Priv d todo); results := results s |}
      else if Nat.eqb (refs s choice) 0 then
        {| refs := upd (refs s) choice 1; buf := buf s; priv := priv s; th := upd (th s) t (Hold (Slot choice) d todo); results := results s |}
      else
        {| refs := refs s; buf := buf s; priv := priv s; th := upd (th s) t (Idle (S tries) (d :: todo)); results := results s |}
  | Hold (Slot i) d todo =>
      {| refs := refs s; buf := upd (buf s) i d; priv := priv s; th := upd (th s) t (Written (Slot i) d todo); results := results s |}
  | Hold Priv d todo =>
      {| refs := refs s; buf := buf s; priv := upd (priv s) t d; th := upd (th s) t (Written Priv d todo); results := results s |}
  | Written (Slot i) d todo =>
      {| refs := refs s; buf := buf s; priv := priv s; th := upd (th s) t (ReadDone (Slot i) todo); results := (t, d, buf s i) :: results s |}
  | Written Priv d todo =>
      {| refs := refs s; buf := buf s; priv := priv s; th := upd (th s) t (ReadDone Priv todo); results := (t, d, priv s t) :: results s |}
  | ReadDone (Slot i) todo =>
      {| refs := upd (refs s) i 0; buf := buf s; priv := priv s; th := upd (th s) t (Idle 0 todo); results := results s |}
  | ReadDone Priv todo =>
      {| refs := refs s; buf := buf s; priv := priv s; th := upd (th s) t (Idle 0 todo); results := results s |}
  | Finished => s
  end.

Definition run (s : sys) (sched : list (tid * nat)) : sys :=
  fold_left (fun s e => step s (fst e) (snd e)) sched s.

Definition holds (st : tstate) (i : nat) : Prop :=
  match st with
  | Hold (Slot j) _ _ | Written (Slot j) _ _ | ReadDone (Slot j) _ => j = i
  | _ => False
  end.

Definition Inv (s : sys) : Prop :=
  (forall t1 t2 i, holds (th s t1) i -> holds (th s t2) i -> t1 = t2) /\
  (forall t i, holds (th s t) i -> refs s i = 1) /\
  (forall t i d todo, th s t = Written (Slot i) d todo -> buf s i = d) /\
  (forall t d todo, th s t = Written Priv d todo -> priv s t = d) /\
  (forall t e r, In (t, e, r) (results s) -> r = e).

Lemma upd_same {A} (f : nat -> A) k v : upd f k v k = v.
Proof. unfold upd. now rewrite Nat.eqb_refl. Qed.
Lemma upd_other {A} (f : nat -> A) k v x : x <> k -> upd f k v x = f x.
Proof. unfold upd. intros H. destruct (Nat.eqb_spec x k); [contradiction|reflexivity]. Qed.

Ltac upd_simpl :=
  repeat match goal with
  | H : context[upd _ ?k _ ?k] |- _ => rewrite upd_same in H
  | |- context[upd _ ?k _ ?k] => rewrite upd_same
  | Hn : ?x <> ?k, H : context[upd _ ?k _ ?x] |- _ => rewrite (upd_other _ k _ x Hn) in H
  | Hn : ?x <> ?k |- context[upd _ ?k _ ?x] => rewrite (upd_other _ k _ x Hn)
  end.
Ltac upd_cases t' t := destruct (Nat.eq_dec t' t) as [->|?]; upd_simpl.

Theorem step_inv s t c : Inv s -> Inv (step s t c).
Proof.
  intros (Hex & Href & Hbuf & Hpriv & Hres). unfold step.
  destruct (th s t) as [tries [|d todo]|[i|] d todo|[i|] d todo|[i|] todo|] eqn:Et; cbn [refs buf priv th results].
  - (* no more ops *)
    repeat split; intros; cbn [refs buf priv th results] in *.
    + upd_cases t1 t; upd_cases t2 t; cbn in *; try contradiction; eauto.
    + upd_cases t0 t; cbn in *; try contradiction; eauto.
    + upd_cases t0 t; try discriminate; eauto.
    + upd_cases t0 t; try discriminate; eauto.
    + eauto.
  - destruct (Nat.leb 16 tries); [|destruct (Nat.eqb_spec (refs s c) 0) as [Hfree|Hbusy]]; cbn [refs buf priv th results].
    + repeat split; intros; cbn [refs buf priv th results] in *.
      * upd_cases t1 t; upd_cases t2 t; cbn in *; try contradiction; eauto.
      * upd_cases t0 t; cbn in *; try contradiction; eauto.
      * upd_cases t0 t; try discriminate; eauto.
      * upd_cases t0 t; try discriminate; eauto.
      * eauto.
    + (* CAS succeeds on a free slot: nobody held it *)
      assert (Hnobody : forall t', ~ holds (th s t') c) by (intros t' Hh; apply Href in Hh; lia).
      repeat split; intros; cbn [refs buf priv th results] in *.
      * upd_cases t1 t; upd_cases t2 t; cbn in *; subst; try reflexivity; try (exfalso; eapply Hnobody; eassumption); eauto.
      * upd_cases t0 t; cbn in *; subst.
        -- first [reflexivity|apply upd_same].
        -- destruct (Nat.eq_dec i c) as [->|?]; [exfalso; eapply Hnobody; eassumption|]. rewrite upd_other by assumption. eauto.
      * upd_cases t0 t; try discriminate; eauto.
      * upd_cases t0 t; try discriminate; eauto.
      * eauto.
    + repeat split; intros; cbn [refs buf priv th results] in *.
      * upd_cases t1 t; upd_cases t2 t; cbn in *; try contradiction; eauto.
      * upd_cases t0 t; cbn in *; try contradiction; eauto.
      * upd_cases t0 t; try discriminate; eauto.
      * upd_cases t0 t; try discriminate; eauto.
      * eauto.
  - (* write into held slot i *)
    assert (Hmine : holds (th s t) i) by (rewrite Et; reflexivity).
    repeat split; intros; cbn [refs buf priv th results] in *.
    + upd_cases t1 t; upd_cases t2 t; cbn in *; subst; try reflexivity.
      * symmetry. eapply Hex; [|exact Hmine]. assumption.
      * eapply Hex; [|exact Hmine]. assumption.
      * eauto.
    + upd_cases t0 t; cbn in *; subst; eauto.
    + upd_cases t0 t.
      * injection H as -> -> ->. first [reflexivity|apply upd_same].
      * destruct (Nat.eq_dec i0 i) as [->|?].
        -- exfalso. assert (t0 = t); [|contradiction]. eapply Hex; [|exact Hmine]. rewrite H. reflexivity.
        -- rewrite ?upd_other by assumption. eauto.
    + upd_cases t0 t; try discriminate; eauto.
    + eauto.
  - (* write into private element *)
    repeat split; intros; cbn [refs buf priv th results] in *.
    + upd_cases t1 t; upd_cases t2 t; cbn in *; try contradiction; eauto.
    + upd_cases t0 t; cbn in *; try contradiction; eauto.
    + upd_cases t0 t; try discriminate; eauto.
    + upd_cases t0 t.
      * injection H as -> ->. first [reflexivity|apply upd_same].
      * rewrite ?upd_other by assumption. eauto.
    + eauto.
  - (* read from held slot *)
    repeat split; intros; cbn [refs buf priv th results] in *.
    + upd_cases t1 t; upd_cases t2 t; cbn in *; subst; try reflexivity.
      * symmetry. eapply Hex; [eassumption|rewrite Et; reflexivity].
      * eapply Hex; [eassumption|rewrite Et; reflexivity].
      * eauto.
    + upd_cases t0 t; cbn in *; subst; eauto. eapply Href. rewrite Et. reflexivity.
    + upd_cases t0 t; try discriminate; eauto.
    + upd_cases t0 t; try discriminate; eauto.
    + destruct H as [[= <- <- <-]|H]; [eapply Hbuf; eassumption|eauto].
  - (* read from private *)
    repeat split; intros; cbn [refs buf priv th results] in *.
    + upd_cases t1 t; upd_cases t2 t; cbn in *; try contradiction; eauto.
    + upd_cases t0 t; cbn in *; try contradiction; eauto.
    + upd_cases t0 t; try discriminate; eauto.
    + upd_cases t0 t; try discriminate; eauto.
    + destruct H as [[= <- <- <-]|H]; [eapply Hpriv; eassumption|eauto].
  - (* put *)
    assert (Hmine : holds (th s t) i) by (rewrite Et; reflexivity).
    repeat split; intros; cbn [refs buf priv th results] in *.
    + upd_cases t1 t; upd_cases t2 t; cbn in *; try contradiction; eauto.
    + upd_cases t0 t; cbn in *; try contradiction.
      destruct (Nat.eq_dec i0 i) as [->|?].
      * exfalso. assert (t0 = t); [|contradiction]. eapply Hex; [eassumption|exact Hmine].
      * rewrite ?upd_other by assumption. eauto.
    + upd_cases t0 t; try discriminate; eauto.
    + upd_cases t0 t; try discriminate; eauto.
    + eauto.
  - repeat split; intros; cbn [refs buf priv th results] in *.
    + upd_cases t1 t; upd_cases t2 t; cbn in *; try contradiction; eauto.
    + upd_cases t0 t; cbn in *; try contradiction; eauto.
    + upd_cases t0 t; try discriminate; eauto.
    + upd_cases t0 t; try discriminate; eauto.
    + eauto.
  - repeat split; assumption.
Qed.

Definition init (progs : tid -> list data) : sys :=
  {| refs := fun _ => 0; buf := fun _ => 0; priv := fun _ => 0; th := fun t => Idle 0 (progs t); results := [] |}.

Lemma init_inv progs : Inv (init progs).
Proof. repeat split; cbn; intros; try contradiction; try discriminate. Qed.

(* C19 shape: under EVERY schedule each operation reads back exactly what it wrote,
   i.e. what it obtains running alone *)
Theorem schedule_independent progs sched t e r :
  In (t, e, r) (results (run (init progs) sched)) -> r = e.
Proof.
  assert (H : Inv (run (init progs) sched)).
  { unfold run. generalize (init_inv progs). generalize (init progs).
    induction sched as [|[t' c] sched IH]; intros s Hs; cbn [fold_left]; [assumption|].
    apply IH. now apply step_inv. }
  destruct H as (_ & _ & _ & _ & Hres). apply Hres.
Qed.
Print Assumptions schedule_independent.

