(* Abstract/MemoSchedules.v — the package-level CACHES of sb under arbitrary interleavings (C19, second half; the
   scratch-buffer pools are Abstract/PoolSchedules.v).

   Part I  (Section Memo): a sync.Map used as a memo table of a pure function f : key -> val
     type_name.go        typeToName            TypeName(t)          (Load; compute; deferred Store)
     deprecated_fields.go fieldIsDeprecatedMap fieldIsDeprecated(t, field)   (Load; compute; deferred Store)
   A lookup is at least two atomic actions on the shared table (Load, later Store) with other threads running in
   between.  Three variants of the Go pattern are modelled: Store-then-return, return-then-(deferred)-Store and
   LoadOrStore.  Theorems, for ALL schedules: every obtained value is f key; the table only grows; the table only
   holds keys somebody asked for; each thread's log is its program in order; a finished thread's log is literally
   the log of the same thread run alone.

   Part I-bis (Section NestedMemo): the memoised function calls itself between its Load and its deferred Store
   (TypeName of a pointer type asks for the name of the element type), so a thread holds a stack of open frames.
   Same theorem: every completed lookup obtains f key and every table entry is right, for ALL schedules.

   Part II (Section Registry): registeredNameToType / registeredTypeToName, written by Register with one
   LoadOrStore each, read by unmarshal (name -> type) and marshal (type -> name).  This is NOT a memo of a pure
   function: a reader may run before or after a concurrent Register.  What is guaranteed: entries never change
   (monotone); a Register that completed is seen in both directions by every later read (for collision-free type
   names - refuted otherwise); between the two LoadOrStores one direction only is visible (concrete schedule); a
   reader whose queries are each either already answered when it starts or not touched by any pending registration
   obtains, under every schedule, exactly the answers it obtains alone.

   What a Gallina model cannot exhibit (Go memory model, races on other memory) is the stress run's job. *)
From Coq Require Import List Arith Lia Bool.
Import ListNotations.

Definition tid := nat.
Definition key := nat.
Definition val := nat.

Definition upd {A} (f : nat -> A) (k : nat) (v : A) : nat -> A := fun x => if Nat.eqb x k then v else f x.

Lemma upd_same {A} (f : nat -> A) k v : upd f k v k = v.
Proof. unfold upd. now rewrite Nat.eqb_refl. Qed.
Lemma upd_other {A} (f : nat -> A) k v x : x <> k -> upd f k v x = f x.
Proof. unfold upd. intros H. destruct (Nat.eqb_spec x k); [contradiction|reflexivity]. Qed.

(* a schedule is the list of thread ids the scheduler picks, one atomic action each *)
Definition schedule := list tid.

(* ------------------------------------------------------------------------------------------------------------ *)
(* Part I: memo table of a pure function                                                                          *)
(* ------------------------------------------------------------------------------------------------------------ *)

(* which Go pattern the lookup uses after a missed Load:
     Plain : v := f(k); cache.Store(k, v); return v
     Defer : defer cache.Store(k, ret); ...; return f(k)      (type_name.go, deprecated_fields.go)
     LOS   : v := f(k); actual, _ := cache.LoadOrStore(k, v); return actual *)
Inductive mode := Plain | Defer | LOS.
Definition op := (mode * key)%type.

Inductive tstate :=
| Idle (todo : list op)                                     (* next: Load of the head's key *)
| Computed (m : mode) (k : key) (v : val) (todo : list op)  (* Load missed; v computed locally; table not yet written *)
| Returning (k : key) (v : val) (todo : list op)            (* table written; about to return v *)
| DeferStore (k : key) (v : val) (todo : list op)           (* v already returned; deferred Store pending *)
| Finished.

Record sys := {
  tbl : key -> option val;               (* the sync.Map *)
  th : tid -> tstate;
  results : list (tid * key * val)       (* (thread, key, obtained value), newest first *)
}.

Definition keys (p : list op) : list key := map snd p.

(* the lookups thread-state [st] has still to complete (record), in order *)
Definition pending (st : tstate) : list key :=
  match st with
  | Idle todo => keys todo
  | Computed _ k _ todo => k :: keys todo
  | Returning k _ todo => k :: keys todo
  | DeferStore _ _ todo => keys todo
  | Finished => []
  end.

(* every key the thread state mentions *)
Definition cur_keys (st : tstate) : list key :=
  match st with
  | Idle todo => keys todo
  | Computed _ k _ todo => k :: keys todo
  | Returning k _ todo => k :: keys todo
  | DeferStore k _ todo => k :: keys todo
  | Finished => []
  end.

(* thread t's log: its (key, value) records, newest first *)
Definition log_of (t : tid) (rs : list (tid * key * val)) : list (key * val) :=
  map (fun r => (snd (fst r), snd r)) (filter (fun r => Nat.eqb (fst (fst r)) t) rs).

Lemma log_of_cons_same t k v rs : log_of t ((t, k, v) :: rs) = (k, v) :: log_of t rs.
Proof. unfold log_of. cbn [filter fst snd]. rewrite Nat.eqb_refl. reflexivity. Qed.
Lemma log_of_cons_other t t' k v rs : t' <> t -> log_of t ((t', k, v) :: rs) = log_of t rs.
Proof. intros H. unfold log_of. cbn [filter fst snd]. destruct (Nat.eqb_spec t' t); [contradiction|reflexivity]. Qed.
Lemma log_of_In t k v rs : In (k, v) (log_of t rs) -> In (t, k, v) rs.
Proof.
  unfold log_of. intros H. apply in_map_iff in H. destruct H as ([[t' k'] v'] & [= <- <-] & H).
  apply filter_In in H. destruct H as (H & Ht). cbn [fst snd] in Ht. apply Nat.eqb_eq in Ht. now subst.
Qed.

Section Memo.
  Variable f : key -> val.     (* the cached pure function: TypeName, the deprecation verdict *)

  (* one atomic action of thread t.  The local computation v := f k is merged with the preceding Load: it touches no
     shared state, so nothing can be observed between them; what matters is the window Load ... Store. *)
  Definition step (s : sys) (t : tid) : sys :=
    match th s t with
    | Idle [] => {| tbl := tbl s; th := upd (th s) t Finished; results := results s |}
    | Idle ((m, k) :: todo) =>
        match tbl s k with
        | Some v => (* Load hit: return the cached value *)
            {| tbl := tbl s; th := upd (th s) t (Idle todo); results := (t, k, v) :: results s |}
        | None => (* Load miss: compute *)
            {| tbl := tbl s; th := upd (th s) t (Computed m k (f k) todo); results := results s |}
        end
    | Computed Plain k v todo => (* Store *)
        {| tbl := upd (tbl s) k (Some v); th := upd (th s) t (Returning k v todo); results := results s |}
    | Computed Defer k v todo => (* return value fixed first, Store still to come *)
        {| tbl := tbl s; th := upd (th s) t (DeferStore k v todo); results := (t, k, v) :: results s |}
    | Computed LOS k v todo => (* LoadOrStore keeps an existing entry and returns it *)
        match tbl s k with
        | Some v' => {| tbl := tbl s; th := upd (th s) t (Returning k v' todo); results := results s |}
        | None => {| tbl := upd (tbl s) k (Some v); th := upd (th s) t (Returning k v todo); results := results s |}
        end
    | Returning k v todo =>
        {| tbl := tbl s; th := upd (th s) t (Idle todo); results := (t, k, v) :: results s |}
    | DeferStore k v todo => (* the deferred Store *)
        {| tbl := upd (tbl s) k (Some v); th := upd (th s) t (Idle todo); results := results s |}
    | Finished => s
    end.

  Definition run (s : sys) (sched : schedule) : sys := fold_left step sched s.

  Definition init (progs : tid -> list op) : sys :=
    {| tbl := fun _ => None; th := fun t => Idle (progs t); results := [] |}.

  Lemma run_app s a b : run s (a ++ b) = run (run s a) b.
  Proof. unfold run. apply fold_left_app. Qed.

  (* --- the invariant: every entry of the table is (k, f k); every value a thread holds is f of its key ----- *)
  Definition local_ok (st : tstate) : Prop :=
    match st with
    | Computed _ k v _ | Returning k v _ | DeferStore k v _ => v = f k
    | _ => True
    end.

  Definition Inv (s : sys) : Prop :=
    (forall k v, tbl s k = Some v -> v = f k) /\
    (forall t, local_ok (th s t)) /\
    (forall t k v, In (t, k, v) (results s) -> v = f k).

  Ltac solve_inv Htbl Hloc Hres t :=
    split; [|split]; cbn [tbl th results];
    [ let k0 := fresh "k0" in let v0 := fresh "v0" in let H0 := fresh "H0" in let Hne := fresh "Hne" in
      intros k0 v0 H0;
      first [ apply Htbl; exact H0
            | match type of H0 with
              | upd _ ?k _ _ = _ =>
                  destruct (Nat.eq_dec k0 k) as [->|Hne];
                  [ rewrite upd_same in H0; injection H0 as <-; auto
                  | rewrite upd_other in H0 by assumption; auto ]
              end ]
    | let t0 := fresh "t0" in let Hne := fresh "Hne" in
      intros t0; destruct (Nat.eq_dec t0 t) as [->|Hne];
      [ rewrite upd_same; cbn [local_ok]; auto | rewrite upd_other by assumption; apply Hloc ]
    | let t0 := fresh "t0" in let k0 := fresh "k0" in let v0 := fresh "v0" in let H0 := fresh "H0" in
      intros t0 k0 v0 H0;
      first [ eapply Hres; exact H0
            | destruct H0 as [[= <- <- <-]|H0]; [auto | eapply Hres; exact H0] ] ].

  Theorem step_inv s t : Inv s -> Inv (step s t).
  Proof.
    intros (Htbl & Hloc & Hres).
    pose proof (Hloc t) as Hme. unfold step.
    destruct (th s t) as [[|[m k] todo]|m k v todo|k v todo|k v todo|] eqn:Et; cbn [local_ok] in Hme.
    - solve_inv Htbl Hloc Hres t.
    - destruct (tbl s k) as [v|] eqn:Ek; solve_inv Htbl Hloc Hres t.
    - destruct m; [| |destruct (tbl s k) as [v'|] eqn:Ek]; solve_inv Htbl Hloc Hres t.
    - solve_inv Htbl Hloc Hres t.
    - solve_inv Htbl Hloc Hres t.
    - repeat split; assumption.
  Qed.

  Lemma init_inv progs : Inv (init progs).
  Proof. repeat split; cbn; intros; try contradiction; try discriminate. Qed.

  Lemma run_inv s sched : Inv s -> Inv (run s sched).
  Proof.
    unfold run. revert s. induction sched as [|t sched IH]; intros s Hs; cbn [fold_left]; [assumption|].
    apply IH. now apply step_inv.
  Qed.

  (* C19 shape, caches: under EVERY schedule every lookup obtains f key - the value it obtains running alone *)
  Theorem memo_schedule_independent progs sched t k v :
    In (t, k, v) (results (run (init progs) sched)) -> v = f k.
  Proof.
    destruct (run_inv (init progs) sched (init_inv progs)) as (_ & _ & Hres). apply Hres.
  Qed.

  Theorem memo_table_correct progs sched k v :
    tbl (run (init progs) sched) k = Some v -> v = f k.
  Proof.
    destruct (run_inv (init progs) sched (init_inv progs)) as (Htbl & _ & _). apply Htbl.
  Qed.

  (* --- the table only grows (entries are never removed nor changed) ------------------------------------------ *)
  Lemma step_tbl_grows s t k v : Inv s -> tbl s k = Some v -> tbl (step s t) k = Some v.
  Proof.
    intros (Htbl & Hloc & _) Hk.
    pose proof (Hloc t) as Hme. unfold step.
    destruct (th s t) as [[|[m k'] todo]|m k' v' todo|k' v' todo|k' v' todo|] eqn:Et; cbn [local_ok] in Hme;
      cbn [tbl]; try exact Hk.
    - destruct (tbl s k'); cbn [tbl]; exact Hk.
    - destruct m; [| |destruct (tbl s k') as [v''|] eqn:Ek]; cbn [tbl]; try exact Hk.
      + destruct (Nat.eq_dec k k') as [->|Hne]; [rewrite upd_same|rewrite upd_other by assumption; exact Hk].
        apply Htbl in Hk. congruence.
      + destruct (Nat.eq_dec k k') as [->|Hne]; [congruence|rewrite upd_other by assumption; exact Hk].
    - destruct (Nat.eq_dec k k') as [->|Hne]; [rewrite upd_same|rewrite upd_other by assumption; exact Hk].
      apply Htbl in Hk. congruence.
  Qed.

  Theorem memo_table_grows progs sched1 sched2 k v :
    tbl (run (init progs) sched1) k = Some v -> tbl (run (init progs) (sched1 ++ sched2)) k = Some v.
  Proof.
    rewrite run_app. generalize (run_inv _ sched1 (init_inv progs)). generalize (run (init progs) sched1).
    unfold run. induction sched2 as [|t sched2 IH]; intros s Hs Hk; cbn [fold_left]; [assumption|].
    apply IH; [now apply step_inv|now apply step_tbl_grows].
  Qed.

  (* --- the table holds only keys some thread was asked to look up: a Load of any other key misses ------------- *)
  Definition Req (progs : tid -> list op) (s : sys) : Prop :=
    (forall t k, In k (cur_keys (th s t)) -> In k (keys (progs t))) /\
    (forall k v, tbl s k = Some v -> exists t, In k (keys (progs t))).

  Lemma step_req progs s t : Req progs s -> Req progs (step s t).
  Proof.
    intros (Hcur & Htbl). pose proof (Hcur t) as Hme. unfold step.
    destruct (th s t) as [[|[m k] todo]|m k v todo|k v todo|k v todo|] eqn:Et; cbn [cur_keys keys map snd] in Hme;
      try (destruct (tbl s k) as [v'|] eqn:Ek); try destruct m;
      try (destruct (tbl s k) as [v''|] eqn:Ek');
      first [ split; assumption | split; cbn [tbl th];
       [ intros t0 k0 H0; destruct (Nat.eq_dec t0 t) as [->|Hne];
         [ rewrite upd_same in H0; cbn [cur_keys keys map snd] in H0; apply Hme; cbn [In] in *; tauto
         | rewrite upd_other in H0 by assumption; now apply Hcur ]
       | intros k0 v0 H0;
         first [ eapply Htbl; exact H0
               | destruct (Nat.eq_dec k0 k) as [->|Hne];
                 [ exists t; apply Hme; cbn [In]; tauto
                 | rewrite upd_other in H0 by assumption; eapply Htbl; exact H0 ] ] ] ].
  Qed.

  Lemma init_req progs : Req progs (init progs).
  Proof. split; cbn; intros; [assumption|discriminate]. Qed.

  Theorem memo_table_keys_requested progs sched k v :
    tbl (run (init progs) sched) k = Some v -> exists t, In k (keys (progs t)).
  Proof.
    assert (H : Req progs (run (init progs) sched)).
    { unfold run. generalize (init_req progs). generalize (init progs).
      induction sched as [|t sched IH]; intros s Hs; cbn [fold_left]; [assumption|]. apply IH. now apply step_req. }
    apply H.
  Qed.

  Corollary memo_unrequested_key_misses progs sched k :
    (forall t, ~ In k (keys (progs t))) -> tbl (run (init progs) sched) k = None.
  Proof.
    intros Hno. destruct (tbl (run (init progs) sched) k) as [v|] eqn:E; [|reflexivity].
    apply memo_table_keys_requested in E. destruct E as (t & Ht). exfalso. exact (Hno t Ht).
  Qed.

  (* --- program order: what a thread has recorded so far, followed by what it has still to do, is its program -- *)
  Definition done_keys (t : tid) (s : sys) : list key := rev (map fst (log_of t (results s))).

  Definition Ord (progs : tid -> list op) (s : sys) : Prop :=
    forall t, done_keys t s ++ pending (th s t) = keys (progs t).

  Lemma step_ord progs s t : Ord progs s -> Ord progs (step s t).
  Proof.
    intros Hord t0. pose proof (Hord t0) as H0. pose proof (Hord t) as Hme. unfold done_keys in *. unfold step.
    destruct (th s t) as [[|[m k] todo]|m k v todo|k v todo|k v todo|] eqn:Et; cbn [pending keys map snd] in Hme;
      try (destruct (tbl s k) as [v'|] eqn:Ek); try destruct m;
      try (destruct (tbl s k) as [v''|] eqn:Ek');
      cbn [th results];
      first [ exact H0 | destruct (Nat.eq_dec t0 t) as [->|Hne];
       [ rewrite upd_same; rewrite ?log_of_cons_same; cbn [pending keys map snd fst rev];
         rewrite <- ?app_assoc; cbn [app]; try exact Hme
       | rewrite upd_other by assumption;
         rewrite ?log_of_cons_other by (intros Heq; apply Hne; now symmetry); try exact H0 ] ].
  Qed.

  Lemma init_ord progs : Ord progs (init progs).
  Proof. intros t. reflexivity. Qed.

  Lemma run_ord progs sched : Ord progs (run (init progs) sched).
  Proof.
    unfold run. generalize (init_ord progs). generalize (init progs).
    induction sched as [|t sched IH]; intros s Hs; cbn [fold_left]; [assumption|]. apply IH. now apply step_ord.
  Qed.

  (* the log a thread obtains running alone, newest first *)
  Definition alone_log (p : list op) : list (key * val) := rev (map (fun k => (k, f k)) (keys p)).

  Lemma log_determined (l : list (key * val)) :
    (forall k v, In (k, v) l -> v = f k) -> l = map (fun k => (k, f k)) (map fst l).
  Proof.
    induction l as [|[k v] l IH]; intros H; cbn [map fst]; [reflexivity|].
    rewrite <- IH by (intros k' v' Hin; apply H; now right).
    rewrite <- (H k v) by now left. reflexivity.
  Qed.

  (* under EVERY schedule: the log of a thread that finished its program is its program, in order, with f's values *)
  Theorem memo_finished_log progs sched t :
    th (run (init progs) sched) t = Finished ->
    log_of t (results (run (init progs) sched)) = alone_log (progs t).
  Proof.
    intros Hfin. pose proof (run_ord progs sched t) as Hord. rewrite Hfin in Hord. cbn [pending] in Hord.
    rewrite app_nil_r in Hord. unfold done_keys in Hord.
    rewrite (log_determined (log_of t (results (run (init progs) sched)))).
    - unfold alone_log. rewrite <- Hord. rewrite map_rev. rewrite rev_involutive. reflexivity.
    - intros k v Hin. apply log_of_In in Hin. eapply memo_schedule_independent. exact Hin.
  Qed.

  (* ... and an unfinished thread has obtained a prefix of it *)
  Theorem memo_log_prefix progs sched t :
    exists rest, rev (log_of t (results (run (init progs) sched))) ++ map (fun k => (k, f k)) rest
                 = rev (alone_log (progs t)).
  Proof.
    exists (pending (th (run (init progs) sched) t)).
    pose proof (run_ord progs sched t) as Hord. unfold done_keys in Hord.
    unfold alone_log. rewrite rev_involutive. rewrite <- Hord. rewrite map_app. f_equal.
    rewrite (log_determined (log_of t (results (run (init progs) sched)))) at 1.
    - rewrite <- map_rev. reflexivity.
    - intros k v Hin. apply log_of_In in Hin. eapply memo_schedule_independent. exact Hin.
  Qed.

  (* --- running alone: thread t scheduled repeatedly finishes within 3 actions per lookup -------------------- *)
  Definition fuel_of (st : tstate) : nat :=
    match st with
    | Idle todo => 1 + 3 * length todo
    | Computed _ _ _ todo => 3 + 3 * length todo
    | Returning _ _ todo => 2 + 3 * length todo
    | DeferStore _ _ todo => 2 + 3 * length todo
    | Finished => 0
    end.

  Lemma step_fuel s t : fuel_of (th (step s t) t) <= fuel_of (th s t) - 1.
  Proof.
    unfold step.
    destruct (th s t) as [[|[m k] todo]|m k v todo|k v todo|k v todo|] eqn:Et;
      try (destruct (tbl s k) as [v'|] eqn:Ek); try destruct m;
      try (destruct (tbl s k) as [v''|] eqn:Ek');
      cbn [th]; rewrite ?upd_same; try rewrite Et; cbn [fuel_of length]; lia.
  Qed.

  Lemma run_alone_fuel n : forall s t, fuel_of (th (run s (repeat t n)) t) <= fuel_of (th s t) - n.
  Proof.
    induction n as [|n IH]; intros s t; cbn [repeat]; [unfold run; cbn [fold_left]; lia|].
    unfold run. cbn [fold_left]. fold (run (step s t) (repeat t n)).
    specialize (IH (step s t) t). pose proof (step_fuel s t). lia.
  Qed.

  Lemma fuel_zero st : fuel_of st = 0 -> st = Finished.
  Proof. destruct st; cbn [fuel_of]; intros H; try lia; reflexivity. Qed.

  Definition alone_schedule (p : list op) (t : tid) : schedule := repeat t (1 + 3 * length p).

  Lemma memo_alone_finishes progs t :
    th (run (init progs) (alone_schedule (progs t) t)) t = Finished.
  Proof.
    apply fuel_zero. pose proof (run_alone_fuel (1 + 3 * length (progs t)) (init progs) t) as H.
    unfold alone_schedule. cbn [init th fuel_of] in H. lia.
  Qed.

  (* C19, literally: whatever the schedule and whatever the other threads do, a thread that completed its program
     has exactly the log it has when it is the only thread that ever runs *)
  Theorem memo_same_as_alone progs sched t :
    th (run (init progs) sched) t = Finished ->
    log_of t (results (run (init progs) sched))
    = log_of t (results (run (init progs) (alone_schedule (progs t) t))).
  Proof.
    intros Hfin. rewrite (memo_finished_log progs sched t Hfin).
    symmetry. apply memo_finished_log. apply memo_alone_finishes.
  Qed.
End Memo.

(* ------------------------------------------------------------------------------------------------------------ *)
(* Part I-bis: the memoised function calls itself (TypeName of a pointer type looks up its element type)          *)
(* ------------------------------------------------------------------------------------------------------------ *)
(* type_name.go:  Load(t) hit -> return;  defer Store(t, name);  if t is a pointer: str := TypeName(t.Elem()); name
   is built from str; else name is built from t alone.  The nested call happens between the outer Load and the outer
   (deferred) Store, so a thread holds a stack of open frames, each with its Store still to come. *)
Inductive nstate :=
| NIdle (todo : list key)                                         (* next: Load of the head, no caller *)
| NCall (k : key) (stack : list key) (todo : list key)            (* next: Load k, on behalf of the open frames *)
| NStore (k : key) (v : val) (stack : list key) (todo : list key) (* frame k has its return value; Store pending *)
| NFinished.

Record nsys := {
  ntbl : key -> option val;
  nth : tid -> nstate;
  nresults : list (tid * key * val)
}.

Section NestedMemo.
  Variable sub : key -> option key.         (* t.Elem() when t is a pointer *)
  Variable g : key -> option val -> val.    (* the name built from t and, for a pointer, from the element's name *)
  Variable f : key -> val.                  (* TypeName as a mathematical function *)
  Hypothesis f_rec : forall k, f k = g k (option_map f (sub k)).

  (* hand the value v of the finished frame k to its caller: the caller computes its own return value (locally);
     with no caller the lookup is complete and recorded *)
  Definition deliver (s : nsys) (t : tid) (tb : key -> option val) (k : key) (v : val)
             (stack todo : list key) : nsys :=
    match stack with
    | [] => {| ntbl := tb; nth := upd (nth s) t (NIdle todo); nresults := (t, k, v) :: nresults s |}
    | k0 :: st => {| ntbl := tb; nth := upd (nth s) t (NStore k0 (g k0 (Some v)) st todo); nresults := nresults s |}
    end.

  (* the Load that opens frame k *)
  Definition load (s : nsys) (t : tid) (k : key) (stack todo : list key) : nsys :=
    match ntbl s k with
    | Some v => deliver s t (ntbl s) k v stack todo
    | None =>
        match sub k with
        | Some k' => {| ntbl := ntbl s; nth := upd (nth s) t (NCall k' (k :: stack) todo); nresults := nresults s |}
        | None => {| ntbl := ntbl s; nth := upd (nth s) t (NStore k (g k None) stack todo); nresults := nresults s |}
        end
    end.

  Definition nstep (s : nsys) (t : tid) : nsys :=
    match nth s t with
    | NIdle [] => {| ntbl := ntbl s; nth := upd (nth s) t NFinished; nresults := nresults s |}
    | NIdle (k :: todo) => load s t k [] todo
    | NCall k stack todo => load s t k stack todo
    | NStore k v stack todo => deliver s t (upd (ntbl s) k (Some v)) k v stack todo   (* the deferred Store *)
    | NFinished => s
    end.

  Definition nrun (s : nsys) (sched : schedule) : nsys := fold_left nstep sched s.
  Definition ninit (progs : tid -> list key) : nsys :=
    {| ntbl := fun _ => None; nth := fun t => NIdle (progs t); nresults := [] |}.

  (* the open frames form a chain of element types *)
  Fixpoint chain (k : key) (stack : list key) : Prop :=
    match stack with
    | [] => True
    | k0 :: st => sub k0 = Some k /\ chain k0 st
    end.

  Definition nlocal_ok (st : nstate) : Prop :=
    match st with
    | NCall k stack _ => chain k stack
    | NStore k v stack _ => v = f k /\ chain k stack
    | _ => True
    end.

  Definition NInv (s : nsys) : Prop :=
    (forall k v, ntbl s k = Some v -> v = f k) /\
    (forall t, nlocal_ok (nth s t)) /\
    (forall t k v, In (t, k, v) (nresults s) -> v = f k).

  Lemma nlocal_upd s t st : (forall t0, nlocal_ok (nth s t0)) -> nlocal_ok st -> forall t0, nlocal_ok (upd (nth s) t st t0).
  Proof.
    intros Hloc Hst t0. destruct (Nat.eq_dec t0 t) as [->|Hne]; [now rewrite upd_same|].
    rewrite upd_other by assumption. apply Hloc.
  Qed.

  Lemma deliver_inv s t tb k v stack todo :
    NInv s -> (forall k0 v0, tb k0 = Some v0 -> v0 = f k0) -> v = f k -> chain k stack ->
    NInv (deliver s t tb k v stack todo).
  Proof.
    intros (Htbl & Hloc & Hres) Htb Hv Hch. unfold deliver. destruct stack as [|k0 st].
    - split; [|split]; cbn [ntbl nth nresults]; [exact Htb|apply nlocal_upd; [exact Hloc|exact I]|].
      intros t0 k1 v1 [[= <- <- <-]|Hin]; [exact Hv|eapply Hres; exact Hin].
    - cbn [chain] in Hch. destruct Hch as (Hsub & Hch).
      split; [|split]; cbn [ntbl nth nresults]; [exact Htb| |exact Hres].
      apply nlocal_upd; [exact Hloc|]. cbn [nlocal_ok]. split; [|exact Hch].
      rewrite (f_rec k0), Hsub. cbn [option_map]. now rewrite Hv.
  Qed.

  Lemma load_inv s t k stack todo : NInv s -> chain k stack -> NInv (load s t k stack todo).
  Proof.
    intros Hinv Hch. unfold load. destruct (ntbl s k) as [v|] eqn:Ek.
    - destruct Hinv as (Htbl & Hloc & Hres). apply deliver_inv; [now repeat split|exact Htbl|now apply Htbl|exact Hch].
    - destruct Hinv as (Htbl & Hloc & Hres). destruct (sub k) as [k'|] eqn:Es.
      + split; [|split]; cbn [ntbl nth nresults]; [exact Htbl| |exact Hres].
        apply nlocal_upd; [exact Hloc|]. cbn [nlocal_ok chain]. now split.
      + split; [|split]; cbn [ntbl nth nresults]; [exact Htbl| |exact Hres].
        apply nlocal_upd; [exact Hloc|]. cbn [nlocal_ok]. split; [|exact Hch].
        rewrite (f_rec k), Es. reflexivity.
  Qed.

  Theorem nstep_inv s t : NInv s -> NInv (nstep s t).
  Proof.
    intros Hinv. pose proof Hinv as (Htbl & Hloc & Hres). pose proof (Hloc t) as Hme. unfold nstep.
    destruct (nth s t) as [[|k todo]|k stack todo|k v stack todo|] eqn:Et; cbn [nlocal_ok] in Hme.
    - split; [|split]; cbn [ntbl nth nresults]; [exact Htbl|apply nlocal_upd; [exact Hloc|exact I]|exact Hres].
    - apply load_inv; [exact Hinv|exact I].
    - apply load_inv; [exact Hinv|exact Hme].
    - destruct Hme as (Hv & Hch). apply deliver_inv; [exact Hinv| |exact Hv|exact Hch].
      intros k0 v0 H0. destruct (Nat.eq_dec k0 k) as [->|Hne].
      + rewrite upd_same in H0. injection H0 as <-. exact Hv.
      + rewrite upd_other in H0 by assumption. now apply Htbl.
    - exact Hinv.
  Qed.

  Lemma ninit_inv progs : NInv (ninit progs).
  Proof. split; [|split]; cbn; intros; try discriminate; try contradiction; exact I. Qed.

  Lemma nrun_inv s sched : NInv s -> NInv (nrun s sched).
  Proof.
    unfold nrun. revert s. induction sched as [|t sched IH]; intros s Hs; cbn [fold_left]; [assumption|].
    apply IH. now apply nstep_inv.
  Qed.

  (* under EVERY schedule every completed (outermost) lookup obtains f key, and every entry the nested calls left in
     the table is right *)
  Theorem nested_memo_schedule_independent progs sched t k v :
    In (t, k, v) (nresults (nrun (ninit progs) sched)) -> v = f k.
  Proof. destruct (nrun_inv (ninit progs) sched (ninit_inv progs)) as (_ & _ & Hres). apply Hres. Qed.

  Theorem nested_memo_table_correct progs sched k v :
    ntbl (nrun (ninit progs) sched) k = Some v -> v = f k.
  Proof. destruct (nrun_inv (ninit progs) sched (ninit_inv progs)) as (Htbl & _ & _). apply Htbl. Qed.
End NestedMemo.

(* ------------------------------------------------------------------------------------------------------------ *)
(* Part II: the registry                                                                                          *)
(* ------------------------------------------------------------------------------------------------------------ *)

Definition ty := nat.      (* reflect.Type *)
Definition name := nat.    (* registered type name *)

(* a read of the registry: marshal asks typeToName (QT), unmarshal asks nameToType (QN) *)
Inductive query := QT (t : ty) | QN (n : name).
Inductive rop := Reg (t : ty) | Look (q : query).

Inductive rstate :=
| RIdle (todo : list rop)
| RHalf (t : ty) (todo : list rop)     (* inside Register(t): nameToType done, typeToName still to do *)
| RFinished.

Record rsys := {
  n2t : name -> option ty;                       (* registeredNameToType *)
  t2n : ty -> option name;                       (* registeredTypeToName *)
  rth : tid -> rstate;
  robs : list (tid * query * option nat)         (* (thread, query, what Load returned), newest first *)
}.

(* sync.Map.LoadOrStore: the first value stored under a key stays *)
Definition los {A} (m : nat -> option A) (k : nat) (v : A) : nat -> option A :=
  match m k with Some _ => m | None => upd m k (Some v) end.

Lemma los_keep {A} (m : nat -> option A) k v k' x : m k' = Some x -> los m k v k' = Some x.
Proof.
  intros H. unfold los. destruct (m k) eqn:E; [exact H|].
  destruct (Nat.eq_dec k' k) as [->|Hne]; [congruence|]. now rewrite upd_other.
Qed.
Lemma los_inv {A} (m : nat -> option A) k v k' x :
  los m k v k' = Some x -> m k' = Some x \/ (k' = k /\ x = v /\ m k = None).
Proof.
  unfold los. destruct (m k) eqn:E; [now left|].
  destruct (Nat.eq_dec k' k) as [->|Hne].
  - rewrite upd_same. intros [= <-]. right. auto.
  - rewrite upd_other by assumption. now left.
Qed.
Lemma los_same {A} (m : nat -> option A) k v : los m k v k <> None.
Proof. unfold los. destruct (m k) eqn:E; [congruence|]. rewrite upd_same. discriminate. Qed.
Lemma los_keep_ne {A} (m : nat -> option A) k v k' : m k' <> None -> los m k v k' <> None.
Proof. destruct (m k') as [x|] eqn:E; [|congruence]. intros _. rewrite (los_keep m k v k' x E). discriminate. Qed.
Lemma los_other {A} (m : nat -> option A) k v k' : k' <> k -> los m k v k' = m k'.
Proof. intros H. unfold los. destruct (m k); [reflexivity|]. now apply upd_other. Qed.

Definition answer (s : rsys) (q : query) : option nat :=
  match q with QT t => t2n s t | QN n => n2t s n end.

(* the operations thread-state [st] has still to complete; a Register in its window is still pending *)
Definition rpending (st : rstate) : list rop :=
  match st with
  | RIdle todo => todo
  | RHalf t todo => Reg t :: todo
  | RFinished => []
  end.

Definition rlog_of (t : tid) (os : list (tid * query * option nat)) : list (query * option nat) :=
  map (fun o => (snd (fst o), snd o)) (filter (fun o => Nat.eqb (fst (fst o)) t) os).

Lemma rlog_of_cons_same t q a os : rlog_of t ((t, q, a) :: os) = (q, a) :: rlog_of t os.
Proof. unfold rlog_of. cbn [filter fst snd]. rewrite Nat.eqb_refl. reflexivity. Qed.
Lemma rlog_of_cons_other t t' q a os : t' <> t -> rlog_of t ((t', q, a) :: os) = rlog_of t os.
Proof. intros H. unfold rlog_of. cbn [filter fst snd]. destruct (Nat.eqb_spec t' t); [contradiction|reflexivity]. Qed.

Section Registry.
  (* TypeName.  Register computes it through the typeToName memo table; by Part I (memo_schedule_independent) that
     yields [nm t] under every schedule, so it is a function here.  Register panics on an unnamed type before
     touching either map; such calls are not modelled. *)
  Variable nm : ty -> name.

  Definition rstep (s : rsys) (t : tid) : rsys :=
    match rth s t with
    | RIdle [] => {| n2t := n2t s; t2n := t2n s; rth := upd (rth s) t RFinished; robs := robs s |}
    | RIdle (Reg x :: todo) => (* registeredNameToType.LoadOrStore(name, t) *)
        {| n2t := los (n2t s) (nm x) x; t2n := t2n s; rth := upd (rth s) t (RHalf x todo); robs := robs s |}
    | RIdle (Look q :: todo) => (* one atomic Load *)
        {| n2t := n2t s; t2n := t2n s; rth := upd (rth s) t (RIdle todo); robs := (t, q, answer s q) :: robs s |}
    | RHalf x todo => (* registeredTypeToName.LoadOrStore(t, name) *)
        {| n2t := n2t s; t2n := los (t2n s) x (nm x); rth := upd (rth s) t (RIdle todo); robs := robs s |}
    | RFinished => s
    end.

  Definition rrun (s : rsys) (sched : schedule) : rsys := fold_left rstep sched s.

  Definition rinit (progs : tid -> list rop) : rsys :=
    {| n2t := fun _ => None; t2n := fun _ => None; rth := fun t => RIdle (progs t); robs := [] |}.

  Lemma rrun_app s a b : rrun s (a ++ b) = rrun (rrun s a) b.
  Proof. unfold rrun. apply fold_left_app. Qed.

  Lemma rrun_preserves (P : rsys -> Prop) :
    (forall s t, P s -> P (rstep s t)) -> forall sched s, P s -> P (rrun s sched).
  Proof.
    intros Hstep. unfold rrun. induction sched as [|t sched IH]; intros s Hs; cbn [fold_left]; [assumption|].
    apply IH. now apply Hstep.
  Qed.

  (* --- shape of a step, kept folded --------------------------------------------------------------------------- *)
  Lemma rstep_rth_other s t w : w <> t -> rth (rstep s t) w = rth s w.
  Proof.
    intros Hne. unfold rstep. destruct (rth s t) as [[|[x|q] todo]|x todo|] eqn:Et; cbn [rth];
      try (now rewrite upd_other by assumption). reflexivity.
  Qed.
  Lemma rstep_obs s t : robs (rstep s t) = robs s \/ exists q, robs (rstep s t) = (t, q, answer s q) :: robs s.
  Proof.
    unfold rstep. destruct (rth s t) as [[|[x|q] todo]|x todo|] eqn:Et; cbn [robs]; try (now left).
    right. now exists q.
  Qed.
  Lemma rstep_look s t q todo :
    rth s t = RIdle (Look q :: todo) ->
    rth (rstep s t) t = RIdle todo /\ robs (rstep s t) = (t, q, answer s q) :: robs s.
  Proof. intros H. unfold rstep. rewrite H. cbn [rth robs]. now rewrite upd_same. Qed.
  Lemma rstep_end s t : rth s t = RIdle [] -> rth (rstep s t) t = RFinished /\ robs (rstep s t) = robs s.
  Proof. intros H. unfold rstep. rewrite H. cbn [rth robs]. now rewrite upd_same. Qed.
  Lemma rstep_fin s t : rth s t = RFinished -> rstep s t = s.
  Proof. intros H. unfold rstep. now rewrite H. Qed.
  Lemma rstep_rlog_other s t w : w <> t -> rlog_of w (robs (rstep s t)) = rlog_of w (robs s).
  Proof.
    intros Hne. destruct (rstep_obs s t) as [->|(q & ->)]; [reflexivity|].
    apply rlog_of_cons_other. intros Heq. apply Hne. now symmetry.
  Qed.

  (* --- (a) entries are never changed or removed ---------------------------------------------------------------- *)
  Lemma rstep_answer_keeps s t q x : answer s q = Some x -> answer (rstep s t) q = Some x.
  Proof.
    intros H. unfold rstep. destruct (rth s t) as [[|[y|q'] todo]|y todo|] eqn:Et; destruct q as [z|n];
      cbn [answer n2t t2n] in *; try exact H; now apply los_keep.
  Qed.

  Theorem registry_entries_never_change s sched q x : answer s q = Some x -> answer (rrun s sched) q = Some x.
  Proof.
    revert s. unfold rrun. induction sched as [|t sched IH]; intros s H; cbn [fold_left]; [assumption|].
    apply IH. now apply rstep_answer_keeps.
  Qed.

  (* everything recorded after state s about a query already answered in s is that same answer *)
  Lemma rrun_later sched : forall s,
    exists later, robs (rrun s sched) = later ++ robs s /\
      forall r q a, In (r, q, a) later -> forall x, answer s q = Some x -> a = Some x.
  Proof.
    unfold rrun. induction sched as [|t sched IH]; intros s; cbn [fold_left].
    - exists []. split; [reflexivity|]. intros r q a [].
    - destruct (IH (rstep s t)) as (later & Heq & Hl).
      destruct (rstep_obs s t) as [Hsame|(q0 & Hnew)].
      + exists later. rewrite Heq, Hsame. split; [reflexivity|].
        intros r q a Hin x Hx. eapply Hl; [exact Hin|]. now apply rstep_answer_keeps.
      + exists (later ++ [(t, q0, answer s q0)]). rewrite Heq, Hnew, <- app_assoc. split; [reflexivity|].
        intros r q a Hin x Hx. apply in_app_or in Hin. destruct Hin as [Hin|[[= <- <- <-]|[]]].
        * eapply Hl; [exact Hin|]. now apply rstep_answer_keeps.
        * exact Hx.
  Qed.

  (* a positive observation stays true of the tables *)
  Definition Seen (s : rsys) : Prop := forall r q x, In (r, q, Some x) (robs s) -> answer s q = Some x.

  Lemma rstep_seen s t : Seen s -> Seen (rstep s t).
  Proof.
    intros Hs r q x Hin. destruct (rstep_obs s t) as [Hsame|(q0 & Hnew)].
    - rewrite Hsame in Hin. apply rstep_answer_keeps. eapply Hs. exact Hin.
    - rewrite Hnew in Hin. destruct Hin as [[= <- <- Ha]|Hin]; apply rstep_answer_keeps; [exact Ha|eapply Hs; exact Hin].
  Qed.

  Lemma rinit_seen progs : Seen (rinit progs).
  Proof. intros r q x []. Qed.

  (* (a) once ANY reader has seen q -> x (name -> type, or type -> name), every later read of q by anybody sees x *)
  Theorem registry_monotone progs sched1 sched2 r q x :
    In (r, q, Some x) (robs (rrun (rinit progs) sched1)) ->
    exists later,
      robs (rrun (rinit progs) (sched1 ++ sched2)) = later ++ robs (rrun (rinit progs) sched1) /\
      forall r' a, In (r', q, a) later -> a = Some x.
  Proof.
    intros Hin. rewrite rrun_app.
    assert (Hs : Seen (rrun (rinit progs) sched1)) by (apply rrun_preserves; [exact rstep_seen|apply rinit_seen]).
    apply Hs in Hin. destruct (rrun_later sched2 (rrun (rinit progs) sched1)) as (later & Heq & Hl).
    exists later. split; [exact Heq|]. intros r' a Ha. eapply Hl; [exact Ha|exact Hin].
  Qed.

  (* --- consistency of the two maps --------------------------------------------------------------------------- *)
  Definition RInv (s : rsys) : Prop :=
    (forall n x, n2t s n = Some x -> nm x = n) /\
    (forall x n, t2n s x = Some n -> n = nm x /\ n2t s n <> None) /\
    (forall w x todo, rth s w = RHalf x todo -> n2t s (nm x) <> None).

  Theorem rstep_rinv s t : RInv s -> RInv (rstep s t).
  Proof.
    intros (H1 & H2 & H3). unfold rstep.
    destruct (rth s t) as [[|[y|q] todo]|y todo|] eqn:Et.
    - split; [|split]; cbn [n2t t2n rth]; [exact H1|exact H2|].
      intros w x todo' Hw. destruct (Nat.eq_dec w t) as [->|Hne];
        [rewrite upd_same in Hw; discriminate|rewrite upd_other in Hw by assumption; eapply H3; exact Hw].
    - split; [|split]; cbn [n2t t2n rth].
      + intros n x Hn. apply los_inv in Hn. destruct Hn as [Hn|(-> & -> & _)]; [now apply H1|reflexivity].
      + intros x n Hx. destruct (H2 x n Hx) as (-> & Hn). split; [reflexivity|now apply los_keep_ne].
      + intros w x todo' Hw. destruct (Nat.eq_dec w t) as [->|Hne].
        * rewrite upd_same in Hw. injection Hw as -> _. apply los_same.
        * rewrite upd_other in Hw by assumption. apply los_keep_ne. eapply H3. exact Hw.
    - split; [|split]; cbn [n2t t2n rth]; [exact H1|exact H2|].
      intros w x todo' Hw. destruct (Nat.eq_dec w t) as [->|Hne];
        [rewrite upd_same in Hw; discriminate|rewrite upd_other in Hw by assumption; eapply H3; exact Hw].
    - split; [|split]; cbn [n2t t2n rth]; [exact H1| |].
      + intros x n Hx. apply los_inv in Hx. destruct Hx as [Hx|(-> & -> & _)]; [now apply H2|].
        split; [reflexivity|]. eapply H3. exact Et.
      + intros w x todo' Hw. destruct (Nat.eq_dec w t) as [->|Hne];
          [rewrite upd_same in Hw; discriminate|rewrite upd_other in Hw by assumption; eapply H3; exact Hw].
    - split; [|split]; assumption.
  Qed.

  Lemma rinit_rinv progs : RInv (rinit progs).
  Proof. split; [|split]; cbn; intros; discriminate. Qed.

  (* which Registers have completed: every Register of a program is either still pending or visible in typeToName *)
  Definition Done (progs : tid -> list rop) (s : rsys) : Prop :=
    forall w x, In (Reg x) (progs w) -> In (Reg x) (rpending (rth s w)) \/ t2n s x <> None.

  Lemma rstep_done progs s t : Done progs s -> Done progs (rstep s t).
  Proof.
    intros Hd w x Hin. specialize (Hd w x Hin). unfold rstep.
    destruct (rth s t) as [[|[y|q] todo]|y todo|] eqn:Et; cbn [t2n rth]; try exact Hd;
      (destruct Hd as [Hp|Hdone]; [|right; first [exact Hdone|now apply los_keep_ne]]);
      (destruct (Nat.eq_dec w t) as [->|Hne];
       [ rewrite upd_same; rewrite Et in Hp; cbn [rpending In] in *
       | rewrite upd_other by assumption; now left ]).
    - contradiction.
    - now left.
    - destruct Hp as [Hp|Hp]; [discriminate|now left].
    - destruct Hp as [[= ->]|Hp]; [right; apply los_same|now left].
  Qed.

  Lemma rinit_done progs : Done progs (rinit progs).
  Proof. intros w x Hin. now left. Qed.

  (* (b), state form: after a completed Register(x) both maps have an entry; typeToName[x] is x's name and
     nameToType[name] is a type of that name - x itself when no other type shares the name *)
  Theorem registry_consistent_pairs_partial progs sched w x :
    In (Reg x) (progs w) -> rth (rrun (rinit progs) sched) w = RFinished ->
    t2n (rrun (rinit progs) sched) x = Some (nm x) /\
    exists x', n2t (rrun (rinit progs) sched) (nm x) = Some x' /\ nm x' = nm x.
  Proof.
    intros Hin Hfin.
    assert (Hd : Done progs (rrun (rinit progs) sched))
      by (apply rrun_preserves; [exact (rstep_done progs)|apply rinit_done]).
    assert (Hi : RInv (rrun (rinit progs) sched)) by (apply rrun_preserves; [exact rstep_rinv|apply rinit_rinv]).
    destruct (Hd w x Hin) as [Hp|Hdone]; [rewrite Hfin in Hp; destruct Hp|].
    destruct Hi as (H1 & H2 & _).
    destruct (t2n (rrun (rinit progs) sched) x) as [n|] eqn:Ex; [|congruence].
    destruct (H2 x n Ex) as (-> & Hn). split; [reflexivity|].
    destruct (n2t (rrun (rinit progs) sched) (nm x)) as [x'|] eqn:En; [|congruence].
    exists x'. split; [reflexivity|]. now apply H1.
  Qed.

  (* (b) if Register(x) completed before a read, the read sees it - both directions, under every schedule *)
  Theorem registry_consistent_pairs progs sched1 sched2 w x :
    (forall x', nm x' = nm x -> x' = x) ->                      (* no other type carries x's name *)
    In (Reg x) (progs w) -> rth (rrun (rinit progs) sched1) w = RFinished ->
    exists later,
      robs (rrun (rinit progs) (sched1 ++ sched2)) = later ++ robs (rrun (rinit progs) sched1) /\
      (forall r a, In (r, QT x, a) later -> a = Some (nm x)) /\
      (forall r a, In (r, QN (nm x), a) later -> a = Some x).
  Proof.
    intros Hinj Hin Hfin. rewrite rrun_app.
    destruct (registry_consistent_pairs_partial progs sched1 w x Hin Hfin) as (Ht & x' & Hn & Hx').
    apply Hinj in Hx'. subst x'.
    destruct (rrun_later sched2 (rrun (rinit progs) sched1)) as (later & Heq & Hl).
    exists later. split; [exact Heq|]. split; intros r a Ha; (eapply Hl; [exact Ha|]); cbn [answer]; assumption.
  Qed.

  (* the window is one-sided: typeToName[x] is never visible before nameToType[name of x] *)
  Theorem registry_window_one_sided progs sched1 sched2 r x n :
    In (r, QT x, Some n) (robs (rrun (rinit progs) sched1)) ->
    n = nm x /\
    exists later,
      robs (rrun (rinit progs) (sched1 ++ sched2)) = later ++ robs (rrun (rinit progs) sched1) /\
      forall r' a, In (r', QN n, a) later -> exists x', a = Some x' /\ nm x' = n.
  Proof.
    intros Hin. rewrite rrun_app.
    assert (Hs : Seen (rrun (rinit progs) sched1)) by (apply rrun_preserves; [exact rstep_seen|apply rinit_seen]).
    assert (Hi : RInv (rrun (rinit progs) sched1)) by (apply rrun_preserves; [exact rstep_rinv|apply rinit_rinv]).
    apply Hs in Hin. cbn [answer] in Hin. destruct Hi as (H1 & H2 & _).
    destruct (H2 x n Hin) as (-> & Hn). split; [reflexivity|].
    destruct (n2t (rrun (rinit progs) sched1) (nm x)) as [x'|] eqn:En; [|congruence].
    destruct (rrun_later sched2 (rrun (rinit progs) sched1)) as (later & Heq & Hl).
    exists later. split; [exact Heq|]. intros r' a Ha. exists x'. split; [|now apply H1].
    eapply Hl; [exact Ha|exact En].
  Qed.

  (* --- (c)/(d) readers on independent data ------------------------------------------------------------------- *)
  (* Register(x) writes the keys QN (nm x) and QT x *)
  Definition touches (x : ty) (q : query) : Prop :=
    match q with QT z => z = x | QN n => n = nm x end.

  Definition answered (s : rsys) (q : query) : Prop := answer s q <> None.
  Definition untouched (s : rsys) (q : query) : Prop :=
    forall w x, In (Reg x) (rpending (rth s w)) -> ~ touches x q.
  (* a query is stable in s when it is already answered (its type was registered before) or no registration that is
     pending or in its window concerns it (the others register OTHER types, with other names) *)
  Definition stable (s : rsys) (q : query) : Prop := answered s q \/ untouched s q.

  Lemma rstep_pending_incl s t w : incl (rpending (rth (rstep s t) w)) (rpending (rth s w)).
  Proof.
    destruct (Nat.eq_dec w t) as [->|Hne]; [|rewrite rstep_rth_other by assumption; apply incl_refl].
    unfold rstep. destruct (rth s t) as [[|[y|q] todo]|y todo|] eqn:Et; cbn [rth]; rewrite ?upd_same, ?Et;
      cbn [rpending]; intros o Ho; cbn [In] in *; tauto.
  Qed.

  Lemma untouched_answer_same s t q : untouched s q -> answer (rstep s t) q = answer s q.
  Proof.
    intros Hu. unfold rstep. destruct (rth s t) as [[|[y|q'] todo]|y todo|] eqn:Et; cbn [answer n2t t2n];
      try reflexivity.
    - assert (Hy : ~ touches y q) by (apply (Hu t); rewrite Et; now left).
      destruct q as [z|n]; cbn [answer n2t t2n touches] in *; [reflexivity|]. now apply los_other.
    - assert (Hy : ~ touches y q) by (apply (Hu t); rewrite Et; now left).
      destruct q as [z|n]; cbn [answer n2t t2n touches] in *; [|reflexivity]. now apply los_other.
  Qed.

  Lemma stable_step s t q : stable s q -> stable (rstep s t) q /\ answer (rstep s t) q = answer s q.
  Proof.
    intros [Ha|Hu].
    - unfold answered in Ha. destruct (answer s q) as [x|] eqn:E; [|congruence].
      pose proof (rstep_answer_keeps s t q x E) as E'. split; [|exact E'].
      left. unfold answered. rewrite E'. discriminate.
    - split; [|now apply untouched_answer_same].
      right. intros w x Hin. apply (Hu w). now apply (rstep_pending_incl s t w).
  Qed.

  (* a Register that completed makes both its queries stable for ever *)
  Lemma completed_register_answered s x n :
    RInv s -> t2n s x = Some n -> answered s (QT x) /\ answered s (QN (nm x)).
  Proof.
    intros (_ & H2 & _) Hx. destruct (H2 x n Hx) as (-> & Hn).
    split; unfold answered; cbn [answer]; [congruence|exact Hn].
  Qed.

  Section Reader.
    (* the reader r is about to start, in state s0, a pipeline that makes the registry reads qs *)
    Variables (s0 : rsys) (r : tid) (qs : list query).
    Hypothesis Hstart : rth s0 r = RIdle (map Look qs).
    Hypothesis Hstable : forall q, In q qs -> stable s0 q.

    Definition told (q : query) : query * option nat := (q, answer s0 q).
    (* what r's log is after running alone from s0, newest first *)
    Definition canon_log : list (query * option nat) := rev (map told qs) ++ rlog_of r (robs s0).

    Definition reader_at (st : rstate) (rest : list query) : Prop :=
      st = RIdle (map Look rest) \/ (st = RFinished /\ rest = []).

    Definition RdInv (s : rsys) : Prop :=
      exists rest, reader_at (rth s r) rest /\
        (forall q, In q rest -> stable s q /\ answer s q = answer s0 q) /\
        rev (map told rest) ++ rlog_of r (robs s) = canon_log.

    Lemma rdinv_start : RdInv s0.
    Proof.
      exists qs. split; [now left|]. split; [|reflexivity]. intros q Hq. split; [now apply Hstable|reflexivity].
    Qed.

    Lemma rdinv_step s w : RdInv s -> RdInv (rstep s w).
    Proof.
      intros (rest & Hat & Hst & Hlog).
      assert (Hst' : forall rest', incl rest' rest ->
                forall q, In q rest' -> stable (rstep s w) q /\ answer (rstep s w) q = answer s0 q).
      { intros rest' Hincl q Hq. destruct (Hst q (Hincl q Hq)) as (Hs & Ha).
        destruct (stable_step s w q Hs) as (Hs' & Ha'). split; [exact Hs'|congruence]. }
      destruct (Nat.eq_dec w r) as [->|Hne].
      - destruct Hat as [Hidle|(Hfin & ->)].
        + destruct rest as [|q rest']; cbn [map] in Hidle.
          * destruct (rstep_end s r Hidle) as (Hth & Hobs).
            exists []. split; [right; now split|]. split; [intros q []|]. now rewrite Hobs.
          * destruct (rstep_look s r q _ Hidle) as (Hth & Hobs).
            exists rest'. split; [now left|]. split; [apply Hst'; intros q' Hq'; now right|].
            rewrite Hobs, rlog_of_cons_same. destruct (Hst q (or_introl eq_refl)) as (_ & Ha). rewrite Ha.
            rewrite <- Hlog. cbn [map rev]. rewrite <- app_assoc. reflexivity.
        + rewrite (rstep_fin s r Hfin). exists []. split; [right; now split|]. split; [intros q []|exact Hlog].
      - exists rest. split; [now rewrite rstep_rth_other by (intros Heq; apply Hne; now symmetry)|].
        split; [apply Hst'; apply incl_refl|]. now rewrite rstep_rlog_other by (intros Heq; apply Hne; now symmetry).
    Qed.

    Lemma rdinv_run sched : RdInv (rrun s0 sched).
    Proof. apply rrun_preserves; [exact rdinv_step|exact rdinv_start]. Qed.

    (* under EVERY schedule of the other threads the reader's log is the one determined by the tables at its start *)
    Theorem reader_log_canonical sched :
      rth (rrun s0 sched) r = RFinished -> rlog_of r (robs (rrun s0 sched)) = canon_log.
    Proof.
      intros Hfin. destruct (rdinv_run sched) as (rest & Hat & _ & Hlog).
      destruct Hat as [Hidle|(_ & ->)]; [rewrite Hfin in Hidle; discriminate|]. exact Hlog.
    Qed.

    (* every single answer it gets is the answer in the tables at its start *)
    Theorem reader_log_prefix sched :
      exists rest, rev (map told rest) ++ rlog_of r (robs (rrun s0 sched)) = canon_log.
    Proof. destruct (rdinv_run sched) as (rest & _ & _ & Hlog). now exists rest. Qed.

    Definition ralone_schedule : schedule := repeat r (1 + length qs).

    Lemma reader_alone_finishes : rth (rrun s0 ralone_schedule) r = RFinished.
    Proof.
      unfold ralone_schedule. clear Hstable. revert s0 Hstart.
      induction qs as [|q qs' IH]; intros s Hs; cbn [map length repeat Nat.add] in *; unfold rrun; cbn [fold_left].
      - apply (rstep_end s r Hs).
      - destruct (rstep_look s r q _ Hs) as (Hth & _). exact (IH (rstep s r) Hth).
    Qed.

    (* (d) C19 for the registry: a pipeline whose every registry read is stable when it starts (its types were
       registered before; whatever else it asks about is not being registered by anybody) obtains, under every
       schedule of the other threads - whatever they register -, exactly what it obtains running alone *)
    Theorem registered_before_start_independent sched :
      rth (rrun s0 sched) r = RFinished ->
      rlog_of r (robs (rrun s0 sched)) = rlog_of r (robs (rrun s0 ralone_schedule)).
    Proof.
      intros Hfin. rewrite (reader_log_canonical sched Hfin).
      symmetry. apply reader_log_canonical. apply reader_alone_finishes.
    Qed.
  End Reader.
End Registry.

(* ------------------------------------------------------------------------------------------------------------ *)
(* Part III: concrete schedules (non-vacuity), refutations, summary                                               *)
(* ------------------------------------------------------------------------------------------------------------ *)

(* three threads, two keys, all three patterns *)
Definition ex_f (k : key) : val := k * k + 1.
Definition ex_progs (t : tid) : list op :=
  match t with
  | 0 => [(Defer, 3); (Plain, 4)]
  | 1 => [(Plain, 3); (LOS, 4)]
  | 2 => [(LOS, 3); (Defer, 4)]
  | _ => []
  end.

(* all three Load key 3 before anybody stores: all three miss *)
Example ex_all_miss :
  let s := run ex_f (init ex_progs) [0; 1; 2] in
  (th s 0, th s 1, th s 2, tbl s 3, results s)
  = (Computed Defer 3 10 [(Plain, 4)], Computed Plain 3 10 [(LOS, 4)], Computed LOS 3 10 [(Defer, 4)], None, []).
Proof. vm_compute. reflexivity. Qed.

(* thread 0 returns before storing; thread 1 stores; thread 0's deferred Store is still to come: two Stores *)
Example ex_both_store :
  let s := run ex_f (init ex_progs) [0; 1; 2; 0; 1] in
  (th s 0, th s 1, tbl s 3, results s)
  = (DeferStore 3 10 [(Plain, 4)], Returning 3 10 [(LOS, 4)], Some 10, [(0, 3, 10)]) /\
  let s' := step ex_f s 0 in (th s' 0, tbl s' 3) = (Idle [(Plain, 4)], Some 10).
Proof. vm_compute. split; reflexivity. Qed.

Definition ex_sched : schedule := [0; 1; 2; 0; 1; 0; 2; 1; 2;  2; 1; 0; 2; 1; 0; 2; 1; 0;  0; 1; 2].

Example ex_full_run :
  let s := run ex_f (init ex_progs) ex_sched in
  (th s 0, th s 1, th s 2) = (Finished, Finished, Finished) /\
  (tbl s 3, tbl s 4, tbl s 5) = (Some 10, Some 17, None) /\
  results s = [(0, 4, 17); (1, 4, 17); (2, 4, 17); (2, 3, 10); (1, 3, 10); (0, 3, 10)].
Proof. vm_compute. repeat split; reflexivity. Qed.

(* the hypotheses of memo_same_as_alone are satisfiable, and its conclusion is what the computation shows *)
Example ex_same_as_alone :
  th (run ex_f (init ex_progs) ex_sched) 1 = Finished /\
  log_of 1 (results (run ex_f (init ex_progs) ex_sched)) = [(4, 17); (3, 10)] /\
  log_of 1 (results (run ex_f (init ex_progs) (alone_schedule (ex_progs 1) 1))) = [(4, 17); (3, 10)].
Proof. vm_compute. repeat split; reflexivity. Qed.

Example ex_memo_theorem_instance :
  forall t k v, In (t, k, v) (results (run ex_f (init ex_progs) ex_sched)) -> v = ex_f k.
Proof. exact (memo_schedule_independent ex_f ex_progs ex_sched). Qed.

(* nested lookups: key k+1 is "pointer to k"; both threads open three frames before anybody stores *)
Definition nx_sub (k : key) : option key := match k with 0 => None | S k' => Some k' end.
Definition nx_g (k : key) (o : option val) : val := match o with None => 7 | Some v => v + 2 end.
Definition nx_f (k : key) : val := 7 + 2 * k.
Lemma nx_f_rec : forall k, nx_f k = nx_g k (option_map nx_f (nx_sub k)).
Proof. intros [|k]; unfold nx_f; cbn [nx_sub option_map nx_g]; lia. Qed.
Definition nx_progs (t : tid) : list key := match t with 0 => [2] | 1 => [2; 1] | _ => [] end.

Example ex_nested_all_miss :
  let s := nrun nx_sub nx_g (ninit nx_progs) [0; 1; 0; 1; 0; 1] in
  (nth s 0, nth s 1, ntbl s 0, nresults s) = (NStore 0 7 [1; 2] [], NStore 0 7 [1; 2] [1], None, []).
Proof. vm_compute. reflexivity. Qed.

Example ex_nested_full_run :
  let s := nrun nx_sub nx_g (ninit nx_progs) [0; 1; 0; 1; 0; 1; 0; 1; 0; 1; 0; 1; 0; 1; 1; 1; 1] in
  (nth s 0, nth s 1) = (NFinished, NFinished) /\ (ntbl s 0, ntbl s 1, ntbl s 2) = (Some 7, Some 9, Some 11) /\
  nresults s = [(1, 1, 9); (1, 2, 11); (0, 2, 11)] /\
  (forall t k v, In (t, k, v) (nresults s) -> v = nx_f k).
Proof.
  split; [vm_compute; reflexivity|]. split; [vm_compute; reflexivity|]. split; [vm_compute; reflexivity|].
  exact (nested_memo_schedule_independent nx_sub nx_g nx_f nx_f_rec nx_progs _).
Qed.

(* --- registry ------------------------------------------------------------------------------------------------- *)
Definition ex_nm (x : ty) : name := 100 + x.

(* (c) the window between the two LoadOrStores of Register(5): a reader resolves the name 105 to the type 5 and
   then still finds no name for the type 5.  "Register is atomic for readers" is refuted. *)
Definition win_progs (t : tid) : list rop :=
  match t with
  | 0 => [Reg 5]
  | 1 => [Look (QN 105); Look (QT 5)]
  | _ => []
  end.

Theorem registry_window_refuted :
  exists progs sched r x,
    rth (rrun ex_nm (rinit progs) sched) 0 = RHalf x [] /\
    robs (rrun ex_nm (rinit progs) sched) = [(r, QT x, None); (r, QN (ex_nm x), Some x)].
Proof. exists win_progs, [0; 1; 1], 1, 5. vm_compute. split; reflexivity. Qed.

(* after the second LoadOrStore both directions are there (instance of registry_consistent_pairs) *)
Example registry_window_closes :
  robs (rrun ex_nm (rinit win_progs) [0; 0; 0; 1; 1]) = [(1, QT 5, Some 105); (1, QN 105, Some 5)] /\
  rth (rrun ex_nm (rinit win_progs) [0; 0; 0]) 0 = RFinished /\ In (Reg 5) (win_progs 0) /\
  (forall x', ex_nm x' = ex_nm 5 -> x' = 5).
Proof. split; [|split; [|split]]; try (vm_compute; reflexivity); [now left|]. unfold ex_nm. intros x' H. lia. Qed.

(* (b) needs collision-free names: with two types of one name (Go: two function-local types T of one package)
   the FIRST registration owns the name, a completed Register(2) is not seen under its name ... *)
Definition col_nm (x : ty) : name := 7.
Definition col_progs (t : tid) : list rop :=
  match t with
  | 0 => [Reg 1]
  | 1 => [Reg 2]
  | 2 => [Look (QN 7)]
  | _ => []
  end.

Theorem registry_consistent_pairs_refuted :
  exists nm progs sched1 sched2 w x r a,
    In (Reg x) (progs w) /\ rth (rrun nm (rinit progs) sched1) w = RFinished /\
    robs (rrun nm (rinit progs) (sched1 ++ sched2)) = [(r, QN (nm x), a)] ++ robs (rrun nm (rinit progs) sched1) /\
    a <> Some x.
Proof.
  exists col_nm, col_progs, [0; 0; 0; 1; 1; 1], [2], 1, 2, 2, (Some 1).
  split; [now left|]. split; [vm_compute; reflexivity|]. split; [vm_compute; reflexivity|]. discriminate.
Qed.

(* ... and which type owns the name depends on the schedule of the two registering threads *)
Example registry_name_collision_schedule_dependent :
  robs (rrun col_nm (rinit col_progs) [0; 0; 0; 1; 1; 1; 2]) = [(2, QN 7, Some 1)] /\
  robs (rrun col_nm (rinit col_progs) [1; 1; 1; 0; 0; 0; 2]) = [(2, QN 7, Some 2)].
Proof. vm_compute. split; reflexivity. Qed.

(* (d) is not vacuous and its hypothesis is needed.  A reader that asks about a type another thread is registering
   at the same time (dependent data) gets schedule-dependent answers: *)
Definition dep_progs (t : tid) : list rop :=
  match t with
  | 0 => [Reg 5]
  | 1 => [Look (QT 5)]
  | _ => []
  end.

Example registry_unstable_reader_schedule_dependent :
  rlog_of 1 (robs (rrun ex_nm (rinit dep_progs) [1; 1; 0; 0; 0])) = [(QT 5, None)] /\
  rlog_of 1 (robs (rrun ex_nm (rinit dep_progs) [0; 0; 0; 1; 1])) = [(QT 5, Some 105)] /\
  ~ stable ex_nm (rinit dep_progs) (QT 5).
Proof.
  split; [vm_compute; reflexivity|]. split; [vm_compute; reflexivity|].
  intros [Ha|Hu]; [apply Ha; reflexivity|]. apply (Hu 0 5); [now left|reflexivity].
Qed.

(* type 5 registered before the reader (thread 1) starts; threads 2 and 3 register the other types 6, 7 and - again -
   5 while it runs; the reader also asks about the unregistered type 9 and the unknown name 42 *)
Definition ind_progs (t : tid) : list rop :=
  match t with
  | 0 => [Reg 5]
  | 1 => map Look [QT 5; QN 105; QT 9; QN 42]
  | 2 => [Reg 6; Reg 7]
  | 3 => [Reg 5]
  | _ => []
  end.
Definition ind_s0 : rsys := rrun ex_nm (rinit ind_progs) [0; 0; 0; 2].   (* thread 2 is inside Register(6) *)
Definition ind_qs : list query := [QT 5; QN 105; QT 9; QN 42].
Definition ind_sched : schedule := [2; 1; 3; 2; 1; 2; 1; 3; 1; 2; 1; 3; 3].

Lemma ind_stable : forall q, In q ind_qs -> stable ex_nm ind_s0 q.
Proof.
  intros q [<-|[<-|[<-|[<-|[]]]]].
  - left. vm_compute. discriminate.
  - left. vm_compute. discriminate.
  - right. intros [|[|[|[|w]]]] x Hin; vm_compute in Hin; cbn [touches]; unfold ex_nm;
      repeat (destruct Hin as [Hin|Hin]; [first [discriminate Hin|injection Hin as <-; lia]|]); destruct Hin.
  - right. intros [|[|[|[|w]]]] x Hin; vm_compute in Hin; cbn [touches]; unfold ex_nm;
      repeat (destruct Hin as [Hin|Hin]; [first [discriminate Hin|injection Hin as <-; lia]|]); destruct Hin.
Qed.

Example registered_before_start_independent_ex :
  rth ind_s0 1 = RIdle (map Look ind_qs) /\
  rth ind_s0 2 = RHalf 6 [Reg 7] /\
  rth (rrun ex_nm ind_s0 ind_sched) 1 = RFinished /\
  rlog_of 1 (robs (rrun ex_nm ind_s0 ind_sched)) = [(QN 42, None); (QT 9, None); (QN 105, Some 5); (QT 5, Some 105)] /\
  rlog_of 1 (robs (rrun ex_nm ind_s0 ind_sched)) = rlog_of 1 (robs (rrun ex_nm ind_s0 (ralone_schedule 1 ind_qs))).
Proof.
  split; [vm_compute; reflexivity|]. split; [vm_compute; reflexivity|]. split; [vm_compute; reflexivity|].
  split; [vm_compute; reflexivity|].
  apply (registered_before_start_independent ex_nm ind_s0 1 ind_qs); [reflexivity|exact ind_stable|].
  vm_compute. reflexivity.
Qed.

Definition MemoSchedules_main_theorems :=
  (step_inv, init_inv, memo_schedule_independent, memo_table_correct, step_tbl_grows, memo_table_grows,
   memo_table_keys_requested, memo_unrequested_key_misses, memo_finished_log, memo_log_prefix,
   memo_alone_finishes, memo_same_as_alone,
   nstep_inv, nested_memo_schedule_independent, nested_memo_table_correct,
   registry_entries_never_change, registry_monotone, rstep_rinv, rinit_rinv,
   registry_consistent_pairs_partial, registry_consistent_pairs, registry_consistent_pairs_refuted,
   registry_window_one_sided, registry_window_refuted, stable_step, completed_register_answered,
   reader_log_canonical, reader_log_prefix, reader_alone_finishes, registered_before_start_independent,
   (ex_all_miss, ex_both_store, ex_full_run, ex_same_as_alone, ex_memo_theorem_instance,
    ex_nested_all_miss, ex_nested_full_run,
    registry_window_closes, registry_name_collision_schedule_dependent,
    registry_unstable_reader_schedule_dependent, registered_before_start_independent_ex)).
Print Assumptions MemoSchedules_main_theorems.
