(* Abstract/PathsAlias.v — Go slice/append aliasing model of Ctx.Path (ctx.go: WithPath appends to a slice carried
   by value in the context, so sibling contexts can share a backing array) and the marshal/unmarshal traversal that
   copies the slice header by value per child.  Theorem: every element is tapped with exactly its own path, for EVERY
   growth policy of append.  Model and proof together (this model is not executed by the correspondence; the tie to the
   code is the tap-log correspondence of the marshal/unmarshal families). *)
From Coq Require Import List Arith Lia Bool.
Import ListNotations.

(* Go slices over a store of backing arrays; path elements are nats *)
Record store := { cell : nat -> nat -> nat; next : nat }.
Record slice := { arr : nat; len : nat; cap : nat }.

Section Paths.
Variable grow : nat -> nat.                       (* capacity chosen by growslice when length n+1 is needed *)
Hypothesis grow_ok : forall n, n < grow n.

Definition write (f : nat -> nat -> nat) a i x : nat -> nat -> nat :=
  fun b j => if (Nat.eqb b a && Nat.eqb j i)%bool then x else f b j.

(* Go's append(s, x): in place when there is room, else copy into a fresh array *)
Definition append (st : store) (s : slice) (x : nat) : store * slice :=
  if len s <? cap s then
    ({| cell := write (cell st) (arr s) (len s) x; next := next st |},
     {| arr := arr s; len := S (len s); cap := cap s |})
  else
    let a' := next st in
    ({| cell := fun b j => if Nat.eqb b a' then (if j <? len s then cell st (arr s) j else if Nat.eqb j (len s) then x else 0)
                           else cell st b j;
        next := S a' |},
     {| arr := a'; len := S (len s); cap := grow (len s) |}).

Definition read (st : store) (s : slice) : list nat := map (cell st (arr s)) (seq 0 (len s)).

Inductive tree := Node (children : list (nat * tree)).

Section tree_ind2.
  Variable P : tree -> Prop.
  Hypothesis HN : forall cs, Forall (fun c => P (snd c)) cs -> P (Node cs).
  Fixpoint tree_ind2 (t : tree) : P t :=
    match t with Node cs => HN cs ((fix go l : Forall (fun c => P (snd c)) l :=
       match l with [] => Forall_nil _ | c :: r => Forall_cons _ (tree_ind2 (snd c)) (go r) end) cs) end.
End tree_ind2.

(* the traversal: the context (slice header) is copied by value for every child: ctx.WithPath(label) *)
Fixpoint visit (st : store) (p : slice) (t : tree) {struct t} : store * list (list nat) :=
  match t with
  | Node cs =>
      let tap := read st p in
      let '(st', taps) :=
        (fix kids (st : store) (l : list (nat * tree)) : store * list (list nat) :=
           match l with
           | [] => (st, [])
           | (lab, c) :: r =>
               let '(st1, p1) := append st p lab in
               let '(st2, t1) := visit st1 p1 c in
               let '(st3, t2) := kids st2 r in
               (st3, t1 ++ t2)
           end) st cs in
      (st', tap :: taps)
  end.

Definition kids (p : slice) :=
  fix kids (st : store) (l : list (nat * tree)) : store * list (list nat) :=
    match l with
    | [] => (st, [])
    | (lab, c) :: r =>
        let '(st1, p1) := append st p lab in
        let '(st2, t1) := visit st1 p1 c in
        let '(st3, t2) := kids st2 r in
        (st3, t1 ++ t2)
    end.

(* specification: every element is tapped with its true path, in pre-order *)
Fixpoint paths (pi : list nat) (t : tree) {struct t} : list (list nat) :=
  match t with
  | Node cs => pi :: (fix go l := match l with [] => [] | (lab, c) :: r => paths (pi ++ [lab]) c ++ go r end) cs
  end.
Definition kpaths (pi : list nat) :=
  fix go (l : list (nat * tree)) := match l with [] => [] | (lab, c) :: r => paths (pi ++ [lab]) c ++ go r end.

(* frame: a traversal started with slice p only writes array (arr p) at indices >= len p, or fresh arrays *)
Definition frame (st st' : store) (a n : nat) : Prop :=
  next st <= next st' /\
  forall b j, b < next st -> (b <> a \/ j < n) -> cell st' b j = cell st b j.

Definition wf (st : store) (p : slice) : Prop := arr p < next st /\ len p <= cap p.

Lemma frame_refl st a n : frame st st a n.
Proof. split; [lia|auto]. Qed.

Lemma frame_trans st1 st2 st3 a n a2 n2 :
  frame st1 st2 a n -> frame st2 st3 a2 n2 ->
  (a2 = a /\ n <= n2 \/ next st1 <= a2) ->
  frame st1 st3 a n.
Proof.
  intros [H1 F1] [H2 F2] Hrel. split; [lia|]. intros b j Hb Hc.
  rewrite F2; [apply F1; assumption|lia|].
  destruct Hrel as [[-> Hn]|Hfresh]; [destruct Hc; [left; assumption|right; lia] | left; lia].
Qed.

Lemma read_ext st st' p : (forall j, j < len p -> cell st' (arr p) j = cell st (arr p) j) -> read st' p = read st p.
Proof.
  intros H. unfold read. apply map_ext_in. intros j Hj. apply in_seq in Hj. apply H. lia.
Qed.

Lemma append_spec st p x st1 p1 : wf st p -> append st p x = (st1, p1) ->
  wf st1 p1 /\ read st1 p1 = read st p ++ [x] /\ len p1 = S (len p) /\
  frame st st1 (arr p) (len p) /\ (arr p1 = arr p \/ next st <= arr p1).
Proof.
  intros [Ha Hl]. unfold append. destruct (len p <? cap p) eqn:E.
  - apply Nat.ltb_lt in E. intros [= <- <-]. cbn [arr len cap cell next].
    split; [split; cbn; lia|]. split; [|split; [reflexivity|split; [split; [cbn; lia|]|now left]]].
    + unfold read. cbn [arr len cell]. rewrite seq_S, map_app. cbn [map Nat.add]. f_equal.
      * apply map_ext_in. intros j Hj. apply in_seq in Hj. unfold write.
        rewrite Nat.eqb_refl. cbn [andb]. destruct (Nat.eqb_spec j (len p)); [lia|reflexivity].
      * unfold write. now rewrite !Nat.eqb_refl.
    + intros b j Hb Hc. cbn [cell]. unfold write.
      destruct (Nat.eqb_spec b (arr p)); cbn [andb]; [|reflexivity].
      destruct (Nat.eqb_spec j (len p)); [lia|reflexivity].
  - apply Nat.ltb_ge in E. intros [= <- <-]. cbn [arr len cap cell next].
    pose proof (grow_ok (len p)).
    split; [split; cbn; lia|]. split; [|split; [reflexivity|split; [split; [cbn; lia|]|right; cbn; lia]]].
    + unfold read. cbn [arr len cell]. rewrite seq_S, map_app. cbn [map Nat.add]. f_equal.
      * apply map_ext_in. intros j Hj. apply in_seq in Hj. rewrite Nat.eqb_refl.
        destruct (Nat.ltb_spec j (len p)); [reflexivity|lia].
      * rewrite Nat.eqb_refl. destruct (Nat.ltb_spec (len p) (len p)); [lia|]. now rewrite Nat.eqb_refl.
    + intros b j Hb Hc. cbn [cell]. destruct (Nat.eqb_spec b (next st)); [lia|reflexivity].
Qed.

Definition visit_ok (t : tree) : Prop :=
  forall st p pi, wf st p -> read st p = pi ->
    let '(st', taps) := visit st p t in
    taps = paths pi t /\ frame st st' (arr p) (len p).

Lemma kids_ok p pi : forall cs, Forall (fun c => visit_ok (snd c)) cs ->
  forall st, wf st p -> read st p = pi ->
    let '(st', taps) := kids p st cs in
    taps = kpaths pi cs /\ frame st st' (arr p) (len p).
Proof.
  induction 1 as [|[lab c] r Hc _ IH]; intros st Hwf Hr; cbn [kids kpaths].
  - split; [reflexivity|apply frame_refl].
  - destruct (append st p lab) as [st1 p1] eqn:Ea.
    destruct (append_spec st p lab st1 p1 Hwf Ea) as (Hwf1 & Hr1 & Hlen1 & Hf1 & Harr1).
    specialize (Hc st1 p1 (pi ++ [lab]) Hwf1 ltac:(rewrite Hr1, Hr; reflexivity)). cbn [snd] in Hc.
    destruct (visit st1 p1 c) as [st2 t1]. destruct Hc as [-> Hf2].
    (* after the child, p still reads pi: the child only wrote at indices >= len p or in fresh arrays *)
    assert (Hf12 : frame st st2 (arr p) (len p)).
    { eapply frame_trans; [exact Hf1|exact Hf2|]. destruct Harr1 as [->|Hfresh]; [left; split; [reflexivity|lia]|right; assumption]. }
    assert (Hwf2 : wf st2 p) by (destruct Hwf, Hf12; split; lia).
    assert (Hr2 : read st2 p = pi).
    { rewrite <- Hr. apply read_ext. intros j Hj. apply Hf12; [apply Hwf|right; assumption]. }
    specialize (IH st2 Hwf2 Hr2). destruct (kids p st2 r) as [st3 t2]. destruct IH as [-> Hf3].
    split; [reflexivity|].
    eapply frame_trans; [exact Hf12|exact Hf3|left; split; [reflexivity|lia]].
Qed.

Theorem visit_all_ok : forall t, visit_ok t.
Proof.
  induction t as [cs IH] using tree_ind2. intros st p pi Hwf Hr.
  change (visit st p (Node cs)) with (let '(st', taps) := kids p st cs in (st', read st p :: taps)).
  pose proof (kids_ok p pi cs IH st Hwf Hr) as Hk.
  destruct (kids p st cs) as [st' taps]. destruct Hk as [-> Hf].
  split; [|assumption]. rewrite Hr. reflexivity.
Qed.

(* C17 shape: starting from the empty path, every element is tapped with exactly its own path,
   whatever capacities append chooses *)
Definition st0 : store := {| cell := fun _ _ => 0; next := 1 |}.
Definition p0 : slice := {| arr := 0; len := 0; cap := 0 |}.
Corollary taps_are_true_paths t : snd (visit st0 p0 t) = paths [] t.
Proof.
  pose proof (visit_all_ok t st0 p0 [] ltac:(split; cbn; lia) eq_refl) as H.
  destruct (visit st0 p0 t) as [st' taps]. now destruct H.
Qed.
End Paths.
Print Assumptions taps_are_true_paths.
Check taps_are_true_paths.

