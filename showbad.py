#!/usr/bin/env python3
# debugging helper: show mismatching cases of a work directory
import json,re,glob,sys,os
d=sys.argv[1] if len(sys.argv)>1 else '.'
limit=int(sys.argv[2]) if len(sys.argv)>2 else 8
os.chdir(d)
reps={}
for f in glob.glob('*.json'):
    r=json.load(open(f)); reps[r['family']]=r
shown=0
for f in sorted(glob.glob('cases_*.v.out')):
    s=open(f).read()
    m=re.search(r'bad\s*=\s*\[(.*?)\]\s*:\s*list nat',s,re.S)
    vf=f[:-4]
    if not m:
        print(vf,'NO RESULT:',s[-500:]); continue
    idx=[int(x.replace('%nat','')) for x in re.split(r'[;\s]+',m.group(1).strip()) if x]
    if not idx: continue
    fam=re.match(r'cases_(.*)_\d+\.v',vf).group(1)
    lines=open(vf).read().split('\n')
    body='\n'.join(lines[3:])
    cases=body.split(';\n')
    print(vf,len(idx),'mismatches')
    for i in idx:
        if shown>=limit: break
        shown+=1
        print('  #%d'%i, reps[fam]['case_index'][vf][i][:300])
        print('     ', cases[i][:1500])
