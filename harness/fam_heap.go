package main

import (
	"errors"
	"fmt"
	"math/rand"
	"reflect"
	"strings"
	"time"

	"github.com/reusee/sb"
)

// Go types for the graphs of C18
type HNode struct {
	P *HNode
	I any
}
type SS []SS
type MM map[string]MM
type SA [][1]SA          // a slice whose elements are arrays of itself
type MA map[string][2]MA // a map whose values are arrays of itself

// a value position in the graph spec
type hv struct {
	kind string // int nilptr nilslice nilmap nilany ptr anyslice anymap ss mm iface
	addr int
	in   *hv // for iface: the held value
}

type hcell struct {
	kind  string // node anyslice anymap ss mm pany
	p     hv     // node: the P field (ptr / nilptr)
	i     hv     // node: the I field (an iface value or nilany)
	items []hv   // slices and maps
}

type hgraph struct {
	cells []hcell
	root  hv
	rev   bool // allocate the cells in reverse order (the relative order of addresses must not matter)
}

func (v hv) coq() string {
	switch v.kind {
	case "int":
		return "VInt"
	case "nilptr":
		return "(VPtr None)"
	case "nilslice":
		return "(VSlice None)"
	case "nilmap":
		return "(VMap None)"
	case "nilany":
		return "(VIface None)"
	case "ptr":
		return fmt.Sprintf("(VPtr (Some %d))", v.addr)
	case "anyslice", "ss":
		return fmt.Sprintf("(VSlice (Some %d))", v.addr)
	case "anymap", "mm":
		return fmt.Sprintf("(VMap (Some %d))", v.addr)
	case "iface":
		return "(VIface (Some " + v.in.coq() + "))"
	}
	panic("hv kind " + v.kind)
}

func (g *hgraph) coq() string {
	var xs []string
	for a, c := range g.cells {
		switch c.kind {
		case "node":
			xs = append(xs, fmt.Sprintf("(%d, CVal (VStruct [%s; %s]))", a, c.p.coq(), c.i.coq()))
		case "pany":
			xs = append(xs, fmt.Sprintf("(%d, CVal %s)", a, c.i.coq()))
		default:
			var items []string
			for _, it := range c.items {
				items = append(items, it.coq())
			}
			xs = append(xs, fmt.Sprintf("(%d, CItems [%s])", a, strings.Join(items, "; ")))
		}
	}
	return "[" + strings.Join(xs, "; ") + "]"
}

// build the Go object graph
func (g *hgraph) build() any {
	objs := make([]any, len(g.cells))
	for k := range g.cells {
		a := k
		if g.rev {
			a = len(g.cells) - 1 - k
		}
		c := g.cells[a]
		switch c.kind {
		case "node":
			objs[a] = &HNode{}
		case "pany":
			objs[a] = new(any)
		case "anyslice":
			objs[a] = make([]any, len(c.items))
		case "anymap":
			objs[a] = make(map[string]any, len(c.items))
		case "ss":
			objs[a] = make(SS, len(c.items))
		case "mm":
			objs[a] = make(MM, len(c.items))
		}
	}
	var val func(v hv) any
	val = func(v hv) any {
		switch v.kind {
		case "int":
			return 7
		case "nilptr":
			return (*HNode)(nil)
		case "nilslice":
			return []any(nil)
		case "nilmap":
			return map[string]any(nil)
		case "nilany":
			return nil
		case "ptr", "anyslice", "anymap", "ss", "mm":
			return objs[v.addr]
		case "iface":
			return val(*v.in)
		}
		panic("val")
	}
	for a, c := range g.cells {
		switch c.kind {
		case "node":
			n := objs[a].(*HNode)
			if c.p.kind == "ptr" {
				n.P = objs[c.p.addr].(*HNode)
			}
			if c.i.kind == "iface" {
				n.I = val(*c.i.in)
			}
		case "pany":
			if c.i.kind == "iface" {
				*(objs[a].(*any)) = val(*c.i.in)
			}
		case "anyslice":
			s := objs[a].([]any)
			for i, it := range c.items {
				if it.kind == "iface" {
					s[i] = val(*it.in)
				}
			}
		case "anymap":
			m := objs[a].(map[string]any)
			for i, it := range c.items {
				var x any
				if it.kind == "iface" {
					x = val(*it.in)
				}
				m[fmt.Sprintf("k%03d", i)] = x
			}
		case "ss":
			s := objs[a].(SS)
			for i, it := range c.items {
				if it.kind == "ss" {
					s[i] = objs[it.addr].(SS)
				}
			}
		case "mm":
			m := objs[a].(MM)
			for i, it := range c.items {
				var x MM
				if it.kind == "mm" {
					x = objs[it.addr].(MM)
				}
				m[fmt.Sprintf("k%03d", i)] = x
			}
		}
	}
	return val(g.root)
}

// is a reference reachable from itself? (graph cyclicity, independent of the traversal)
func (g *hgraph) cyclic() bool {
	color := make([]int, len(g.cells))
	var refs func(v hv, out []int) []int
	refs = func(v hv, out []int) []int {
		switch v.kind {
		case "ptr", "anyslice", "anymap", "ss", "mm":
			return append(out, v.addr)
		case "iface":
			return refs(*v.in, out)
		}
		return out
	}
	var visit func(a int) bool
	visit = func(a int) bool {
		if color[a] == 1 {
			return true
		}
		if color[a] == 2 {
			return false
		}
		color[a] = 1
		c := g.cells[a]
		var out []int
		if c.kind == "node" {
			out = refs(c.p, out)
			out = refs(c.i, out)
		}
		if c.kind == "pany" {
			out = refs(c.i, out)
		}
		for _, it := range c.items {
			out = refs(it, out)
		}
		for _, b := range out {
			if visit(b) {
				return true
			}
		}
		color[a] = 2
		return false
	}
	for _, a := range refs(g.root, nil) {
		if visit(a) {
			return true
		}
	}
	return false
}

func ifaceOf(v hv) hv { return hv{kind: "iface", in: &v} }

// a chain of n links of the given flavour ending in a leaf (or closing a cycle of length cyc after the prefix)
func chainGraph(flavour string, prefix, cyc int) *hgraph {
	g := &hgraph{}
	n := prefix + cyc
	if cyc == 0 {
		n = prefix
	}
	target := func(i int) int { // where link i points
		if i+1 < n {
			return i + 1
		}
		if cyc > 0 {
			return prefix // back to the start of the cycle
		}
		return -1
	}
	for i := 0; i < n; i++ {
		t := target(i)
		switch flavour {
		case "ptr":
			c := hcell{kind: "node", p: hv{kind: "nilptr"}, i: hv{kind: "nilany"}}
			if t >= 0 {
				c.p = hv{kind: "ptr", addr: t}
			}
			g.cells = append(g.cells, c)
		case "iface":
			c := hcell{kind: "node", p: hv{kind: "nilptr"}, i: ifaceOf(hv{kind: "int"})}
			if t >= 0 {
				c.i = ifaceOf(hv{kind: "ptr", addr: t})
			}
			g.cells = append(g.cells, c)
		case "anyslice":
			c := hcell{kind: "anyslice", items: []hv{ifaceOf(hv{kind: "int"})}}
			if t >= 0 {
				c.items = []hv{ifaceOf(hv{kind: "anyslice", addr: t})}
			}
			g.cells = append(g.cells, c)
		case "anymap":
			c := hcell{kind: "anymap", items: []hv{ifaceOf(hv{kind: "int"})}}
			if t >= 0 {
				c.items = []hv{ifaceOf(hv{kind: "anymap", addr: t})}
			}
			g.cells = append(g.cells, c)
		case "pany":
			// a pointer to an interface that holds the next pointer: var a any; a = &a
			c := hcell{kind: "pany", i: ifaceOf(hv{kind: "int"})}
			if t >= 0 {
				c.i = ifaceOf(hv{kind: "ptr", addr: t})
			}
			g.cells = append(g.cells, c)
		case "ss":
			c := hcell{kind: "ss", items: []hv{{kind: "nilslice"}}}
			if t >= 0 {
				c.items = []hv{{kind: "ss", addr: t}}
			}
			g.cells = append(g.cells, c)
		case "mm":
			c := hcell{kind: "mm", items: []hv{{kind: "nilmap"}}}
			if t >= 0 {
				c.items = []hv{{kind: "mm", addr: t}}
			}
			g.cells = append(g.cells, c)
		}
	}
	if n == 0 {
		g.root = hv{kind: "nilptr"}
		return g
	}
	switch flavour {
	case "ptr", "iface", "pany":
		g.root = hv{kind: "ptr", addr: 0}
	default:
		g.root = hv{kind: flavour, addr: 0}
	}
	return g
}

// random mixture: nodes, any-slices and any-maps with random links (cyclic or not)
func randGraph(r *rand.Rand, n int, acyclic bool) *hgraph {
	g := &hgraph{}
	kinds := []string{"node", "node", "anyslice", "anymap"}
	for i := 0; i < n; i++ {
		g.cells = append(g.cells, hcell{kind: kinds[r.Intn(len(kinds))]})
	}
	ref := func(from int) hv {
		lo := 0
		if acyclic {
			lo = from + 1 // only forward links: a DAG (shared nodes allowed)
		}
		if lo >= n {
			return hv{kind: "int"}
		}
		t := lo + r.Intn(n-lo)
		switch g.cells[t].kind {
		case "node":
			return hv{kind: "ptr", addr: t}
		default:
			return hv{kind: g.cells[t].kind, addr: t}
		}
	}
	for i := range g.cells {
		c := &g.cells[i]
		switch c.kind {
		case "node":
			c.p = hv{kind: "nilptr"}
			c.i = hv{kind: "nilany"}
			if r.Intn(2) == 0 {
				for tries := 0; tries < 5; tries++ {
					v := ref(i)
					if v.kind == "ptr" {
						c.p = v
						break
					}
				}
			}
			if r.Intn(3) != 0 {
				c.i = ifaceOf(ref(i))
			}
		default:
			m := 1 + r.Intn(3)
			for j := 0; j < m; j++ {
				if r.Intn(4) == 0 {
					c.items = append(c.items, hv{kind: "nilany"})
				} else {
					c.items = append(c.items, ifaceOf(ref(i)))
				}
			}
		}
	}
	if g.cells[0].kind == "node" {
		g.root = hv{kind: "ptr", addr: 0}
	} else {
		g.root = hv{kind: g.cells[0].kind, addr: 0}
	}
	return g
}

// run f in its own goroutine; if it has not returned after d it is abandoned (a call that never returns
// cannot be stopped: the goroutine keeps spinning until the process exits) and errDiverge is reported
func withWatchdog(d time.Duration, leaked *int, f func() error) error {
	done := make(chan error, 1)
	go func() { done <- f() }()
	select {
	case e := <-done:
		return e
	case <-time.After(d):
		*leaked++
		return errDiverge
	}
}

func famHeap(dir string, seed int64, tier string) {
	thorough := tier == "thorough"
	rep := newReport("heap", seed, tier)
	rep.Rule = "pointer / interface / slice / map graphs: chains of depth 1..5000 with 998..1002 exact, cycles of length 1..8 entered after prefixes 0..1200 (boundary set in the quick tier), each built from pointers, interfaces, []any, map[string]any, self-typed slices and maps; random mixtures and DAGs with shared nodes; marshalled under a token budget; non-trivial = at least 2 cells; distinct by case text"
	w := newCaseWriter(dir, "heap", "Corr_heap", "heap_case", "check_heap", 40, rep)
	r := newRand(seed, "heap")
	var graphs []*hgraph
	var tags []string
	add := func(g *hgraph, tag string) { graphs = append(graphs, g); tags = append(tags, tag) }
	flavours := []string{"ptr", "iface", "pany", "anyslice", "anymap", "ss", "mm"}
	depths := []int{0, 1, 2, 10, 499, 500, 501, 998, 999, 1000, 1001, 1002, 2000}
	if thorough {
		depths = append(depths, 333, 1500, 3000, 5000)
	}
	for _, f := range flavours {
		for _, d := range depths {
			add(chainGraph(f, d, 0), fmt.Sprintf("chain %s depth=%d", f, d))
		}
		prefixes := []int{0, 1, 5, 498, 499, 500, 997, 998, 999, 1000, 1001, 1200}
		cycles := []int{1, 2, 3, 8}
		if thorough {
			cycles = []int{1, 2, 3, 4, 5, 6, 7, 8}
		}
		for _, p := range prefixes {
			for _, c := range cycles {
				if !thorough && (p+c)%3 == 0 && p > 5 {
					continue
				}
				add(chainGraph(f, p, c), fmt.Sprintf("cycle %s prefix=%d len=%d", f, p, c))
			}
		}
	}
	// cycles longer than any bounded window of remembered references
	for _, f := range []string{"ptr", "iface", "anyslice", "mm"} {
		for _, pc := range [][2]int{{0, 1023}, {0, 1024}, {0, 1025}, {700, 1025}, {0, 1500}, {3, 2200}} {
			if !thorough && f != "ptr" && pc[1] != 1025 {
				continue
			}
			add(chainGraph(f, pc[0], pc[1]), fmt.Sprintf("cycle %s prefix=%d len=%d", f, pc[0], pc[1]))
		}
	}
	// a DAG with a shared node below many levels of indirection: not a cycle, at any depth
	for _, d := range []int{1, 997, 998, 999, 1000, 1001, 1500} {
		g := chainGraph("ptr", d, 0)
		last := len(g.cells) - 1
		shared := len(g.cells)
		g.cells = append(g.cells, hcell{kind: "node", p: hv{kind: "nilptr"}, i: ifaceOf(hv{kind: "int"})})
		g.cells[last].p = hv{kind: "ptr", addr: shared}
		g.cells[last].i = ifaceOf(hv{kind: "ptr", addr: shared})
		add(g, fmt.Sprintf("diamond below %d pointer levels", d))
	}
	// a ladder of diamonds below many levels: every rung is reached twice (through the pointer and through the
	// interface of the rung above), rungs allocated after (and, in the reversed build, before) their ancestors
	for _, d := range []int{1, 996, 1000, 1003, 1300} {
		g := chainGraph("ptr", d, 0)
		last := len(g.cells) - 1
		for rung := 0; rung < 6; rung++ {
			shared := len(g.cells)
			g.cells = append(g.cells, hcell{kind: "node", p: hv{kind: "nilptr"}, i: ifaceOf(hv{kind: "int"})})
			g.cells[last].p = hv{kind: "ptr", addr: shared}
			g.cells[last].i = ifaceOf(hv{kind: "ptr", addr: shared})
			last = shared
		}
		add(g, fmt.Sprintf("ladder of 6 diamonds below %d pointer levels", d))
	}
	// a pointer prefix of every small length in front of a pointer/interface cycle (parity of the depth counter)
	for p := 0; p <= 6; p++ {
		for _, fl := range []string{"iface", "pany"} {
			g := chainGraph("ptr", p, 0)
			c := chainGraph(fl, 0, 1+p%2)
			off := len(g.cells)
			for _, cell := range c.cells {
				shift := func(v hv) hv {
					if v.kind == "ptr" {
						v.addr += off
					}
					if v.kind == "iface" && v.in.kind == "ptr" {
						in := *v.in
						in.addr += off
						v.in = &in
					}
					return v
				}
				cell.p = shift(cell.p)
				cell.i = shift(cell.i)
				g.cells = append(g.cells, cell)
			}
			if p > 0 {
				if fl == "pany" {
					g.cells[off-1].i = ifaceOf(hv{kind: "ptr", addr: off}) // an `any` field holding the *any
				} else {
					g.cells[off-1].p = hv{kind: "ptr", addr: off}
				}
			} else {
				g.root = hv{kind: "ptr", addr: off}
			}
			add(g, fmt.Sprintf("ptr prefix %d then %s cycle", p, fl))
		}
	}
	nrand := 60
	if thorough {
		nrand = 1500
	}
	for i := 0; i < nrand; i++ {
		add(randGraph(r, 2+r.Intn(10), i%2 == 0), "random")
	}
	leaked := 0
	for gi, g := range graphs {
		root := g.build()
		desc := tags[gi]
		if tags[gi] == "random" {
			desc = "random heap=" + truncate(g.coq(), 600) + " root=" + g.root.coq()
		}
		cyc := g.cyclic()
		var kinds []byte
		if leaked >= 6 && cyc {
			rep.count("skipped after repeated divergence")
			continue
		}
		err := withWatchdog(8*time.Second, &leaked, func() error {
			t0 := time.Now()
			var ks []byte
			e := guard(func() error {
				s := sb.Marshal(root)
				for i := 0; ; i++ {
					var t sb.Token
					if e := s.Next(&t); e != nil {
						return e
					}
					if t.Invalid() {
						return nil
					}
					ks = append(ks, byte(t.Kind))
					if i > 60000 || (i%1000 == 0 && time.Since(t0) > 4*time.Second) {
						return errDiverge
					}
				}
			})
			kinds = ks
			return e
		})
		rep.Evaluations++
		rep.count("class:" + classOf(err))
		rep.count(fmt.Sprintf("cyclic:%v", cyc))
		switch {
		case classOf(err) == "EPanic":
			rep.violate("C18", "marshal-panic", fmt.Sprintf("Marshal panicked: %v", err), desc)
		case classOf(err) == "EDiverge":
			rep.violate("C18", "marshal-diverges", "more than 60000 tokens (or 4 s) without an end: marshalling does not terminate", desc)
		case cyc && classOf(err) != "ECyclic":
			rep.violate("C18", "cycle-not-reported", fmt.Sprintf("a cyclic value marshalled without a cyclic-pointer error (%v, %d tokens)", err, len(kinds)), desc)
		case !cyc && err != nil:
			rep.violate("C18", "acyclic-rejected", fmt.Sprintf("an acyclic value failed to marshal: %v", err), desc)
		case cyc && !errors.Is(err, sb.MarshalError):
			rep.violate("C18", "not-a-marshal-error", fmt.Sprintf("%v", err), desc)
		}
		if cyc && classOf(err) == "ECyclic" {
			var ep sb.Path
			if !errors.As(err, &ep) {
				rep.violate("C18", "error-without-path", fmt.Sprintf("the cyclic-pointer error carries no path: %v", err), desc)
			}
		}
		// the same graph allocated in the opposite order: whether a shared node lies below or above its
		// ancestors in memory must not matter (acyclic graphs: DAGs with shared nodes are the interesting ones)
		if !cyc && err == nil && len(g.cells) >= 2 {
			g2 := &hgraph{cells: g.cells, root: g.root, rev: true}
			root2 := g2.build()
			var e2 error
			_ = withWatchdog(8*time.Second, &leaked, func() error { _, e2 = marshalTokens(root2, nil); return nil })
			rep.Evaluations++
			if e2 != nil {
				rep.violate("C18", "acyclic-rejected", fmt.Sprintf("an acyclic value failed to marshal when its cells are allocated in reverse order: %v", e2), desc)
			}
		}
		// acyclic values round trip
		hasIface := strings.Contains(g.coq(), "VIface (Some")
		if !cyc && err == nil && len(kinds) < 20000 && !hasIface {
			// (graphs with interface-typed positions holding structs are outside the typed round trip: an `any`
			//  field is decoded schema-lessly, which rejects an object holding a Nil field - C11's stated exclusion)
			ts, _ := marshalTokens(root, nil)
			back, eU := unmarshalInto(reflect.TypeOf(root), ts, nil)
			if root == nil {
				eU = nil
			} else if eU != nil {
				rep.violate("C18", "acyclic-roundtrip", fmt.Sprintf("unmarshal of the marshalled stream failed: %v", eU), desc)
			} else if ts2, e2 := marshalTokens(back.Interface(), nil); e2 != nil || !tokensExactEq(ts, ts2) {
				rep.violate("C18", "acyclic-roundtrip", "the round-tripped value marshals differently", desc)
			}
		}
		obs := "(HErrC " + classOf(err) + ")"
		if err == nil {
			obs = "(HKinds " + coqRLE(kinds) + ")"
		}
		if len(g.cells) <= 2500 || thorough {
			w.add(fmt.Sprintf("HeapCase %s %s %s", g.coq(), g.root.coq(), obs), desc, len(g.cells) >= 2)
		}
	}
	apiVeryLongChain(rep, "C18")
	apiCyclesThroughMarshalers(rep)
	apiCyclesThroughNestedStreams(rep)
	apiKeysNaNAndCycles(rep, "C18")
	// cycles and chains through slices / maps of ARRAYS (Go-side oracles only: arrays are not in the heap model)
	for _, n := range []int{1, 2, 3, 1001} {
		for _, cyclic := range []bool{false, true} {
			sas := make([]SA, n)
			for i := range sas {
				sas[i] = make(SA, 1)
			}
			for i := 0; i+1 < n; i++ {
				sas[i][0][0] = sas[i+1]
			}
			if cyclic {
				sas[n-1][0][0] = sas[0]
			}
			mas := make([]MA, n)
			for i := range mas {
				mas[i] = MA{}
			}
			for i := 0; i+1 < n; i++ {
				mas[i]["k"] = [2]MA{nil, mas[i+1]}
			}
			if cyclic {
				mas[n-1]["k"] = [2]MA{mas[0], nil}
			} else {
				mas[n-1]["k"] = [2]MA{}
			}
			for _, root := range []any{sas[0], mas[0]} {
				desc := fmt.Sprintf("array flavour %T n=%d cyclic=%v", root, n, cyclic)
				if leaked >= 6 && cyclic {
					continue
				}
				err := withWatchdog(8*time.Second, &leaked, func() error {
					count := 0
					t1 := time.Now()
					return guard(func() error {
						s := sb.Marshal(root)
						for {
							var t sb.Token
							if e := s.Next(&t); e != nil {
								return e
							}
							if t.Invalid() {
								return nil
							}
							count++
							if count > 60000 || (count%1000 == 0 && time.Since(t1) > 4*time.Second) {
								return errDiverge
							}
						}
					})
				})
				rep.Evaluations++
				switch {
				case classOf(err) == "EPanic":
					rep.violate("C18", "marshal-panic", fmt.Sprintf("Marshal panicked: %v", err), desc)
				case classOf(err) == "EDiverge":
					rep.violate("C18", "marshal-diverges", "more than 60000 tokens (or 4 s) without an end: marshalling does not terminate", desc)
				case cyclic && classOf(err) != "ECyclic":
					rep.violate("C18", "cycle-not-reported", fmt.Sprintf("a cyclic value marshalled without a cyclic-pointer error (%v)", err), desc)
				case !cyclic && err != nil:
					rep.violate("C18", "acyclic-rejected", fmt.Sprintf("an acyclic value failed to marshal: %v", err), desc)
				}
			}
		}
	}
	// non-byte arrays reached at an indirection depth around the threshold (arrays are values, not references)
	runMarshal := func(root any) error {
		return withWatchdog(8*time.Second, &leaked, func() error {
			count := 0
			t1 := time.Now()
			return guard(func() error {
				s := sb.Marshal(root)
				for {
					var t sb.Token
					if e := s.Next(&t); e != nil {
						return e
					}
					if t.Invalid() {
						return nil
					}
					count++
					if count > 60000 || (count%1000 == 0 && time.Since(t1) > 4*time.Second) {
						return errDiverge
					}
				}
			})
		})
	}
	judge := func(err error, cyclic bool, desc string) {
		rep.Evaluations++
		rep.count("deep-array")
		switch {
		case classOf(err) == "EPanic":
			rep.violate("C18", "marshal-panic", fmt.Sprintf("Marshal panicked: %v", err), desc)
		case classOf(err) == "EDiverge":
			rep.violate("C18", "marshal-diverges", "more than 60000 tokens (or 4 s) without an end: marshalling does not terminate", desc)
		case cyclic && classOf(err) != "ECyclic":
			rep.violate("C18", "cycle-not-reported", fmt.Sprintf("a cyclic value marshalled without a cyclic-pointer error (%v)", err), desc)
		case !cyclic && err != nil:
			rep.violate("C18", "acyclic-rejected", fmt.Sprintf("an acyclic value failed to marshal: %v", err), desc)
		}
	}
	for _, n := range []int{1, 500, 998, 999, 1000, 1001, 1002, 1500} {
		for _, cyclic := range []bool{false, true} {
			if leaked >= 6 && cyclic {
				continue
			}
			nodes := make([]*LNode, n)
			for i := range nodes {
				nodes[i] = &LNode{Arr: [3]int{i, 1, 2}, A2: [1]any{i}}
			}
			for i := 0; i+1 < n; i++ {
				nodes[i].Next = nodes[i+1]
			}
			if cyclic {
				nodes[n-1].Next = nodes[0]
			}
			judge(runMarshal(nodes[0]), cyclic, fmt.Sprintf("list of %d nodes carrying array fields cyclic=%v", n, cyclic))
		}
		// [2]int behind n/2 levels of any(&x)
		var x any = [2]int{4, 5}
		for i := 0; i < n/2; i++ {
			y := x
			x = &y
		}
		judge(runMarshal(x), false, fmt.Sprintf("[2]int behind %d levels of any(&x)", n/2))
	}
	w.flush()
	typedNilHookInInterface(rep)
	rep.write(dir)
}

type LNode struct {
	Next *LNode
	Arr  [3]int
	A2   [1]any
}
