package main

import (
	"crypto/sha256"
	"encoding/hex"
	"encoding/json"
	"errors"
	"fmt"
	"io"
	"math"
	"math/rand"
	"os"
	"path/filepath"
	"sort"
	"strconv"
	"strings"

	"github.com/reusee/sb"
)

// ---------------------------------------------------------------------------
// report written next to the case files; read by ./check
// ---------------------------------------------------------------------------

type Violation struct {
	Property string `json:"property"`
	Family   string `json:"family"`
	Key      string `json:"key"`   // finding class: matched against known_findings.json
	What     string `json:"what"`  // human readable
	Input    string `json:"input"` // replayable description of the input
}

type Report struct {
	Family      string              `json:"family"`
	Seed        int64               `json:"seed"`
	Tier        string              `json:"tier"`
	Evaluations int                 `json:"evaluations"`       // implementation executions
	Cases       int                 `json:"cases"`             // cases handed to the model
	Distinct    int                 `json:"distinct"`          // distinct non-trivial cases (by hash of case text)
	Rule        string              `json:"rule"`              // what makes a case non-trivial
	Dist        map[string]int      `json:"distribution"`      // input distribution
	Samples     []string            `json:"samples"`           // a few cases written out
	Violations  []Violation         `json:"oracle_violations"` // direct property oracle failures
	CaseFiles   []string            `json:"case_files"`
	CaseIndex   map[string][]string `json:"case_index"` // file -> per-case input description (for replays)
}

func newReport(family string, seed int64, tier string) *Report {
	return &Report{Family: family, Seed: seed, Tier: tier, Dist: map[string]int{}, CaseIndex: map[string][]string{}}
}

func (r *Report) count(key string) { r.Dist[key]++ }

func (r *Report) violate(prop, key, what, input string) {
	if len(r.Violations) < 200 {
		r.Violations = append(r.Violations, Violation{prop, r.Family, key, what, input})
	}
}

func (r *Report) write(dir string) {
	bs, err := json.MarshalIndent(r, "", " ")
	if err != nil {
		panic(err)
	}
	if err := os.WriteFile(filepath.Join(dir, r.Family+".json"), bs, 0o644); err != nil {
		panic(err)
	}
}

// ---------------------------------------------------------------------------
// case files
// ---------------------------------------------------------------------------

type CaseWriter struct {
	dir     string
	family  string
	corr    string // Corr module, e.g. "Corr_codec"
	typ     string // case record type
	chk     string // check function
	perFile int
	cur     []string
	curDesc []string
	nfile   int
	report  *Report
	seen    map[[32]byte]bool
}

func newCaseWriter(dir, family, corr, typ, chk string, perFile int, rep *Report) *CaseWriter {
	return &CaseWriter{dir: dir, family: family, corr: corr, typ: typ, chk: chk, perFile: perFile, report: rep, seen: map[[32]byte]bool{}}
}

// add a case; nontrivial says whether it counts for distinct_nontrivial
// goOnly: while set, cases are not handed to the model (inputs whose evaluation inside Coq costs minutes:
// payloads of 32 KiB and more under the hash model, nesting of a hundred levels); the Go oracles still run
var goOnly bool

func (w *CaseWriter) add(term string, desc string, nontrivial bool) {
	if goOnly {
		return
	}
	h := sha256.Sum256([]byte(term))
	if w.seen[h] {
		return // duplicates are not re-evaluated
	}
	w.seen[h] = true
	if nontrivial {
		w.report.Distinct++
	}
	w.report.Cases++
	if len(w.report.Samples) < 5 && len(term) < 600 {
		w.report.Samples = append(w.report.Samples, w.family+": "+term)
	}
	w.cur = append(w.cur, term)
	w.curDesc = append(w.curDesc, desc)
	if len(w.cur) >= w.perFile {
		w.flush()
	}
}

func (w *CaseWriter) flush() {
	if len(w.cur) == 0 {
		return
	}
	name := fmt.Sprintf("cases_%s_%03d.v", w.family, w.nfile)
	w.nfile++
	var b strings.Builder
	b.WriteString("From SbModel Require Import Corr." + w.corr + ".\n")
	b.WriteString("Local Open Scope N_scope.\n")
	b.WriteString("Definition cases : list " + w.typ + " := [\n")
	for i, c := range w.cur {
		if i > 0 {
			b.WriteString(";\n")
		}
		b.WriteString(c)
	}
	b.WriteString("\n].\n")
	b.WriteString("Definition bad := Eval vm_compute in mismatches " + w.chk + " cases.\n")
	b.WriteString("Print bad.\n")
	if err := os.WriteFile(filepath.Join(w.dir, name), []byte(b.String()), 0o644); err != nil {
		panic(err)
	}
	w.report.CaseFiles = append(w.report.CaseFiles, name)
	w.report.CaseIndex[name] = w.curDesc
	w.cur = nil
	w.curDesc = nil
}

// ---------------------------------------------------------------------------
// Gallina printers
// ---------------------------------------------------------------------------

func coqN(n uint64) string { return fmt.Sprintf("%d", n) }

func coqZ(z int64) string {
	if z < 0 {
		return fmt.Sprintf("(%d)%%Z", z)
	}
	return fmt.Sprintf("%d%%Z", z)
}

func coqBool(b bool) string {
	if b {
		return "true"
	}
	return "false"
}

// run-length encoded byte string: X [(count,byte);...]
func coqRLE(bs []byte) string {
	var b strings.Builder
	b.WriteString("[")
	first := true
	for i := 0; i < len(bs); {
		j := i
		for j < len(bs) && bs[j] == bs[i] {
			j++
		}
		if !first {
			b.WriteString(";")
		}
		first = false
		fmt.Fprintf(&b, "(%d,%d)", j-i, bs[i])
		i = j
	}
	b.WriteString("]")
	return b.String()
}

func coqBytes(bs []byte) string { return "(X " + coqRLE(bs) + ")" }

func coqToken(t sb.Token) string {
	return fmt.Sprintf("T %d %s", t.Kind, coqVal(t.Value))
}

func coqVal(v any) string {
	switch v := v.(type) {
	case nil:
		return "VNone"
	case bool:
		return "(VBool " + coqBool(v) + ")"
	case int:
		return "(VI WNat " + coqZ(int64(v)) + ")"
	case int8:
		return "(VI W8 " + coqZ(int64(v)) + ")"
	case int16:
		return "(VI W16 " + coqZ(int64(v)) + ")"
	case int32:
		return "(VI W32 " + coqZ(int64(v)) + ")"
	case int64:
		return "(VI W64 " + coqZ(v) + ")"
	case uint:
		return "(VU WNat " + coqN(uint64(v)) + ")"
	case uint8:
		return "(VU W8 " + coqN(uint64(v)) + ")"
	case uint16:
		return "(VU W16 " + coqN(uint64(v)) + ")"
	case uint32:
		return "(VU W32 " + coqN(uint64(v)) + ")"
	case uint64:
		return "(VU W64 " + coqN(v) + ")"
	case uintptr:
		return "(VPtr " + coqN(uint64(v)) + ")"
	case float32:
		return "(VF32 " + coqN(uint64(math.Float32bits(v))) + ")"
	case float64:
		return "(VF64 " + coqN(math.Float64bits(v)) + ")"
	case string:
		return "(VStr " + coqBytes([]byte(v)) + ")"
	case []byte:
		return "(VBytes " + coqBytes(v) + ")"
	}
	// a value type no kind prescribes: printed so that no model output equals it
	return fmt.Sprintf("(VStr (X [(1,999)])) (* unexpected Go type %T *)", v)
}

func coqTokens(ts []sb.Token) string {
	var b strings.Builder
	b.WriteString("[")
	for i, t := range ts {
		if i > 0 {
			b.WriteString("; ")
		}
		b.WriteString(coqToken(t))
	}
	b.WriteString("]")
	return b.String()
}

// text form of tokens for replays / descriptions
func descTokens(ts []sb.Token) string {
	var b strings.Builder
	for i, t := range ts {
		if i > 0 {
			b.WriteString(" ")
		}
		b.WriteString(descToken(t))
	}
	return b.String()
}

func descToken(t sb.Token) string {
	switch v := t.Value.(type) {
	case nil:
		return fmt.Sprintf("%d", t.Kind)
	case string:
		return fmt.Sprintf("%d:%T:%s", t.Kind, v, shortHex([]byte(v)))
	case []byte:
		return fmt.Sprintf("%d:%T:%s", t.Kind, v, shortHex(v))
	case float32:
		return fmt.Sprintf("%d:%T:%08x", t.Kind, v, math.Float32bits(v))
	case float64:
		return fmt.Sprintf("%d:%T:%016x", t.Kind, v, math.Float64bits(v))
	default:
		return fmt.Sprintf("%d:%T:%v", t.Kind, v, v)
	}
}

func shortHex(bs []byte) string {
	if len(bs) <= 48 {
		return hex.EncodeToString(bs)
	}
	h := sha256.Sum256(bs)
	return fmt.Sprintf("%s..(%d bytes, sha256 %x)", hex.EncodeToString(bs[:16]), len(bs), h[:6])
}

// ---------------------------------------------------------------------------
// error classification (projected observables)
// ---------------------------------------------------------------------------

var errInjected = errors.New("verif: injected fault")

func classOf(err error) string {
	switch {
	case err == nil:
		return "ENone"
	case errors.Is(err, errInjected):
		return "EFault"
	case errors.Is(err, sb.StringTooLong):
		return "EStrTooLong"
	case errors.Is(err, sb.BytesTooLong):
		return "EBytesTooLong"
	case errors.Is(err, sb.BadStringLength):
		return "EBadStrLen"
	case errors.Is(err, sb.BadTokenKind):
		return "EBadKind"
	case errors.Is(err, sb.UnexpectedEndToken):
		return "EUnexpEndTok"
	case errors.Is(err, sb.MoreThanOneValue):
		return "EMoreThanOne"
	case errors.Is(err, sb.NotFound):
		return "ENotFound"
	case errors.Is(err, sb.CyclicPointer):
		return "ECyclic"
	case errors.Is(err, sb.BadMapKey):
		return "EBadMapKey"
	case errors.Is(err, sb.BadFieldName):
		return "EBadField"
	case errors.Is(err, sb.DuplicatedFieldName):
		return "EDupField"
	case errors.Is(err, sb.BadTargetType):
		return "EBadTarget"
	case errors.Is(err, sb.BadTupleType):
		return "EBadTuple"
	case errors.Is(err, sb.TooManyElement):
		return "ETooMany"
	case errors.Is(err, sb.TooFewElement):
		return "ETooFew"
	case errors.Is(err, sb.UnknownFieldName):
		return "EUnknownField"
	}
	var tm sb.ErrUnmarshalTypeMismatch
	if errors.As(err, &tm) {
		return fmt.Sprintf("(EMismatch %d %d)", tm.TokenKind, tm.Target)
	}
	if errors.Is(err, io.EOF) || errors.Is(err, io.ErrUnexpectedEOF) {
		return "EEnd"
	}
	var ne *strconv.NumError
	if errors.As(err, &ne) {
		return "EParse"
	}
	if errors.Is(err, errPanic) {
		return "EPanic"
	}
	if errors.Is(err, errDiverge) {
		return "EDiverge"
	}
	return "EOther"
}

var errPanic = errors.New("verif: implementation panicked")
var errDiverge = errors.New("verif: budget exceeded")

// run f, turning a panic into errPanic
func guard(f func() error) (err error) {
	defer func() {
		if p := recover(); p != nil {
			err = fmt.Errorf("%w: %v", errPanic, p)
		}
	}()
	return f()
}

func offsetOf(err error) (int64, bool) {
	var off sb.Offset
	if errors.As(err, &off) {
		return int64(off), true
	}
	return 0, false
}

// ---------------------------------------------------------------------------
// misc
// ---------------------------------------------------------------------------

func newRand(seed int64, stream string) *rand.Rand {
	h := sha256.Sum256([]byte(fmt.Sprintf("%d/%s", seed, stream)))
	var s int64
	for i := 0; i < 8; i++ {
		s = s<<8 | int64(h[i])
	}
	return rand.New(rand.NewSource(s))
}

func sortedKeys(m map[string]int) []string {
	ks := make([]string, 0, len(m))
	for k := range m {
		ks = append(ks, k)
	}
	sort.Strings(ks)
	return ks
}

func collect(s sb.Stream) ([]sb.Token, error) {
	var ts []sb.Token
	err := guard(func() error {
		for i := 0; ; i++ {
			var t sb.Token
			if err := s.Next(&t); err != nil {
				return err
			}
			if t.Invalid() {
				return nil
			}
			ts = append(ts, t)
			if i > 5_000_000 {
				return errDiverge
			}
		}
	})
	return ts, err
}

func tokensFrom(ts []sb.Token) sb.Stream { return sb.Tokens(ts).Iter() }

func mathFloat32bits(f float32) uint32 { return math.Float32bits(f) }
func mathFloat64bits(f float64) uint64 { return math.Float64bits(f) }
