package main

import (
	"errors"
	"flag"
	"fmt"
	"os"
	"sort"
)

func errorsIs(err, target error) bool { return errors.Is(err, target) }
func sortInts(a []int)                { sort.Ints(a) }

var families = map[string]func(dir string, seed int64, tier string){
	"codec":     famCodec,
	"compare":   famCompare,
	"hash":      famHash,
	"streams":   famStreams,
	"typed":     famTyped,
	"json":      famJSON,
	"heap":      famHeap,
	"pipeline":  famPipeline,
	"conc":      famConc,
	"concplain": famConcPlain,
	"golden":    famGolden,
}

func main() {
	if len(os.Args) < 2 {
		fmt.Fprintln(os.Stderr, "usage: sbverif <family|consts> [-seed N] [-tier quick|thorough] [-out DIR]")
		os.Exit(2)
	}
	cmd := os.Args[1]
	fs := flag.NewFlagSet(cmd, flag.ExitOnError)
	seed := fs.Int64("seed", 1, "seed")
	tier := fs.String("tier", "quick", "tier")
	out := fs.String("out", ".", "output directory")
	fs.Parse(os.Args[2:])
	if cmd == "consts" {
		dumpConsts(*out)
		return
	}
	if cmd == "golden-freeze" {
		goldenFreeze()
		return
	}
	f, ok := families[cmd]
	if !ok {
		fmt.Fprintln(os.Stderr, "unknown family", cmd)
		os.Exit(2)
	}
	f(*out, *seed, *tier)
}
