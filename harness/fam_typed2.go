package main

import (
	"fmt"
	"math/rand"
	"reflect"

	"github.com/reusee/sb"
)

// ---------------------------------------------------------------------------
// C05: target types obtained by mutating the source type
// ---------------------------------------------------------------------------

func mutateType(r *rand.Rand, t reflect.Type, depth int) reflect.Type {
	// descend with probability 1/2 where possible
	if depth > 0 && r.Intn(2) == 0 {
		switch t.Kind() {
		case reflect.Slice:
			if t != bytesTy && t.Name() == "" {
				return reflect.SliceOf(mutateType(r, t.Elem(), depth-1))
			}
		case reflect.Array:
			if t.Name() == "" {
				return reflect.ArrayOf(t.Len(), mutateType(r, t.Elem(), depth-1))
			}
		case reflect.Ptr:
			return reflect.PtrTo(mutateType(r, t.Elem(), depth-1))
		case reflect.Map:
			if t.Name() == "" {
				return reflect.MapOf(t.Key(), mutateType(r, t.Elem(), depth-1))
			}
		case reflect.Struct:
			if t.Name() == "" && t.NumField() > 0 {
				fs := structFields(t)
				i := r.Intn(len(fs))
				fs[i].Type = mutateType(r, fs[i].Type, depth-1)
				return reflect.StructOf(fs)
			}
		}
	}
	switch t.Kind() {
	case reflect.Struct:
		if t.Name() == "" {
			fs := structFields(t)
			switch r.Intn(6) {
			case 0: // drop a field
				if len(fs) > 0 {
					i := r.Intn(len(fs))
					fs = append(fs[:i:i], fs[i+1:]...)
				}
			case 1: // add a field
				fs = append(fs, reflect.StructField{Name: fmt.Sprintf("X%d", r.Intn(100)), Type: scalarTypes[r.Intn(len(scalarTypes))]})
			case 2: // rename a field
				if len(fs) > 0 {
					fs[r.Intn(len(fs))].Name = fmt.Sprintf("R%d", r.Intn(100))
				}
			case 3: // reorder
				r.Shuffle(len(fs), func(i, j int) { fs[i], fs[j] = fs[j], fs[i] })
			case 4: // struct -> map
				return reflect.MapOf(reflect.TypeOf(""), anyType)
			default:
				return anyType
			}
			return reflect.StructOf(dedupFields(fs))
		}
		return anyType
	case reflect.Slice:
		if t == bytesTy {
			return []reflect.Type{reflect.TypeOf(""), reflect.ArrayOf(r.Intn(6), reflect.TypeOf(byte(0))), reflect.SliceOf(reflect.TypeOf(uint8(0))), anyType}[r.Intn(4)]
		}
		switch r.Intn(3) {
		case 0: // slice -> array
			return reflect.ArrayOf(r.Intn(4), t.Elem())
		case 1:
			return anyType
		default:
			return reflect.SliceOf(mutateType(r, t.Elem(), 0))
		}
	case reflect.Array:
		switch r.Intn(3) {
		case 0: // change the length
			n := t.Len() + []int{-1, 1, 2}[r.Intn(3)]
			if n < 0 {
				n = 0
			}
			return reflect.ArrayOf(n, t.Elem())
		case 1: // array -> slice
			return reflect.SliceOf(t.Elem())
		default:
			return anyType
		}
	case reflect.Ptr:
		if r.Intn(2) == 0 {
			return t.Elem() // unwrap
		}
		return reflect.PtrTo(t) // wrap once more
	case reflect.Map:
		switch r.Intn(3) {
		case 0: // map -> struct
			return reflect.StructOf([]reflect.StructField{{Name: "A", Type: t.Elem()}, {Name: "B", Type: t.Elem()}})
		case 1:
			return anyType
		default:
			return reflect.MapOf(scalarTypes[r.Intn(len(scalarTypes))], t.Elem())
		}
	case reflect.Interface:
		return scalarTypes[r.Intn(len(scalarTypes))]
	case reflect.Func:
		if r.Intn(2) == 0 {
			var outs []reflect.Type
			for i := 0; i < t.NumOut(); i++ {
				outs = append(outs, t.Out(i))
			}
			if len(outs) > 0 && r.Intn(2) == 0 {
				outs = outs[:len(outs)-1]
			} else {
				outs = append(outs, reflect.TypeOf(0))
			}
			return reflect.FuncOf(nil, outs, false)
		}
		return anyType
	default:
		// a scalar: change the kind, widen / narrow, wrap in a pointer, or make it `any`
		switch r.Intn(4) {
		case 0:
			return reflect.PtrTo(t)
		case 1:
			return anyType
		default:
			return scalarTypes[r.Intn(len(scalarTypes))]
		}
	}
}

func structFields(t reflect.Type) []reflect.StructField {
	var fs []reflect.StructField
	for i := 0; i < t.NumField(); i++ {
		f := t.Field(i)
		fs = append(fs, reflect.StructField{Name: f.Name, Type: f.Type})
	}
	return fs
}

func dedupFields(fs []reflect.StructField) []reflect.StructField {
	seen := map[string]bool{}
	var out []reflect.StructField
	for _, f := range fs {
		if !seen[f.Name] {
			seen[f.Name] = true
			out = append(out, f)
		}
	}
	return out
}

func garble(r *rand.Rand, ts []sb.Token) []sb.Token {
	out := append([]sb.Token{}, ts...)
	if len(out) == 0 {
		return []sb.Token{randToken(r)}
	}
	switch r.Intn(6) {
	case 0: // truncate
		return out[:r.Intn(len(out))]
	case 1: // delete one
		i := r.Intn(len(out))
		return append(out[:i:i], out[i+1:]...)
	case 2: // duplicate one
		i := r.Intn(len(out))
		return append(out[:i+1:i+1], out[i:]...)
	case 3: // replace one by a random token
		out[r.Intn(len(out))] = randToken(r)
		return out
	case 4: // replace one by a structural token
		ks := []sb.Kind{sb.KindArray, sb.KindArrayEnd, sb.KindObject, sb.KindObjectEnd, sb.KindMap, sb.KindMapEnd, sb.KindTuple, sb.KindTupleEnd, sb.KindNil, sb.KindNaN, sb.KindMin, sb.KindMax}
		out[r.Intn(len(out))] = sb.Token{Kind: ks[r.Intn(len(ks))]}
		return out
	default: // swap two
		i, j := r.Intn(len(out)), r.Intn(len(out))
		out[i], out[j] = out[j], out[i]
		return out
	}
}

// the schema-less domain of C11: what `any` decoding is specified to accept
func inSchemalessDomain(ts []sb.Token) bool {
	v, rest := parseGo(ts)
	if v == nil || len(rest) != 0 {
		return false
	}
	var ok func(v *gval) bool
	ok = func(v *gval) bool {
		switch {
		case v.named != nil:
			if !registeredName[v.name] {
				return false
			}
			return ok(v.named)
		case v.leaf != nil:
			switch v.leaf.Kind {
			case sb.KindLiteral, sb.KindMin, sb.KindMax, sb.KindRef:
				return false
			}
			if hasNaNPayload([]sb.Token{*v.leaf}) {
				return false // a float token whose payload is a NaN: no marshaller emits it (NaN travels as the NaN kind)
			}
			return true
		}
		switch v.open {
		case sb.KindObject:
			if len(v.items)%2 != 0 {
				return false
			}
			names := map[string]bool{}
			for i := 0; i+1 < len(v.items); i += 2 {
				k := v.items[i]
				if k.leaf == nil || k.leaf.Kind != sb.KindString {
					return false
				}
				n := k.leaf.Value.(string)
				if !asciiExportedIdent(n) || names[n] {
					return false
				}
				names[n] = true
				val := v.items[i+1]
				if val.leaf != nil && val.leaf.Kind == sb.KindNil {
					return false // an object field holding Nil
				}
				if !ok(val) {
					return false
				}
			}
		case sb.KindMap:
			if len(v.items)%2 != 0 {
				return false
			}
			for i := 0; i+1 < len(v.items); i += 2 {
				k := v.items[i]
				if k.leaf == nil || k.leaf.Kind == sb.KindNil || k.leaf.Kind == sb.KindNaN {
					// composite keys, nil keys and NaN keys are rejected; struct keys (Object) decode to
					// comparable struct values and are accepted when their fields are comparable
					if k.leaf == nil && k.open == sb.KindObject && ok(k) && comparableStream(k) {
						if !ok(v.items[i+1]) {
							return false
						}
						continue
					}
					return false
				}
				if !ok(k) || !ok(v.items[i+1]) {
					return false
				}
			}
		case sb.KindTuple:
			if len(v.items) > 50 {
				return false
			}
			for _, it := range v.items {
				if !ok(it) {
					return false
				}
			}
		default:
			for _, it := range v.items {
				if !ok(it) {
					return false
				}
			}
		}
		return true
	}
	return ok(v)
}

func comparableStream(v *gval) bool {
	if v.named != nil {
		return comparableStream(v.named)
	}
	if v.leaf != nil {
		return v.leaf.Kind != sb.KindBytes // a []byte inside a struct key is not comparable (only a top-level bytes key is turned into an array)
	}
	if v.open == sb.KindObject {
		for i := 1; i < len(v.items); i += 2 {
			if !comparableStream(v.items[i]) {
				return false
			}
		}
		return true
	}
	return false // arrays ([]any), maps and tuples are not comparable
}

func asciiExportedIdent(s string) bool {
	if len(s) == 0 || s[0] < 'A' || s[0] > 'Z' {
		return false
	}
	for i := 0; i < len(s); i++ {
		c := s[i]
		if !(c >= 'A' && c <= 'Z' || c >= 'a' && c <= 'z' || c >= '0' && c <= '9' || c == '_') {
			return false
		}
	}
	return true
}

var registeredName = map[string]bool{}

func init() {
	for _, t := range registeredTypes {
		registeredName[sb.TypeName(t)] = true
	}
}

// ---------------------------------------------------------------------------
// the second half of the typed family: C05, C11, C16
// ---------------------------------------------------------------------------

func typedMore(dir string, seed int64, tier string, repU *Report, wU *CaseWriter) {
	thorough := tier == "thorough"
	r := newRand(seed, "typed2")
	reg := coqRegistry()
	n := 500
	if thorough {
		n = 12000
	}
	for i := 0; i < n; i++ {
		depth := 1 + r.Intn(3)
		s := randType(r, depth)
		v := randGoValue(r, s, depth)
		if hasBadMapKey(v) {
			continue
		}
		ts, err := marshalTokens(v.Interface(), nil)
		if err != nil || len(ts) > 300 {
			continue
		}
		// ---------------- C05: mutated target / garbled stream ----------------
		target := s
		stream := ts
		tag := ""
		switch i % 4 {
		case 0:
			target = mutateType(r, s, 3)
			tag = "mutated-target"
		case 1:
			stream = garble(r, ts)
			tag = "garbled-stream"
		case 2:
			target = mutateType(r, s, 3)
			stream = garble(r, ts)
			tag = "both"
		default:
			// tokens decoded from random bytes
			raw := make([]byte, 1+r.Intn(24))
			for j := range raw {
				raw[j] = byte(r.Intn(256))
				if r.Intn(2) == 0 {
					raw[j] = byte([]sb.Kind{sb.KindArray, sb.KindArrayEnd, sb.KindObject, sb.KindObjectEnd, sb.KindString, sb.KindInt8, sb.KindUint8, sb.KindBool, sb.KindNil, sb.KindMap, sb.KindMapEnd, sb.KindTuple, sb.KindTupleEnd, 1, 0, 3}[r.Intn(16)])
				}
			}
			sb.MaxDecodeStringLength = 64
			stream = runDecode(raw, false, 0, false, r).toks
			sb.MaxDecodeStringLength = 4 * 1024 * 1024 * 1024
			tag = "from-random-bytes"
		}
		if usesEmbeddedOrRecursive(target) {
			continue
		}
		tyS := coqTy(target)
		if len(tyS) > 6000 {
			continue
		}
		desc := fmt.Sprintf("%s: target=%v source=%v stream=[%s]", tag, target, s, truncate(descTokens(stream), 400))
		back, eU := unmarshalInto(target, stream, nil)
		repU.Evaluations++
		repU.count("c05:" + tag)
		repU.count("c05-class:" + classOf(eU))
		switch classOf(eU) {
		case "EPanic":
			repU.violate("C05", "unmarshal-panic", fmt.Sprintf("Unmarshal panicked: %v", eU), desc)
		case "EDiverge":
			repU.violate("C05", "unmarshal-diverges", "step budget exceeded", desc)
		case "ENone":
		default:
			if !isUnmarshalError(eU) {
				repU.violate("C05", "not-an-unmarshal-error", fmt.Sprintf("rejected with an error that is not an UnmarshalError: %v", eU), desc)
			}
		}
		wU.add(fmt.Sprintf("UnmarshalCase %s %s %s %s %s %s %s", coqOpts(false, false, false), reg, tyS, "(zero "+tyS+")", coqTokens(stream), floatTable(stream), uobs(back, eU)), desc, len(stream) >= 2)
		tapOracle(repU, target, stream, back, eU, desc)
		if utapsW != nil {
			utapsCase(utapsW.report, target, stream, i%8 >= 4, desc)
		}

		// ---------------- C11: schema-less decoding is lossless ----------------
		adesc := fmt.Sprintf("any: source=%v stream=[%s]", s, truncate(descTokens(ts), 400))
		x, eA := anyOracle(repU, ts, adesc, inSchemalessDomain(ts))
		if utapsW != nil && i%2 == 0 {
			utapsCase(utapsW.report, anyType, ts, false, adesc)
		}
		if len(ts) < 200 {
			av := reflect.ValueOf(&x).Elem()
			wU.add(fmt.Sprintf("UnmarshalCase %s %s TAny (GAny None) %s %s %s", coqOpts(false, false, false), reg, coqTokens(ts), floatTable(ts), uobs(av, eA)), adesc, len(ts) >= 2)
		}
	}
}

func usesEmbeddedOrRecursive(t reflect.Type) bool {
	switch t.Kind() {
	case reflect.Struct:
		if t == timeType {
			return false
		}
		for i := 0; i < t.NumField(); i++ {
			if t.Field(i).Anonymous || usesEmbeddedOrRecursive(t.Field(i).Type) {
				return true
			}
		}
	case reflect.Slice, reflect.Array, reflect.Ptr:
		return usesEmbeddedOrRecursive(t.Elem())
	case reflect.Map:
		return usesEmbeddedOrRecursive(t.Key()) || usesEmbeddedOrRecursive(t.Elem())
	case reflect.Func:
		for i := 0; i < t.NumOut(); i++ {
			if usesEmbeddedOrRecursive(t.Out(i)) {
				return true
			}
		}
	}
	return false
}

// C11 on one stream: decode into an untyped target, marshal again, compare.  dom = the stream is
// inside the schema-less domain (then it must be accepted); outside it, acceptance is allowed only
// when the result re-marshals to the identical stream
func anyOracle(repU *Report, ts []sb.Token, adesc string, dom bool) (any, error) {
	var x any
	eA := guard(func() error { return copyBudget(tokensFrom(ts), sb.Unmarshal(&x)) })
	repU.Evaluations++
	if classOf(eA) == "EPanic" || classOf(eA) == "EDiverge" {
		repU.violate("C11", "any-panic", fmt.Sprintf("%v", eA), adesc)
	} else if eA != nil {
		if dom {
			repU.violate("C11", "any-rejects-in-domain", fmt.Sprintf("a stream inside the schema-less domain was rejected: %v", eA), adesc)
		}
	} else {
		re, e2 := marshalTokens(x, nil)
		if e2 != nil || !tokensExactEq(re, ts) {
			repU.violate("C11", "any-not-lossless", fmt.Sprintf("re-marshalling the decoded value gives (%v) [%s]", e2, truncate(descTokens(re), 400)), adesc)
		}
		if !dom {
			repU.count("c11: accepted outside the stated domain (lossless)")
		}
	}
	return x, eA
}
