package main

import (
	"bytes"
	"fmt"
	"math"
	"math/rand"
	"reflect"
	"sort"
	"strings"
	"time"

	"github.com/reusee/sb"
)

// ---------------------------------------------------------------------------
// catalogue of declared types (what reflect cannot build: named, registered,
// unexported fields, deprecated-field declarations)
// ---------------------------------------------------------------------------

type MyInt int
type MyInt8 int8
type MyUint16 uint16
type MyString string
type MyBool bool
type MyFloat float64
type MyBytes []byte
type MyByteArr [4]byte
type MyInts []int
type MyMap map[string]int

type RegInt int32
type RegStr string
type RegPoint struct {
	X, Y int
}
type RegNested struct {
	P    RegPoint
	Name string
	Tags []string
}

// a registered named pointer type, and a registered type bridged through Binary marshalling
type RegPtr *int32

type Stamp struct{ N int64 }

func (s Stamp) MarshalBinary() ([]byte, error) { return []byte(fmt.Sprintf("stamp:%d", s.N)), nil }
func (s *Stamp) UnmarshalBinary(bs []byte) error {
	_, err := fmt.Sscanf(string(bs), "stamp:%d", &s.N)
	return err
}

type WithRegPtr struct {
	A RegPtr
	B RegPtr
	N int
}

type WithUnexported struct {
	A      int
	hidden string
	B      []byte
	secret *int
	C      bool
}

type Inner struct {
	U uint8
	S string
}
type WithEmbedded struct {
	Inner
	N int
}

type WithDeprecated struct {
	Keep int
	Name string
}

func (WithDeprecated) SBDeprecatedFields() []string { return []string{"Old", "Gone"} }

type Wide struct {
	B   bool
	I   int
	I8  int8
	I16 int16
	I32 int32
	I64 int64
	U   uint
	U8  uint8
	U16 uint16
	U32 uint32
	U64 uint64
	P   uintptr
	F32 float32
	F64 float64
	S   string
	Bs  []byte
}

// a named one-byte type: arrays and slices of it are NOT byte arrays / byte slices
type Level uint8

type WithLevels struct {
	Raw    [3]byte
	Levels [3]Level
	Slice  []Level
	M      map[string][2]Level
	P      *[2]Level
}

type WithAny struct {
	V any
	W []any
	M map[string]any
}

type WithTime struct {
	T  time.Time
	PT *time.Time
	N  int
}

type WithPtrs struct {
	PI  *int
	PS  *string
	PP  **int
	PSt *RegPoint
}

type WithFunc struct {
	F func() (int, string)
	G func() (any, []int)
	N int
}

var registeredTypes = []reflect.Type{
	reflect.TypeOf(RegInt(0)), reflect.TypeOf(RegStr("")), reflect.TypeOf(RegPoint{}), reflect.TypeOf(RegNested{}),
	reflect.TypeOf(RegPtr(nil)),
}

var catalogueTypes = []reflect.Type{
	reflect.TypeOf(MyInt(0)), reflect.TypeOf(MyInt8(0)), reflect.TypeOf(MyUint16(0)), reflect.TypeOf(MyString("")),
	reflect.TypeOf(MyBool(false)), reflect.TypeOf(MyFloat(0)), reflect.TypeOf(MyBytes(nil)), reflect.TypeOf(MyByteArr{}),
	reflect.TypeOf(MyInts(nil)), reflect.TypeOf(MyMap(nil)),
	reflect.TypeOf(RegInt(0)), reflect.TypeOf(RegStr("")), reflect.TypeOf(RegPoint{}), reflect.TypeOf(RegNested{}),
	reflect.TypeOf(WithUnexported{}), reflect.TypeOf(WithDeprecated{}), reflect.TypeOf(Wide{}),
	reflect.TypeOf(WithAny{}), reflect.TypeOf(WithTime{}), reflect.TypeOf(WithPtrs{}), reflect.TypeOf(WithFunc{}),
	reflect.TypeOf(time.Time{}), reflect.TypeOf(WithEmbedded{}), reflect.TypeOf(RegPtr(nil)), reflect.TypeOf(WithRegPtr{}),
	reflect.TypeOf(Level(0)), reflect.TypeOf(WithLevels{}),
}

var isRegistered = map[reflect.Type]bool{}

func init() {
	for _, t := range registeredTypes {
		sb.Register(t)
		isRegistered[t] = true
	}
	sb.Register(reflect.TypeOf(Stamp{})) // not in the model's universe: exercised by a Go oracle only
}

var timeType = reflect.TypeOf(time.Time{})
var anyType = reflect.TypeOf((*any)(nil)).Elem()
var bytesTy = reflect.TypeOf([]byte(nil))

// ---------------------------------------------------------------------------
// Gallina printers for types and values
// ---------------------------------------------------------------------------

func coqWidth(bits int, nat bool) string {
	if nat {
		return "WNat"
	}
	return fmt.Sprintf("W%d", bits)
}

func coqStrBytes(s string) string { return coqBytes([]byte(s)) }

func coqTy(t reflect.Type) string {
	if t == timeType {
		return "TTime"
	}
	var u string
	switch t.Kind() {
	case reflect.Bool:
		u = "TBool"
	case reflect.Int:
		u = "(TInt WNat)"
	case reflect.Int8:
		u = "(TInt W8)"
	case reflect.Int16:
		u = "(TInt W16)"
	case reflect.Int32:
		u = "(TInt W32)"
	case reflect.Int64:
		u = "(TInt W64)"
	case reflect.Uint:
		u = "(TUint WNat)"
	case reflect.Uint8:
		u = "(TUint W8)"
	case reflect.Uint16:
		u = "(TUint W16)"
	case reflect.Uint32:
		u = "(TUint W32)"
	case reflect.Uint64:
		u = "(TUint W64)"
	case reflect.Uintptr:
		u = "TUintptr"
	case reflect.Float32:
		u = "TF32"
	case reflect.Float64:
		u = "TF64"
	case reflect.String:
		u = "TString"
	case reflect.Slice:
		if t.AssignableTo(bytesTy) {
			u = "TBytes"
		} else {
			u = "(TSlice " + coqTy(t.Elem()) + ")"
		}
	case reflect.Array:
		if t.Elem() == reflect.TypeOf(byte(0)) {
			u = fmt.Sprintf("(TByteArray %d%%nat)", t.Len())
		} else {
			u = fmt.Sprintf("(TArray %d%%nat %s)", t.Len(), coqTy(t.Elem()))
		}
	case reflect.Map:
		u = "(TMap " + coqTy(t.Key()) + " " + coqTy(t.Elem()) + ")"
	case reflect.Struct:
		var fs []string
		for i := 0; i < t.NumField(); i++ {
			f := t.Field(i)
			fs = append(fs, fmt.Sprintf("(%s, %s, %s)", coqStrBytes(f.Name), coqBool(f.PkgPath == ""), coqTy(f.Type)))
		}
		u = "(TStruct [" + strings.Join(fs, "; ") + "])"
	case reflect.Ptr:
		u = "(TPtr " + coqTy(t.Elem()) + ")"
	case reflect.Interface:
		u = "TAny"
	case reflect.Func:
		var outs []string
		for i := 0; i < t.NumOut(); i++ {
			outs = append(outs, coqTy(t.Out(i)))
		}
		u = "(TFunc [" + strings.Join(outs, "; ") + "])"
	default:
		u = "TAny (* unsupported kind " + t.Kind().String() + " *)"
	}
	if t.Name() == "" && isRegistered[t] {
		// a registered UNNAMED type (a pointer type to a defined type, named "*pkg.T" by sb.TypeName): in the
		// model registration is a flag of a defined type, so it becomes one with that name
		return fmt.Sprintf("(TNamed %s true [] %s)", coqStrBytes(sb.TypeName(t)), u)
	}
	if t.Name() != "" && t.PkgPath() != "" {
		var depr []string
		if t.Implements(reflect.TypeOf((*sb.HasDeprecatedFields)(nil)).Elem()) {
			for _, n := range reflect.New(t).Elem().Interface().(sb.HasDeprecatedFields).SBDeprecatedFields() {
				depr = append(depr, coqStrBytes(n))
			}
		}
		return fmt.Sprintf("(TNamed %s %s [%s] %s)", coqStrBytes(sb.TypeName(t)), coqBool(isRegistered[t]), strings.Join(depr, "; "), u)
	}
	return u
}

func coqGval(v reflect.Value) string {
	t := v.Type()
	if t == timeType {
		tm := accessible(v).Interface().(time.Time)
		bs, err := tm.MarshalBinary()
		if err != nil {
			return "(GTime (X [(1,999)]))"
		}
		return "(GTime " + coqBytes(bs) + ")"
	}
	switch t.Kind() {
	case reflect.Bool:
		return "(GBool " + coqBool(v.Bool()) + ")"
	case reflect.Int, reflect.Int8, reflect.Int16, reflect.Int32, reflect.Int64:
		return "(GInt " + coqZ(v.Int()) + ")"
	case reflect.Uint, reflect.Uint8, reflect.Uint16, reflect.Uint32, reflect.Uint64, reflect.Uintptr:
		return "(GUint " + coqN(v.Uint()) + ")"
	case reflect.Float32:
		return "(GF32 " + coqN(uint64(math.Float32bits(float32(v.Float())))) + ")"
	case reflect.Float64:
		return "(GF64 " + coqN(math.Float64bits(v.Float())) + ")"
	case reflect.String:
		return "(GStr " + coqStrBytes(v.String()) + ")"
	case reflect.Slice:
		if t.AssignableTo(bytesTy) {
			return fmt.Sprintf("(GBytes %s %s)", coqBool(v.IsNil()), coqBytes(v.Bytes()))
		}
		var xs []string
		for i := 0; i < v.Len(); i++ {
			xs = append(xs, coqGval(v.Index(i)))
		}
		return fmt.Sprintf("(GList %s [%s])", coqBool(v.IsNil()), strings.Join(xs, "; "))
	case reflect.Array:
		if t.Elem() == reflect.TypeOf(byte(0)) {
			bs := make([]byte, v.Len())
			for i := range bs {
				bs[i] = byte(v.Index(i).Uint())
			}
			return "(GBytes false " + coqBytes(bs) + ")"
		}
		var xs []string
		for i := 0; i < v.Len(); i++ {
			xs = append(xs, coqGval(v.Index(i)))
		}
		return "(GList false [" + strings.Join(xs, "; ") + "])"
	case reflect.Map:
		var xs []string
		it := v.MapRange()
		for it.Next() {
			xs = append(xs, "("+coqGval(it.Key())+", "+coqGval(it.Value())+")")
		}
		return fmt.Sprintf("(GMap %s [%s])", coqBool(v.IsNil()), strings.Join(xs, "; "))
	case reflect.Struct:
		var xs []string
		for i := 0; i < v.NumField(); i++ {
			xs = append(xs, coqGval(v.Field(i)))
		}
		return "(GStruct [" + strings.Join(xs, "; ") + "])"
	case reflect.Ptr:
		if v.IsNil() {
			return "(GPtr None)"
		}
		return "(GPtr (Some " + coqGval(v.Elem()) + "))"
	case reflect.Interface:
		if v.IsNil() {
			return "(GAny None)"
		}
		e := v.Elem()
		return "(GAny (Some (" + coqTy(e.Type()) + ", " + coqGval(e) + ")))"
	case reflect.Func:
		if v.IsNil() {
			return "(GFunc None)"
		}
		outs := accessible(v).Call(nil)
		var xs []string
		for _, o := range outs {
			xs = append(xs, coqGval(o))
		}
		return "(GFunc (Some [" + strings.Join(xs, "; ") + "]))"
	}
	return "(GStr (X [(1,999)])) (* unsupported *)"
}

// values read through unexported fields cannot be Interface()d; copy them out
func accessible(v reflect.Value) (out reflect.Value) {
	if v.CanInterface() {
		return v
	}
	if v.CanAddr() {
		return reflect.NewAt(v.Type(), v.Addr().UnsafePointer()).Elem()
	}
	// not addressable and not interfaceable (a field of a non-addressable struct): zero value of the type
	return reflect.New(v.Type()).Elem()
}

// an addressable copy of a struct value (so that its unexported fields can be read)
func addressable(v reflect.Value) reflect.Value {
	if v.CanAddr() || !v.CanInterface() {
		return v
	}
	c := reflect.New(v.Type()).Elem()
	c.Set(v)
	return c
}

// ---------------------------------------------------------------------------
// random types and values
// ---------------------------------------------------------------------------

var scalarTypes = []reflect.Type{
	reflect.TypeOf(false), reflect.TypeOf(int(0)), reflect.TypeOf(int8(0)), reflect.TypeOf(int16(0)), reflect.TypeOf(int32(0)), reflect.TypeOf(int64(0)),
	reflect.TypeOf(uint(0)), reflect.TypeOf(uint8(0)), reflect.TypeOf(uint16(0)), reflect.TypeOf(uint32(0)), reflect.TypeOf(uint64(0)), reflect.TypeOf(uintptr(0)),
	reflect.TypeOf(float32(0)), reflect.TypeOf(float64(0)), reflect.TypeOf(""),
}

// byte array lengths: small ones, and the digest sizes an implementation might special-case
var byteArrayLens = []int{0, 1, 2, 3, 4, 8, 16, 20, 32, 33}

func randKeyType(r *rand.Rand, depth int) reflect.Type {
	switch r.Intn(10) {
	case 0:
		return reflect.ArrayOf(byteArrayLens[1+r.Intn(len(byteArrayLens)-1)], reflect.TypeOf(byte(0)))
	case 1:
		if depth > 0 {
			return reflect.StructOf([]reflect.StructField{{Name: "K0", Type: randKeyType(r, 0)}, {Name: "K1", Type: randKeyType(r, 0)}})
		}
		return reflect.TypeOf("")
	case 2:
		return reflect.TypeOf(MyInt(0))
	case 3:
		return reflect.TypeOf(MyString(""))
	case 4:
		return anyType
	case 5:
		// keys whose streams have different token counts: pointers to slices, arrays of interfaces
		if r.Intn(2) == 0 {
			return reflect.PtrTo(reflect.SliceOf(reflect.TypeOf(0)))
		}
		return reflect.ArrayOf(2, anyType)
	default:
		return scalarTypes[r.Intn(len(scalarTypes))]
	}
}

func randType(r *rand.Rand, depth int) reflect.Type {
	c := r.Intn(20)
	if depth <= 0 || c < 6 {
		switch r.Intn(8) {
		case 0:
			return bytesTy
		case 1:
			return reflect.ArrayOf(byteArrayLens[r.Intn(len(byteArrayLens))], reflect.TypeOf(byte(0)))
		case 2:
			return catalogueTypes[r.Intn(len(catalogueTypes))]
		case 3:
			return anyType
		default:
			return scalarTypes[r.Intn(len(scalarTypes))]
		}
	}
	switch c {
	case 6, 7:
		return reflect.SliceOf(randType(r, depth-1))
	case 8:
		return reflect.ArrayOf(r.Intn(4), randType(r, depth-1))
	case 9, 10:
		return reflect.MapOf(randKeyType(r, 1), randType(r, depth-1))
	case 11, 12, 13:
		n := r.Intn(5)
		var fs []reflect.StructField
		for i := 0; i < n; i++ {
			fs = append(fs, reflect.StructField{Name: fmt.Sprintf("F%d", i), Type: randType(r, depth-1)})
		}
		return reflect.StructOf(fs)
	case 14, 15:
		return reflect.PtrTo(randType(r, depth-1))
	case 16:
		n := r.Intn(4)
		var outs []reflect.Type
		for i := 0; i < n; i++ {
			outs = append(outs, randType(r, depth-1))
		}
		return reflect.FuncOf(nil, outs, false)
	case 17:
		return anyType
	default:
		return catalogueTypes[r.Intn(len(catalogueTypes))]
	}
}

var strBoundLens = []int{0, 1, 2, 127, 128, 129}

func randString(r *rand.Rand) string {
	switch r.Intn(8) {
	case 0:
		return ""
	case 1:
		return string(payload(r, strBoundLens[r.Intn(len(strBoundLens))]))
	case 2:
		return "\xff\xfe invalid utf8 \xc3\x28"
	default:
		return string(payload(r, r.Intn(12)))
	}
}

// dynamic types allowed inside `any` positions
func randAnyValue(r *rand.Rand, depth int) reflect.Value {
	var t reflect.Type
	switch r.Intn(12) {
	case 0:
		return reflect.Zero(anyType) // nil interface
	case 1:
		t = bytesTy
	case 2:
		if depth > 0 {
			t = reflect.SliceOf(anyType)
		} else {
			t = reflect.TypeOf(0)
		}
	case 3:
		if depth > 0 {
			t = reflect.MapOf(reflect.TypeOf(""), anyType)
		} else {
			t = reflect.TypeOf("")
		}
	case 4:
		t = registeredTypes[r.Intn(len(registeredTypes))]
	case 5:
		t = reflect.TypeOf(MyInt(0))
	case 6:
		if depth > 0 {
			t = reflect.PtrTo(scalarTypes[r.Intn(len(scalarTypes))])
		} else {
			t = reflect.TypeOf(false)
		}
	default:
		t = scalarTypes[r.Intn(len(scalarTypes))]
	}
	v := reflect.New(anyType).Elem()
	v.Set(randGoValue(r, t, depth-1))
	return v
}

func randGoValue(r *rand.Rand, t reflect.Type, depth int) reflect.Value {
	v := reflect.New(t).Elem()
	if t == timeType {
		switch r.Intn(4) {
		case 0:
			// zero time
		case 1:
			v.Set(reflect.ValueOf(time.Unix(int64(r.Intn(2000000000)), int64(r.Intn(1000000000))).UTC()))
		case 2:
			v.Set(reflect.ValueOf(time.Date(1969, 12, 31, 23, 59, 59, 999999999, time.FixedZone("x", -3600*r.Intn(12)))))
		default:
			v.Set(reflect.ValueOf(time.Unix(int64(r.Uint32()), 0).In(time.FixedZone("", 60*r.Intn(600)))))
		}
		return v
	}
	switch t.Kind() {
	case reflect.Bool:
		v.SetBool(r.Intn(2) == 0)
	case reflect.Int, reflect.Int8, reflect.Int16, reflect.Int32, reflect.Int64:
		x := randI64(r)
		bits := t.Bits()
		if r.Intn(3) == 0 {
			x = []int64{-1 << (bits - 1), 1<<(bits-1) - 1, -1, 0, 1}[r.Intn(5)]
		}
		if bits < 64 {
			x = x << (64 - bits) >> (64 - bits)
		}
		v.SetInt(x)
	case reflect.Uint, reflect.Uint8, reflect.Uint16, reflect.Uint32, reflect.Uint64, reflect.Uintptr:
		x := randU64(r)
		bits := t.Bits()
		if r.Intn(3) == 0 {
			x = []uint64{0, 1, 1<<bits - 1, 1 << (bits - 1)}[r.Intn(4)]
		}
		if bits < 64 {
			x &= 1<<bits - 1
		}
		v.SetUint(x)
	case reflect.Float32:
		v.SetFloat(float64(math.Float32frombits(f32Bits[r.Intn(len(f32Bits))])))
	case reflect.Float64:
		if r.Intn(4) == 0 {
			v.SetFloat(math.Float64frombits(r.Uint64()))
		} else {
			v.SetFloat(math.Float64frombits(f64Bits[r.Intn(len(f64Bits))]))
		}
	case reflect.String:
		v.SetString(randString(r))
	case reflect.Slice:
		if r.Intn(5) == 0 {
			return v // nil
		}
		if t.AssignableTo(bytesTy) {
			bs := payload(r, r.Intn(10))
			if r.Intn(6) == 0 {
				bs = payload(r, strBoundLens[r.Intn(len(strBoundLens))])
			}
			v.Set(reflect.ValueOf(bs).Convert(t))
			return v
		}
		n := r.Intn(4)
		if depth <= 0 {
			n = r.Intn(2)
		}
		s := reflect.MakeSlice(t, n, n)
		for i := 0; i < n; i++ {
			s.Index(i).Set(randGoValue(r, t.Elem(), depth-1))
		}
		v.Set(s)
	case reflect.Array:
		for i := 0; i < t.Len(); i++ {
			v.Index(i).Set(randGoValue(r, t.Elem(), depth-1))
		}
	case reflect.Map:
		if r.Intn(5) == 0 {
			return v
		}
		m := reflect.MakeMap(t)
		n := r.Intn(4)
		for i := 0; i < n; i++ {
			k := randGoValue(r, t.Key(), 1)
			if t.Key().Kind() == reflect.Interface {
				// arrays held in an interface-typed key: byte arrays travel as one bytes token; other arrays are
				// decoded schema-less into an unhashable []any (recorded finding iface-key-composite)
				switch r.Intn(12) {
				case 0, 1, 2:
					a := reflect.New(reflect.ArrayOf(byteArrayLens[r.Intn(len(byteArrayLens))], reflect.TypeOf(byte(0)))).Elem()
					for j := 0; j < a.Len(); j++ {
						a.Index(j).SetUint(uint64(r.Intn(256)))
					}
					k = reflect.New(t.Key()).Elem()
					k.Set(a)
				case 3:
					if t.Key() == anyType {
						k = reflect.New(t.Key()).Elem()
						k.Set(reflect.ValueOf([2]int{r.Intn(3), r.Intn(3)}))
					}
				}
			}
			if hasNaNOrNilKey(k) || !selfEqual(k) {
				continue // keys that are not equal to themselves (NaN somewhere inside) cannot be looked up again
			}
			m.SetMapIndex(k, randGoValue(r, t.Elem(), depth-1))
		}
		v.Set(m)
	case reflect.Struct:
		for i := 0; i < t.NumField(); i++ {
			f := v.Field(i)
			if !f.CanSet() {
				f = reflect.NewAt(f.Type(), f.Addr().UnsafePointer()).Elem()
			}
			f.Set(randGoValue(r, f.Type(), depth-1))
		}
	case reflect.Ptr:
		if r.Intn(3) == 0 || depth < -2 {
			return v
		}
		p := reflect.New(t.Elem())
		p.Elem().Set(randGoValue(r, t.Elem(), depth-1))
		v.Set(p)
	case reflect.Interface:
		v.Set(randAnyValue(r, depth))
	case reflect.Func:
		if t.NumOut() == 0 && r.Intn(3) == 0 {
			// a nil func is only in the round-trip domain when it returns nothing: it marshals to the
			// empty tuple, and tuple funcs are compared by the values they return
			return v
		}
		var outs []reflect.Value
		for i := 0; i < t.NumOut(); i++ {
			outs = append(outs, randGoValue(r, t.Out(i), depth-1))
		}
		v.Set(reflect.MakeFunc(t, func([]reflect.Value) []reflect.Value { return outs }))
	}
	return v
}

func selfEqual(k reflect.Value) (ok bool) {
	defer func() {
		if recover() != nil {
			ok = false
		}
	}()
	return k.Interface() == k.Interface()
}

// map keys that marshal to NaN / Nil / nothing are rejected by design (BadMapKey); excluded from
// the round-trip domain and exercised by dedicated cases
func hasNaNOrNilKey(k reflect.Value) bool {
	switch k.Kind() {
	case reflect.Float32, reflect.Float64:
		return k.Float() != k.Float()
	case reflect.Interface:
		if k.IsNil() {
			return false // a nil interface key marshals to Nil: a legal single token
		}
		return hasNaNOrNilKey(k.Elem())
	}
	return false
}

// ---------------------------------------------------------------------------
// equivalence of values (the property's notion)
// ---------------------------------------------------------------------------

func marshalTokens(v any, ctx *sb.Ctx) ([]sb.Token, error) {
	var ts []sb.Token
	err := guard(func() error {
		var s sb.Stream
		if ctx == nil {
			s = sb.Marshal(v)
		} else {
			s = sb.MarshalCtx(*ctx, v)
		}
		var e error
		ts, e = collectN(s, 2_000_000)
		return e
	})
	return ts, err
}

func collectN(s sb.Stream, limit int) ([]sb.Token, error) {
	var ts []sb.Token
	for i := 0; ; i++ {
		var t sb.Token
		if err := s.Next(&t); err != nil {
			return ts, err
		}
		if t.Invalid() {
			return ts, nil
		}
		ts = append(ts, t)
		if i > limit {
			return ts, errDiverge
		}
	}
}

// deeply equal, except: nil and empty slices/maps coincide, NaN equals NaN, funcs are compared
// by the values they return, interface positions by their canonical token stream
func equivValues(a, b reflect.Value) bool {
	if a.Type() != b.Type() {
		return false
	}
	t := a.Type()
	if t == timeType {
		x, _ := accessible(a).Interface().(time.Time).MarshalBinary()
		y, _ := accessible(b).Interface().(time.Time).MarshalBinary()
		return bytes.Equal(x, y)
	}
	switch t.Kind() {
	case reflect.Bool:
		return a.Bool() == b.Bool()
	case reflect.Int, reflect.Int8, reflect.Int16, reflect.Int32, reflect.Int64:
		return a.Int() == b.Int()
	case reflect.Uint, reflect.Uint8, reflect.Uint16, reflect.Uint32, reflect.Uint64, reflect.Uintptr:
		return a.Uint() == b.Uint()
	case reflect.Float32, reflect.Float64:
		x, y := a.Float(), b.Float()
		if x != x && y != y {
			return true
		}
		return x == y // reflect.DeepEqual compares floats with ==
	case reflect.String:
		return a.String() == b.String()
	case reflect.Slice, reflect.Array:
		if a.Len() != b.Len() {
			return false
		}
		for i := 0; i < a.Len(); i++ {
			if !equivValues(a.Index(i), b.Index(i)) {
				return false
			}
		}
		return true
	case reflect.Map:
		if a.Len() != b.Len() {
			return false
		}
		// match entries by equivalent keys
		used := map[int]bool{}
		bk := b.MapKeys()
		for _, k := range a.MapKeys() {
			found := false
			for j, k2 := range bk {
				if !used[j] && equivValues(k, k2) && equivValues(a.MapIndex(k), b.MapIndex(k2)) {
					used[j] = true
					found = true
					break
				}
			}
			if !found {
				return false
			}
		}
		return true
	case reflect.Struct:
		for i := 0; i < t.NumField(); i++ {
			if t.Field(i).PkgPath != "" {
				continue // unexported fields are not marshalled
			}
			if !equivValues(a.Field(i), b.Field(i)) {
				return false
			}
		}
		return true
	case reflect.Ptr:
		if a.IsNil() || b.IsNil() {
			return a.IsNil() == b.IsNil()
		}
		return equivValues(a.Elem(), b.Elem())
	case reflect.Interface:
		// compared by canonical token stream
		x, e1 := marshalTokens(accessible(a).Interface(), nil)
		y, e2 := marshalTokens(accessible(b).Interface(), nil)
		return e1 == nil && e2 == nil && tokensExactEq(x, y)
	case reflect.Func:
		if a.IsNil() || b.IsNil() {
			// a nil func marshals to the empty tuple, which unmarshals to a func returning nothing
			ra, rb := 0, 0
			if !a.IsNil() {
				ra = len(accessible(a).Call(nil))
			}
			if !b.IsNil() {
				rb = len(accessible(b).Call(nil))
			}
			return ra == 0 && rb == 0
		}
		x, y := accessible(a).Call(nil), accessible(b).Call(nil)
		if len(x) != len(y) {
			return false
		}
		for i := range x {
			if !equivValues(x[i], y[i]) {
				return false
			}
		}
		return true
	}
	return false
}

func sortedMapKeys(m reflect.Value) []reflect.Value {
	ks := m.MapKeys()
	sort.Slice(ks, func(i, j int) bool { return fmt.Sprint(ks[i]) < fmt.Sprint(ks[j]) })
	return ks
}

// an interface-typed map key holding an array that is not a byte array: it is marshalled as an Array,
// which schema-less key decoding turns into an unhashable []any (known finding iface-key-composite)
func hasCompositeIfaceKey(v reflect.Value) bool {
	switch v.Kind() {
	case reflect.Ptr, reflect.Interface:
		return !v.IsNil() && hasCompositeIfaceKey(v.Elem())
	case reflect.Slice, reflect.Array:
		for i := 0; i < v.Len(); i++ {
			if hasCompositeIfaceKey(v.Index(i)) {
				return true
			}
		}
	case reflect.Map:
		it := v.MapRange()
		for it.Next() {
			k := it.Key()
			if k.Kind() == reflect.Interface && !k.IsNil() {
				if e := k.Elem(); e.Kind() == reflect.Array && e.Type().Elem() != reflect.TypeOf(byte(0)) {
					return true
				}
			}
			if hasCompositeIfaceKey(k) || hasCompositeIfaceKey(it.Value()) {
				return true
			}
		}
	case reflect.Struct:
		if v.Type() == timeType {
			return false
		}
		for i := 0; i < v.NumField(); i++ {
			if v.Type().Field(i).PkgPath == "" && hasCompositeIfaceKey(v.Field(i)) {
				return true
			}
		}
	case reflect.Func:
		if v.IsNil() {
			return false
		}
		for _, o := range accessible(v).Call(nil) {
			if hasCompositeIfaceKey(o) {
				return true
			}
		}
	}
	return false
}

// register further types for the running family only (each family is its own process)
func registerExtra(ts ...reflect.Type) {
	for _, t := range ts {
		sb.Register(t)
		isRegistered[t] = true
		registeredTypes = append(registeredTypes, t)
	}
}
