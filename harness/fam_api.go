package main

// Oracles for the parts of the exported API that the generators of the other families do not
// reach on their own (found by measuring which statements of the package the quick tier executes:
// named scalar types of every width take the reflect.Kind path of MarshalValue, Text(Un)marshaler
// hooks, sb.Ref / sb.Token / sb.Sink / sb.Tuple / sb.TypedTuple as Go values and as unmarshal
// targets, TupleTypes, the Must* wrappers, DecodeBufferForCompare).

import (
	"bytes"
	"fmt"
	"math"
	"math/rand"
	"reflect"
	"strings"

	"github.com/reusee/sb"
)

// ---- named scalar types of every width (in the model: TNamed over the scalar) ----
type MyInt16 int16
type MyInt32 int32
type MyInt64 int64
type MyUint uint
type MyUint8 uint8
type MyUint32 uint32
type MyUint64 uint64
type MyUintptr uintptr
type MyFloat32 float32

var namedScalarTypes = []reflect.Type{
	reflect.TypeOf(MyInt(0)), reflect.TypeOf(MyInt8(0)), reflect.TypeOf(MyInt16(0)), reflect.TypeOf(MyInt32(0)), reflect.TypeOf(MyInt64(0)),
	reflect.TypeOf(MyUint(0)), reflect.TypeOf(MyUint8(0)), reflect.TypeOf(MyUint16(0)), reflect.TypeOf(MyUint32(0)), reflect.TypeOf(MyUint64(0)),
	reflect.TypeOf(MyUintptr(0)), reflect.TypeOf(MyFloat32(0)), reflect.TypeOf(MyFloat(0)), reflect.TypeOf(MyBool(false)), reflect.TypeOf(MyString("")),
}

func init() {
	catalogueTypes = append(catalogueTypes,
		reflect.TypeOf(MyInt16(0)), reflect.TypeOf(MyInt32(0)), reflect.TypeOf(MyInt64(0)), reflect.TypeOf(MyUint(0)), reflect.TypeOf(MyUint8(0)),
		reflect.TypeOf(MyUint32(0)), reflect.TypeOf(MyUint64(0)), reflect.TypeOf(MyUintptr(0)), reflect.TypeOf(MyFloat32(0)))
}

// boundary values of a scalar type
func scalarBoundaries(t reflect.Type) []reflect.Value {
	var out []reflect.Value
	add := func(f func(v reflect.Value)) {
		v := reflect.New(t).Elem()
		f(v)
		out = append(out, v)
	}
	switch t.Kind() {
	case reflect.Bool:
		add(func(v reflect.Value) { v.SetBool(false) })
		add(func(v reflect.Value) { v.SetBool(true) })
	case reflect.Int, reflect.Int8, reflect.Int16, reflect.Int32, reflect.Int64:
		bits := t.Bits()
		for _, x := range []int64{0, 1, -1, 42, math.MinInt64 >> (64 - bits), math.MaxInt64 >> (64 - bits)} {
			x := x
			add(func(v reflect.Value) { v.SetInt(x) })
		}
	case reflect.Uint, reflect.Uint8, reflect.Uint16, reflect.Uint32, reflect.Uint64, reflect.Uintptr:
		bits := t.Bits()
		for _, x := range []uint64{0, 1, 200, math.MaxUint64 >> (64 - bits), (math.MaxUint64 >> (64 - bits)) / 2} {
			x := x
			add(func(v reflect.Value) { v.SetUint(x) })
		}
	case reflect.Float32, reflect.Float64:
		for _, x := range []float64{0, math.Copysign(0, -1), 1.5, -2.25, math.Inf(1), math.Inf(-1), math.NaN(), math.MaxFloat32, math.SmallestNonzeroFloat32} {
			x := x
			add(func(v reflect.Value) { v.SetFloat(x) })
		}
	case reflect.String:
		for _, x := range []string{"", "a", "named \xff string"} {
			x := x
			add(func(v reflect.Value) { v.SetString(x) })
		}
	}
	return out
}

// every named scalar type x boundary values: marshal and unmarshal cases for the model, round trip,
// and the same value behind a pointer, in an interface, as a slice element and as a map key
func apiNamedScalars(repM, repU *Report, wM, wU *CaseWriter) {
	reg := coqRegistry()
	for _, t := range namedScalarTypes {
		for _, v := range scalarBoundaries(t) {
			desc := fmt.Sprintf("named scalar: type=%v value=%v", t, v.Interface())
			ts, err := marshalTokens(v.Interface(), nil)
			repM.Evaluations++
			repM.count("api:named-scalar")
			if err != nil {
				repM.violate("C01", "marshal-error", fmt.Sprintf("Marshal failed on a supported value: %v", err), desc)
				continue
			}
			tyS, valS := coqTy(t), coqGval(v)
			wM.add(fmt.Sprintf("MarshalCase %s %s %s %s", coqOpts(false, false, false), tyS, valS, mobs(ts, err)), desc, true)
			// the same scalar at its unnamed type marshals to the same token
			u := reflect.New(underlyingScalar(t)).Elem()
			u.Set(v.Convert(u.Type()))
			tu, eu := marshalTokens(u.Interface(), nil)
			if eu != nil || !tokensExactEq(ts, tu) {
				repM.violate("C08", "named-scalar-differs", fmt.Sprintf("%v marshals to [%s], its underlying type to [%s]", t, descTokens(ts), descTokens(tu)), desc)
				repM.violate("C01", "named-scalar-differs", fmt.Sprintf("%v marshals to [%s], its underlying type to [%s]", t, descTokens(ts), descTokens(tu)), desc)
			}
			back, eU := unmarshalInto(t, ts, nil)
			repU.Evaluations++
			if eU != nil || !equivValues(v, back) {
				repU.violate("C01", "roundtrip-error", fmt.Sprintf("round trip of %v fails: %v (got %v)", t, eU, safeFormat(back)), desc)
			}
			wU.add(fmt.Sprintf("UnmarshalCase %s %s %s %s %s %s %s", coqOpts(false, false, false), reg, tyS, "(zero "+tyS+")", coqTokens(ts), floatTable(ts), uobs(back, eU)), "roundtrip: "+desc, true)
			// containers holding it
			holders := []reflect.Value{}
			p := reflect.New(t)
			p.Elem().Set(v)
			holders = append(holders, p)
			sl := reflect.MakeSlice(reflect.SliceOf(t), 0, 2)
			sl = reflect.Append(sl, v, v)
			holders = append(holders, sl)
			if v.Kind() != reflect.Float32 && v.Kind() != reflect.Float64 {
				m := reflect.MakeMap(reflect.MapOf(t, t))
				m.SetMapIndex(v, v)
				holders = append(holders, m)
			}
			st := reflect.New(reflect.StructOf([]reflect.StructField{{Name: "A", Type: t}, {Name: "B", Type: reflect.PtrTo(t)}})).Elem()
			st.Field(0).Set(v)
			st.Field(1).Set(p)
			holders = append(holders, st)
			for _, h := range holders {
				hts, he := marshalTokens(h.Interface(), nil)
				repM.Evaluations++
				hdesc := fmt.Sprintf("%s held in %v", desc, h.Type())
				if he != nil {
					repM.violate("C01", "marshal-error", fmt.Sprintf("%v", he), hdesc)
					continue
				}
				wM.add(fmt.Sprintf("MarshalCase %s %s %s %s", coqOpts(false, false, false), coqTy(h.Type()), coqGval(h), mobs(hts, he)), hdesc, true)
				hb, hbe := unmarshalInto(h.Type(), hts, nil)
				repU.Evaluations++
				if hbe != nil || !equivValues(h, hb) {
					repU.violate("C01", "roundtrip-error", fmt.Sprintf("round trip fails: %v", hbe), hdesc)
				}
			}
		}
	}
}

func underlyingScalar(t reflect.Type) reflect.Type {
	for _, s := range scalarTypes {
		if s.Kind() == t.Kind() {
			return s
		}
	}
	return t
}

// ---- a type bridged through Text marshalling ----
type TextLabel struct {
	S string
	N int
}

func (l TextLabel) MarshalText() ([]byte, error) {
	return []byte(fmt.Sprintf("label:%d:%s", l.N, l.S)), nil
}
func (l *TextLabel) UnmarshalText(bs []byte) error {
	s := string(bs)
	if !strings.HasPrefix(s, "label:") {
		return fmt.Errorf("verif: not a label")
	}
	s = s[len("label:"):]
	i := strings.IndexByte(s, ':')
	if i < 0 {
		return fmt.Errorf("verif: not a label")
	}
	if _, err := fmt.Sscanf(s[:i], "%d", &l.N); err != nil {
		return err
	}
	l.S = s[i+1:]
	return nil
}

// a named string type with Text hooks (a scalar-kinded hook type, usable as a map key)
type TextKey string

func (k TextKey) MarshalText() ([]byte, error) { return []byte("k:" + string(k)), nil }
func (k *TextKey) UnmarshalText(bs []byte) error {
	if !bytes.HasPrefix(bs, []byte("k:")) {
		return fmt.Errorf("verif: not a key")
	}
	*k = TextKey(bs[2:])
	return nil
}

func apiTextHooks(repM, repU *Report) {
	type holder struct {
		L  TextLabel
		P  *TextLabel
		PN *TextLabel
		S  []TextLabel
		M  map[string]TextLabel
		K  map[TextKey]int
		A  [2]TextLabel
		PP **TextLabel
	}
	p := &TextLabel{"ptr", 2}
	v := holder{L: TextLabel{"x y", 1}, P: p, S: []TextLabel{{"", 0}, {"s\xff", -3}}, M: map[string]TextLabel{"m": {"mv", 4}},
		K: map[TextKey]int{"b": 2, "a": 1, "": 0}, A: [2]TextLabel{{"a0", 5}, {"a1", 6}}, PP: &p}
	ts, err := marshalTokens(v, nil)
	repM.Evaluations++
	repM.count("api:text-hooks")
	desc := "a type bridged through MarshalText/UnmarshalText at every position"
	if err != nil {
		repM.violate("C01", "marshal-error", fmt.Sprintf("%v", err), desc)
		return
	}
	// the bridged value is ONE string token carrying the text
	direct, _ := marshalTokens(TextLabel{"x y", 1}, nil)
	if len(direct) != 1 || direct[0].Kind != sb.KindString || direct[0].Value != "label:1:x y" {
		repM.violate("C08", "text-bridge", fmt.Sprintf("a TextMarshaler value marshals to [%s], expected one string token with its text", descTokens(direct)), desc)
		repM.violate("C01", "text-bridge", fmt.Sprintf("a TextMarshaler value marshals to [%s], expected one string token with its text", descTokens(direct)), desc)
	}
	var back holder
	e := guard(func() error { return copyBudget(tokensFrom(ts), sb.Unmarshal(&back)) })
	repU.Evaluations++
	if e != nil || !reflect.DeepEqual(v, back) {
		repU.violate("C01", "roundtrip-error", fmt.Sprintf("a type with Text hooks does not round-trip: %v, got %+v from [%s]", e, back, truncate(descTokens(ts), 500)), desc)
	}
	// through the byte codec
	enc := runEncode(ts, 0, 0)
	if enc.err == nil {
		var back2 holder
		e2 := guard(func() error { return sb.Copy(sb.Decode(bytes.NewReader(enc.bytes)), sb.Unmarshal(&back2)) })
		if e2 != nil || !reflect.DeepEqual(v, back2) {
			repU.violate("C01", "roundtrip-bytes", fmt.Sprintf("a type with Text hooks does not round-trip through bytes: %v", e2), desc)
		}
	}
	// rejections (C05): a wrong kind is a type mismatch against string, a text the hook refuses is an error, the end of the stream is an error
	rej := []struct {
		ts   []sb.Token
		want string
	}{
		{[]sb.Token{tokI(1)}, fmt.Sprintf("(EMismatch %d %d)", sb.KindInt, reflect.String)},
		{[]sb.Token{tokK(sb.KindArray), tokK(sb.KindArrayEnd)}, fmt.Sprintf("(EMismatch %d %d)", sb.KindArray, reflect.String)},
		{[]sb.Token{tokS("not a label")}, "EOther"},
		{[]sb.Token{}, "EMISMATCH-EOF"},
	}
	for _, c := range rej {
		var l TextLabel
		e := guard(func() error { return copyBudget(tokensFrom(c.ts), sb.Unmarshal(&l)) })
		repU.Evaluations++
		got := classOf(e)
		if c.want == "EMISMATCH-EOF" {
			if e == nil || got == "EPanic" {
				repU.violate("C05", "text-hook-accepts", fmt.Sprintf("an empty stream into a TextUnmarshaler target: %s", got), desc)
			}
			continue
		}
		if got != c.want {
			repU.violate("C05", "text-hook-rejection", fmt.Sprintf("[%s] into a TextUnmarshaler target: got %s, expected %s", descTokens(c.ts), got, c.want), desc)
		}
		if e != nil && !isUnmarshalError(e) {
			repU.violate("C05", "text-hook-rejection", fmt.Sprintf("[%s] into a TextUnmarshaler target: the error is not an UnmarshalError: %v", descTokens(c.ts), e), desc)
		}
	}
}

// ---- sb.Ref, sb.Token as Go values and as targets ----
func apiRefAndToken(repM, repU *Report, r *rand.Rand) {
	type holder struct {
		R  sb.Ref
		PR *sb.Ref
		L  []sb.Ref
		T  sb.Token
		N  int
	}
	for i := 0; i < 12; i++ {
		h := payload(r, []int{0, 1, 16, 20, 32, 200}[i%6])
		tok := randScalarToken(r)
		v := holder{R: sb.Ref(h), L: []sb.Ref{sb.Ref(h), sb.Ref("x")}, T: tok, N: i}
		if i%2 == 0 {
			rr := sb.Ref(h)
			v.PR = &rr
		}
		desc := fmt.Sprintf("sb.Ref / sb.Token as values: ref=%x token=%s", h, descToken(tok))
		ts, err := marshalTokens(v, nil)
		repM.Evaluations++
		repM.count("api:ref-token-values")
		if err != nil {
			repM.violate("C01", "marshal-error", fmt.Sprintf("%v", err), desc)
			continue
		}
		// expected stream, written out
		want := []sb.Token{tokK(sb.KindObject), tokS("R"), {Kind: sb.KindRef, Value: []byte(h)}, tokS("PR")}
		if v.PR != nil {
			want = append(want, sb.Token{Kind: sb.KindRef, Value: []byte(h)})
		} else {
			want = append(want, tokK(sb.KindNil))
		}
		want = append(want, tokS("L"), tokK(sb.KindArray), sb.Token{Kind: sb.KindRef, Value: []byte(h)}, sb.Token{Kind: sb.KindRef, Value: []byte("x")}, tokK(sb.KindArrayEnd),
			tokS("T"), tok, tokS("N"), tokI(i), tokK(sb.KindObjectEnd))
		if !tokensExactEq(ts, want) {
			repM.violate("C08", "hook-value-stream", fmt.Sprintf("got [%s], expected [%s]", descTokens(ts), descTokens(want)), desc)
			repM.violate("C01", "hook-value-stream", fmt.Sprintf("got [%s], expected [%s]", descTokens(ts), descTokens(want)), desc)
		}
		var back holder
		e := guard(func() error { return copyBudget(tokensFrom(ts), sb.Unmarshal(&back)) })
		repU.Evaluations++
		ok := e == nil && bytes.Equal(back.R, v.R) && len(back.L) == 2 && bytes.Equal(back.L[0], v.L[0]) && bytes.Equal(back.L[1], v.L[1]) &&
			tokenExactEq(back.T, v.T) && back.N == v.N && (back.PR == nil) == (v.PR == nil) && (v.PR == nil || bytes.Equal(*back.PR, *v.PR))
		if !ok {
			repU.violate("C01", "roundtrip-error", fmt.Sprintf("sb.Ref / sb.Token values do not round-trip: %v, got %+v", e, back), desc)
		}
	}
	// a *Ref target accepts exactly a Ref token
	for _, tk := range []sb.Token{tokI(1), tokS("x"), {Kind: sb.KindBytes, Value: []byte("ab")}, tokK(sb.KindNil), tokK(sb.KindArray)} {
		var ref sb.Ref
		e := guard(func() error { return copyBudget(tokensFrom([]sb.Token{tk, tokK(sb.KindArrayEnd)}), sb.Unmarshal(&ref)) })
		repU.Evaluations++
		want := fmt.Sprintf("(EMismatch %d %d)", tk.Kind, reflect.Slice)
		if classOf(e) != want {
			repU.violate("C05", "ref-target-rejection", fmt.Sprintf("[%s] into *sb.Ref: got %s (%v), expected %s", descToken(tk), classOf(e), e, want), "*sb.Ref target")
		}
	}
	{
		var ref sb.Ref
		e := guard(func() error { return copyBudget(tokensFrom(nil), sb.Unmarshal(&ref)) })
		if e == nil || classOf(e) != "EEnd" {
			repU.violate("C05", "ref-target-rejection", fmt.Sprintf("an empty stream into *sb.Ref: %s", classOf(e)), "*sb.Ref target")
		}
	}
}

func randScalarToken(r *rand.Rand) sb.Token {
	for {
		t := randToken(r)
		switch t.Kind {
		case sb.KindArray, sb.KindArrayEnd, sb.KindObject, sb.KindObjectEnd, sb.KindMap, sb.KindMapEnd, sb.KindTuple, sb.KindTupleEnd, sb.KindTypeName, sb.KindInvalid, sb.KindLiteral: // a literal is converted according to the target before any hook sees it
			continue
		}
		return t
	}
}

// ---- sb.Tuple, sb.TypedTuple, TupleTypes, sinks as tuple members ----
func simpleAny(r *rand.Rand, depth int) any {
	switch r.Intn(11) {
	case 0:
		return nil
	case 1:
		return r.Intn(2) == 0
	case 2:
		return int(randI64(r))
	case 3:
		return string(payload(r, r.Intn(6)))
	case 4:
		return float64(r.Intn(1000)) / 8
	case 5:
		return payload(r, 1+r.Intn(5))
	case 6:
		if depth > 0 {
			n := r.Intn(3)
			l := make([]any, 0, n)
			for i := 0; i < n; i++ {
				l = append(l, simpleAny(r, depth-1))
			}
			return l
		}
		return uint8(r.Intn(256))
	case 7:
		if depth > 0 {
			m := map[any]any{}
			for i := 0; i < r.Intn(3); i++ {
				m[fmt.Sprintf("k%d", i)] = simpleAny(r, depth-1)
			}
			return m
		}
		return int64(randI64(r))
	case 8:
		return uint32(r.Uint32())
	case 9:
		return int8(r.Intn(256) - 128)
	default:
		return uint64(randU64(r))
	}
}

func apiTuples(repM, repU *Report, r *rand.Rand, n int) {
	for i := 0; i < n; i++ {
		k := r.Intn(5)
		if i%17 == 0 {
			k = 50 + r.Intn(5) // sb.Tuple has no item limit (the 50-item limit belongs to func targets)
		}
		tup := make(sb.Tuple, 0, k)
		var want []sb.Token
		want = append(want, tokK(sb.KindTuple))
		var parts [][]sb.Token
		for j := 0; j < k; j++ {
			x := simpleAny(r, 2)
			tup = append(tup, x)
			xs, e := marshalTokens(x, nil)
			if e != nil {
				xs = nil
			}
			parts = append(parts, xs)
			want = append(want, xs...)
		}
		want = append(want, tokK(sb.KindTupleEnd))
		desc := fmt.Sprintf("sb.Tuple of %d items: [%s]", k, truncate(descTokens(want), 300))
		ts, err := marshalTokens(tup, nil)
		repM.Evaluations++
		repM.count("api:tuple")
		if err != nil || !tokensExactEq(ts, want) {
			repM.violate("C08", "tuple-stream", fmt.Sprintf("Marshal(sb.Tuple) = [%s] (%v), expected the items' streams between Tuple and TupleEnd", truncate(descTokens(ts), 300), err), desc)
			repM.violate("C01", "tuple-stream", fmt.Sprintf("Marshal(sb.Tuple) = [%s] (%v), expected the items' streams between Tuple and TupleEnd", truncate(descTokens(ts), 300), err), desc)
			continue
		}
		// (1) into an empty *sb.Tuple: schema-less items, re-marshalling gives the same stream
		var back sb.Tuple
		e := guard(func() error { return copyBudget(tokensFrom(ts), sb.Unmarshal(&back)) })
		repU.Evaluations++
		if e != nil || len(back) != k {
			repU.violate("C01", "roundtrip-error", fmt.Sprintf("sb.Tuple does not round-trip: %v, %d items back", e, len(back)), desc)
			repU.violate("C11", "any-not-lossless", fmt.Sprintf("sb.Tuple does not round-trip: %v, %d items back", e, len(back)), desc)
		} else {
			ts2, e2 := marshalTokens(back, nil)
			if e2 != nil || !tokensExactEq(ts, ts2) {
				repU.violate("C01", "roundtrip-not-equivalent", fmt.Sprintf("sb.Tuple re-marshals to [%s]", truncate(descTokens(ts2), 300)), desc)
				repU.violate("C11", "any-not-lossless", fmt.Sprintf("sb.Tuple re-marshals to [%s]", truncate(descTokens(ts2), 300)), desc)
			}
		}
		// (2) typed: TypedTuple with the items' own types gives the items back
		types := make([]reflect.Type, k)
		typed := true
		for j, x := range tup {
			if x == nil {
				types[j] = anyType
			} else {
				types[j] = reflect.TypeOf(x)
			}
			if types[j].Kind() == reflect.Map || (types[j].Kind() == reflect.Slice && types[j] != bytesTy) {
				types[j] = anyType
			}
		}
		tt := sb.TypedTuple{Types: types}
		e = guard(func() error { return copyBudget(tokensFrom(ts), sb.Unmarshal(&tt)) })
		repU.Evaluations++
		if e != nil || len(tt.Values) != k {
			repU.violate("C01", "roundtrip-error", fmt.Sprintf("sb.TypedTuple with the items' types does not accept the tuple's stream: %v (%d values)", e, len(tt.Values)), desc)
			typed = false
		}
		if typed {
			for j := range tup {
				a, _ := marshalTokens(tup[j], nil)
				b, eb := marshalTokens(tt.Values[j], nil)
				if eb != nil || !tokensExactEq(a, b) || (types[j] != anyType && reflect.TypeOf(tt.Values[j]) != types[j]) {
					repU.violate("C01", "roundtrip-not-equivalent", fmt.Sprintf("item %d of the typed tuple is %T %v, expected %T %v", j, tt.Values[j], tt.Values[j], tup[j], tup[j]), desc)
					break
				}
			}
		}
		// (3) too few / too many types
		if k > 0 {
			few := sb.TypedTuple{Types: types[:k-1]}
			e = guard(func() error { return copyBudget(tokensFrom(ts), sb.Unmarshal(&few)) })
			if classOf(e) != "ETooMany" {
				repU.violate("C05", "typed-tuple-arity", fmt.Sprintf("%d items into %d types: %s (%v), expected TooManyElement", k, k-1, classOf(e), e), desc)
			}
		}
		more := sb.TypedTuple{Types: append(append([]reflect.Type{}, types...), reflect.TypeOf(0))}
		e = guard(func() error { return copyBudget(tokensFrom(ts), sb.Unmarshal(&more)) })
		repU.Evaluations += 2
		if classOf(e) != "ETooFew" {
			repU.violate("C05", "typed-tuple-arity", fmt.Sprintf("%d items into %d types: %s (%v), expected TooFewElement", k, k+1, classOf(e), e), desc)
		}
		// (4) pre-filled targets: each present item fixes the type its position is decoded into; sinks collect their item's tokens
		if k >= 2 && k < 10 {
			pre := make(sb.Tuple, k)
			var got0, got1 sb.Tokens
			pre[0] = sb.CollectValueTokens(&got0)
			pre[k-1] = sb.CollectValueTokens(&got1)
			for j := 1; j < k-1; j++ {
				if tup[j] != nil && types[j] != anyType {
					pre[j] = reflect.Zero(types[j]).Interface()
				}
			}
			e = guard(func() error { return copyBudget(tokensFrom(ts), sb.Unmarshal(&pre)) })
			repU.Evaluations++
			if e != nil || !tokensExactEq(got0, parts[0]) || !tokensExactEq(got1, parts[k-1]) {
				repU.violate("C01", "tuple-sink-member", fmt.Sprintf("sinks placed in a tuple target received [%s] and [%s] (%v), expected the first and last item's tokens", descTokens(got0), descTokens(got1), e), desc)
				repU.violate("C14", "tuple-sink-member", fmt.Sprintf("sinks placed in a tuple target received [%s] and [%s] (%v), expected the first and last item's tokens", descTokens(got0), descTokens(got1), e), desc)
			} else {
				for j := 1; j < k-1; j++ {
					a, _ := marshalTokens(tup[j], nil)
					b, eb := marshalTokens(pre[j], nil)
					if eb != nil || !tokensExactEq(a, b) || (tup[j] != nil && types[j] != anyType && reflect.TypeOf(pre[j]) != types[j]) {
						repU.violate("C01", "roundtrip-not-equivalent", fmt.Sprintf("item %d of the pre-filled tuple is %T %v, expected %T %v", j, pre[j], pre[j], tup[j], tup[j]), desc)
						break
					}
				}
			}
		}
	}
	// TupleTypes: parameter types of a func, field types of a struct
	t1 := sb.TupleTypes(func(int, string, []byte, map[string]int) {})
	t2 := sb.TupleTypes(struct {
		A int
		B string
		C []byte
		D map[string]int
	}{})
	wantT := []reflect.Type{reflect.TypeOf(0), reflect.TypeOf(""), bytesTy, reflect.TypeOf(map[string]int(nil))}
	if !reflect.DeepEqual(t1, wantT) || !reflect.DeepEqual(t2, wantT) {
		repU.violate("C01", "tuple-types", fmt.Sprintf("TupleTypes gives %v and %v, expected %v", t1, t2, wantT), "sb.TupleTypes")
	}
	// rejections of a *Tuple / *TypedTuple target
	for _, tk := range []sb.Token{tokI(1), tokK(sb.KindArray), tokK(sb.KindNil), tokS("x")} {
		var t sb.Tuple
		e := guard(func() error { return copyBudget(tokensFrom([]sb.Token{tk, tokK(sb.KindArrayEnd)}), sb.Unmarshal(&t)) })
		want := fmt.Sprintf("(EMismatch %d %d)", tk.Kind, reflect.Func)
		tt := sb.TypedTuple{Types: []reflect.Type{reflect.TypeOf(0)}}
		e2 := guard(func() error { return copyBudget(tokensFrom([]sb.Token{tk, tokK(sb.KindArrayEnd)}), sb.Unmarshal(&tt)) })
		repU.Evaluations += 2
		if classOf(e) != want || classOf(e2) != want {
			repU.violate("C05", "tuple-target-rejection", fmt.Sprintf("[%s] into *sb.Tuple: %s, into *sb.TypedTuple: %s, expected %s", descToken(tk), classOf(e), classOf(e2), want), "*sb.Tuple target")
		}
	}
	for _, ts := range [][]sb.Token{{}, {tokK(sb.KindTuple)}, {tokK(sb.KindTuple), tokI(1)}, {tokK(sb.KindTuple), tokK(sb.KindArray), tokI(1)}} {
		var t sb.Tuple
		e := guard(func() error { return copyBudget(tokensFrom(ts), sb.Unmarshal(&t)) })
		tt := sb.TypedTuple{Types: []reflect.Type{reflect.TypeOf(0), reflect.TypeOf(0)}}
		e2 := guard(func() error { return copyBudget(tokensFrom(ts), sb.Unmarshal(&tt)) })
		repU.Evaluations += 2
		if classOf(e) != "EEnd" || (classOf(e2) != "EEnd" && len(ts) < 3) || e2 == nil {
			repU.violate("C05", "truncated-accepted", fmt.Sprintf("the truncated stream [%s] into *sb.Tuple: %s, into *sb.TypedTuple: %s", descTokens(ts), classOf(e), classOf(e2)), "*sb.Tuple target")
		}
	}
}

// ---- Must* wrappers and the buffer variants agree with the functions they wrap ----
func mustAgree(f func()) (panicked bool) {
	defer func() {
		if recover() != nil {
			panicked = true
		}
	}()
	f()
	return false
}

func apiMustCompare(rep *Report, a, b []sb.Token, ea, eb []byte) {
	rep.count("api:must-wrappers")
	res, err := cmpTokensImpl(a, b)
	var got int
	p := mustAgree(func() { got = sb.MustCompare(tokensFrom(a), tokensFrom(b)) })
	if (err != nil) != p || (err == nil && got != res) {
		rep.violate("C07", "must-wrapper-differs", fmt.Sprintf("MustCompare: %d panicked=%v, Compare: %d %v", got, p, res, err), fmt.Sprintf("a=[%s] b=[%s]", truncate(descTokens(a), 200), truncate(descTokens(b), 200)))
		rep.violate("C06", "must-wrapper-differs", fmt.Sprintf("MustCompare: %d panicked=%v, Compare: %d %v", got, p, res, err), fmt.Sprintf("a=[%s] b=[%s]", truncate(descTokens(a), 200), truncate(descTokens(b), 200)))
	}
	if ea != nil && eb != nil {
		res2, err2 := cmpBytesImpl(ea, eb)
		p2 := mustAgree(func() { got = sb.MustCompareBytes(ea, eb) })
		if (err2 != nil) != p2 || (err2 == nil && got != res2) {
			rep.violate("C07", "must-wrapper-differs", fmt.Sprintf("MustCompareBytes: %d panicked=%v, CompareBytes: %d %v", got, p2, res2, err2), fmt.Sprintf("a=%x b=%x", ea, eb))
		}
	}
	rep.Evaluations += 2
}

// DecodeBufferForCompare with every scratch buffer yields the tokens of DecodeForCompare
func apiDecodeBufferForCompare(rep *Report, data []byte, desc string) {
	ref, refErr := collect(sb.DecodeForCompare(bytes.NewReader(data)))
	for _, buf := range scratchBuffers() {
		if len(buf) < 8 {
			continue
		}
		rd := bytes.NewReader(data)
		var got []sb.Token
		var err error
		e := guard(func() error {
			p := sb.DecodeBufferForCompare(rd, rd, buf, nil)
			got, err = collect(&p)
			return nil
		})
		rep.Evaluations++
		rep.count("api:decode-buffer-for-compare")
		if e != nil || classOf(err) != classOf(refErr) || !tokensExactEq(got, ref) {
			rep.violate("C07", "scratch-buffer-dependent", fmt.Sprintf("DecodeBufferForCompare with a caller buffer of %d bytes gives %d tokens (%v / %v), DecodeForCompare %d tokens (%v)", len(buf), len(got), err, e, len(ref), refErr), desc)
			rep.violate("C04", "scratch-buffer-dependent", fmt.Sprintf("DecodeBufferForCompare with a caller buffer of %d bytes gives %d tokens (%v / %v), DecodeForCompare %d tokens (%v)", len(buf), len(got), err, e, len(ref), refErr), desc)
			return
		}
	}
}

func typedAPI(repM, repU *Report, wM, wU *CaseWriter, r *rand.Rand, thorough bool) {
	apiNamedScalars(repM, repU, wM, wU)
	apiTextHooks(repM, repU)
	apiRefAndToken(repM, repU, r)
	n := 60
	if thorough {
		n = 1500
	}
	apiTuples(repM, repU, r, n)
	apiFuncTargets(repM, repU, r)
}

// ---- a func WITH parameters as an unmarshal target is called with the tuple's items ----
func apiFuncTargets(repM, repU *Report, r *rand.Rand) {
	for i := 0; i < 20; i++ {
		a, s, bs, l := int(randI64(r)), string(payload(r, r.Intn(5))), payload(r, r.Intn(4)), []int{r.Intn(9), r.Intn(9)}
		ts, err := marshalTokens(sb.Tuple{a, s, bs, l}, nil)
		if err != nil {
			continue
		}
		desc := fmt.Sprintf("tuple stream into a func(int, string, []byte, []int) target: [%s]", truncate(descTokens(ts), 200))
		calls := 0
		var ga int
		var gs string
		var gb []byte
		var gl []int
		fn := func(x int, y string, z []byte, w []int) { calls++; ga, gs, gb, gl = x, y, z, w }
		e := guard(func() error { return copyBudget(tokensFrom(ts), sb.Unmarshal(fn)) })
		repU.Evaluations++
		repU.count("api:func-call-target")
		if e != nil || calls != 1 || ga != a || gs != s || !bytes.Equal(gb, bs) || !reflect.DeepEqual(gl, l) {
			repU.violate("C01", "func-call-target", fmt.Sprintf("the func was called %d times with (%v,%q,%x,%v), error %v; expected one call with (%v,%q,%x,%v)", calls, ga, gs, gb, gl, e, a, s, bs, l), desc)
		}
		// an error returned by the func is the error of the run
		fe := func(x int, y string, z []byte, w []int) error { return errInjected }
		e = guard(func() error { return copyBudget(tokensFrom(ts), sb.Unmarshal(fe)) })
		if classOf(e) != "EFault" || !isUnmarshalError(e) {
			repU.violate("C15", "fault-cause-lost", fmt.Sprintf("a func target returning an error: the run reports %v", e), desc)
			repU.violate("C05", "func-call-target", fmt.Sprintf("a func target returning an error: the run reports %v", e), desc)
		}
		// arity and type mismatches are rejected, and the func is not called
		calls = 0
		f3 := func(x int, y string, z []byte) { calls++ }
		e = guard(func() error { return copyBudget(tokensFrom(ts), sb.Unmarshal(f3)) })
		f5 := func(x int, y string, z []byte, w []int, v int) { calls++ }
		e5 := guard(func() error { return copyBudget(tokensFrom(ts), sb.Unmarshal(f5)) })
		fw := func(x int, y int, z []byte, w []int) { calls++ }
		ew := guard(func() error { return copyBudget(tokensFrom(ts), sb.Unmarshal(fw)) })
		repU.Evaluations += 4
		if e == nil || e5 == nil || ew == nil || calls != 0 || classOf(e5) != "ETooFew" || classOf(ew) != fmt.Sprintf("(EMismatch %d %d)", sb.KindString, reflect.Int) {
			repU.violate("C05", "func-call-target", fmt.Sprintf("4 items into 3 parameters: %s; into 5 parameters: %s; a string into an int parameter: %s; calls=%d", classOf(e), classOf(e5), classOf(ew), calls), desc)
		}
		// variadic: the fixed parameters are typed, the rest arrive as they are
		var rest []any
		fv := func(x int, more ...any) { calls++; ga = x; rest = more }
		calls = 0
		e = guard(func() error { return copyBudget(tokensFrom(ts), sb.Unmarshal(fv)) })
		if e != nil || calls != 1 || ga != a || len(rest) != 3 || rest[0] != any(s) {
			repU.violate("C01", "func-call-target", fmt.Sprintf("a variadic func target: error %v, calls=%d, x=%v rest=%v", e, calls, ga, rest), desc)
		}
	}
	// a func with parameters is not a tuple: marshalling it is a BadTupleType error
	_, err := marshalTokens(func(int) int { return 0 }, nil)
	repM.Evaluations++
	if classOf(err) != "EBadTuple" {
		repM.violate("C08", "func-with-parameters", fmt.Sprintf("Marshal(func(int) int) = %v, expected a BadTupleType error", err), "func(int) int")
		repM.violate("C18", "func-with-parameters", fmt.Sprintf("Marshal(func(int) int) = %v, expected a BadTupleType error", err), "func(int) int")
	}
}

// ---- a stream that fails part-way through Compare: the fault is the result, on either side ----
// a stream yielding ts[:at] and then failing
func faultyAt(ts []sb.Token, at int) sb.Stream {
	i := 0
	var p sb.Proc
	p = func(t *sb.Token) (sb.Proc, error) {
		if i == at {
			return nil, errInjected
		}
		if i >= len(ts) {
			return nil, nil
		}
		*t = ts[i]
		i++
		return p, nil
	}
	return &p
}

func apiCompareFaults(rep *Report, r *rand.Rand, n int) {
	for i := 0; i < n; i++ {
		a := randTokens(r, 6)
		if hasNaNPayload(a) {
			continue // a float token with a NaN payload is not equal to itself (the domain edge of C06)
		}
		b := append([]sb.Token{}, a...)
		if r.Intn(2) == 0 && len(b) > 0 {
			b = append(b, randToken(r))
		}
		at := r.Intn(len(a) + 1)
		desc := fmt.Sprintf("Compare with a stream failing at token %d: a=[%s] b=[%s]", at, truncate(descTokens(a), 200), truncate(descTokens(b), 200))
		for side := 0; side < 2; side++ {
			var s1, s2 sb.Stream = tokensFrom(a), tokensFrom(b)
			if side == 0 {
				s1 = faultyAt(a, at)
			} else {
				s2 = faultyAt(a, at)
				s1 = tokensFrom(b)
			}
			var res int
			var err error
			e := guard(func() error { res, err = sb.Compare(s1, s2); return nil })
			rep.Evaluations++
			rep.count("api:compare-fault")
			// the common prefix a[:at] is equal on both sides, so the fault is reached before any difference
			if e != nil || classOf(err) != "EFault" {
				rep.violate("C15", "stream-fault-lost", fmt.Sprintf("Compare returned %d, %v (%v): the fault of the %s stream is not reported", res, err, e, []string{"first", "second"}[side]), desc)
			}
		}
	}
}
